(* Fun syntax: mirrors /repo/lang/fun/src/syntax (structs/enums, fields in declaration order).
   One family of types serves both the PARSED program (fun::syntax::program::Program, result of
   fun::parser::parse_module: annotation fields `ty`/`ret_ty`/`chi` are None, clause contexts are
   empty, declarations may have type parameters) and the CHECKED program (CheckedProgram, result of
   Program::check(): annotations are Some, clause contexts filled, data/codata declarations are the
   monomorphic instances) - exactly as the Rust code shares the types (Option-typed fields).

   Source spans (miette SourceSpan / Option<SourceSpan>, always the first field where present) are
   NOT stored; the readers skip them.  Rust's PartialEq on these types ignores spans as well.
   See Lang/README.md for the constructor-by-constructor correspondence.

   Naming: types f…; constructors F…. *)
From Coq Require Import List ZArith NArith String Bool.
From SCC Require Import Base.Sexp Lang.SynUtil.
Import ListNotations.
Open Scope string_scope.

(* names.rs: Var = Covar = Name = String (no ids in Fun) *)
Definition fname := string.

(* context.rs *)
Inductive fchi := FPrd | FCns.
(* types.rs: Ty::I64 { span } | Ty::Decl { span, name, type_args: TypeArgs { span, args } } *)
Inductive fty := FI64 | FDecl (n : fname) (targs : list fty).
Record fbinding := mkfb { fbvar : fname; fbchi : fchi; fbty : fty }.   (* ContextBinding { var, chi, ty } *)
Definition fctx := list fbinding.          (* TypingContext { span, bindings } *)
Definition fnamectx := list fname.         (* NameContext { span, bindings } and TypeContext { span, bindings } *)

(* declarations/mod.rs *)
Inductive fpol := FData | FCodata.
(* terms/op.rs, terms/ifc.rs *)
Inductive fbinop := FDiv | FProd | FRem | FSum | FSub.
Inductive fifsort := FEq | FNe | FLt | FLe | FGt | FGe.

(* terms/*.rs; Arguments { entries } is a list of terms *)
Inductive fterm :=
| FVar (v : fname) (ty : option fty) (chi : option fchi)                      (* XVar { span, var, ty, chi } *)
| FLit (n : Z)                                                                (* Lit { span, lit } *)
| FOp (a : fterm) (o : fbinop) (b : fterm)                                    (* Op { span, fst, op, snd } *)
| FIfC (s : fifsort) (a : fterm) (b : option fterm) (thenc elsec : fterm) (ty : option fty)
                                                                              (* IfC { span, sort, fst, snd, thenc, elsec, ty } *)
| FPrint (nl : bool) (a : fterm) (next : fterm) (ty : option fty)             (* PrintI64 { span, newline, arg, next, ty } *)
| FLet (v : fname) (vty : fty) (bound : fterm) (body : fterm) (ty : option fty)
                                                                              (* Let { span, variable, var_ty, bound_term, in_term, ty } *)
| FCall (f : fname) (args : list fterm) (ret : option fty)                    (* Call { span, name, args, ret_ty } *)
| FCtor (x : fname) (args : list fterm) (ty : option fty)                     (* Constructor { span, id, args, ty } *)
| FDtor (scrut : fterm) (x : fname) (targs : list fty) (args : list fterm) (ty : option fty)
                                                                              (* Destructor { span, scrutinee, id, type_args, args, ty } *)
| FCase (scrut : fterm) (targs : list fty) (cls : list fclause) (ty : option fty)
                                                                              (* Case { span, scrutinee, type_args, clauses, ty } *)
| FNew (cls : list fclause) (ty : option fty)                                 (* New { span, clauses, ty } *)
| FLabel (l : fname) (t : fterm) (ty : option fty)                            (* Label { span, label, term, ty } *)
| FGoto (l : fname) (t : fterm) (ty : option fty)                             (* Goto { span, target, term, ty } *)
| FExit (a : fterm) (ty : option fty)                                         (* Exit { span, arg, ty } *)
| FParen (t : fterm)                                                          (* Paren { span, inner } *)
with fclause :=
| FClause (p : fpol) (x : fname) (names : fnamectx) (ctx : fctx) (body : fterm).
                                                                              (* Clause { span, pol, xtor, context_names, context, body } *)

(* declarations *)
Record fctorsig := mkfctor { fctname : fname; fctargs : fctx }.                     (* CtorSig { span, name, args } *)
Record fdtorsig := mkfdtor { fdtname : fname; fdtargs : fctx; fdtcont : fty }.      (* DtorSig { span, name, args, cont_ty } *)
Record fdata := mkfdata { fdaname : fname; fdaparams : fnamectx; fdactors : list fctorsig }.   (* Data { span, name, type_params, ctors } *)
Record fcodata := mkfcodata { fcoaname : fname; fcoparams : fnamectx; fcodtors : list fdtorsig }. (* Codata { span, name, type_params, dtors } *)
Record fdef := mkfdef { fdname : fname; fdctx : fctx; fdret : fty; fdbody : fterm }.  (* Def { span, name, context, ret_ty, body } *)
Inductive fdecl := FDData (d : fdata) | FDCodata (c : fcodata) | FDDef (d : fdef).  (* enum Declaration *)
Record fprog := mkfprog { fpdecls : list fdecl }.                                   (* Program { declarations } *)
Record fcprog := mkfcprog { fcpdata : list fdata; fcpcodata : list fcodata; fcpdefs : list fdef }.
                                                                              (* CheckedProgram { data_types, codata_types, defs } *)

(* ---------- equality (names, types, bindings, contexts); agrees with Rust's == (spans ignored) ---------- *)
Definition fname_eqb : fname -> fname -> bool := String.eqb.
Definition fchi_eqb (a b : fchi) : bool :=
  match a, b with FPrd, FPrd | FCns, FCns => true | _, _ => false end.
Fixpoint fty_eqb (a b : fty) : bool :=
  match a, b with
  | FI64, FI64 => true
  | FDecl n l, FDecl m k =>
      String.eqb n m &&
      (fix go (l k : list fty) : bool :=
         match l, k with
         | [], [] => true
         | x :: l', y :: k' => fty_eqb x y && go l' k'
         | _, _ => false
         end) l k
  | _, _ => false
  end.
Definition ftys_eqb (a b : list fty) : bool := list_eqb fty_eqb a b.
Definition fbinding_eqb (a b : fbinding) : bool :=
  String.eqb (fbvar a) (fbvar b) && fchi_eqb (fbchi a) (fbchi b) && fty_eqb (fbty a) (fbty b).
Definition fctx_eqb (a b : fctx) : bool := list_eqb fbinding_eqb a b.
Definition fnamectx_eqb (a b : fnamectx) : bool := list_eqb String.eqb a b.
Definition fpol_eqb (a b : fpol) : bool :=
  match a, b with FData, FData | FCodata, FCodata => true | _, _ => false end.
Definition fbinop_eqb (a b : fbinop) : bool :=
  match a, b with
  | FDiv, FDiv | FProd, FProd | FRem, FRem | FSum, FSum | FSub, FSub => true
  | _, _ => false
  end.
Definition fifsort_eqb (a b : fifsort) : bool :=
  match a, b with
  | FEq, FEq | FNe, FNe | FLt, FLt | FLe, FLe | FGt, FGt | FGe, FGe => true
  | _, _ => false
  end.
Definition fvars (c : fctx) : list fname := map fbvar c.

(* ---------- canonical printers: the Debug shape of the Rust values with the span fields removed
   (same constructor names and enum-variant wrapping), so that  s_X (g_X x) = strip_spans x  on
   real data ---------- *)
Definition s_fchi (c : fchi) : sexp := A (match c with FPrd => "Prd" | FCns => "Cns" end).
Fixpoint s_fty (t : fty) : sexp :=
  match t with
  | FI64 => L [A "I64"]
  | FDecl n targs => L [A "Decl"; Q n; L [A "TypeArgs"; L (map s_fty targs)]]
  end.
Definition s_ftyargs (l : list fty) : sexp := L [A "TypeArgs"; L (map s_fty l)].
Definition s_fbinding (b : fbinding) : sexp := L [A "ContextBinding"; Q (fbvar b); s_fchi (fbchi b); s_fty (fbty b)].
Definition s_fctx (c : fctx) : sexp := L [A "TypingContext"; sL s_fbinding c].
Definition s_fnamectx (l : fnamectx) : sexp := L [A "NameContext"; sL sStr l].
Definition s_ftypectx (l : fnamectx) : sexp := L [A "TypeContext"; sL sStr l].
Definition s_fpol (p : fpol) : sexp := A (match p with FData => "Data" | FCodata => "Codata" end).
Definition s_fbinop (o : fbinop) : sexp :=
  A (match o with FDiv => "Div" | FProd => "Prod" | FRem => "Rem" | FSum => "Sum" | FSub => "Sub" end).
Definition s_fifsort (s : fifsort) : sexp :=
  A (match s with FEq => "Equal" | FNe => "NotEqual" | FLt => "Less" | FLe => "LessOrEqual"
                | FGt => "Greater" | FGe => "GreaterOrEqual" end).
Definition s_foty : option fty -> sexp := sOpt s_fty.

Fixpoint s_fterm (t : fterm) : sexp :=
  let s_args := fun (l : list fterm) => L [A "Arguments"; L (map s_fterm l)] in
  match t with
  | FVar v ty chi => L [A "XVar"; L [A "XVar"; Q v; s_foty ty; sOpt s_fchi chi]]
  | FLit n => L [A "Lit"; L [A "Lit"; sZ n]]
  | FOp a o b => L [A "Op"; L [A "Op"; s_fterm a; s_fbinop o; s_fterm b]]
  | FIfC so a b t e ty =>
      L [A "IfC"; L [A "IfC"; s_fifsort so; s_fterm a;
                     match b with Some b' => L [A "Some"; s_fterm b'] | None => A "None" end;
                     s_fterm t; s_fterm e; s_foty ty]]
  | FPrint nl a next ty => L [A "PrintI64"; L [A "PrintI64"; sB nl; s_fterm a; s_fterm next; s_foty ty]]
  | FLet v vty bound body ty => L [A "Let"; L [A "Let"; Q v; s_fty vty; s_fterm bound; s_fterm body; s_foty ty]]
  | FCall f args ret => L [A "Call"; L [A "Call"; Q f; s_args args; s_foty ret]]
  | FCtor x args ty => L [A "Constructor"; L [A "Constructor"; Q x; s_args args; s_foty ty]]
  | FDtor scrut x targs args ty =>
      L [A "Destructor"; L [A "Destructor"; s_fterm scrut; Q x; s_ftyargs targs; s_args args; s_foty ty]]
  | FCase scrut targs cls ty =>
      L [A "Case"; L [A "Case"; s_fterm scrut; s_ftyargs targs; L (map s_fclause cls); s_foty ty]]
  | FNew cls ty => L [A "New"; L [A "New"; L (map s_fclause cls); s_foty ty]]
  | FLabel l t ty => L [A "Label"; L [A "Label"; Q l; s_fterm t; s_foty ty]]
  | FGoto l t ty => L [A "Goto"; L [A "Goto"; Q l; s_fterm t; s_foty ty]]
  | FExit a ty => L [A "Exit"; L [A "Exit"; s_fterm a; s_foty ty]]
  | FParen t => L [A "Paren"; L [A "Paren"; s_fterm t]]
  end
with s_fclause (c : fclause) : sexp :=
  match c with
  | FClause p x names ctx body =>
      L [A "Clause"; s_fpol p; Q x; s_fnamectx names; s_fctx ctx; s_fterm body]
  end.
Definition s_fargs (l : list fterm) : sexp := L [A "Arguments"; L (map s_fterm l)].

Definition s_fctorsig (c : fctorsig) : sexp := L [A "CtorSig"; Q (fctname c); s_fctx (fctargs c)].
Definition s_fdtorsig (d : fdtorsig) : sexp := L [A "DtorSig"; Q (fdtname d); s_fctx (fdtargs d); s_fty (fdtcont d)].
Definition s_fdata (d : fdata) : sexp :=
  L [A "Data"; Q (fdaname d); s_ftypectx (fdaparams d); sL s_fctorsig (fdactors d)].
Definition s_fcodata (d : fcodata) : sexp :=
  L [A "Codata"; Q (fcoaname d); s_ftypectx (fcoparams d); sL s_fdtorsig (fcodtors d)].
Definition s_fdef (d : fdef) : sexp :=
  L [A "Def"; Q (fdname d); s_fctx (fdctx d); s_fty (fdret d); s_fterm (fdbody d)].
Definition s_fdecl (d : fdecl) : sexp :=
  match d with
  | FDData d => L [A "Data"; s_fdata d]
  | FDCodata d => L [A "Codata"; s_fcodata d]
  | FDDef d => L [A "Def"; s_fdef d]
  end.
Definition s_fprog (p : fprog) : sexp := L [A "Program"; sL s_fdecl (fpdecls p)].
Definition s_fcprog (p : fcprog) : sexp :=
  L [A "CheckedProgram"; sL s_fdata (fcpdata p); sL s_fcodata (fcpcodata p); sL s_fdef (fcpdefs p)].

(* whole-term equality: compare the printed forms (= Rust's ==, which ignores spans) *)
Definition fterm_eqb (a b : fterm) : bool := sexp_eqb (s_fterm a) (s_fterm b).
Definition fclause_eqb (a b : fclause) : bool := sexp_eqb (s_fclause a) (s_fclause b).
Definition fdef_eqb (a b : fdef) : bool := sexp_eqb (s_fdef a) (s_fdef b).
Definition fdata_eqb (a b : fdata) : bool := sexp_eqb (s_fdata a) (s_fdata b).
Definition fcodata_eqb (a b : fcodata) : bool := sexp_eqb (s_fcodata a) (s_fcodata b).
Definition fprog_eqb (a b : fprog) : bool := sexp_eqb (s_fprog a) (s_fprog b).
Definition fcprog_eqb (a b : fcprog) : bool := sexp_eqb (s_fcprog a) (s_fcprog b).

(* ---------- readers: Debug shape; `_` in field position = skipped span ---------- *)
Definition g_fchi (x : sexp) : option fchi :=
  match x with A "Prd" => Some FPrd | A "Cns" => Some FCns | _ => None end.
Fixpoint g_fty (x : sexp) : option fty :=
  match x with
  | L [A "I64"; _] => Some FI64
  | L [A "Decl"; _; Q n; L [A "TypeArgs"; _; L args]] =>
      do args <- (fix go (l : list sexp) : option (list fty) :=
                    match l with [] => Some [] | y :: r => do a <- g_fty y; do r' <- go r; Some (a :: r') end) args;
      Some (FDecl n args)
  | _ => None
  end.
Definition g_ftyargs (x : sexp) : option (list fty) :=
  match x with L [A "TypeArgs"; _; args] => getL g_fty args | _ => None end.
Definition g_fbinding (x : sexp) : option fbinding :=
  match x with
  | L [A "ContextBinding"; Q v; c; t] => do c <- g_fchi c; do t <- g_fty t; Some (mkfb v c t)
  | _ => None
  end.
Definition g_fctx (x : sexp) : option fctx :=
  match x with L [A "TypingContext"; _; bs] => getL g_fbinding bs | _ => None end.
Definition g_fnamectx (x : sexp) : option fnamectx :=
  match x with L [A "NameContext"; _; ns] => getL gStr ns | _ => None end.
Definition g_ftypectx (x : sexp) : option fnamectx :=
  match x with L [A "TypeContext"; _; ns] => getL gStr ns | _ => None end.
Definition g_fpol (x : sexp) : option fpol :=
  match x with A "Data" => Some FData | A "Codata" => Some FCodata | _ => None end.
Definition g_fbinop (x : sexp) : option fbinop :=
  match x with
  | A "Div" => Some FDiv | A "Prod" => Some FProd | A "Rem" => Some FRem
  | A "Sum" => Some FSum | A "Sub" => Some FSub | _ => None
  end.
Definition g_fifsort (x : sexp) : option fifsort :=
  match x with
  | A "Equal" => Some FEq | A "NotEqual" => Some FNe | A "Less" => Some FLt
  | A "LessOrEqual" => Some FLe | A "Greater" => Some FGt | A "GreaterOrEqual" => Some FGe | _ => None
  end.
Definition g_foty : sexp -> option (option fty) := gOpt g_fty.

(* (Variant (Struct span f1 .. fn)): variant and struct name are dispatched by String.eqb to keep
   the compiled pattern matching small *)
Fixpoint g_fterm (x : sexp) : option fterm :=
  let g_list := fix go (l : list sexp) : option (list fterm) :=
    match l with [] => Some [] | y :: r => do a <- g_fterm y; do r' <- go r; Some (a :: r') end in
  let g_cls := fix go (l : list sexp) : option (list fclause) :=
    match l with [] => Some [] | y :: r => do a <- g_fclause y; do r' <- go r; Some (a :: r') end in
  match x with
  | L [A v; L (A s :: _ :: fs)] =>
      if negb (String.eqb v s) then None
      else if String.eqb v "XVar" then
        match fs with
        | [Q n; ty; chi] => do ty <- g_foty ty; do chi <- gOpt g_fchi chi; Some (FVar n ty chi)
        | _ => None end
      else if String.eqb v "Lit" then
        match fs with [n] => do n <- getZ n; Some (FLit n) | _ => None end
      else if String.eqb v "Op" then
        match fs with
        | [a; o; b] => do a <- g_fterm a; do o <- g_fbinop o; do b <- g_fterm b; Some (FOp a o b)
        | _ => None end
      else if String.eqb v "IfC" then
        match fs with
        | [so; a; b; t; e; ty] =>
            do so <- g_fifsort so; do a <- g_fterm a;
            do b <- match b with
                    | A "None" => Some None
                    | L [A "Some"; y] => do y <- g_fterm y; Some (Some y)
                    | _ => None end;
            do t <- g_fterm t; do e <- g_fterm e; do ty <- g_foty ty; Some (FIfC so a b t e ty)
        | _ => None end
      else if String.eqb v "PrintI64" then
        match fs with
        | [nl; a; next; ty] =>
            do nl <- getB nl; do a <- g_fterm a; do next <- g_fterm next; do ty <- g_foty ty;
            Some (FPrint nl a next ty)
        | _ => None end
      else if String.eqb v "Let" then
        match fs with
        | [Q n; vty; bound; body; ty] =>
            do vty <- g_fty vty; do bound <- g_fterm bound; do body <- g_fterm body; do ty <- g_foty ty;
            Some (FLet n vty bound body ty)
        | _ => None end
      else if String.eqb v "Call" then
        match fs with
        | [Q n; L [A "Arguments"; L args]; ret] =>
            do args <- g_list args; do ret <- g_foty ret; Some (FCall n args ret)
        | _ => None end
      else if String.eqb v "Constructor" then
        match fs with
        | [Q n; L [A "Arguments"; L args]; ty] =>
            do args <- g_list args; do ty <- g_foty ty; Some (FCtor n args ty)
        | _ => None end
      else if String.eqb v "Destructor" then
        match fs with
        | [scrut; Q n; targs; L [A "Arguments"; L args]; ty] =>
            do scrut <- g_fterm scrut; do targs <- g_ftyargs targs; do args <- g_list args; do ty <- g_foty ty;
            Some (FDtor scrut n targs args ty)
        | _ => None end
      else if String.eqb v "Case" then
        match fs with
        | [scrut; targs; L cls; ty] =>
            do scrut <- g_fterm scrut; do targs <- g_ftyargs targs; do cls <- g_cls cls; do ty <- g_foty ty;
            Some (FCase scrut targs cls ty)
        | _ => None end
      else if String.eqb v "New" then
        match fs with
        | [L cls; ty] => do cls <- g_cls cls; do ty <- g_foty ty; Some (FNew cls ty)
        | _ => None end
      else if String.eqb v "Label" then
        match fs with
        | [Q l; t; ty] => do t <- g_fterm t; do ty <- g_foty ty; Some (FLabel l t ty)
        | _ => None end
      else if String.eqb v "Goto" then
        match fs with
        | [Q l; t; ty] => do t <- g_fterm t; do ty <- g_foty ty; Some (FGoto l t ty)
        | _ => None end
      else if String.eqb v "Exit" then
        match fs with
        | [a; ty] => do a <- g_fterm a; do ty <- g_foty ty; Some (FExit a ty)
        | _ => None end
      else if String.eqb v "Paren" then
        match fs with
        | [t] => do t <- g_fterm t; Some (FParen t)
        | _ => None end
      else None
  | _ => None
  end
with g_fclause (x : sexp) : option fclause :=
  match x with
  | L [A "Clause"; _; p; Q n; names; ctx; body] =>
      do p <- g_fpol p; do names <- g_fnamectx names; do ctx <- g_fctx ctx; do body <- g_fterm body;
      Some (FClause p n names ctx body)
  | _ => None
  end.
Definition g_fargs (x : sexp) : option (list fterm) :=
  match x with L [A "Arguments"; args] => getL g_fterm args | _ => None end.

Definition g_fctorsig (x : sexp) : option fctorsig :=
  match x with
  | L [A "CtorSig"; _; Q n; a] => do a <- g_fctx a; Some (mkfctor n a)
  | _ => None
  end.
Definition g_fdtorsig (x : sexp) : option fdtorsig :=
  match x with
  | L [A "DtorSig"; _; Q n; a; t] => do a <- g_fctx a; do t <- g_fty t; Some (mkfdtor n a t)
  | _ => None
  end.
Definition g_fdata (x : sexp) : option fdata :=
  match x with
  | L [A "Data"; _; Q n; ps; cs] => do ps <- g_ftypectx ps; do cs <- getL g_fctorsig cs; Some (mkfdata n ps cs)
  | _ => None
  end.
Definition g_fcodata (x : sexp) : option fcodata :=
  match x with
  | L [A "Codata"; _; Q n; ps; ds] => do ps <- g_ftypectx ps; do ds <- getL g_fdtorsig ds; Some (mkfcodata n ps ds)
  | _ => None
  end.
Definition g_fdef (x : sexp) : option fdef :=
  match x with
  | L [A "Def"; _; Q n; c; r; b] => do c <- g_fctx c; do r <- g_fty r; do b <- g_fterm b; Some (mkfdef n c r b)
  | _ => None
  end.
Definition g_fdecl (x : sexp) : option fdecl :=
  match x with
  | L [A "Data"; d] => do d <- g_fdata d; Some (FDData d)
  | L [A "Codata"; d] => do d <- g_fcodata d; Some (FDCodata d)
  | L [A "Def"; d] => do d <- g_fdef d; Some (FDDef d)
  | _ => None
  end.
Definition g_fprog (x : sexp) : option fprog :=
  match x with
  | L [A "Program"; ds] => do ds <- getL g_fdecl ds; Some (mkfprog ds)
  | _ => None
  end.
Definition g_fcprog (x : sexp) : option fcprog :=
  match x with
  | L [A "CheckedProgram"; das; cos; ds] =>
      do das <- getL g_fdata das; do cos <- getL g_fcodata cos; do ds <- getL g_fdef ds;
      Some (mkfcprog das cos ds)
  | _ => None
  end.

(* ---------- normal form of a checked program ----------
   Program::check() collects the monomorphic instances of the type declarations by iterating a
   HashMap (symbol_table.types), so the ORDER of data_types / codata_types differs from one run of
   the Rust code to the next.  Instance names are unique; sorting by name gives a canonical form. *)
Definition norm_fcprog (p : fcprog) : fcprog :=
  mkfcprog (sort_by fdaname (fcpdata p)) (sort_by fcoaname (fcpcodata p)) (fcpdefs p).

(* ---------- size: number of term and clause nodes (types, contexts, names count 0); a def counts
   1 + its body; a program is the sum of its defs (type declarations count 0) ---------- *)
Local Open Scope N_scope.
Fixpoint size_fterm (t : fterm) : N :=
  let sz_list := fix go (l : list fterm) : N := match l with [] => 0 | y :: r => size_fterm y + go r end in
  let sz_cls := fix go (l : list fclause) : N := match l with [] => 0 | y :: r => size_fclause y + go r end in
  match t with
  | FVar _ _ _ => 1
  | FLit _ => 1
  | FOp a _ b => 1 + size_fterm a + size_fterm b
  | FIfC _ a b t e _ =>
      1 + size_fterm a + match b with Some b' => size_fterm b' | None => 0 end + size_fterm t + size_fterm e
  | FPrint _ a next _ => 1 + size_fterm a + size_fterm next
  | FLet _ _ bound body _ => 1 + size_fterm bound + size_fterm body
  | FCall _ args _ => 1 + sz_list args
  | FCtor _ args _ => 1 + sz_list args
  | FDtor scrut _ _ args _ => 1 + size_fterm scrut + sz_list args
  | FCase scrut _ cls _ => 1 + size_fterm scrut + sz_cls cls
  | FNew cls _ => 1 + sz_cls cls
  | FLabel _ t _ => 1 + size_fterm t
  | FGoto _ t _ => 1 + size_fterm t
  | FExit a _ => 1 + size_fterm a
  | FParen t => 1 + size_fterm t
  end
with size_fclause (c : fclause) : N :=
  match c with FClause _ _ _ _ body => 1 + size_fterm body end.
Definition fsum_sizes {X} (f : X -> N) (l : list X) : N := fold_left (fun acc x => acc + f x) l 0.
Definition size_fdef (d : fdef) : N := 1 + size_fterm (fdbody d).
Definition size_fdecl (d : fdecl) : N := match d with FDDef d => size_fdef d | _ => 0 end.
Definition size_fprog (p : fprog) : N := fsum_sizes size_fdecl (fpdecls p).
Definition size_fcprog (p : fcprog) : N := fsum_sizes size_fdef (fcpdefs p).
Local Close Scope N_scope.

(* ---------- annotation state ----------
   [annotated_fterm t]: every Option-typed annotation of t is Some (what Program::check() produces);
   [bare_fterm t]: every one is None (what the parser produces). *)
Fixpoint annotated_fterm (t : fterm) : bool :=
  let all := fix go (l : list fterm) : bool := match l with [] => true | y :: r => annotated_fterm y && go r end in
  let allc := fix go (l : list fclause) : bool :=
    match l with [] => true | FClause _ _ _ _ body :: r => annotated_fterm body && go r end in
  match t with
  | FVar _ ty chi => is_some ty && is_some chi
  | FLit _ => true
  | FOp a _ b => annotated_fterm a && annotated_fterm b
  | FIfC _ a b t e ty =>
      annotated_fterm a && match b with Some b' => annotated_fterm b' | None => true end
      && annotated_fterm t && annotated_fterm e && is_some ty
  | FPrint _ a next ty => annotated_fterm a && annotated_fterm next && is_some ty
  | FLet _ _ bound body ty => annotated_fterm bound && annotated_fterm body && is_some ty
  | FCall _ args ret => all args && is_some ret
  | FCtor _ args ty => all args && is_some ty
  | FDtor scrut _ _ args ty => annotated_fterm scrut && all args && is_some ty
  | FCase scrut _ cls ty => annotated_fterm scrut && allc cls && is_some ty
  | FNew cls ty => allc cls && is_some ty
  | FLabel _ t ty => annotated_fterm t && is_some ty
  | FGoto _ t ty => annotated_fterm t && is_some ty
  | FExit a ty => annotated_fterm a && is_some ty
  | FParen t => annotated_fterm t
  end.
Definition annotated_fcprog (p : fcprog) : bool := forallb (fun d => annotated_fterm (fdbody d)) (fcpdefs p).

(* ---------- debugging aid: does some Fun reader accept x? ---------- *)
Definition readable_fun (x : sexp) : bool :=
  is_span x
  || is_some (g_fchi x) || is_some (g_fty x) || is_some (g_ftyargs x) || is_some (g_fbinding x)
  || is_some (g_fctx x) || is_some (g_fnamectx x) || is_some (g_ftypectx x) || is_some (g_fpol x)
  || is_some (g_fbinop x) || is_some (g_fifsort x) || is_some (g_foty x) || is_some (gOpt g_fchi x)
  || is_some (g_fterm x) || is_some (gOpt g_fterm x) || is_some (g_fargs x) || is_some (g_fclause x)
  || is_some (g_fctorsig x) || is_some (g_fdtorsig x) || is_some (g_fdata x) || is_some (g_fcodata x)
  || is_some (g_fdef x) || is_some (g_fdecl x) || is_some (g_fprog x) || is_some (g_fcprog x).
