(* Helpers shared by the syntax files FunSyn.v / CoreSyn.v (readers follow Rust's derived Debug
   output as converted by harness/src/sexp.rs):
   - gOpt / sOpt      Option in Debug shape:  None | (Some x)
   - gStr / sStr      String (quoted atom)
   - sexp_eqb         structural equality of S-expressions
   - strip_spans      generic removal of miette source spans from a Debug-shaped S-expression
   - first_bad        debugging aid: path of the first minimal sub-expression no reader accepts *)
From Coq Require Import List ZArith NArith String Bool.
From SCC Require Import Base.Sexp.
Import ListNotations.
Open Scope string_scope.

Definition gOpt {X} (f : sexp -> option X) (x : sexp) : option (option X) :=
  match x with
  | A "None" => Some None
  | L [A "Some"; y] => do v <- f y; Some (Some v)
  | _ => None
  end.
Definition sOpt {X} (f : X -> sexp) (o : option X) : sexp :=
  match o with Some x => L [A "Some"; f x] | None => A "None" end.
Definition gStr (x : sexp) : option string := getQ x.
Definition sStr (s : string) : sexp := Q s.

Definition option_eqb {X} (e : X -> X -> bool) (a b : option X) : bool :=
  match a, b with Some x, Some y => e x y | None, None => true | _, _ => false end.
Fixpoint list_eqb {X} (e : X -> X -> bool) (a b : list X) : bool :=
  match a, b with
  | [], [] => true
  | x :: a', y :: b' => e x y && list_eqb e a' b'
  | _, _ => false
  end.

(* insertion sort by a string key (stable); used to normalise lists whose order in the Rust value
   comes from iterating a HashMap (type declarations of checked programs and everything after) *)
Fixpoint insert_by {X} (key : X -> string) (x : X) (l : list X) : list X :=
  match l with
  | [] => [x]
  | y :: r => if String.ltb (key x) (key y) then x :: l else y :: insert_by key x r
  end.
Definition sort_by {X} (key : X -> string) (l : list X) : list X :=
  fold_left (fun acc x => insert_by key x acc) l [].

Fixpoint sexp_eqb (a b : sexp) : bool :=
  match a, b with
  | A s, A t => String.eqb s t
  | Q s, Q t => String.eqb s t
  | L l, L m =>
      (fix go (l m : list sexp) : bool :=
         match l, m with
         | [], [] => true
         | x :: l', y :: m' => sexp_eqb x y && go l' m'
         | _, _ => false
         end) l m
  | _, _ => false
  end.

(* number of atoms of an S-expression *)
Fixpoint sexp_atoms (x : sexp) : N :=
  match x with
  | L l => (fix go (l : list sexp) : N := match l with [] => 0 | y :: r => sexp_atoms y + go r end) l
  | _ => 1
  end%N.

(* ---------- source spans ----------
   `SourceSpan { offset: SourceOffset(o), length: n }` is `(SourceSpan (SourceOffset o) n)`.
   Fields of type SourceSpan or Option<SourceSpan> are always the FIRST field of the Fun structs
   that have them.  The Coq ASTs do not store spans.  [strip_spans] removes them from a Debug-shaped
   S-expression, so that  s_X (g_X x) = strip_spans x  can be checked on real data:
   - every list element of the form (SourceSpan ..) or (Some (SourceSpan ..)) is dropped;
   - the atom None in second position of a list headed by one of the struct names whose first field
     is an Option<SourceSpan> is dropped. *)
Definition is_span (x : sexp) : bool :=
  match x with
  | L (A "SourceSpan" :: _) => true
  | L [A "Some"; L (A "SourceSpan" :: _)] => true
  | _ => false
  end.
Definition opt_span_head (t : string) : bool :=
  existsb (String.eqb t)
    ["I64"; "Decl"; "TypeArgs"; "TypingContext"; "NameContext"; "TypeContext";
     "CtorSig"; "DtorSig"; "Data"; "Codata"].

Fixpoint strip_spans (x : sexp) : sexp :=
  match x with
  | L l =>
      let go := fix go (l : list sexp) : list sexp :=
        match l with
        | [] => []
        | y :: r => if is_span y then go r else strip_spans y :: go r
        end in
      match l with
      | A t :: A "None" :: r => if opt_span_head t then L (A t :: go r) else L (go l)
      | _ => L (go l)
      end
  | _ => x
  end.

(* ---------- debugging aid ----------
   [first_bad readable x]: [readable] says whether SOME reader accepts a sub-expression.  The result
   is the path (child indices from the root, 0 = the head atom) and the text of the first (pre-order)
   list sub-expression headed by an atom that no reader accepts although all its own sub-expressions
   are fine - i.e. the place where a reader and the Debug shape disagree. *)
Fixpoint first_bad (readable : sexp -> bool) (x : sexp) : option (list nat * sexp) :=
  if readable x then None
  else match x with
       | L l =>
           let kids := (fix go (i : nat) (l : list sexp) : option (list nat * sexp) :=
             match l with
             | [] => None
             | y :: r =>
                 match first_bad readable y with
                 | Some (p, s) => Some (i :: p, s)
                 | None => go (S i) r
                 end
             end) 0%nat l in
           match kids with
           | Some r => Some r
           | None => match l with A _ :: _ => Some ([], x) | _ => None end
           end
       | _ => None
       end.

Definition is_some {X} (o : option X) : bool := match o with Some _ => true | None => false end.

Fixpoint trunc (n : nat) (s : string) : string :=
  match n, s with
  | O, _ => "..."
  | _, EmptyString => ""
  | S n', String c r => String c (trunc n' r)
  end.
Definition show_path (p : list nat) : string :=
  fold_right (fun i acc => "/" ++ n_to_string (N.of_nat i) ++ acc) "" p.
Definition show_bad (r : option (list nat * sexp)) : string :=
  match r with
  | Some (p, s) => "at " ++ show_path p ++ " : " ++ trunc 300 (show s)
  | None => "no minimal unreadable sub-expression (shape of an untagged list?)"
  end.
