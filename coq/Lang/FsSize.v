(* Weighted size of focused Core for property C19: every node counts 1 PLUS the length of every
   variable list it carries (xtor arguments, call arguments, clause contexts), so that a call with many
   arguments is as big as it is.  Variable-for-variable substitution preserves it. *)
From Coq Require Import List NArith.
From SCC Require Import Lang.CoreSyn Lang.AxSize.
Import ListNotations.
Open Scope N_scope.

Fixpoint fs_wterm (t : fsterm) : N :=
  match t with
  | FsXVar _ _ _ => 1
  | FsLit _ => 1
  | FsOp _ _ _ => 1
  | FsMu _ _ s _ => 1 + fs_wstmt s
  | FsXtor _ _ args _ => 1 + len args
  | FsXCase _ cls _ =>
      1 + (fix go (l : list fsclause) : N := match l with [] => 0 | y :: r => fs_wclause y + go r end) cls
  end
with fs_wclause (c : fsclause) : N :=
  match c with FsClause _ _ cx body => 1 + len cx + fs_wstmt body end
with fs_wstmt (s : fsstmt) : N :=
  match s with
  | FsCut p _ k => 1 + fs_wterm p + fs_wterm k
  | FsIfC _ _ _ t e => 1 + fs_wstmt t + fs_wstmt e
  | FsPrint _ _ next => 1 + fs_wstmt next
  | FsCall _ args => 1 + len args
  | FsExit _ => 1
  end.
Fixpoint fs_wclauses (l : list fsclause) : N := match l with [] => 0 | y :: r => fs_wclause y + fs_wclauses r end.
Definition fs_wdef (d : fsdef) : N := 1 + len (fsdctx d) + fs_wstmt (fsdbody d).
Fixpoint fs_wdefs (ds : list fsdef) : N := match ds with [] => 0 | d :: r => fs_wdef d + fs_wdefs r end.
Definition fs_wprog (p : fsprog) : N := fs_wdefs (fspdefs p).

(* the type declarations: largest number of xtors of a type, largest arity of an xtor *)
Definition max_list (l : list N) : N := fold_right N.max 0 l.
Definition decl_xtors (ds : list ctydecl) : N := max_list (map (fun d => len (ctxtors d)) ds).
Definition decl_arity (ds : list ctydecl) : N :=
  max_list (map (fun d => max_list (map (fun x => len (cxargs x)) (ctxtors d))) ds).
