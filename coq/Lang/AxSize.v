(* Size measures of AxCut programs for property C19 (output size).
   [ax_size]   nodes INCLUDING the lengths of all variable lists (arguments, clause contexts, closure
               environments, rearrangements): this is the measure in which the cost of a `Substitute`
               and of a call with many arguments is visible (the plain node count [ax_nstmts] hides it).
   [ax_nstmts] number of statements (clauses not counted).
   [ax_nbind]  number of binder occurrences (Let/Create/Literal/Op bind one variable, a clause binds
               its context): along any path the context grows by at most this much. *)
From Coq Require Import List NArith.
From SCC Require Import Lang.AxSyn.
Import ListNotations.
Open Scope N_scope.

Definition len {X} (l : list X) : N := N.of_nat (List.length l).

Fixpoint ax_size (s : stmt) : N :=
  let cls := fix go (l : list (ident * ctx * stmt)) : N :=
    match l with [] => 0 | (_, cc, b) :: r => 1 + len cc + ax_size b + go r end in
  match s with
  | Substitute re next => 1 + len re + ax_size next
  | Call _ args => 1 + len args
  | Let _ _ _ args next => 1 + len args + ax_size next
  | Switch _ _ c => 1 + cls c
  | Create _ _ env c next => 1 + match env with Some e => len e | None => 0 end + cls c + ax_size next
  | Invoke _ _ _ args => 1 + len args
  | Literal _ _ next => 1 + ax_size next
  | Op _ _ _ _ next => 1 + ax_size next
  | PrintI64 _ _ next => 1 + ax_size next
  | IfC _ _ _ t e => 1 + ax_size t + ax_size e
  | Exit _ => 1
  end.
Fixpoint ax_size_cls (l : list (ident * ctx * stmt)) : N :=
  match l with [] => 0 | (_, cc, b) :: r => 1 + len cc + ax_size b + ax_size_cls r end.

Fixpoint ax_nstmts (s : stmt) : N :=
  let cls := fix go (l : list (ident * ctx * stmt)) : N :=
    match l with [] => 0 | (_, _, b) :: r => ax_nstmts b + go r end in
  match s with
  | Substitute _ next => 1 + ax_nstmts next
  | Call _ _ | Invoke _ _ _ _ | Exit _ => 1
  | Let _ _ _ _ next | Literal _ _ next | Op _ _ _ _ next | PrintI64 _ _ next => 1 + ax_nstmts next
  | Switch _ _ c => 1 + cls c
  | Create _ _ _ c next => 1 + cls c + ax_nstmts next
  | IfC _ _ _ t e => 1 + ax_nstmts t + ax_nstmts e
  end.
Fixpoint ax_nstmts_cls (l : list (ident * ctx * stmt)) : N :=
  match l with [] => 0 | (_, _, b) :: r => ax_nstmts b + ax_nstmts_cls r end.

Fixpoint ax_nbind (s : stmt) : N :=
  let cls := fix go (l : list (ident * ctx * stmt)) : N :=
    match l with [] => 0 | (_, cc, b) :: r => len cc + ax_nbind b + go r end in
  match s with
  | Substitute _ next => ax_nbind next
  | Call _ _ | Invoke _ _ _ _ | Exit _ => 0
  | Let _ _ _ _ next | Literal _ _ next | Op _ _ _ _ next => 1 + ax_nbind next
  | PrintI64 _ _ next => ax_nbind next
  | Switch _ _ c => cls c
  | Create _ _ _ c next => 1 + cls c + ax_nbind next
  | IfC _ _ _ t e => ax_nbind t + ax_nbind e
  end.
Fixpoint ax_nbind_cls (l : list (ident * ctx * stmt)) : N :=
  match l with [] => 0 | (_, cc, b) :: r => len cc + ax_nbind b + ax_nbind_cls r end.

Definition ax_size_def (d : def) : N := 1 + len (dctx d) + ax_size (dbody d).
Definition ax_width_def (d : def) : N := len (dctx d) + ax_nbind (dbody d).
Fixpoint ax_size_defs (ds : list def) : N := match ds with [] => 0 | d :: r => ax_size_def d + ax_size_defs r end.
Fixpoint ax_nstmts_defs (ds : list def) : N := match ds with [] => 0 | d :: r => ax_nstmts (dbody d) + ax_nstmts_defs r end.
Fixpoint ax_width_defs (ds : list def) : N := match ds with [] => 0 | d :: r => N.max (ax_width_def d) (ax_width_defs r) end.
Definition ax_size_prog (p : prog) : N := ax_size_defs (pdefs p).
Definition ax_nstmts_prog (p : prog) : N := ax_nstmts_defs (pdefs p).
(* the largest number of variables that can be in scope at any point of any definition *)
Definition ax_width_prog (p : prog) : N := ax_width_defs (pdefs p).

(* ================= bounds for the code generator (Proof/SizeCodegen.v) ================= *)
(* cg_bound s n: instructions (in units of the back end's cost constant K) of the code of s generated in
   a context of length n; follows the recursion of Backend.code_statement with the exact context lengths *)
Definition env_len (e : option ctx) : N := match e with Some e => len e | None => 0 end.

Fixpoint cg_bound (s : stmt) (n : N) : N :=
  1 +
  match s with
  | Substitute re next => n + (1 + n + len re) + cg_bound next (len re)
  | Call _ _ => 1
  | Let _ _ _ args next => (1 + len args) + 1 + cg_bound next (n - len args + 1)
  | Switch _ _ cls =>
      4 + len cls +
      (fix go (l : list (ident * ctx * stmt)) : N :=
         match l with [] => 0 | (_, cx, b) :: r => 1 + (1 + len cx) + cg_bound b (n - 1 + len cx) + go r end) cls
  | Create _ _ env cls next =>
      (1 + env_len env) + 1 + cg_bound next (n - env_len env + 1) + 1 + len cls +
      (fix go (l : list (ident * ctx * stmt)) : N :=
         match l with [] => 0 | (_, cx, b) :: r => 1 + (1 + env_len env) + cg_bound b (len cx + env_len env) + go r end) cls
  | Invoke _ _ _ _ => 1
  | Literal _ _ next => 1 + cg_bound next (n + 1)
  | Op _ _ _ _ next => 1 + cg_bound next (n + 1)
  | PrintI64 _ _ next => (1 + n) + cg_bound next n
  | IfC _ _ _ t e => 2 + cg_bound e n + cg_bound t n
  | Exit _ => 2
  end.
Fixpoint cg_bound_sw (n : N) (l : list (ident * ctx * stmt)) : N :=
  match l with [] => 0 | (_, cx, b) :: r => 1 + (1 + len cx) + cg_bound b (n - 1 + len cx) + cg_bound_sw n r end.
Fixpoint cg_bound_cr (e : N) (l : list (ident * ctx * stmt)) : N :=
  match l with [] => 0 | (_, cx, b) :: r => 1 + (1 + e) + cg_bound b (len cx + e) + cg_bound_cr e r end.

(* largest context length met while generating code for s from a context of length n *)
Fixpoint ax_maxw (s : stmt) (n : N) : N :=
  N.max n
  match s with
  | Substitute re next => ax_maxw next (len re)
  | Let _ _ _ args next => ax_maxw next (n - len args + 1)
  | Switch _ _ cls =>
      (fix go (l : list (ident * ctx * stmt)) : N :=
         match l with [] => 0 | (_, cx, b) :: r => N.max (ax_maxw b (n - 1 + len cx)) (go r) end) cls
  | Create _ _ env cls next =>
      N.max (N.max (env_len env) (ax_maxw next (n - env_len env + 1)))
      ((fix go (l : list (ident * ctx * stmt)) : N :=
         match l with [] => 0 | (_, cx, b) :: r => N.max (ax_maxw b (len cx + env_len env)) (go r) end) cls)
  | Literal _ _ next | Op _ _ _ _ next => ax_maxw next (n + 1)
  | PrintI64 _ _ next => ax_maxw next n
  | IfC _ _ _ t e => N.max (ax_maxw t n) (ax_maxw e n)
  | Call _ _ | Invoke _ _ _ _ | Exit _ => 0
  end.
Fixpoint ax_maxw_sw (n : N) (l : list (ident * ctx * stmt)) : N :=
  match l with [] => 0 | (_, cx, b) :: r => N.max (ax_maxw b (n - 1 + len cx)) (ax_maxw_sw n r) end.
Fixpoint ax_maxw_cr (e : N) (l : list (ident * ctx * stmt)) : N :=
  match l with [] => 0 | (_, cx, b) :: r => N.max (ax_maxw b (len cx + e)) (ax_maxw_cr e r) end.

(* whole program: label + code per definition *)
Fixpoint cg_bound_defs (ds : list def) : N :=
  match ds with [] => 0 | d :: r => 1 + cg_bound (dbody d) (len (dctx d)) + cg_bound_defs r end.
