(* Size measures of AxCut programs for property C19 (output size).
   [ax_size]   nodes INCLUDING the lengths of all variable lists (arguments, clause contexts, closure
               environments, rearrangements): this is the measure in which the cost of a `Substitute`
               and of a call with many arguments is visible (the plain node count [ax_nstmts] hides it).
   [ax_nstmts] number of statements (clauses not counted).
   [ax_nbind]  number of binder occurrences (Let/Create/Literal/Op bind one variable, a clause binds
               its context): along any path the context grows by at most this much. *)
From Coq Require Import List NArith.
From SCC Require Import Lang.AxSyn.
Import ListNotations.
Open Scope N_scope.

Definition len {X} (l : list X) : N := N.of_nat (List.length l).

Fixpoint ax_size (s : stmt) : N :=
  let cls := fix go (l : list (ident * ctx * stmt)) : N :=
    match l with [] => 0 | (_, cc, b) :: r => 1 + len cc + ax_size b + go r end in
  match s with
  | Substitute re next => 1 + len re + ax_size next
  | Call _ args => 1 + len args
  | Let _ _ _ args next => 1 + len args + ax_size next
  | Switch _ _ c => 1 + cls c
  | Create _ _ env c next => 1 + match env with Some e => len e | None => 0 end + cls c + ax_size next
  | Invoke _ _ _ args => 1 + len args
  | Literal _ _ next => 1 + ax_size next
  | Op _ _ _ _ next => 1 + ax_size next
  | PrintI64 _ _ next => 1 + ax_size next
  | IfC _ _ _ t e => 1 + ax_size t + ax_size e
  | Exit _ => 1
  end.
Fixpoint ax_size_cls (l : list (ident * ctx * stmt)) : N :=
  match l with [] => 0 | (_, cc, b) :: r => 1 + len cc + ax_size b + ax_size_cls r end.

Fixpoint ax_nstmts (s : stmt) : N :=
  let cls := fix go (l : list (ident * ctx * stmt)) : N :=
    match l with [] => 0 | (_, _, b) :: r => ax_nstmts b + go r end in
  match s with
  | Substitute _ next => 1 + ax_nstmts next
  | Call _ _ | Invoke _ _ _ _ | Exit _ => 1
  | Let _ _ _ _ next | Literal _ _ next | Op _ _ _ _ next | PrintI64 _ _ next => 1 + ax_nstmts next
  | Switch _ _ c => 1 + cls c
  | Create _ _ _ c next => 1 + cls c + ax_nstmts next
  | IfC _ _ _ t e => 1 + ax_nstmts t + ax_nstmts e
  end.
Fixpoint ax_nstmts_cls (l : list (ident * ctx * stmt)) : N :=
  match l with [] => 0 | (_, _, b) :: r => ax_nstmts b + ax_nstmts_cls r end.

Fixpoint ax_nbind (s : stmt) : N :=
  let cls := fix go (l : list (ident * ctx * stmt)) : N :=
    match l with [] => 0 | (_, cc, b) :: r => len cc + ax_nbind b + go r end in
  match s with
  | Substitute _ next => ax_nbind next
  | Call _ _ | Invoke _ _ _ _ | Exit _ => 0
  | Let _ _ _ _ next | Literal _ _ next | Op _ _ _ _ next => 1 + ax_nbind next
  | PrintI64 _ _ next => ax_nbind next
  | Switch _ _ c => cls c
  | Create _ _ _ c next => 1 + cls c + ax_nbind next
  | IfC _ _ _ t e => ax_nbind t + ax_nbind e
  end.
Fixpoint ax_nbind_cls (l : list (ident * ctx * stmt)) : N :=
  match l with [] => 0 | (_, cc, b) :: r => len cc + ax_nbind b + ax_nbind_cls r end.

Definition ax_size_def (d : def) : N := 1 + len (dctx d) + ax_size (dbody d).
Definition ax_width_def (d : def) : N := len (dctx d) + ax_nbind (dbody d).
Fixpoint ax_size_defs (ds : list def) : N := match ds with [] => 0 | d :: r => ax_size_def d + ax_size_defs r end.
Fixpoint ax_nstmts_defs (ds : list def) : N := match ds with [] => 0 | d :: r => ax_nstmts (dbody d) + ax_nstmts_defs r end.
Fixpoint ax_width_defs (ds : list def) : N := match ds with [] => 0 | d :: r => N.max (ax_width_def d) (ax_width_defs r) end.
Definition ax_size_prog (p : prog) : N := ax_size_defs (pdefs p).
Definition ax_nstmts_prog (p : prog) : N := ax_nstmts_defs (pdefs p).
(* the largest number of variables that can be in scope at any point of any definition *)
Definition ax_width_prog (p : prog) : N := ax_width_defs (pdefs p).
