(* modelrun command "fun2core" (property C02).
   Case:  (case k (<name> <checked program> (<args tuple>..) <expected stdout | None>) <core prog | (PANIC m)>)
   1. reference-semantics validation: when the case carries the repository's expected stdout, the
      output of [run_fun] on the first argument tuple must be exactly that text (BAD otherwise:
      the reference semantics itself would be wrong);
   2. correspondence: the model [Fun2Core.compile_prog] against the Rust output (canonical printing);
   3. ALWAYS the executable form of the property on the RUST output: for every argument tuple
      [run_fun] on the checked program vs [run_core] on the Rust Core program.  A difference is
        SKIP unsequenced-mismatch        when the program is outside the property's precondition
                                         ([effect_sequenced] false: some argument or codata binding
                                         has an effect, so the order of effects is not fixed by the
                                         source semantics),
        VIOL class=mistyped-goto-unbound (REPAIRED in /repo by 126604b, no longer a known finding: a
                                         recurrence is a plain VIOLATION; the tag only describes it)
                                         when the Core run is stuck on an identifier that is unbound or bound
                                         to a value of the wrong kind (the spurious parameter picks up an
                                         unrelated variable of the same name) and the source has a goto
                                         whose annotation differs from its label's type,
        VIOL class=call-to-main          (REPAIRED in /repo by f929eb7, no longer a known finding: a recurrence is a plain
                                         VIOLATION; the tag only describes it) when some call targets `main` ([calls_main_prog]:
                                         compile_main gives main no return continuation, the call
                                         site passes one),
        VIOL class=capture-under-binder  (REPAIRED in /repo by d5d4151, no longer a known finding: a recurrence
                                         is a plain VIOLATION; the tag only describes it) when the syntactic
                                         detector [shadowing_risk] fires on the source - checked after
                                         call-to-main and mistyped-goto-unbound,
        VIOL class=semantic-mismatch     otherwise.  Tuples on which the source run
      does not end in a normal exit within the fuel (undefined arithmetic, stuck, out of fuel) are
      not compared (the property speaks about the defined behaviour). *)
From Coq Require Import List ZArith NArith String Bool.
From SCC Require Import Base.Sexp Lang.SynUtil Lang.FunSyn Lang.FunTy Lang.CoreSyn.
From SCC Require Import Sem.AxSem Sem.CoreSem Sem.FunSem Model.RunBase Model.Fun2Core Model.Fun2CoreGuard.
Import ListNotations.
Open Scope string_scope.

(* built with N.iter: logarithmic stack depth in the extracted code (N.to_nat is not tail recursive) *)
Definition c02_fuel : nat := N.iter 3000000 S O.

Definition g_tuple (x : sexp) : option (list Z) := getL getZ x.

Definition s_res_cprog (r : res cprog) : sexp :=
  match r with
  | Ok p => s_cprog p
  | Err m => L [A "PANIC"; Q m]
  end.

Definition show_args (a : list Z) : string := show (L (map sZ a)).

(* compare the two semantics on all tuples; first difference wins *)
Definition is_unbound (o : obs) : bool :=
  match snd o with
  | OStuck w => String.eqb w "covar-unbound" || String.eqb w "var-unbound"
                || String.eqb w "covar-kind" || String.eqb w "var-kind"
  | _ => false
  end.
Fixpoint sem_compare (p : fcprog) (c : cprog) (tuples : list (list Z)) (ncmp : nat) : sum (string * bool) nat :=
  match tuples with
  | [] => inr ncmp
  | a :: r =>
      let o1 := run_fun c02_fuel p a in
      if defined o1 then
        let o2 := run_core c02_fuel c a in
        if obs_eqb o1 o2 then sem_compare p c r (S ncmp)
        else inl ("args=" ++ show_args a ++ " fun=" ++ show (s_obs o1) ++ " core=" ++ show (s_obs o2), is_unbound o2)
      else sem_compare p c r ncmp
  end.

Definition check_expected (p : fcprog) (tuples : list (list Z)) (exp : sexp) : option string :=
  match exp, tuples with
  | L [A "Some"; Q want], a :: _ =>
      let o := run_fun c02_fuel p a in
      let got := render_prints (fst o) in
      if String.eqb got want && defined o then None
      else Some ("reference semantics vs repository expectation: args=" ++ show_args a ++ " expected=" ++ show (Q want)
                 ++ " run_fun=" ++ show (s_obs o))
  | _, _ => None
  end.

Definition fun2core_tags (p : fcprog) (ncmp : nat) (has_exp : bool) : string :=
  "nt" ++ (if shadowing_risk_prog p then " shadow-risk" else " no-shadow")
       ++ (if effect_sequenced p then " sequenced" else " unsequenced")
       ++ (if has_exp then " expected-ok" else "")
       ++ (if main_in_fragment p then " proved-fragment" else "")
       (* inside the hypotheses of C02_fun2core_correct_fragment2 (fragment, kinds, no call of main, well-scoped; no
          capture guard since fix d5d4151): for these programs agreement of the two runs is a THEOREM about the model *)
       ++ (if prog_guard p && nodup_str (map fdname (fcpdefs p)) then " proved-fragment2"
           else (* which part of the guard fails (histogram of what keeps inputs outside the theorem) *)
                (if forallb (fun d => frag p (fdbody d)) (fcpdefs p) then "" else " out-frag")
                ++ (if forallb (fun d => kd p (fdbody d)) (fcpdefs p) then "" else " out-kind")
                ++ (if forallb (fun d => ws (compile_ctx (fdctx d)) (fdbody d)) (fcpdefs p) then "" else " out-scope"))
       ++ " cmp" ++ n_to_string (N.of_nat ncmp)
       ++ " size" ++ n_to_string (N.log2 (size_fcprog p)).

Fixpoint ends_with (suffix s : string) : bool :=
  String.eqb suffix s || match s with EmptyString => false | String _ r => ends_with suffix r end.
(* the witness of the theorems C02_fun2core_capture_refuted_before_fix / C02_capture_witness_fixed /
   C02_capture_witness_simulated is the real checked form of capture1.sc *)
Definition witness_ok (name : string) (p : fcprog) : bool :=
  if ends_with "corpus/fun/capture1.sc" name then fcprog_eqb p capture_witness
  else if ends_with "corpus/fun/c02_unbound_covar.sc" name then fcprog_eqb p goto_witness
  else if ends_with "corpus/fun/call_main_nontail.sc" name then fcprog_eqb p call_main_witness
  else true.

Definition fun2core_case (i r : sexp) : verdict :=
  match i with
  | L [Q name; p; L tuples; exp] =>
      match g_fcprog p, omap g_tuple tuples with
      | Some p, Some tuples =>
          match check_expected p tuples exp with
          | Some why => VBad why
          | None =>
              if negb (witness_ok name p)
              then VBad ("the witness value in Model/Fun2Core.v differs from the checked program of " ++ name ++ ": " ++ show (s_fcprog p))
              else
              let m := compile_prog p in
              match r with
              | L [A "PANIC"; Q msg] =>
                  match m with
                  | Err _ => VOk "panic-agree"
                  | Ok _ => VDiff (trunc 2000 (show (s_res_cprog m))) (show r)
                  end
              | _ =>
                  match g_cprog r with
                  | None => VBad ("rust output unreadable: " ++ show_bad (first_bad readable_core r))
                  | Some c =>
                      match sem_compare p c tuples 0 with
                      | inl (what, core_unbound) =>
                          if negb (effect_sequenced p) then VSkip ("unsequenced-mismatch " ++ name ++ " " ++ what)
                          else
                          VViol ((if calls_main_prog p then "class=call-to-main " else
                                  if core_unbound && goto_type_mismatch_prog p then "class=mistyped-goto-unbound " else
                                  if shadowing_risk_prog p then "class=capture-under-binder " else
                                  "class=semantic-mismatch ")
                                 ++ name ++ " " ++ what)
                      | inr ncmp =>
                          match m with
                          | Err e => VDiff ("(PANIC " ++ e ++ ")") (trunc 300 (show r))
                          | Ok mc =>
                              if cprog_eqb mc c
                              then VOk (fun2core_tags p ncmp (match exp with L _ => true | _ => false end))
                              else diff_window_b (show (s_cprog mc)) (show (s_cprog c))
                          end
                      end
                  end
              end
          end
      | None, _ => VBad ("input unreadable: " ++ show_bad (first_bad readable_fun p))
      | _, None => VBad "argument tuples unreadable"
      end
  | _ => VBad "input shape"
  end.
Definition run_fun2core : string -> string := run_cases fun2core_case.
