(* modelrun command "codegen-a64": the model of the AArch64 code generator against the real one. *)
From Coq Require Import List ZArith NArith String Bool.
From SCC Require Import Base.Sexp Lang.AxSyn Sem.AxSem Model.Backend Model.A64 Model.A64Io Model.RunBase.
Import ListNotations.
Open Scope string_scope.

Definition s_res_acodes (r : res (list acode * nat * N)) : sexp :=
  match r with
  | Ok (cs, n, _) => L [L (map s_acode cs); sNat n]
  | Err m => L [A "PANIC"; Q m]
  end.

Definition codegen_a64_case (i r : sexp) : verdict :=
  match i with
  | L [Q _; p; lc; argss] =>
      match g_prog p, getN lc, getL (getL getZ) argss with
      | Some p, Some lc, Some argss =>
          let m := a64_compile p lc in
          match r with
          | L [A "PANIC"; Q msg] =>
              match m with
              | Err _ => VOk "panic-agree"
              | Ok _ => VDiff (show (s_res_acodes m)) (show r)
              end
          | L [cs; n] =>
              match g_acodes cs, getN n with
              | Some cs, Some n =>
                  let r' := L [L (map s_acode cs); sN n] in
                  match m with
                  | Ok (mc, _, _) => cmp_sexp (s_res_acodes m) r'
                  | Err _ => VDiff (show (s_res_acodes m)) (show r')
                  end
              | _, _ => VBad "rust output unreadable"
              end
          | _ => VBad "rust output shape"
          end
      | _, _, _ => VBad "input unreadable"
      end
  | _ => VBad "input shape"
  end.
Definition run_codegen_a64 : string -> string := run_cases codegen_a64_case.
