(* modelrun command "codegen-a64": the model of the AArch64 code generator against the real one,
   and the executable form of C07 on the implementation's output (AxCut linear machine vs. the
   emitted code run on the ISA model Sem/A64Sem.v). *)
From Coq Require Import List ZArith NArith String Bool.
From SCC Require Model.LinCheck.
From SCC Require Import Sem.LabelText.
From SCC Require Import Base.Sexp Lang.AxSyn Sem.AxSem Sem.A64Sem Model.Backend Model.A64 Model.A64Io Model.RunBase.
Import ListNotations.
Open Scope string_scope.

Definition s_res_acodes (r : res (list acode * nat * N)) : sexp :=
  match r with
  | Ok (cs, n, _) => L [L (map s_acode cs); sNat n]
  | Err m => L [A "PANIC"; Q m]
  end.

(* ---------- facts about the program used for tags and for classifying a mismatch ---------- *)
Record walk := { max_live : nat; print_at : list nat }.   (* context lengths at print statements *)
Definition wjoin (a b : walk) : walk :=
  {| max_live := Nat.max (max_live a) (max_live b); print_at := print_at a ++ print_at b |}.
Definition wlen (n : nat) : walk := {| max_live := n; print_at := [] |}.
(* the context lengths the generic code generator threads (as Backend.code_statement) *)
Fixpoint walk_stmt (s : stmt) (n : nat) : walk :=
  wjoin (wlen n)
  match s with
  | Substitute re next => walk_stmt next (List.length re)
  | Call _ _ => wlen n
  | Let _ _ _ args next => walk_stmt next (n - List.length args + 1)
  | Switch _ _ cls =>
      (fix go (l : list clause) : walk :=
         match l with
         | [] => wlen n
         | (_, cx, b) :: r => wjoin (walk_stmt b (n - 1 + List.length cx)) (go r)
         end) cls
  | Create _ _ env cls next =>
      let k := match env with Some e => List.length e | None => 0 end in
      wjoin (walk_stmt next (n - k + 1))
        ((fix go (l : list clause) : walk :=
            match l with
            | [] => wlen n
            | (_, cx, b) :: r => wjoin (walk_stmt b (List.length cx + k)) (go r)
            end) cls)
  | Invoke _ _ _ _ => wlen n
  | Literal _ _ next => walk_stmt next (n + 1)
  | Op _ _ _ _ next => walk_stmt next (n + 1)
  | PrintI64 _ _ next => wjoin {| max_live := n; print_at := [n] |} (walk_stmt next n)
  | IfC _ _ _ t e => wjoin (walk_stmt t n) (walk_stmt e n)
  | Exit _ => wlen n
  end.
Definition walk_prog (p : prog) : walk :=
  fold_left (fun w d => wjoin w (walk_stmt (dbody d) (List.length (dctx d)))) (pdefs p) (wlen 0).

(* the number of variables whose second temporary is the last general-purpose register, i.e. the
   link register: 2 * n + RESERVED = REGISTER_NUM *)
Definition lr_boundary : nat := N.to_nat ((REGISTER_NUM - RESERVED) / 2).
Definition print_at_lr_boundary (p : prog) : bool :=
  existsb (Nat.eqb lr_boundary) (print_at (walk_prog p)).

Definition has (f : acode -> bool) (cs : list acode) : bool := existsb f cs.
Definition a64_tags (p : prog) (cs : list acode) : string :=
  let w := walk_prog p in
  let tag (b : bool) (s : string) := if b then " " ++ s else "" in
  "nt" ++ (if Nat.ltb lr_boundary (max_live w) then " spills" else " nospill")
  ++ " live" ++ n_to_string (N.of_nat (max_live w / 4 * 4))
  ++ tag (Nat.eqb (max_live w) lr_boundary) "live=13"
  ++ tag (print_at_lr_boundary p) "print@13"
  ++ tag (has (fun c => match c with BL _ => true | _ => false end) cs) "print"
  ++ tag (has (fun c => match c with BR _ => true | _ => false end) cs) "br"
  ++ tag (has (fun c => match c with MOVK _ _ _ => true | _ => false end) cs) "movk"
  ++ tag (has (fun c => match c with MOVN _ _ _ => true | _ => false end) cs) "movn"
  ++ tag (has (fun c => match c with SDIV _ _ _ => true | _ => false end) cs) "sdiv"
  ++ tag (has (fun c => match c with MSUB _ _ _ _ => true | _ => false end) cs) "msub"
  ++ tag (has (fun c => match c with MUL _ _ _ => true | _ => false end) cs) "mul"
  ++ tag (has (fun c => match c with STR (X 10) SP _ => true | _ => false end) cs) "evac-x10"
  ++ " len" ++ n_to_string (N.of_nat (Nat.log2 (List.length cs))).

Definition lin_fuel : nat := 50000.
Definition a64_outer : nat := 2000.
Definition a64_inner : nat := 2000.

(* executable form of C07 on the implementation's output: the AxCut linear machine against the
   emitted code run on the ISA model, for every argument tuple on which the source run is defined. *)
Definition sem_check_a64 (p : prog) (cs : list acode) (argss : list (list Z)) : option string :=
  if negb (LinCheck.lin_check_prog p) then None else
  fold_left (fun acc args =>
    match acc with
    | Some _ => acc
    | None =>
        let ref := run_linear lin_fuel p args in
        match snd ref with
        | OExit _ =>
            let got := fst (run_a64 a64_outer a64_inner cs args) in
            if obs_eqb ref got then None
            else Some ("class=a64-semantic-mismatch args=" ++ show (sL sZ args) ++ " expected=" ++ show (s_obs ref) ++ " got=" ++ show (s_obs got))
        | _ => None
        end
    end) argss None.

(* a disagreement is reported by its first differing instruction (whole programs are far too long) *)
Fixpoint first_diff (i : nat) (a b : list acode) : string :=
  match a, b with
  | [], [] => "none"
  | x :: a', y :: b' =>
      if String.eqb (show (s_acode x)) (show (s_acode y)) then first_diff (S i) a' b'
      else "at " ++ n_to_string (N.of_nat i) ++ ": " ++ show (s_acode x) ++ " vs " ++ show (s_acode y)
  | x :: _, [] => "at " ++ n_to_string (N.of_nat i) ++ ": " ++ show (s_acode x) ++ " vs end"
  | [], y :: _ => "at " ++ n_to_string (N.of_nat i) ++ ": end vs " ++ show (s_acode y)
  end.
Definition codes_diff (m : res (list acode * nat * N)) (cs : list acode) (n : N) : verdict :=
  match m with
  | Err e => VDiff ("(PANIC " ++ e ++ ")") ("code of length " ++ n_to_string (N.of_nat (List.length cs)))
  | Ok (mc, mn, _) =>
      if negb (N.eqb (N.of_nat mn) n) then VDiff ("nargs " ++ n_to_string (N.of_nat mn)) ("nargs " ++ n_to_string n)
      else match first_diff 0 mc cs with
           | "none" => VOk ""
           | d => VDiff ("first difference (model vs rust) " ++ d)
                        ("lengths " ++ n_to_string (N.of_nat (List.length mc)) ++ " vs " ++ n_to_string (N.of_nat (List.length cs)))
           end
  end.

(* dynamic coverage of the emitted code by the argument tuples (evidence only): the share of
   instructions executed at least once *)
Fixpoint cov_chunk (fuel : nat) (im : image) (pc : positive) (s : astate) (seen : PM.t unit) : option (positive * astate) * PM.t unit :=
  match fuel with
  | O => (Some (pc, s), seen)
  | S f =>
      match PM.find pc (code im) with
      | None => (None, seen)
      | Some c =>
          let seen' := PM.add pc tt seen in
          match step im c s with
          | Next s' => cov_chunk f im (Pos.succ pc) s' seen'
          | Jump s' i => cov_chunk f im i s' seen'
          | _ => (None, seen')
          end
      end
  end.
Fixpoint cov_run (outer inner : nat) (im : image) (pc : positive) (s : astate) (seen : PM.t unit) : PM.t unit :=
  match outer with
  | O => seen
  | S o => match cov_chunk inner im pc s seen with
           | (Some (pc', s'), seen') => cov_run o inner im pc' s' seen'
           | (None, seen') => seen'
           end
  end.
Definition coverage_decile (cs : list acode) (argss : list (list Z)) : N :=
  let im := mk_image cs in
  match find_label (labels im) "asm_main" with
  | None => 0%N
  | Some i =>
      let seen := fold_left (fun seen args => cov_run a64_outer a64_inner im i (init_state args) seen) argss (PM.empty unit) in
      let total := List.length (filter (fun c => negb (Z.eqb (isize c) 0)) cs) in
      let hit := PM.fold (fun k _ n => match PM.find k (code im) with
                                       | Some c => if Z.eqb (isize c) 0 then n else S n
                                       | None => n end) seen O in
      N.of_nat (hit * 10 / Nat.max total 1)
  end.

Definition defined_runs (p : prog) (argss : list (list Z)) : nat :=
  List.length (filter (fun args => defined (run_linear lin_fuel p args)) argss).

Definition codegen_a64_case (i r : sexp) : verdict :=
  match i with
  | L [Q _; p; lc; argss] =>
      match g_prog p, getN lc, getL (getL getZ) argss with
      | Some p, Some lc, Some argss =>
          let m := a64_compile p lc in
          match r with
          | L [A "PANIC"; Q msg] =>
              match m with
              | Err _ => VOk "panic-agree"
              | Ok (mc, _, _) => VDiff ("code of length " ++ n_to_string (N.of_nat (List.length mc))) (show r)
              end
          | L [cs; n] =>
              match g_acodes cs, getN n with
              | Some cs, Some n =>
                  match sem_check_a64 p cs argss with
                  | Some why =>
                      VViol (why ++ match codes_diff m cs n with VOk _ => " [model = rust]" | _ => " [model <> rust]" end)
                  | None =>
                      match codes_diff m cs n with
                      | VOk _ =>
                          match m with
                          | Ok (mc, _, _) => VOk (a64_tags p mc ++ " runs" ++ n_to_string (N.of_nat (defined_runs p argss))
                                                  ++ " cov" ++ n_to_string (coverage_decile cs argss))
                          | Err _ => VBad "impossible"
                          end
                      | v => v
                      end
                  end
              | _, _ => VBad "rust output unreadable"
              end
          | _ => VBad "rust output shape"
          end
      | _, _, _ => VBad "input unreadable"
      end
  | _ => VBad "input shape"
  end.
Definition run_codegen_a64 : string -> string := run_cases codegen_a64_case.

(* the modelrun commands "heap-a64" and "c10-a64" (C09 / C10 on the implementation's AArch64 code)
   are in Model/RunHeapA64.v *)
(* ---------- C14: assembler-level well-formedness of the implementation's output ---------- *)
From SCC Require Import Sem.A64Wf Sem.LabelGuard.
From SCC Require Sem.WfGuard Sem.WfGuard64.
Open Scope string_scope.
(* is the program inside ALL hypotheses of the theorem Props/C14.v C14_a64_compile_asm_wf (Sem/WfGuard64.v)?  Tag
   `thm` / `out:<first hypothesis that fails>`; `small-thm` when inside C14_a64_compile_code_small.  A program inside the
   hypotheses whose REAL output fails asm_wf (resp. the size bound) contradicts the theorem: the model and the code
   disagree - VIOL class=asm-wf-theorem-contradicted. *)
Definition thm_tag_a64 (pp : option prog) : string :=
  match pp with
  | Some pp => (if WfGuard64.wf_guard_a64 pp then " thm" else " out:" ++ WfGuard64.guards_failed (WfGuard64.wf_guards_a64 pp))
               ++ (if LinCheck.lin_check_prog pp && WfGuard.size_guard pp then " small-thm" else "")
  | None => ""
  end.
Definition code_small_a64 (cs : list acode) : bool :=
  Z.ltb (fold_right (fun c a => isize c + a)%Z 0%Z cs) (4611686018427387904 - CODE_BASE)%Z.
Definition guard_tag (p : sexp) : string :=
  match g_prog p with
  | Some pp => (if labels_guard pp then " guard" else if name_digits pp then " name-digits" else " noguard")
               ++ (if calls_guard pp then "" else " open-calls")
  | None => ""
  end.
Definition wf_a64_case (i r : sexp) : verdict :=
  match i, r with
  | L [Q _; p; lc; _], L [cs; _] =>
      match g_acodes cs with
      | Some cs =>
          match bad_label (defined_labels cs ++ flat_map referenced cs) with
          | Some l => VViol ("class=asm-ill-formed-a64 label is not an identifier: " ++ l)
          | None =>
          let pp := g_prog p in
          let inside := match pp with Some q => WfGuard64.wf_guard_a64 q | None => false end in
          let inside_small := match pp with Some q => LinCheck.lin_check_prog q && WfGuard.size_guard q | None => false end in
          match asm_wf cs with
          | Some why =>
              if inside then VViol ("class=asm-wf-theorem-contradicted " ++ why) else
              (* known finding a64-branch-reach: B.cond / ADR beyond +-1 MiB (no branch relaxation in the back end) *)
              if String.prefix "branch target out of range" why then VViol ("class=a64-branch-out-of-reach " ++ why) else
              match first_dup (defined_labels cs), pp with
              | Some l, Some pp => if name_digits pp then VViol ("class=label-collision-name-digits " ++ why)
                                   else VViol ("class=asm-ill-formed-a64 " ++ why)
              | _, _ => VViol ("class=asm-ill-formed-a64 " ++ why)
              end
          | None =>
              if inside_small && negb (code_small_a64 cs) then VViol "class=asm-wf-theorem-contradicted code not small" else
              let nlab := List.length (defined_labels cs) in
              let tag (b : bool) (s : string) := if b then " " ++ s else "" in
              VOk ("nt labels" ++ n_to_string (N.log2 (N.of_nat nlab + 1))
                   ++ tag (has (fun c => match c with ADR _ _ => true | _ => false end) cs) "table"
                   ++ tag (has (fun c => match c with MOVK _ _ _ => true | _ => false end) cs) "movk"
                   ++ tag (has (fun c => match c with STR _ SP _ | LDR _ SP _ => true | _ => false end) cs) "spills"
                   ++ tag (has (fun c => match c with BL _ => true | _ => false end) cs) "print"
                   ++ guard_tag p ++ thm_tag_a64 pp)
          end
          end
      | None => VBad "rust output unreadable"
      end
  | _, L [A "PANIC"; _] => VSkip "implementation panicked (capacity)"
  | _, _ => VBad "case shape"
  end.
Definition run_wf_a64 : string -> string := run_cases wf_a64_case.
