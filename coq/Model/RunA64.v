(* modelrun command "codegen-a64": the model of the AArch64 code generator against the real one,
   and the executable form of C07 on the implementation's output (AxCut linear machine vs. the
   emitted code run on the ISA model Sem/A64Sem.v). *)
From Coq Require Import List ZArith NArith String Bool.
From SCC Require Import Base.Sexp Lang.AxSyn Sem.AxSem Sem.A64Sem Model.Backend Model.A64 Model.A64Io Model.RunBase.
Import ListNotations.
Open Scope string_scope.

Definition s_res_acodes (r : res (list acode * nat * N)) : sexp :=
  match r with
  | Ok (cs, n, _) => L [L (map s_acode cs); sNat n]
  | Err m => L [A "PANIC"; Q m]
  end.

(* ---------- facts about the program used for tags and for classifying a mismatch ---------- *)
Record walk := { max_live : nat; print_at : list nat }.   (* context lengths at print statements *)
Definition wjoin (a b : walk) : walk :=
  {| max_live := Nat.max (max_live a) (max_live b); print_at := print_at a ++ print_at b |}.
Definition wlen (n : nat) : walk := {| max_live := n; print_at := [] |}.
(* the context lengths the generic code generator threads (as Backend.code_statement) *)
Fixpoint walk_stmt (s : stmt) (n : nat) : walk :=
  wjoin (wlen n)
  match s with
  | Substitute re next => walk_stmt next (List.length re)
  | Call _ _ => wlen n
  | Let _ _ _ args next => walk_stmt next (n - List.length args + 1)
  | Switch _ _ cls =>
      (fix go (l : list clause) : walk :=
         match l with
         | [] => wlen n
         | (_, cx, b) :: r => wjoin (walk_stmt b (n - 1 + List.length cx)) (go r)
         end) cls
  | Create _ _ env cls next =>
      let k := match env with Some e => List.length e | None => 0 end in
      wjoin (walk_stmt next (n - k + 1))
        ((fix go (l : list clause) : walk :=
            match l with
            | [] => wlen n
            | (_, cx, b) :: r => wjoin (walk_stmt b (List.length cx + k)) (go r)
            end) cls)
  | Invoke _ _ _ _ => wlen n
  | Literal _ _ next => walk_stmt next (n + 1)
  | Op _ _ _ _ next => walk_stmt next (n + 1)
  | PrintI64 _ _ next => wjoin {| max_live := n; print_at := [n] |} (walk_stmt next n)
  | IfC _ _ _ t e => wjoin (walk_stmt t n) (walk_stmt e n)
  | Exit _ => wlen n
  end.
Definition walk_prog (p : prog) : walk :=
  fold_left (fun w d => wjoin w (walk_stmt (dbody d) (List.length (dctx d)))) (pdefs p) (wlen 0).

(* the number of variables whose second temporary is the last general-purpose register, i.e. the
   link register: 2 * n + RESERVED = REGISTER_NUM *)
Definition lr_boundary : nat := N.to_nat ((REGISTER_NUM - RESERVED) / 2).
Definition print_at_lr_boundary (p : prog) : bool :=
  existsb (Nat.eqb lr_boundary) (print_at (walk_prog p)).

Definition has (f : acode -> bool) (cs : list acode) : bool := existsb f cs.
Definition a64_tags (p : prog) (cs : list acode) : string :=
  let w := walk_prog p in
  let tag (b : bool) (s : string) := if b then " " ++ s else "" in
  "nt" ++ (if Nat.ltb lr_boundary (max_live w) then " spills" else " nospill")
  ++ " live" ++ n_to_string (N.of_nat (max_live w / 4 * 4))
  ++ tag (Nat.eqb (max_live w) lr_boundary) "live=13"
  ++ tag (print_at_lr_boundary p) "print@13"
  ++ tag (has (fun c => match c with BL _ => true | _ => false end) cs) "print"
  ++ tag (has (fun c => match c with BR _ => true | _ => false end) cs) "br"
  ++ tag (has (fun c => match c with MOVK _ _ _ => true | _ => false end) cs) "movk"
  ++ tag (has (fun c => match c with MOVN _ _ _ => true | _ => false end) cs) "movn"
  ++ tag (has (fun c => match c with SDIV _ _ _ => true | _ => false end) cs) "sdiv"
  ++ tag (has (fun c => match c with MSUB _ _ _ _ => true | _ => false end) cs) "msub"
  ++ tag (has (fun c => match c with MUL _ _ _ => true | _ => false end) cs) "mul"
  ++ tag (has (fun c => match c with STR (X 10) SP _ => true | _ => false end) cs) "evac-x10"
  ++ " len" ++ n_to_string (N.of_nat (Nat.log2 (List.length cs))).

Definition lin_fuel : nat := 50000.
Definition a64_outer : nat := 2000.
Definition a64_inner : nat := 2000.

(* executable form of C07 on the implementation's output: the AxCut linear machine against the
   emitted code run on the ISA model, for every argument tuple on which the source run is defined. *)
Definition sem_check_a64 (p : prog) (cs : list acode) (argss : list (list Z)) : option string :=
  fold_left (fun acc args =>
    match acc with
    | Some _ => acc
    | None =>
        let ref := run_linear lin_fuel p args in
        match snd ref with
        | OExit _ =>
            let got := fst (run_a64 a64_outer a64_inner cs args) in
            if obs_eqb ref got then None
            else Some ("class=a64-semantic-mismatch args=" ++ show (sL sZ args) ++ " expected=" ++ show (s_obs ref) ++ " got=" ++ show (s_obs got))
        | _ => None
        end
    end) argss None.

Definition defined_runs (p : prog) (argss : list (list Z)) : nat :=
  List.length (filter (fun args => defined (run_linear lin_fuel p args)) argss).

Definition codegen_a64_case (i r : sexp) : verdict :=
  match i with
  | L [Q _; p; lc; argss] =>
      match g_prog p, getN lc, getL (getL getZ) argss with
      | Some p, Some lc, Some argss =>
          let m := a64_compile p lc in
          match r with
          | L [A "PANIC"; Q msg] =>
              match m with
              | Err _ => VOk "panic-agree"
              | Ok _ => VDiff (show (s_res_acodes m)) (show r)
              end
          | L [cs; n] =>
              match g_acodes cs, getN n with
              | Some cs, Some n =>
                  let r' := L [L (map s_acode cs); sN n] in
                  match sem_check_a64 p cs argss with
                  | Some why => VViol why
                  | None =>
                      match m with
                      | Ok (mc, _, _) =>
                          match cmp_sexp (s_res_acodes m) r' with
                          | VOk _ => VOk (a64_tags p mc ++ " runs" ++ n_to_string (N.of_nat (defined_runs p argss)))
                          | v => v
                          end
                      | Err _ => VDiff (show (s_res_acodes m)) (show r')
                      end
                  end
              | _, _ => VBad "rust output unreadable"
              end
          | _ => VBad "rust output shape"
          end
      | _, _, _ => VBad "input unreadable"
      end
  | _ => VBad "input shape"
  end.
Definition run_codegen_a64 : string -> string := run_cases codegen_a64_case.
