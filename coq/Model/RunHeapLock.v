(* modelrun command "heaplock-x86" (cases of the harness command codegen-x86): the heap-instrumented
   AxCut machine of Sem/AxHeap.v in lockstep with the implementation's x86-64 code on the ISA model.
   For every argument tuple on which the reference run exits normally, at every statement boundary of
   the real code (its own statement comments) the machine state must abstract to the instrumented
   configuration: allocator registers, the pointers of all non-integer variables, header and pointer
   slots of every block below the abstract frontier (Sem/X86HeapLock.v).  A mismatch is a VIOL of
   class heap-lockstep.  Programs that are not linearity-checked (`lin_check_prog`, the hypothesis of the
   program-level theorems) are skipped. *)
From Coq Require Import List ZArith NArith String Bool.
From SCC Require Import Base.Sexp Lang.AxSyn Sem.AxSem Model.LinCheck Sem.AxHeap Sem.X86Sem Sem.X86HeapLock Model.Backend Model.X86 Model.X86Io Model.RunBase Model.RunX86.
From SCC Require Model.Heap.
Import ListNotations.
Open Scope string_scope.

(* one tuple: None = no verdict; Some (Some why) = mismatch; Some None = in lockstep (boundaries, operations) *)
Definition lock_one (p : prog) (cs_s : list xcode) (args : list Z) : option (option string * N * N) :=
  let ref := run_linear lin_fuel p args in
  match snd ref with
  | OExit _ =>
      let '(snaps, nops) := hsnaps_prog lin_fuel HEAP_BASE p args in
      let '(ob, st) := run_x86_lock x86_outer x86_inner cs_s args snaps in
      if obs_eqb ref ob && negb (l_underrun st) && match l_pending st with [] => true | _ => false end
      then match l_mismatch st with
           | Some w => Some (Some ("class=heap-lockstep args=" ++ show (sL sZ args) ++ " " ++ w), 0%N, 0%N)
           | None => Some (None, l_boundaries st, nops)
           end
      else None
  | _ => None
  end.

Definition heaplock_x86_case (i r : sexp) : verdict :=
  match i with
  | L [Q _; p; lc; argss] =>
      match g_prog p, getL (getL getZ) argss with
      | Some p, Some argss =>
          match r with
          | L [A "PANIC"; _] => VSkip "implementation panicked (capacity)"
          | L [cs; _] =>
              match g_xcodes_s cs with
              | Some cs_s =>
                  if negb (match pdefs p with d :: _ => forallb (fun b => match bchi b with Ext => true | _ => false end) (dctx d) | [] => false end)
                  then VSkip "first definition is not an entry point (non-integer parameters)"
                  else if negb (lin_check_prog p)
                  then VSkip ("not linearity-checked in " ++ first_bad_def p ++ ": outside the domain of C09_program_heap_safe (typing of stage outputs is C05/C12)")
                  else
                    let results := map (lock_one p cs_s) argss in
                    match find (fun x => match x with Some (Some _, _, _) => true | _ => false end) results with
                    | Some (Some (Some why, _, _)) => VViol why
                    | _ =>
                        let nb := fold_left (fun a x => match x with Some (_, n, _) => (a + n)%N | None => a end) results 0%N in
                        let no := fold_left (fun a x => match x with Some (_, _, n) => (a + n)%N | None => a end) results 0%N in
                        let verdicts := List.length (filter (fun x => match x with Some _ => true | None => false end) results) in
                        VOk ((if N.eqb nb 0 then "noruns" else "nt") ++ " boundaries" ++ n_to_string (N.log2 (nb + 1))
                             ++ " ops" ++ n_to_string (N.log2 (no + 1)) ++ " verdicts" ++ n_to_string (N.of_nat verdicts))
                    end
              | None => VBad "rust output unreadable"
              end
          | _ => VBad "rust output shape"
          end
      | _, _ => VBad "input unreadable"
      end
  | _ => VBad "input shape"
  end.
Definition run_heaplock_x86 : string -> string := run_cases heaplock_x86_case.
