(* modelrun command "stages": reader totality and losslessness on real pipeline outputs.
   Case file written by `harness stages`:  (case k (<stage> "<file>") <Debug-shaped value>)  with
   <stage> one of  parsed checked core uniquified focused shrunk linearized.

   For each case the value is read with the reader of the stage's type
     parsed      g_fprog   (FunSyn)        checked   g_fcprog (FunSyn)
     core        g_cprog   (CoreSyn)       uniquified g_cprog
     focused     g_fsprog  (CoreSyn)       shrunk / linearized   g_prog (AxSyn)
   and for the Fun and Core stages the AST is printed again with s_* and compared with the input
   (source spans stripped): the reader loses nothing but spans.  Verdicts:
     OK k nt <stage> size<b> …     reader succeeded, round trip exact   (b = log2 of the node count)
     BAD k <stage> unreadable at <path> : <sub-expression>
     BAD k <stage> roundtrip at <path> : <printed> <> <input>
     VIOL k <stage> <invariant>    an invariant every real value must satisfy fails (chirality
                                   discipline of Term<C>, annotations after check, polarity of decls)
     SKIP k <stage> error|panic    the stage returned a parse/type error or panicked *)
From Coq Require Import List ZArith NArith String Bool.
From SCC Require Import Base.Sexp Lang.SynUtil Lang.FunSyn Lang.CoreSyn Lang.AxSyn Model.RunBase.
Import ListNotations.
Open Scope string_scope.

Definition bucket (n : N) : string := n_to_string (N.log2 n).

(* first difference between two S-expressions: path and the two differing sub-expressions *)
Fixpoint first_diff (a b : sexp) : option (list nat * sexp * sexp) :=
  match a, b with
  | A s, A t => if String.eqb s t then None else Some ([], a, b)
  | Q s, Q t => if String.eqb s t then None else Some ([], a, b)
  | L l, L m =>
      if negb (Nat.eqb (List.length l) (List.length m)) then Some ([], a, b)
      else (fix go (i : nat) (l m : list sexp) : option (list nat * sexp * sexp) :=
              match l, m with
              | x :: l', y :: m' =>
                  match first_diff x y with
                  | Some (p, u, v) => Some (i :: p, u, v)
                  | None => go (S i) l' m'
                  end
              | _, _ => None
              end) 0%nat l m
  | _, _ => Some ([], a, b)
  end.

(* AxCut: node count of statements (AxSyn has no size function of its own) *)
Fixpoint size_stmt (s : stmt) : N :=
  let cls := fix go (l : list (ident * ctx * stmt)) : N :=
    match l with [] => 0 | (_, _, b) :: r => 1 + size_stmt b + go r end%N in
  (match s with
   | Substitute _ next => 1 + size_stmt next
   | Call _ _ => 1
   | Let _ _ _ _ next => 1 + size_stmt next
   | Switch _ _ c => 1 + cls c
   | Create _ _ _ c next => 1 + cls c + size_stmt next
   | Invoke _ _ _ _ => 1
   | Literal _ _ next => 1 + size_stmt next
   | Op _ _ _ _ next => 1 + size_stmt next
   | PrintI64 _ _ next => 1 + size_stmt next
   | IfC _ _ _ t e => 1 + size_stmt t + size_stmt e
   | Exit _ => 1
   end)%N.
Definition size_prog (p : prog) : N := fold_left (fun acc d => acc + 1 + size_stmt (dbody d))%N (pdefs p) 0%N.

Section Check.
  Context {X : Type}.
  Variable g : sexp -> option X.
  Variable s : X -> sexp.
  Variable size : X -> N.
  Variable readable : sexp -> bool.
  Variable inv : X -> option string.     (* Some msg = violated invariant *)
  Variable tags : X -> string.
  Variable stage : string.

  Definition check_stage (r : sexp) : verdict :=
    match g r with
    | None => VBad (stage ++ " unreadable " ++ show_bad (first_bad readable r))
    | Some v =>
        match first_diff (s v) (strip_spans r) with
        | Some (p, u, w) =>
            VBad (stage ++ " roundtrip at " ++ show_path p ++ " : " ++ trunc 200 (show u) ++ " <> " ++ trunc 200 (show w))
        | None =>
            match inv v with
            | Some msg => VViol (stage ++ " " ++ msg)
            | None => VOk ("nt " ++ stage ++ " size" ++ bucket (size v) ++ tags v)
            end
        end
    end.
End Check.

Definition inv_checked (p : fcprog) : option string :=
  if annotated_fcprog p then None else Some "annotation missing after check".
Definition inv_core (p : cprog) : option string :=
  if chi_ok_cprog p then None else Some "chirality/polarity discipline of the Rust types broken".
Definition inv_fs (p : fsprog) : option string :=
  if chi_ok_fsprog p then None else Some "chirality/polarity discipline of the Rust types broken".

Definition readable_ax (x : sexp) : bool :=
  is_some (g_ident x) || is_some (g_chi x) || is_some (g_ty x) || is_some (g_binding x) || is_some (g_ctx x)
  || is_some (g_binop x) || is_some (g_ifsort x) || is_some (g_stmt x) || is_some (g_opt g_ctx x)
  || is_some (g_opt g_ident x) || is_some (g_tydecl x) || is_some (g_def x) || is_some (g_prog x)
  || match x with A "None" => true | L [A "Some"; _] => true | _ => false end.

(* AxCut stages: reader totality only (s_prog is AxSyn's own canonical form); the printed form is
   forced by measuring it *)
Definition check_ax (stage : string) (r : sexp) : verdict :=
  match g_prog r with
  | None => VBad (stage ++ " unreadable " ++ show_bad (first_bad readable_ax r))
  | Some p =>
      if N.eqb (sexp_atoms (s_prog p)) 0 then VBad (stage ++ " empty print")
      else VOk ("nt " ++ stage ++ " size" ++ bucket (size_prog p))
  end.

Definition no_tags {X} (_ : X) : string := "".
Definition no_inv {X} (_ : X) : option string := None.
Definition parsed_tags (p : fprog) : string :=
  if forallb (fun d => match d with
                       | FDData d => match fdaparams d with [] => true | _ => false end
                       | FDCodata d => match fcoparams d with [] => true | _ => false end
                       | FDDef _ => true end) (fpdecls p)
  then " mono" else " poly".

Definition stages_case (i r : sexp) : verdict :=
  match i with
  | L [A stage; Q _] =>
      match r with
      | L (A "ERR" :: _) => VSkip (stage ++ " error")
      | L (A "PANIC" :: _) => VSkip (stage ++ " panic")
      | _ =>
          if String.eqb stage "parsed" then
            check_stage g_fprog s_fprog size_fprog readable_fun no_inv parsed_tags stage r
          else if String.eqb stage "checked" then
            check_stage g_fcprog s_fcprog size_fcprog readable_fun inv_checked no_tags stage r
          else if String.eqb stage "core" || String.eqb stage "uniquified" then
            check_stage g_cprog s_cprog size_cprog readable_core inv_core no_tags stage r
          else if String.eqb stage "focused" then
            check_stage g_fsprog s_fsprog size_fsprog readable_fs inv_fs no_tags stage r
          else if String.eqb stage "shrunk" || String.eqb stage "linearized" then
            check_ax stage r
          else VBad ("unknown stage " ++ stage)
      end
  | _ => VBad "input"
  end.
Definition run_stages : string -> string := run_cases stages_case.
