(* modelrun command "rt": the runtime contract (C20) against the compiled C sources and the real
   into_*_routine.  Cases (harness/src/cmd_rt.rs):
     (print <line> <v>)  "<bytes>" | (CRASH c)            io.c as gcc compiles it for the compiler driver
     (print-asan <line> <v>)  "<bytes>" | (ASAN "kind") | (ASAN-SKIPPED) | (CRASH c)
     (driver-gen <n>)  (same <bool>)                      mirror of generate_c_driver = the real function
     (driver <n> <ret> ("arg" ..))  (run "<stdout>" <status>) | (signal "<stdout>")
     (moves x86|a64 <n>)  ((dst src) ..) | (PANIC)
   Byte strings: printable ASCII, \n, and \xHH for everything else. *)
From Coq Require Import List ZArith NArith String Ascii Bool.
From SCC Require Import Base.Sexp Generated.Constants Model.Runtime Model.RunBase.
Import ListNotations.
Open Scope string_scope.

(* ---------- byte strings ---------- *)
Definition hexval (c : ascii) : option Z :=
  let n := Z.of_N (N_of_ascii c) in
  if ((48 <=? n) && (n <=? 57))%Z then Some (n - 48)%Z
  else if ((65 <=? n) && (n <=? 70))%Z then Some (n - 55)%Z else None.

Fixpoint dec (s : string) : list Z :=
  match s with
  | EmptyString => []
  | String "\"%char (String "x"%char (String h (String l r))) =>
      match hexval h, hexval l with
      | Some a, Some b => (16 * a + b)%Z :: dec r
      | _, _ => 92%Z :: 120%Z :: byte_of_ascii h :: byte_of_ascii l :: dec r
      end
  | String c r => byte_of_ascii c :: dec r
  end.

Definition hexdigit (n : Z) : ascii :=
  ascii_of_N (Z.to_N (if (n <? 10)%Z then 48 + n else 55 + n)%Z).

Fixpoint enc_go (l : list Z) : string :=
  match l with
  | [] => ""
  | b :: r =>
      if (b =? 10)%Z then String "\"%char (String "n"%char (enc_go r))
      else if ((32 <=? b) && (b <=? 126) && negb (b =? 92) && negb (b =? 34))%Z then String (ascii_of_byte b) (enc_go r)
      else String "\"%char (String "x"%char (String (hexdigit (b / 16)) (String (hexdigit (b mod 16)) (enc_go r))))
  end.
Definition enc (l : list Z) : string := String """"%char (enc_go l ++ String """"%char "").

Fixpoint zlist_eqb (a b : list Z) : bool :=
  match a, b with
  | [], [] => true
  | x :: a', y :: b' => (x =? y)%Z && zlist_eqb a' b'
  | _, _ => false
  end.

(* ---------- print_i64 / println_i64 ---------- *)
Definition tail_of (line : bool) : list Z := if line then [10%Z] else [].
Definition spec_print (line : bool) (v : Z) : list Z := (decimal v ++ tail_of line)%list.
Definition model_print (line : bool) (v : Z) : pout := if line then println_i64 v else print_i64 v.

Definition strip_minus (l : list Z) : list Z := match l with 45%Z :: r => r | _ => l end.

Definition classify_print (line : bool) (v : Z) (impl : list Z) : string :=
  let spec := spec_print line v in
  if (v =? - 2 ^ 63)%Z then "print-min-int"
  else if line && zlist_eqb (impl ++ [10%Z])%list spec then "print-newline"
  else if (v <? 0)%Z && zlist_eqb impl (strip_minus spec) then "print-minus"
  else if negb (Nat.eqb (List.length impl) (List.length spec)) then "print-length"
  else "print-digits".

Definition print_tags (line : bool) (v : Z) : string :=
  (if ((v <? -9) || (9 <? v))%Z then "nt " else "") ++
  (if (v <? 0)%Z then "neg" else if (v =? 0)%Z then "zero" else "pos") ++
  " digits" ++ n_to_string (N.of_nat (List.length (decimal (Z.abs v)))) ++
  (if line then " println" else " print").

Definition judge_print (asan : bool) (line : bool) (v : Z) (r : sexp) : verdict :=
  let m := model_print line v in
  let spec := spec_print line v in
  match r with
  | Q s =>
      let impl := dec s in
      if overrun m || negb (fuel_ok m) then
        VViol ("class=print-overrun the model of io.c with MAX_DIGITS_INT=" ++ z_to_string MAX_DIGITS_INT
               ++ " stores outside buf for " ++ z_to_string v)
      else if zlist_eqb impl (bytes m) then VOk (print_tags line v ++ (if asan then " asan" else " plain"))
      else if zlist_eqb impl spec then VDiff (enc (bytes m)) (enc impl)
      else VViol ("class=" ++ classify_print line v impl ++ " " ++ (if line then "println_i64(" else "print_i64(")
                  ++ z_to_string v ++ ") wrote " ++ enc impl ++ " expected " ++ enc spec)
  | L [A "ASAN"; Q kind] =>
      VViol ("class=print-overrun AddressSanitizer: " ++ kind ++ " in " ++ (if line then "println_i64(" else "print_i64(")
             ++ z_to_string v ++ ")")
  | L [A "ASAN-SKIPPED"] => VSkip "sanitizer run stopped after too many reports"
  | L [A "CRASH"; A c] =>
      VViol ("class=print-crash " ++ (if line then "println_i64(" else "print_i64(") ++ z_to_string v ++ ") did not return, exit " ++ c)
  | _ => VBad "print result"
  end.

(* ---------- the driver ---------- *)
Definition stub_main (ret : Z) (args : list Z) : list Z * Z :=
  (List.concat (map (fun a => bytes (println_i64 a)) args), ret).

(* the argument is the decimal representation of an int64 (checked with Coq's parser) *)
(* zero-padded numerals ("0012", "-0012") are decimal too: the padding is dropped before the comparison *)
Fixpoint drop_zeros (l : list Z) : list Z :=
  match l with
  | d :: ((_ :: _) as r) => if (d =? 48)%Z then drop_zeros r else l
  | _ => l
  end.
Definition canon_decimal (a : list Z) : list Z :=
  match a with
  | s :: r => if (s =? 45)%Z then s :: drop_zeros r else drop_zeros a
  | [] => a
  end.
Definition in_domain (a : list Z) : option Z :=
  let c := canon_decimal a in
  match z_of_string (string_of_bytes c) with
  | Some v => if ((- 2 ^ 63 <=? v) && (v <? 2 ^ 63))%Z && zlist_eqb (decimal v) c then Some v else None
  | None => None
  end.

Fixpoint all_some {X} (l : list (option X)) : option (list X) :=
  match l with
  | [] => Some []
  | Some x :: r => match all_some r with Some xs => Some (x :: xs) | None => None end
  | None :: _ => None
  end.

Definition prog_name : list Z := bytes_of_string "prog".

Definition judge_driver (n : nat) (ret : Z) (args : list (list Z)) (r : sexp) : verdict :=
  let res := driver n (stub_main ret) (prog_name :: args) in
  let count_ok := Nat.eqb (List.length args) n in
  let dom := all_some (map in_domain args) in
  let tags := (if count_ok && negb (Nat.eqb n 0) then "nt " else "") ++ "driver n" ++ n_to_string (N.of_nat n)
              ++ (if count_ok then " argc-ok" else " argc-wrong")
              ++ (match dom with Some _ => "" | None => " out-of-domain" end) in
  match r with
  | L [A "run"; Q out; st] =>
      match getZ st with
      | None => VBad "status"
      | Some st =>
          let out := dec out in
          if zlist_eqb out (d_output res) && (st =? d_status res)%Z then VOk tags
          else if negb count_ok then
            if zlist_eqb out error_arguments && (st =? 1)%Z
            then VDiff (enc (d_output res) ++ " " ++ z_to_string (d_status res)) (enc out ++ " " ++ z_to_string st)
            else VViol ("class=argc-check " ++ n_to_string (N.of_nat (List.length args)) ++ " arguments for " ++ n_to_string (N.of_nat n)
                        ++ " parameters: output " ++ enc out ++ " status " ++ z_to_string st)
          else match dom with
               | None => VDiff (enc (d_output res) ++ " " ++ z_to_string (d_status res)) (enc out ++ " " ++ z_to_string st)
               | Some vs =>
                   let spec_out := List.concat (map (fun v => (decimal v ++ [10%Z])%list) vs) in
                   let out32 := List.concat (map (fun v => (decimal (i32_of_bits v) ++ [10%Z])%list) vs) in
                   if negb (zlist_eqb out spec_out) then
                     VViol ("class=" ++ (if zlist_eqb out out32 then "arg-32bit" else "arg-value") ++ " main received " ++ enc out
                            ++ " expected " ++ enc spec_out)
                   else if negb (st =? ret mod 256)%Z then
                     VViol ("class=exit-status result " ++ z_to_string ret ++ " gave status " ++ z_to_string st
                            ++ " expected " ++ z_to_string (ret mod 256))
                   else VDiff (enc (d_output res) ++ " " ++ z_to_string (d_status res)) (enc out ++ " " ++ z_to_string st)
               end
      end
  | L [A "signal"; Q out] => VViol ("class=driver-crash killed by a signal after writing " ++ enc (dec out))
  | _ => VBad "driver result"
  end.

(* ---------- move_arguments ---------- *)
Definition s_moves (o : option (list (Z * Z))) : sexp :=
  match o with
  | Some l => L (map (fun p => L [sZ (fst p); sZ (snd p)]) l)
  | None => L [A "PANIC"]
  end.
Definition g_moves (x : sexp) : option (list (Z * Z)) :=
  getL (fun e => match e with L [d; s] => do d <- getZ d; do s <- getZ s; Some (d, s) | _ => None end) x.

Fixpoint upto (k : nat) : list nat := match k with O => [] | S j => (upto j ++ [j])%list end.

(* executable form of the property: run the moves on a register file of markers *)
Definition moves_ok (x86 : bool) (n : nat) (l : list (Z * Z)) : bool :=
  let rf := exec_moves l (fun r => r) in
  forallb (fun i => if x86 then (rf (x86_param_reg i) =? x86_arg (S i))%Z
                    else (rf (a64_param_reg i) =? Z.of_nat (S i))%Z) (upto n).

Definition judge_moves (x86 : bool) (n : nat) (r : sexp) : verdict :=
  let m := if x86 then x86_move_arguments n else a64_move_arguments n in
  match cmp_sexp (s_moves m) r with
  | VOk _ => VOk ((match m with Some (_ :: _) => "nt " | _ => "" end) ++ "moves " ++ (if x86 then "x86" else "a64")
                  ++ (match m with Some _ => "" | None => " too-many" end))
  | VDiff a b =>
      match g_moves r with
      | Some l => if moves_ok x86 n l then VDiff a b
                  else VViol ("class=move-arguments parameters do not arrive: " ++ b)
      | None => VDiff a b
      end
  | v => v
  end.

(* ---------- dispatch ---------- *)
Definition rt_case (i r : sexp) : verdict :=
  match i with
  | L [A "print"; line; v] =>
      match getB line, getZ v with
      | Some line, Some v => judge_print false line v r
      | _, _ => VBad "print input"
      end
  | L [A "print-asan"; line; v] =>
      match getB line, getZ v with
      | Some line, Some v => judge_print true line v r
      | _, _ => VBad "print input"
      end
  | L [A "driver-gen"; n] =>
      match r with
      | L [A "same"; A "true"] => VOk "driver-gen"
      | _ => VDiff "text substitutions as mirrored in harness/src/cmd_rt.rs" "generate_c_driver produced a different file"
      end
  | L [A "driver"; n; ret; L args] =>
      match getN n, getZ ret, omap getQ args with
      | Some n, Some ret, Some args => judge_driver (N.to_nat n) ret (map dec args) r
      | _, _, _ => VBad "driver input"
      end
  | L [A "moves"; A arch; n] =>
      match getN n with
      | Some n => if String.eqb arch "x86" then judge_moves true (N.to_nat n) r
                  else if String.eqb arch "a64" then judge_moves false (N.to_nat n) r else VBad "arch"
      | None => VBad "moves input"
      end
  | _ => VBad "input"
  end.

Definition run_rt : string -> string := run_cases rt_case.
