(* Functional model of lang/axcut2backend/src/parallel_moves.rs over an abstract ordered type of
   temporaries, with its correctness and termination theorems (generic in the temporaries and in
   the values they hold).  Save/Restore stand for store_temporary/restore_temporary; the
   BTreeMap/BTreeSet are association lists in key order. *)
From Coq Require Import List Bool Arith Lia.
Import ListNotations.

Section PM.
Variable T : Type.
Variable eqb : T -> T -> bool.
Hypothesis eqb_spec : forall a b, reflect (a = b) (eqb a b).
Variable V : Type.

Lemma eqb_refl a : eqb a a = true.
Proof. destruct (eqb_spec a a); congruence. Qed.
Lemma eqb_neq a b : a <> b -> eqb a b = false.
Proof. destruct (eqb_spec a b); congruence. Qed.

(* ---------- trees and emitted pseudo-instructions ---------- *)
Inductive tree := BackEdge | Node (t : T) (cs : list tree).

Section tree_ind2.
  Variable P : tree -> Prop.
  Hypothesis HB : P BackEdge.
  Hypothesis HN : forall t cs, Forall P cs -> P (Node t cs).
  Fixpoint tree_ind2 (tr : tree) : P tr :=
    match tr with
    | BackEdge => HB
    | Node t cs => HN t cs ((fix go (l : list tree) : Forall P l :=
                               match l with [] => Forall_nil _ | c :: r => Forall_cons _ (tree_ind2 c) (go r) end) cs)
    end.
End tree_ind2.

Inductive pinstr := Mov (d s : T) | Save (t : T) | Restore (t : T).

Fixpoint nodes (tr : tree) : list T :=
  match tr with BackEdge => [] | Node t cs => t :: flat_map nodes cs end.
Fixpoint refers_back (tr : tree) : bool :=
  match tr with BackEdge => true | Node _ cs => existsb refers_back cs end.
Fixpoint tree_moves (p : T) (tr : tree) : list pinstr :=
  match tr with BackEdge => [Save p] | Node t cs => flat_map (tree_moves t) cs ++ [Mov t p] end.
Fixpoint edges (p : T) (tr : tree) : list (T * T) :=
  match tr with BackEdge => [] | Node t cs => (p, t) :: flat_map (edges t) cs end.
Fixpoint backs (p : T) (tr : tree) : list T :=
  match tr with BackEdge => [p] | Node t cs => flat_map (backs t) cs end.

(* ---------- semantics ---------- *)
Definition state := ((T -> V) * V)%type.
Definition upd (st : T -> V) (d : T) (v : V) : T -> V := fun x => if eqb x d then v else st x.
Definition step (c : state) (i : pinstr) : state :=
  match i with
  | Mov d s => (upd (fst c) d (fst c s), snd c)
  | Save t => (fst c, fst c t)
  | Restore t => (upd (fst c) t (snd c), snd c)
  end.
Definition exec (is : list pinstr) (c : state) : state := fold_left step is c.
Lemma exec_app a b c : exec (a ++ b) c = exec b (exec a c).
Proof. apply fold_left_app. Qed.
Lemma upd_same st d v : upd st d v d = v.
Proof. unfold upd; now rewrite eqb_refl. Qed.
Lemma upd_other st d v x : x <> d -> upd st d v x = st x.
Proof. intros; unfold upd; now rewrite eqb_neq. Qed.

(* scratch clause: what the scratch holds after running code with back-edge sources [bs] *)
Definition scratch_ok (bs : list T) (st : T -> V) (sc sc' : V) : Prop :=
  match rev bs with [] => sc' = sc | a :: _ => sc' = st a end.

Definition tree_post (p : T) (tr : tree) (c c' : state) : Prop :=
  (forall a b, In (a, b) (edges p tr) -> fst c' b = fst c a) /\
  (forall u, ~ In u (nodes tr) -> fst c' u = fst c u) /\
  scratch_ok (backs p tr) (fst c) (snd c) (snd c').

Definition children_post (t : T) (cs : list tree) (c c' : state) : Prop :=
  (forall a b, In (a, b) (flat_map (edges t) cs) -> fst c' b = fst c a) /\
  (forall u, ~ In u (flat_map nodes cs) -> fst c' u = fst c u) /\
  scratch_ok (flat_map (backs t) cs) (fst c) (snd c) (snd c').

Lemma edges_src p tr a b : In (a, b) (edges p tr) -> a = p \/ In a (nodes tr).
Proof.
  revert p; induction tr as [|t cs IH] using tree_ind2; intros p H; cbn in *; [tauto|].
  destruct H as [H|H]; [inversion H; auto|].
  right. apply in_flat_map in H as (c & Hc & H).
  rewrite Forall_forall in IH. destruct (IH c Hc _ H) as [->|H']; [now left|].
  right. apply in_flat_map. eauto.
Qed.
Lemma edges_dst p tr a b : In (a, b) (edges p tr) -> In b (nodes tr).
Proof.
  revert p; induction tr as [|t cs IH] using tree_ind2; intros p H; cbn in *; [tauto|].
  destruct H as [H|H]; [inversion H; auto|].
  right. apply in_flat_map in H as (c & Hc & H).
  rewrite Forall_forall in IH. apply in_flat_map. eauto.
Qed.
Lemma backs_src p tr a : In a (backs p tr) -> a = p \/ In a (nodes tr).
Proof.
  revert p; induction tr as [|t cs IH] using tree_ind2; intros p H; cbn in *; [intuition congruence|].
  apply in_flat_map in H as (c & Hc & H).
  rewrite Forall_forall in IH. destruct (IH c Hc _ H) as [->|H']; [now right; left|].
  right; right. apply in_flat_map. eauto.
Qed.

Lemma edges_dst_children t cs a b : In (a, b) (flat_map (edges t) cs) -> In b (flat_map nodes cs).
Proof. intros H. apply in_flat_map in H as (c & Hc & H). apply in_flat_map. eauto using edges_dst. Qed.
Lemma NoDup_app_l {A} (l1 l2 : list A) : NoDup (l1 ++ l2) -> NoDup l1.
Proof. induction l1; cbn; intros H; [constructor|]. inversion H; subst. constructor; [rewrite in_app_iff in *; tauto|auto]. Qed.
Lemma NoDup_app_r {A} (l1 l2 : list A) : NoDup (l1 ++ l2) -> NoDup l2.
Proof. induction l1; cbn; intros H; [auto|]. inversion H; auto. Qed.
Lemma NoDup_app_disj {A} (l1 l2 : list A) x : NoDup (l1 ++ l2) -> In x l1 -> In x l2 -> False.
Proof. induction l1; cbn; intros H H1 H2; [tauto|]. inversion H; subst. destruct H1 as [->|H1]; [apply H4; rewrite in_app_iff; tauto|eauto]. Qed.

(* the children of a node, run left to right *)
Lemma children_exec (t : T) (cs : list tree) :
  Forall (fun tr => forall p c, NoDup (nodes tr) -> ~ In p (nodes tr) ->
                                tree_post p tr c (exec (tree_moves p tr) c)) cs ->
  forall c, NoDup (flat_map nodes cs) -> ~ In t (flat_map nodes cs) ->
            children_post t cs c (exec (flat_map (tree_moves t) cs) c).
Proof.
  induction 1 as [|tr cs Htr _ IH]; intros c ND Ht.
  - cbn. repeat split; cbn; auto; tauto.
  - cbn [flat_map] in *. rewrite exec_app.
    assert (ND1 := NoDup_app_l _ _ ND). assert (ND2 := NoDup_app_r _ _ ND).
    rewrite in_app_iff in Ht.
    specialize (Htr t c ND1 ltac:(tauto)). set (c1 := exec (tree_moves t tr) c) in *.
    specialize (IH c1 ND2 ltac:(tauto)). set (c2 := exec _ c1) in *.
    destruct Htr as (E1 & U1 & S1). destruct IH as (E2 & U2 & S2).
    repeat split.
    + intros a b H. apply in_app_iff in H as [H|H].
      * (* edge of the first child: done by it, untouched afterwards *)
        rewrite U2; [now apply E1|]. intro Hb. eapply NoDup_app_disj; eauto using edges_dst.
      * (* edge of a later child: its source was not touched by the first child *)
        rewrite (E2 _ _ H). apply U1. intro Ha.
        apply in_flat_map in H as (c0 & Hc0 & H). apply edges_src in H as [->|H]; [tauto|].
        eapply NoDup_app_disj; eauto. apply in_flat_map; eauto.
    + intros u Hu. cbn [flat_map] in Hu. rewrite in_app_iff in Hu. rewrite U2, U1; tauto.
    + (* scratch *)
      unfold scratch_ok in *. cbn [flat_map]. rewrite rev_app_distr.
      destruct (rev (flat_map (backs t) cs)) as [|a' l'] eqn:B2; cbn [app].
      * destruct (rev (backs t tr)); congruence.
      * rewrite S2. apply U1. intro Ha.
        assert (In a' (flat_map (backs t) cs)) as Hin by (apply in_rev; rewrite B2; now left).
        apply in_flat_map in Hin as (c0 & Hc0 & Hin). apply backs_src in Hin as [->|Hin]; [tauto|].
        eapply NoDup_app_disj; eauto. apply in_flat_map; eauto.
Qed.

Lemma tree_exec tr : forall p c, NoDup (nodes tr) -> ~ In p (nodes tr) ->
  tree_post p tr c (exec (tree_moves p tr) c).
Proof.
  induction tr as [|t cs IH] using tree_ind2; intros p c ND Hp.
  - cbn. repeat split; cbn; auto; tauto.
  - cbn [tree_moves nodes edges backs] in *. rewrite exec_app.
    inversion ND as [|? ? Ht ND']; subst.
    destruct (children_exec t cs IH c ND' Ht) as (E & U & S).
    set (c1 := exec _ c) in *. cbn [exec fold_left step].
    assert (t <> p) as Htp by (intro; subst; apply Hp; now left).
    repeat split; cbn [fst snd].
    + intros a b [H|H].
      * inversion H; subst. rewrite upd_same. apply U. intro; apply Hp; now right.
      * assert (b <> t) by (intro; subst; apply Ht; eapply edges_dst_children; eauto).
        rewrite upd_other by auto. now apply E.
    + intros u Hu. assert (u <> t) by (intro; subst; apply Hu; now left).
      rewrite upd_other by auto. apply U. intro; apply Hu; now right.
    + exact S.
Qed.

(* ================= the algorithm ================= *)
Definition amap := list (T * list T).
Fixpoint lookup (m : amap) (k : T) : option (list T) :=
  match m with [] => None | (k', ts) :: r => if eqb k k' then Some ts else lookup r k end.
Definition mem (x : T) (l : list T) : bool := existsb (eqb x) l.
Lemma mem_In x l : mem x l = true <-> In x l.
Proof. unfold mem. rewrite existsb_exists. split.
  - intros (y & Hy & E). destruct (eqb_spec x y); congruence.
  - intros H; exists x; split; auto using eqb_refl. Qed.

Fixpoint mapM {A B} (f : A -> option B) (l : list A) : option (list B) :=
  match l with [] => Some [] | x :: r =>
    match f x, mapM f r with Some y, Some ys => Some (y :: ys) | _, _ => None end end.

Fixpoint spanning_tree (fuel : nat) (pm : amap) (r n : T) : option tree :=
  match fuel with O => None | S f =>
    if eqb r n then Some BackEdge else
    match lookup pm n with
    | Some ts => option_map (Node n) (mapM (spanning_tree f pm r) ts)
    | None => Some (Node n [])
    end end.

Inductive root := StartNode (t : T) (cs : list tree).
Definition visited_by (r : root) : list T :=
  match r with StartNode t cs => (if existsb refers_back cs then [t] else []) ++ flat_map nodes cs end.
Definition delete_targets (D : list T) (pm : amap) : amap :=
  map (fun kt => (fst kt, filter (fun t => negb (mem t D)) (snd kt))) pm.
Definition remove1 (k : T) (l : list T) := filter (fun t => negb (eqb t k)) l.

Definition root_for (fuel : nat) (pm : amap) (k : T) : option root :=
  match lookup pm k with
  | None => None
  | Some ts => option_map (StartNode k) (mapM (spanning_tree fuel pm k) (remove1 k ts))
  end.
Fixpoint forest_loop (fuel : nat) (keys : list T) (pm : amap) : option (list root) :=
  match keys with [] => Some [] | k :: ks =>
    match root_for fuel pm k with None => None | Some r =>
      match forest_loop fuel ks (delete_targets (visited_by r) pm) with
      | None => None | Some rs => Some (r :: rs) end end end.
Definition spanning_forest (fuel : nat) (A : amap) := forest_loop fuel (map fst A) A.

Definition root_moves (r : root) : list pinstr :=
  match r with StartNode t cs =>
    flat_map (tree_moves t) cs ++ (if existsb refers_back cs then [Restore t] else []) end.
Definition parallel_moves (fuel : nat) (A : amap) : option (list pinstr) :=
  option_map (flat_map root_moves) (spanning_forest fuel A).

(* ================= graph facts ================= *)
Definition edge (pm : amap) (a b : T) : Prop := exists ts, lookup pm a = Some ts /\ In b ts.
Definition indeg1 (pm : amap) : Prop := forall a a' b, edge pm a b -> edge pm a' b -> a = a'.
Definition nodup_targets (pm : amap) : Prop := forall a ts, lookup pm a = Some ts -> NoDup ts.

(* reversed paths: x :: p1 :: p2 ... with edges p1->x, p2->p1, ... *)
Fixpoint rpath (pm : amap) (l : list T) : Prop :=
  match l with
  | x :: ((y :: _) as tl) => edge pm y x /\ rpath pm tl
  | _ => True
  end.
Lemma rpath_cons pm x y l : rpath pm (x :: y :: l) <-> edge pm y x /\ rpath pm (y :: l).
Proof. reflexivity. Qed.
Lemma rpath_app_r pm l1 l2 : rpath pm (l1 ++ l2) -> rpath pm l2.
Proof. induction l1 as [|x l1 IH]; cbn [app]; auto. destruct l1 as [|y l1]; cbn [app] in *.
  - destruct l2; cbn; tauto.
  - intros [_ H]. auto. Qed.
Lemma rpath_app_l pm l1 l2 : rpath pm (l1 ++ l2) -> rpath pm l1.
Proof. induction l1 as [|x l1 IH]; cbn [app]; [cbn; auto|]. destruct l1 as [|y l1]; cbn [app] in *; [cbn; auto|].
  intros [E H]. split; auto. Qed.
Lemma rpath_join pm l1 x l2 : rpath pm (l1 ++ [x]) -> rpath pm (x :: l2) -> rpath pm (l1 ++ x :: l2).
Proof. induction l1 as [|a l1 IH]; cbn [app]; auto. destruct l1 as [|b l1]; cbn [app] in *.
  - intros [E _] H. split; auto.
  - intros [E H1] H2. split; auto. Qed.

(* two backward paths from the same node: one extends the other *)
Lemma rpath_prefix pm (ID : indeg1 pm) x : forall l1 l2, rpath pm (x :: l1) -> rpath pm (x :: l2) ->
  length l1 <= length l2 -> exists l3, l2 = l1 ++ l3.
Proof.
  intros l1; revert x; induction l1 as [|y l1 IH]; intros x l2 H1 H2 L; [eexists; reflexivity|].
  destruct l2 as [|y' l2]; cbn in L; [lia|].
  destruct H1 as [E1 H1], H2 as [E2 H2]. assert (y = y') by (eapply ID; eauto). subst y'.
  destruct (IH y l2 H1 H2 ltac:(lia)) as (l3 & ->). eexists; reflexivity.
Qed.

(* a node that has a backward path to r (r only at the end) is not on a cycle avoiding r *)
Lemma no_cycle pm (ID : indeg1 pm) r : forall s n,
  rpath pm (n :: s ++ [r]) -> ~ In r (n :: s) ->
  forall l, rpath pm (n :: l ++ [n]) -> ~ In r (n :: l) -> False.
Proof.
  induction s as [|q s IH]; intros n HR Hr l HC Hl.
  - cbn [app] in HR. destruct HR as [E _].
    destruct l as [|c l]; cbn [app] in HC; destruct HC as [E' _].
    + assert (r = n) by (eapply ID; eauto). subst. apply Hr; now left.
    + assert (r = c) by (eapply ID; eauto). subst. apply Hl; right; now left.
  - cbn [app] in HR. destruct HR as [E HR].
    assert (~ In r (q :: s)) as Hq by (intro; apply Hr; now right).
    destruct l as [|c l]; cbn [app] in HC.
    + destruct HC as [E' _]. assert (q = n) by (eapply ID; eauto). subst q.
      apply (IH n HR Hq []); cbn; auto. 
    + destruct HC as [E' HC]. assert (q = c) by (eapply ID; eauto). subst c.
      apply (IH q HR Hq (l ++ [n])).
      * rewrite <- app_assoc. apply (rpath_join pm (q :: l) n [q]); [exact HC|cbn; auto].
      * intros [H|H]; [apply Hq; now left|]. apply in_app_iff in H as [H|[H|[]]].
        -- apply Hl; right; now right.
        -- subst. apply Hl; now left.
Qed.

Lemma snoc_cases {A} (l : list A) : l = [] \/ exists l' a, l = l' ++ [a].
Proof. induction l as [|x l IH] using rev_ind; [now left|right; eauto]. Qed.

(* desc n x c :  x :: c  is a backward path from x up to n, never touching r *)
Inductive desc (pm : amap) (r n : T) : T -> list T -> Prop :=
| desc_refl : n <> r -> desc pm r n n []
| desc_step x y c : desc pm r n y c -> edge pm y x -> x <> r -> desc pm r n x (y :: c).

Lemma desc_rpath pm r n x c : desc pm r n x c -> rpath pm (x :: c).
Proof. induction 1; cbn; auto. Qed.
Lemma desc_avoid pm r n x c : desc pm r n x c -> ~ In r (x :: c).
Proof. induction 1; cbn in *; intuition congruence. Qed.
Lemma desc_shape pm r n x c : desc pm r n x c -> (c = [] /\ x = n) \/ exists c', c = c' ++ [n].
Proof. induction 1 as [|x y c H IH E Hx]; [now left|]. right.
  destruct IH as [[-> ->]|(c' & ->)]; [exists []; reflexivity|exists (y :: c'); reflexivity]. Qed.
Lemma desc_snoc pm r t n x c : desc pm r t x c -> edge pm n t -> n <> r -> desc pm r n x (c ++ [n]).
Proof. induction 1 as [Ht|x y c H IH E Hx]; intros En Hn; cbn [app].
  - apply desc_step; [now apply desc_refl|assumption|assumption].
  - apply desc_step; auto. Qed.

Lemma mapM_Forall2 {A B} (f : A -> option B) l ys : mapM f l = Some ys -> Forall2 (fun x y => f x = Some y) l ys.
Proof. revert ys; induction l as [|x l IH]; cbn; intros ys H; [inversion H; constructor|].
  destruct (f x) eqn:E; [|discriminate]. destruct (mapM f l); [|discriminate]. inversion H; subst. constructor; auto. Qed.

(* every node of a spanning tree hangs below its top node *)
Lemma st_nodes_desc pm r : forall fuel n tr, spanning_tree fuel pm r n = Some tr ->
  forall x, In x (nodes tr) -> exists c, desc pm r n x c.
Proof.
  induction fuel as [|f IH]; intros n tr H x Hx; [discriminate|]. cbn in H.
  destruct (eqb_spec r n) as [->|Hrn]; [inversion H; subst; contradiction|].
  destruct (lookup pm n) as [ts|] eqn:L.
  - destruct (mapM (spanning_tree f pm r) ts) as [cs|] eqn:M; [|discriminate]. inversion H; subst; clear H.
    destruct Hx as [->|Hx]; [exists []; constructor; congruence|].
    apply in_flat_map in Hx as (c0 & Hc0 & Hx).
    apply mapM_Forall2 in M.
    assert (exists t, In t ts /\ spanning_tree f pm r t = Some c0) as (t & Ht & Hst).
    { clear -M Hc0. induction M; cbn in *; [tauto|]. destruct Hc0 as [->|Hc0]; [eauto|].
      destruct (IHM Hc0) as (t & ? & ?); eauto. }
    destruct (IH _ _ Hst _ Hx) as (c & Hc).
    exists (c ++ [n]). apply (desc_snoc pm r t n x c Hc); [exists ts; auto|congruence].
  - inversion H; subst. destruct Hx as [->|[]]. exists []; constructor; congruence.
Qed.

(* a node with a root path is not its own strict descendant *)
Lemma not_own_desc pm (ID : indeg1 pm) r n s t c :
  rpath pm (n :: s ++ [r]) -> ~ In r (n :: s) -> edge pm n t -> desc pm r t n c -> False.
Proof.
  intros HR Hr E D.
  assert (A := desc_avoid _ _ _ _ _ D). assert (P := desc_rpath _ _ _ _ _ D).
  destruct (desc_shape _ _ _ _ _ D) as [[-> Ent]|(c' & ->)].
  - subst t. apply (no_cycle pm ID r s n HR Hr []); cbn; auto.
  - apply (no_cycle pm ID r s n HR Hr (c' ++ [t])).
    + rewrite <- app_assoc. apply (rpath_join pm (n :: c') t [n]); [exact P|cbn; auto].
    + exact A.
Qed.

(* two different children of n have disjoint descendants *)
Lemma children_disjoint pm (ID : indeg1 pm) r n s t1 t2 x c1 c2 :
  rpath pm (n :: s ++ [r]) -> ~ In r (n :: s) -> edge pm n t1 -> edge pm n t2 -> t1 <> t2 ->
  desc pm r t1 x c1 -> desc pm r t2 x c2 -> length c1 <= length c2 -> False.
Proof.
  intros HR Hr E1 E2 Ht D1 D2 L.
  destruct (rpath_prefix pm ID x c1 c2 (desc_rpath _ _ _ _ _ D1) (desc_rpath _ _ _ _ _ D2) L) as (c3 & ->).
  assert (P2 := desc_rpath _ _ _ _ _ D2). assert (A2 := desc_avoid _ _ _ _ _ D2).
  destruct c3 as [|y c3].
  - (* same chain: same end *)
    rewrite app_nil_r in *.
    destruct (desc_shape _ _ _ _ _ D1) as [[-> ->]|(c' & ->)], (desc_shape _ _ _ _ _ D2) as [[E ->]|(c'' & E)]; try congruence.
    + destruct c''; discriminate.
    + destruct c'; discriminate.
    + apply app_inj_tail in E as [_ ?]; congruence.
  - (* chain 2 continues above t1: the next node is n, so n lies below t2 *)
    assert (y = n /\ rpath pm (n :: c3)) as [-> P3].
    { destruct (desc_shape _ _ _ _ _ D1) as [[-> ->]|(c' & ->)].
      - cbn [app] in P2. destruct P2 as [E P2]. split; [eapply ID; eauto|]. 
        assert (y = n) by (eapply ID; eauto). subst. exact P2.
      - rewrite <- app_assoc in P2. cbn [app] in P2.
        change (x :: c' ++ t1 :: y :: c3) with ((x :: c') ++ t1 :: y :: c3) in P2.
        apply rpath_app_r in P2. destruct P2 as [E P2].
        assert (y = n) by (eapply ID; eauto). subst. auto. }
    assert (~ In r (n :: c3)) as A3.
    { intro H. apply A2. right. apply in_app_iff. right. exact H. }
    destruct (desc_shape _ _ _ _ _ D2) as [[E _]|(c'' & E)]; [destruct c1; discriminate|].
    (* last of c1 ++ n :: c3 is t2 *)
    destruct (snoc_cases c3) as [->|(l4 & z & ->)].
    + change (c1 ++ [n]) with (c1 ++ [n]) in E. apply app_inj_tail in E as [_ ?]. subst t2.
      apply (no_cycle pm ID r s n HR Hr []); cbn; auto.
    + assert (z = t2).
      { change (c1 ++ n :: l4 ++ [z]) with (c1 ++ (n :: l4) ++ [z]) in E. rewrite app_assoc in E.
        apply app_inj_tail in E as [_ ?]; auto. }
      subst z. apply (no_cycle pm ID r s n HR Hr (l4 ++ [t2])).
      * rewrite <- app_assoc. apply (rpath_join pm (n :: l4) t2 [n]); [exact P3|cbn; auto].
      * exact A3.
Qed.

Lemma NoDup_app_intro {A} (l1 l2 : list A) :
  NoDup l1 -> NoDup l2 -> (forall x, In x l1 -> In x l2 -> False) -> NoDup (l1 ++ l2).
Proof. induction l1 as [|a l1 IH]; cbn; intros H1 H2 D; auto. inversion H1; subst.
  constructor; [rewrite in_app_iff; intros [?|?]; [tauto|eapply D; eauto]|apply IH; eauto]. Qed.

Lemma st_top pm r fuel n tr : spanning_tree fuel pm r n = Some tr -> n <> r -> In n (nodes tr).
Proof. destruct fuel; cbn; [discriminate|]. intros H Hn. destruct (eqb_spec r n); [congruence|].
  destruct (lookup pm n); [destruct (mapM _ _); [|discriminate]|]; inversion H; subst; now left. Qed.
Lemma st_root pm r fuel tr : spanning_tree fuel pm r r = Some tr -> tr = BackEdge.
Proof. destruct fuel; cbn; [discriminate|]. rewrite eqb_refl. congruence. Qed.

Lemma in_Forall2_l {A B} (R : A -> B -> Prop) l l' y : Forall2 R l l' -> In y l' -> exists x, In x l /\ R x y.
Proof. induction 1; cbn; [tauto|]. intros [->|H']; [eauto|]. destruct (IHForall2 H') as (z & ? & ?); eauto. Qed.
Lemma in_Forall2_r {A B} (R : A -> B -> Prop) l l' x : Forall2 R l l' -> In x l -> exists y, In y l' /\ R x y.
Proof. induction 1; cbn; [tauto|]. intros [->|H']; [eauto|]. destruct (IHForall2 H') as (z & ? & ?); eauto. Qed.

(* children of one parent: node lists are duplicate free, given pairwise disjointness of descendants *)
Lemma children_nodup pm r f (ts : list T) cs :
  Forall2 (fun t c => spanning_tree f pm r t = Some c) ts cs -> NoDup ts ->
  (forall t c, In t ts -> spanning_tree f pm r t = Some c -> NoDup (nodes c)) ->
  (forall t1 t2 x c1 c2, In t1 ts -> In t2 ts -> t1 <> t2 -> desc pm r t1 x c1 -> desc pm r t2 x c2 -> False) ->
  NoDup (flat_map nodes cs).
Proof.
  induction 1 as [|t c ts cs Hc M IH]; intros ND Hone Hdis; cbn [flat_map]; [constructor|].
  inversion ND as [|? ? Hnin ND']; subst.
  apply NoDup_app_intro.
  - eapply Hone; eauto. now left.
  - apply IH; auto.
    + intros; eapply Hone; eauto. now right.
    + intros t1 t2 x c1 c2 H1 H2; apply Hdis; now right.
  - intros x Hx1 Hx2. apply in_flat_map in Hx2 as (c' & Hc' & Hx2).
    destruct (in_Forall2_l _ _ _ _ M Hc') as (t' & Ht' & Hst').
    destruct (st_nodes_desc _ _ _ _ _ Hc _ Hx1) as (c1 & D1).
    destruct (st_nodes_desc _ _ _ _ _ Hst' _ Hx2) as (c2 & D2).
    apply (Hdis t t' x c1 c2); auto; [now left|now right|]. intros ->. contradiction.
Qed.

Lemma st_nodup pm (ID : indeg1 pm) (NT : nodup_targets pm) r : forall fuel n s tr,
  spanning_tree fuel pm r n = Some tr -> n <> r ->
  rpath pm (n :: s ++ [r]) -> ~ In r (n :: s) -> NoDup (nodes tr).
Proof.
  induction fuel as [|f IH]; intros n s tr H Hn HR Hr; [discriminate|]. cbn in H.
  destruct (eqb_spec r n) as [|_]; [congruence|].
  destruct (lookup pm n) as [ts|] eqn:L; [|inversion H; subst; cbn; constructor; [tauto|constructor]].
  destruct (mapM (spanning_tree f pm r) ts) as [cs|] eqn:M; [|discriminate]. inversion H; subst; clear H.
  apply mapM_Forall2 in M. cbn [nodes].
  assert (forall t, In t ts -> edge pm n t) as Hedge by (intros; exists ts; auto).
  constructor.
  - intros Hin. apply in_flat_map in Hin as (c0 & Hc0 & Hin).
    destruct (in_Forall2_l _ _ _ _ M Hc0) as (t & Ht & Hst).
    destruct (st_nodes_desc _ _ _ _ _ Hst _ Hin) as (c & D).
    eapply not_own_desc; eauto.
  - eapply children_nodup; eauto.
    + intros t c Ht Hst. destruct (eqb_spec t r) as [->|Htr].
      * apply st_root in Hst. subst. constructor.
      * apply (IH t (n :: s) c Hst Htr).
        -- cbn [app]. split; auto.
        -- intros [?|?]; [congruence|tauto].
    + intros t1 t2 x c1 c2 H1 H2 Hne D1 D2.
      destruct (le_ge_dec (length c1) (length c2)).
      * eapply (children_disjoint pm ID r n s t1 t2); eauto.
      * eapply (children_disjoint pm ID r n s t2 t1); eauto.
Qed.

(* ================= root level ================= *)
Lemma tree_exec_all cs : Forall (fun tr => forall p c, NoDup (nodes tr) -> ~ In p (nodes tr) ->
                                tree_post p tr c (exec (tree_moves p tr) c)) cs.
Proof. apply Forall_forall; intros; now apply tree_exec. Qed.

Lemma refers_back_backs tr p : refers_back tr = true <-> backs p tr <> [].
Proof.
  revert p; induction tr as [|t cs IH] using tree_ind2; intros p; cbn; [split; [discriminate|auto]|].
  rewrite existsb_exists. rewrite Forall_forall in IH. split.
  - intros (c & Hc & H). apply (IH c Hc t) in H. intro E. apply H.
    destruct (backs t c) eqn:B; auto. exfalso.
    assert (In t0 (flat_map (backs t) cs)) by (apply in_flat_map; exists c; split; auto; rewrite B; now left).
    rewrite E in H0; contradiction.
  - intros H. destruct (flat_map (backs t) cs) as [|a l] eqn:E; [congruence|].
    assert (In a (flat_map (backs t) cs)) as Hin by (rewrite E; now left).
    apply in_flat_map in Hin as (c & Hc & Hin). exists c; split; auto. apply (IH c Hc t). intro B; rewrite B in Hin; contradiction.
Qed.
Lemma existsb_backs t cs : existsb refers_back cs = true <-> flat_map (backs t) cs <> [].
Proof. apply (refers_back_backs (Node t cs) t). Qed.

Lemma root_exec k cs c : NoDup (flat_map nodes cs) -> ~ In k (flat_map nodes cs) ->
  let c' := exec (root_moves (StartNode k cs)) c in
  (forall a b, In (a, b) (flat_map (edges k) cs) -> fst c' b = fst c a) /\
  (forall a, hd_error (rev (flat_map (backs k) cs)) = Some a -> fst c' k = fst c a) /\
  (forall u, ~ In u (flat_map nodes cs) -> (u <> k \/ flat_map (backs k) cs = []) -> fst c' u = fst c u).
Proof.
  intros ND Hk. cbn [root_moves]. rewrite exec_app.
  destruct (children_exec k cs (tree_exec_all cs) c ND Hk) as (E & U & S).
  set (c1 := exec _ c) in *. unfold scratch_ok in S.
  destruct (existsb refers_back cs) eqn:RB.
  - apply existsb_backs with (t := k) in RB. cbn [exec fold_left step fst snd]. repeat split.
    + intros a b H. assert (b <> k) by (intro; subst; apply Hk; eapply edges_dst_children; eauto).
      rewrite upd_other by auto. now apply E.
    + intros a Ha. rewrite upd_same. destruct (rev (flat_map (backs k) cs)); cbn in Ha; [discriminate|].
      inversion Ha; subst. exact S.
    + intros u Hu [Hne|Hb]; [|congruence]. rewrite upd_other by auto. now apply U.
  - assert (flat_map (backs k) cs = []) as B.
    { destruct (flat_map (backs k) cs) eqn:B; auto. exfalso.
      assert (existsb refers_back cs = true) by (apply (existsb_backs k); congruence). congruence. }
    cbn [exec fold_left]. repeat split.
    + exact E.
    + rewrite B; cbn; discriminate.
    + intros u Hu _. now apply U.
Qed.

(* ================= what a spanning tree contains ================= *)
Lemma lookup_edge pm n ts b : lookup pm n = Some ts -> In b ts -> edge pm n b.
Proof. intros; exists ts; auto. Qed.
Lemma edge_lookup pm n ts b : lookup pm n = Some ts -> edge pm n b -> In b ts.
Proof. intros L (ts' & L' & H). congruence. Qed.

Lemma st_complete pm r : forall fuel n tr, spanning_tree fuel pm r n = Some tr ->
  forall a b, In a (nodes tr) -> edge pm a b -> b = r \/ In b (nodes tr).
Proof.
  induction fuel as [|f IH]; intros n tr H a b Ha E; [discriminate|]. cbn in H.
  destruct (eqb_spec r n) as [|_]; [inversion H; subst; contradiction|].
  destruct (lookup pm n) as [ts|] eqn:L.
  - destruct (mapM (spanning_tree f pm r) ts) as [cs|] eqn:M; [|discriminate]. inversion H; subst; clear H.
    apply mapM_Forall2 in M. cbn [nodes] in *. destruct Ha as [->|Ha].
    + pose proof (edge_lookup _ _ _ _ L E) as Hb.
      destruct (in_Forall2_r _ _ _ _ M Hb) as (cb & Hcb & Hst).
      destruct (eqb_spec b r) as [->|Hbr]; [now left|]. right; right.
      apply in_flat_map. exists cb; split; auto. eapply st_top; eauto.
    + apply in_flat_map in Ha as (c0 & Hc0 & Ha).
      destruct (in_Forall2_l _ _ _ _ M Hc0) as (t & Ht & Hst).
      destruct (IH _ _ Hst _ _ Ha E) as [->|Hb]; [now left|]. right; right. apply in_flat_map; eauto.
  - inversion H; subst. destruct Ha as [->|[]]. destruct E as (ts & L' & _). congruence.
Qed.

Lemma st_edges pm r : forall fuel n tr p, spanning_tree fuel pm r n = Some tr -> edge pm p n ->
  (forall a b, In (a, b) (edges p tr) -> edge pm a b) /\ (forall a, In a (backs p tr) -> edge pm a r).
Proof.
  induction fuel as [|f IH]; intros n tr p H Ep; [discriminate|]. cbn in H.
  destruct (eqb_spec r n) as [->|_].
  { inversion H; subst. cbn. split; [tauto|]. intros a [->|[]]; auto. }
  destruct (lookup pm n) as [ts|] eqn:L.
  - destruct (mapM (spanning_tree f pm r) ts) as [cs|] eqn:M; [|discriminate]. inversion H; subst; clear H.
    apply mapM_Forall2 in M. cbn [edges backs]. split.
    + intros a b [Hab|Hab]; [inversion Hab; subst; auto|].
      apply in_flat_map in Hab as (c0 & Hc0 & Hab).
      destruct (in_Forall2_l _ _ _ _ M Hc0) as (t & Ht & Hst).
      eapply (proj1 (IH _ _ n Hst (lookup_edge _ _ _ _ L Ht))); eauto.
    + intros a Ha. apply in_flat_map in Ha as (c0 & Hc0 & Ha).
      destruct (in_Forall2_l _ _ _ _ M Hc0) as (t & Ht & Hst).
      eapply (proj2 (IH _ _ n Hst (lookup_edge _ _ _ _ L Ht))); eauto.
  - inversion H; subst. cbn. split; [|tauto]. intros a b [Hab|[]]. inversion Hab; subst; auto.
Qed.

Lemma nodes_have_edges tr : forall p b, In b (nodes tr) -> exists a, In (a, b) (edges p tr).
Proof.
  induction tr as [|t cs IH] using tree_ind2; intros p b Hb; cbn in *; [contradiction|].
  destruct Hb as [->|Hb]; [exists p; now left|].
  apply in_flat_map in Hb as (c0 & Hc0 & Hb). rewrite Forall_forall in IH.
  destruct (IH c0 Hc0 t b Hb) as (a & Ha). exists a. right. apply in_flat_map; eauto.
Qed.

(* ================= the root of a spanning tree ================= *)
Lemma remove1_In k l x : In x (remove1 k l) <-> In x l /\ x <> k.
Proof. unfold remove1. rewrite filter_In. destruct (eqb_spec x k); cbn; intuition congruence. Qed.
Lemma NoDup_filter {A} (f : A -> bool) l : NoDup l -> NoDup (filter f l).
Proof. induction 1; cbn; [constructor|]. destruct (f x); auto. constructor; auto. rewrite filter_In; tauto. Qed.

Lemma root_children_disjoint pm (ID : indeg1 pm) r t1 t2 x c1 c2 :
  edge pm r t1 -> t1 <> t2 -> desc pm r t1 x c1 -> desc pm r t2 x c2 -> length c1 <= length c2 -> False.
Proof.
  intros E1 Ht D1 D2 L.
  destruct (rpath_prefix pm ID x c1 c2 (desc_rpath _ _ _ _ _ D1) (desc_rpath _ _ _ _ _ D2) L) as (c3 & ->).
  assert (P2 := desc_rpath _ _ _ _ _ D2). assert (A2 := desc_avoid _ _ _ _ _ D2).
  destruct c3 as [|y c3].
  - rewrite app_nil_r in *.
    destruct (desc_shape _ _ _ _ _ D1) as [[-> ->]|(c' & ->)], (desc_shape _ _ _ _ _ D2) as [[E ->]|(c'' & E)]; try congruence.
    + destruct c''; discriminate.
    + destruct c'; discriminate.
    + apply app_inj_tail in E as [_ ?]; congruence.
  - assert (y = r).
    { destruct (desc_shape _ _ _ _ _ D1) as [[-> ->]|(c' & ->)].
      - cbn [app] in P2. destruct P2 as [E _]. eapply ID; eauto.
      - rewrite <- app_assoc in P2. cbn [app] in P2.
        change (x :: c' ++ t1 :: y :: c3) with ((x :: c') ++ t1 :: y :: c3) in P2.
        apply rpath_app_r in P2. destruct P2 as [E _]. eapply ID; eauto. }
    subst y. apply A2. right. apply in_app_iff. right. now left.
Qed.

Lemma root_for_spec pm (ID : indeg1 pm) (NT : nodup_targets pm) fuel k cs :
  root_for fuel pm k = Some (StartNode k cs) ->
  NoDup (flat_map nodes cs) /\ ~ In k (flat_map nodes cs) /\
  (forall a b, In (a, b) (flat_map (edges k) cs) -> edge pm a b) /\
  (forall a, In a (flat_map (backs k) cs) -> edge pm a k) /\
  (forall b, edge pm k b -> b = k \/ In b (flat_map nodes cs)) /\
  (forall a b, In a (flat_map nodes cs) -> edge pm a b -> b = k \/ In b (flat_map nodes cs)).
Proof.
  unfold root_for. destruct (lookup pm k) as [ts|] eqn:L; [|discriminate].
  destruct (mapM _ _) as [cs'|] eqn:M; [|discriminate]. intros H; inversion H; subst cs'; clear H.
  apply mapM_Forall2 in M.
  assert (forall t, In t (remove1 k ts) -> edge pm k t /\ t <> k) as Hts.
  { intros t Ht. apply remove1_In in Ht as [? ?]. split; auto. exists ts; auto. }
  repeat split.
  - eapply children_nodup; eauto.
    + apply NoDup_filter. eauto.
    + intros t c Ht Hst. destruct (Hts t Ht) as [E Hne].
      apply (st_nodup pm ID NT k fuel t [] c Hst Hne); cbn; auto. intros [?|[]]; congruence.
    + intros t1 t2 x c1 c2 H1 H2 Hne D1 D2. destruct (Hts t1 H1) as [E1 _], (Hts t2 H2) as [E2 _].
      destruct (le_ge_dec (length c1) (length c2)).
      * eapply (root_children_disjoint pm ID k t1 t2); eauto.
      * eapply (root_children_disjoint pm ID k t2 t1); eauto.
  - intros Hin. apply in_flat_map in Hin as (c0 & Hc0 & Hin).
    destruct (in_Forall2_l _ _ _ _ M Hc0) as (t & Ht & Hst).
    destruct (st_nodes_desc _ _ _ _ _ Hst _ Hin) as (c & D). apply (desc_avoid _ _ _ _ _ D). now left.
  - intros a b Hab. apply in_flat_map in Hab as (c0 & Hc0 & Hab).
    destruct (in_Forall2_l _ _ _ _ M Hc0) as (t & Ht & Hst).
    eapply (proj1 (st_edges pm k _ _ _ k Hst (proj1 (Hts t Ht)))); eauto.
  - intros a Ha. apply in_flat_map in Ha as (c0 & Hc0 & Ha).
    destruct (in_Forall2_l _ _ _ _ M Hc0) as (t & Ht & Hst).
    eapply (proj2 (st_edges pm k _ _ _ k Hst (proj1 (Hts t Ht)))); eauto.
  - intros b E. destruct (eqb_spec b k) as [|Hne]; [now left|]. right.
    assert (In b (remove1 k ts)) as Hb by (apply remove1_In; split; auto; eapply edge_lookup; eauto).
    destruct (in_Forall2_r _ _ _ _ M Hb) as (cb & Hcb & Hst).
    apply in_flat_map. exists cb; split; auto. eapply st_top; eauto.
  - intros a b Ha E. apply in_flat_map in Ha as (c0 & Hc0 & Ha).
    destruct (in_Forall2_l _ _ _ _ M Hc0) as (t & Ht & Hst).
    destruct (st_complete pm k _ _ _ Hst _ _ Ha E) as [->|Hb]; [now left|]. right. apply in_flat_map; eauto.
Qed.

(* ================= deleting performed moves ================= *)
Lemma lookup_delete D pm a : lookup (delete_targets D pm) a = option_map (filter (fun t => negb (mem t D))) (lookup pm a).
Proof. induction pm as [|[k ts] pm IH]; cbn; auto. destruct (eqb a k); auto. Qed.
Lemma edge_delete D pm a b : edge (delete_targets D pm) a b <-> edge pm a b /\ ~ In b D.
Proof.
  unfold edge. rewrite lookup_delete. split.
  - intros (ts & L & H). destruct (lookup pm a) as [ts0|]; [|discriminate]. inversion L; subst.
    apply filter_In in H as [H1 H2]. split; [eauto|]. intro HD. apply mem_In in HD. rewrite HD in H2. discriminate.
  - intros ((ts & L & H) & HD). rewrite L. eexists; split; [reflexivity|]. apply filter_In. split; auto.
    destruct (mem b D) eqn:Mb; auto. apply mem_In in Mb. contradiction.
Qed.
Lemma lookup_keys pm a ts : lookup pm a = Some ts -> In a (map fst pm).
Proof. induction pm as [|[k t] pm IH]; cbn; [discriminate|]. destruct (eqb_spec a k); auto. Qed.

Lemma st_backs_in_nodes pm r : forall fuel n tr p, spanning_tree fuel pm r n = Some tr -> n <> r ->
  forall a, In a (backs p tr) -> In a (nodes tr).
Proof.
  induction fuel as [|f IH]; intros n tr p H Hn a Ha; [discriminate|]. cbn in H.
  destruct (eqb_spec r n) as [|_]; [congruence|].
  destruct (lookup pm n) as [ts|] eqn:L; [|inversion H; subst; cbn in Ha; contradiction].
  destruct (mapM (spanning_tree f pm r) ts) as [cs|] eqn:M; [|discriminate]. inversion H; subst; clear H.
  apply mapM_Forall2 in M. cbn [backs nodes] in *.
  apply in_flat_map in Ha as (c0 & Hc0 & Ha).
  destruct (in_Forall2_l _ _ _ _ M Hc0) as (t & Ht & Hst).
  destruct (eqb_spec t r) as [->|Htr].
  - apply st_root in Hst. subst c0. destruct Ha as [->|[]]. now left.
  - right. apply in_flat_map. exists c0; split; auto. eapply IH; eauto.
Qed.

Lemma st_back_complete pm r : forall fuel n tr p, spanning_tree fuel pm r n = Some tr ->
  forall a, In a (nodes tr) -> edge pm a r -> In a (backs p tr).
Proof.
  induction fuel as [|f IH]; intros n tr p H a Ha E; [discriminate|]. cbn in H.
  destruct (eqb_spec r n) as [|_]; [inversion H; subst; contradiction|].
  destruct (lookup pm n) as [ts|] eqn:L.
  - destruct (mapM (spanning_tree f pm r) ts) as [cs|] eqn:M; [|discriminate]. inversion H; subst; clear H.
    apply mapM_Forall2 in M. cbn [backs nodes] in *. destruct Ha as [->|Ha].
    + pose proof (edge_lookup _ _ _ _ L E) as Hr.
      destruct (in_Forall2_r _ _ _ _ M Hr) as (cb & Hcb & Hst). apply st_root in Hst. subst cb.
      apply in_flat_map. exists BackEdge; split; auto. now left.
    + apply in_flat_map in Ha as (c0 & Hc0 & Ha).
      destruct (in_Forall2_l _ _ _ _ M Hc0) as (t & Ht & Hst).
      apply in_flat_map. exists c0; split; auto. eapply IH; eauto.
  - inversion H; subst. destruct Ha as [->|[]]. destruct E as (ts & L' & _). congruence.
Qed.

Lemma edge_dec pm a b : {edge pm a b} + {~ edge pm a b}.
Proof.
  unfold edge. destruct (lookup pm a) as [ts|] eqn:L.
  - destruct (mem b ts) eqn:Mb.
    + left. exists ts; split; auto. now apply mem_In.
    + right. intros (ts' & L' & H). inversion L'; subst. apply mem_In in H. congruence.
  - right. intros (ts' & L' & _). discriminate.
Qed.
Lemma In_decT (x : T) l : {In x l} + {~ In x l}.
Proof. destruct (mem x l) eqn:Mx; [left; now apply mem_In|right; intro H; apply mem_In in H; congruence]. Qed.

Section Forest.
Variable A : amap.
Hypothesis IDA : indeg1 A.
Variable st0 : T -> V.

Lemma forest_inv fuel : forall keys pm rs c,
   (forall a b, edge pm a b -> edge A a b) ->
   nodup_targets pm ->
   (forall a b, edge pm a b -> fst c a = st0 a) ->
   (forall a b, edge A a b -> ~ edge pm a b -> fst c b = st0 a) ->
   (forall u, (forall a, ~ edge A a u) -> fst c u = st0 u) ->
   (forall a b, edge pm a b -> a <> b -> In a keys) ->
   forest_loop fuel keys pm = Some rs ->
   let c' := exec (flat_map root_moves rs) c in
   (forall a b, edge A a b -> fst c' b = st0 a) /\ (forall u, (forall a, ~ edge A a u) -> fst c' u = st0 u).
Proof.
  induction keys as [|k ks IH]; intros pm rs c Sub NT I2 I3 I4 K H.
  - inversion H; subst. cbn. split; auto. intros a b E.
    destruct (edge_dec pm a b) as [Ep|Ep]; [|now apply I3].
    destruct (eqb_spec a b) as [->|Hne]; [eapply I2; eauto|]. destruct (K _ _ Ep Hne).
  - cbn [forest_loop] in H. destruct (root_for fuel pm k) as [r|] eqn:R; [|discriminate].
    destruct (forest_loop fuel ks _) as [rs'|] eqn:F; [|discriminate]. inversion H; subst; clear H.
    assert (indeg1 pm) as ID by (intros a a' b E1 E2; eapply IDA; eauto).
    assert (exists cs, r = StartNode k cs) as (cs & ->).
    { unfold root_for in R. destruct (lookup pm k); [|discriminate]. destruct (mapM _ _); inversion R; eauto. }
    destruct (root_for_spec pm ID NT fuel k cs R) as (ND & Hk & HE & HB & HCk & HCn).
    cbn [flat_map]. rewrite exec_app.
    destruct (root_exec k cs c ND Hk) as (X1 & X2 & X3). set (c1 := exec (root_moves (StartNode k cs)) c) in *.
    set (N := flat_map nodes cs) in *. set (B := flat_map (backs k) cs) in *. set (E := flat_map (edges k) cs) in *.
    assert (HD : forall x, In x (visited_by (StartNode k cs)) <-> (x = k /\ B <> []) \/ In x N).
    { intros x. cbn [visited_by]. rewrite in_app_iff. fold N. destruct (existsb refers_back cs) eqn:RB.
      - apply (existsb_backs k) in RB. fold B in RB. cbn. intuition congruence.
      - assert (B = []). { destruct B eqn:EB; auto. exfalso. assert (existsb refers_back cs = true) by (apply (existsb_backs k); fold B; congruence). congruence. }
        cbn. intuition congruence. }
    assert (HBN : forall a, In a B -> In a N).
    { intros a Ha. unfold B in Ha. apply in_flat_map in Ha as (c0 & Hc0 & Ha).
      unfold root_for in R. destruct (lookup pm k) as [ts|]; [|discriminate].
      destruct (mapM _ _) as [cs'|] eqn:M; inversion R; subst cs'. apply mapM_Forall2 in M.
      destruct (in_Forall2_l _ _ _ _ M Hc0) as (t & Ht & Hst). apply remove1_In in Ht as [_ Htk].
      apply in_flat_map. exists c0; split; auto. eapply st_backs_in_nodes; eauto. }
    assert (HNE : forall b, In b N -> exists a, In (a, b) E).
    { intros b Hb. unfold N in Hb. apply in_flat_map in Hb as (c0 & Hc0 & Hb).
      destruct (nodes_have_edges c0 k b Hb) as (a & Ha). exists a. apply in_flat_map; eauto. }
    assert (HBC : forall a, In a N -> edge pm a k -> In a B).
    { intros a Ha Ek. unfold N in Ha. apply in_flat_map in Ha as (c0 & Hc0 & Ha).
      unfold root_for in R. destruct (lookup pm k) as [ts|]; [|discriminate].
      destruct (mapM _ _) as [cs'|] eqn:M; inversion R; subst cs'. apply mapM_Forall2 in M.
      destruct (in_Forall2_l _ _ _ _ M Hc0) as (t & Ht & Hst).
      apply in_flat_map. exists c0; split; auto. eapply st_back_complete; eauto. }
    assert (Bdec : B = [] \/ B <> []) by (destruct B; [now left|right; discriminate]).
    set (pm' := delete_targets (visited_by (StartNode k cs)) pm) in *.
    assert (Ed : forall a b, edge pm' a b <-> edge pm a b /\ ~ ((b = k /\ B <> []) \/ In b N)).
    { intros a b. unfold pm'. rewrite edge_delete, HD. tauto. }
    (* the scratch/back clause, usable form *)
    assert (XB : B <> [] -> forall a, edge pm a k -> fst c1 k = fst c a).
    { intros HBne a Ea. destruct (rev B) as [|a' l] eqn:RB.
      - exfalso. apply HBne. rewrite <- (rev_involutive B), RB. reflexivity.
      - assert (In a' B) by (apply in_rev; rewrite RB; now left).
        assert (a' = a) by (eapply ID; eauto). subst a'. apply X2. reflexivity. }
    apply (IH pm' rs' c1); auto.
    + intros a b Hab. apply Ed in Hab. apply Sub; tauto.
    + intros a ts L. unfold pm' in L. rewrite lookup_delete in L. destruct (lookup pm a) as [ts0|] eqn:L0; [|discriminate].
      inversion L; subst. apply NoDup_filter. eauto.
    + (* pending sources are pristine *)
      intros a b Hab. apply Ed in Hab as [Eab Hb]. rewrite <- (I2 _ _ Eab). apply X3.
      * intro Ha. destruct (HCn _ _ Ha Eab) as [->|?]; [|tauto].
        apply Hb. left. split; auto. intro HBe. pose proof (HBC _ Ha Eab) as Hin. rewrite HBe in Hin. contradiction.
      * destruct Bdec as [?|HBne]; [now right|]. left. intros ->.
        destruct (HCk _ Eab) as [->|?]; [|tauto]. apply Hb. left; split; auto.
    + (* performed moves stay performed *)
      intros a b EA Hn'. destruct (edge_dec pm a b) as [Ep|Ep].
      * assert ((b = k /\ B <> []) \/ In b N) as [[-> HBne]|Hb].
        { destruct (In_decT b N) as [?|Hn]; [now right|]. destruct Bdec as [HBe|HBne].
          - exfalso. apply Hn'. apply Ed. split; auto. intros [[_ ?]|?]; tauto.
          - destruct (eqb_spec b k) as [->|Hne]; [left; split; auto|].
            exfalso. apply Hn'. apply Ed. split; auto. intros [[? _]|?]; tauto. }
        -- rewrite (XB HBne a Ep). eapply I2; eauto.
        -- destruct (HNE _ Hb) as (a' & Ha'). assert (a' = a) by (eapply ID; eauto). subst a'.
           rewrite (X1 _ _ Ha'). eapply I2; eauto.
      * rewrite <- (I3 _ _ EA Ep). apply X3.
        -- intro Hb. destruct (HNE _ Hb) as (a' & Ha'). apply HE in Ha'.
           assert (a' = a) by (eapply IDA; eauto). subst a'. contradiction.
        -- destruct Bdec as [?|HBne]; [now right|]. left. intros ->.
           destruct B as [|a' B'] eqn:EB; [congruence|]. assert (In a' B) as Hin by (rewrite EB; now left).
           rewrite EB in *. apply HB in Hin. assert (a' = a) by (eapply IDA; eauto). subst a'. contradiction.
    + (* non-targets untouched *)
      intros u Hu. rewrite <- (I4 u Hu). apply X3.
      * intro Hb. destruct (HNE _ Hb) as (a' & Ha'). apply HE in Ha'. eapply Hu; eauto.
      * destruct B as [|a' B'] eqn:EB; [now right|]. left. intros ->.
        assert (In a' (a' :: B')) as Hin by now left. apply HB in Hin. eapply Hu; eauto.
    + intros a b Hab Hne. apply Ed in Hab as [Eab Hb]. destruct (K _ _ Eab Hne) as [<-|?]; auto.
      destruct (HCk _ Eab) as [->|?]; [congruence|tauto].
Qed.
End Forest.

Theorem parallel_moves_correct fuel (A : amap) is (st0 : T -> V) (sc0 : V) :
  indeg1 A -> nodup_targets A ->
  parallel_moves fuel A = Some is ->
  let c' := exec is (st0, sc0) in
  (forall a b, edge A a b -> fst c' b = st0 a) /\ (forall u, (forall a, ~ edge A a u) -> fst c' u = st0 u).
Proof.
  intros ID NT H. unfold parallel_moves, spanning_forest in H.
  destruct (forest_loop fuel (map fst A) A) as [rs|] eqn:F; [|discriminate]. inversion H; subst.
  apply (forest_inv A ID st0 fuel (map fst A) A rs (st0, sc0)); auto.
  - intros a b E Hn. contradiction.
  - intros a b (ts & L & _) _. eapply lookup_keys; eauto.
Qed.

(* ================= termination: enough fuel ================= *)
Definition all_targets (pm : amap) : list T := flat_map snd pm.
Lemma edge_all_targets pm a b : edge pm a b -> In b (all_targets pm).
Proof. intros (ts & L & H). induction pm as [|[k t] pm IH]; cbn in *; [discriminate|].
  apply in_app_iff. destruct (eqb a k); [inversion L; subst; now left|right; auto]. Qed.

Lemma mapM_some {A B} (f : A -> option B) l : (forall x, In x l -> f x <> None) -> mapM f l <> None.
Proof. induction l as [|x l IH]; cbn; intros H; [discriminate|].
  destruct (f x) eqn:E; [|exfalso; eapply H; eauto].
  destruct (mapM f l) eqn:M; [discriminate|]. exfalso. apply IH; auto. Qed.

(* the ancestors of a node (its backward path to r) never repeat *)
Lemma fresh_child pm (ID : indeg1 pm) r n s t :
  rpath pm (n :: s ++ [r]) -> ~ In r (n :: s) -> edge pm n t -> ~ In t (n :: s).
Proof.
  intros HR Hr E Hin. apply in_split in Hin as (l1 & l2 & Hs).
  change (n :: s ++ [r]) with ((n :: s) ++ [r]) in HR. rewrite Hs in HR, Hr.
  rewrite <- app_assoc in HR. cbn [app] in HR.
  assert (rpath pm (t :: l2 ++ [r])) as HRt by (eapply rpath_app_r; eauto).
  assert (~ In r (t :: l2)) as Hrt by (intro; apply Hr; apply in_app_iff; now right).
  assert (~ In r (t :: l1)) as Hrl.
  { intros [->|H]; [apply Hr; apply in_app_iff; right; now left|apply Hr; apply in_app_iff; now left]. }
  apply (no_cycle pm ID r l2 t HRt Hrt l1); auto.
  destruct l1 as [|n' l1]; cbn [app] in *.
  - inversion Hs; subst. split; [auto|exact I].
  - inversion Hs; subst n'. split; auto.
    change (n :: l1 ++ t :: l2 ++ [r]) with ((n :: l1) ++ t :: l2 ++ [r]) in HR.
    replace ((n :: l1) ++ t :: l2 ++ [r]) with (((n :: l1) ++ [t]) ++ l2 ++ [r]) in HR by (rewrite <- app_assoc; reflexivity).
    apply rpath_app_l in HR. exact HR.
Qed.

Lemma NoDup_incl_len (l l' : list T) : NoDup l -> incl l l' -> length l <= length l'.
Proof. apply NoDup_incl_length. Qed.

Lemma st_fuel pm (ID : indeg1 pm) r : forall fuel n s,
  n <> r -> rpath pm (n :: s ++ [r]) -> ~ In r (n :: s) -> NoDup (n :: s) ->
  length (all_targets pm) + 1 < fuel + length (n :: s) ->
  spanning_tree fuel pm r n <> None.
Proof.
  induction fuel as [|f IH]; intros n s Hn HR Hr ND Hf.
  - exfalso. assert (incl (n :: s) (all_targets pm)) as Hi.
    { clear -HR. revert n HR. induction s as [|q s IHs]; intros n HR x [<-|Hx].
      - cbn in HR. destruct HR as [E _]. eapply edge_all_targets; eauto.
      - destruct Hx.
      - cbn [app] in HR. destruct HR as [E _]. eapply edge_all_targets; eauto.
      - cbn [app] in HR. destruct HR as [_ HR]. eapply IHs; eauto. }
    pose proof (NoDup_incl_len _ _ ND Hi). lia.
  - cbn. destruct (eqb_spec r n) as [|_]; [congruence|].
    destruct (lookup pm n) as [ts|] eqn:L; [|discriminate].
    destruct (mapM (spanning_tree f pm r) ts) eqn:M; [discriminate|]. exfalso.
    revert M. apply mapM_some. intros t Ht.
    assert (edge pm n t) as E by (exists ts; auto).
    destruct (eqb_spec t r) as [->|Htr].
    + destruct f as [|f']; [cbn [length] in *|cbn; rewrite eqb_refl; discriminate].
      assert (incl (n :: s) (all_targets pm)) as Hi.
      { clear -HR. revert n HR. induction s as [|q s IHs]; intros n HR x [<-|Hx].
        - cbn in HR. destruct HR as [E _]. eapply edge_all_targets; eauto.
        - destruct Hx.
        - cbn [app] in HR. destruct HR as [E _]. eapply edge_all_targets; eauto.
        - cbn [app] in HR. destruct HR as [_ HR]. eapply IHs; eauto. }
      pose proof (NoDup_incl_len _ _ ND Hi). cbn [length] in *. lia.
    + apply (IH t (n :: s)); auto.
      * cbn [app]. split; auto.
      * intros [?|?]; [congruence|tauto].
      * constructor; auto. eapply fresh_child; eauto.
      * cbn [length] in *. lia.
Qed.

Lemma root_for_some pm (ID : indeg1 pm) fuel k ts :
  lookup pm k = Some ts -> length (all_targets pm) + 2 <= fuel -> root_for fuel pm k <> None.
Proof.
  intros L Hf. unfold root_for. rewrite L.
  destruct (mapM (spanning_tree fuel pm k) (remove1 k ts)) eqn:M; [discriminate|]. exfalso.
  revert M. apply mapM_some. intros t Ht. apply remove1_In in Ht as [Ht Hne].
  apply (st_fuel pm ID k fuel t []); auto.
  - cbn. split; auto. exists ts; auto.
  - intros [?|[]]; congruence.
  - constructor; [tauto|constructor].
  - cbn [length]. lia.
Qed.

Lemma filter_len_le {A} (f : A -> bool) l : length (filter f l) <= length l.
Proof. induction l; cbn; auto. destruct (f a); cbn; lia. Qed.
Lemma all_targets_delete D pm : length (all_targets (delete_targets D pm)) <= length (all_targets pm).
Proof. unfold all_targets, delete_targets. induction pm as [|[k ts] pm IH]; cbn [map flat_map fst snd]; auto. rewrite !app_length.
  pose proof (filter_len_le (fun t => negb (mem t D)) ts). lia. Qed.

Lemma forest_some fuel : forall keys pm, indeg1 pm ->
  (forall k, In k keys -> lookup pm k <> None) -> length (all_targets pm) + 2 <= fuel ->
  forest_loop fuel keys pm <> None.
Proof.
  induction keys as [|k ks IH]; intros pm ID HK Hf; cbn; [discriminate|].
  destruct (lookup pm k) as [ts|] eqn:L; [|exfalso; eapply HK; eauto; now left].
  destruct (root_for fuel pm k) as [r|] eqn:R; [|exfalso; eapply root_for_some; eauto].
  destruct (forest_loop fuel ks _) eqn:F; [discriminate|]. exfalso. revert F. apply IH.
  - intros a a' b E1 E2. apply edge_delete in E1 as [E1 _], E2 as [E2 _]. eapply ID; eauto.
  - intros k' Hk'. rewrite lookup_delete. destruct (lookup pm k') eqn:L'; [discriminate|].
    exfalso. eapply HK; eauto. now right.
  - pose proof (all_targets_delete (visited_by r) pm). lia.
Qed.

Theorem parallel_moves_terminates (A : amap) :
  indeg1 A -> parallel_moves (length (all_targets A) + 2) A <> None.
Proof.
  intros ID. unfold parallel_moves, spanning_forest.
  destruct (forest_loop _ _ _) eqn:F; [discriminate|]. exfalso. revert F. apply forest_some; auto.
  intros k Hk. apply in_map_iff in Hk as ([k' ts] & <- & Hin). cbn.
  clear -Hin eqb_spec. induction A as [|[k0 t0] A IH]; cbn in *; [contradiction|].
  destruct (eqb_spec k' k0); [discriminate|]. destruct Hin as [H|H]; [inversion H; congruence|auto].
Qed.
End PM.
