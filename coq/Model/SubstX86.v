(* C11: the x86-64 instance of Model/SubstGen.sbackend (state builder and runner over Sem/X86Sem). *)
From Coq Require Import List ZArith NArith String Bool FMapPositive.
From SCC Require Import Base.Sexp Lang.AxSyn Sem.AxSem Sem.X86Sem Model.ParMoves Model.Backend Model.X86 Model.X86Io
     Model.RunBase Model.SubstGen.
Import ListNotations.
Open Scope string_scope.
Open Scope Z_scope.

(* rsp during the body of a compiled function: any 8-aligned address with the spill area inside the stack *)
Definition X_SP0 : Z := STACK_TOP - 8192.
Definition x_slot_addr (p : N) : Z := X_SP0 + stack_offset p.

Definition x_put (s : xstate) (t : xtemp) (v : Z) : xstate :=
  match t with
  | XR r => rset s r (Some v)
  | XS p => {| regs := regs s; heap := heap s; stack := PM.add (key (x_slot_addr p)) v (stack s);
               flags := flags s; out := out s; hw := hw s |}
  end.

Definition x_init (temps : list (xtemp * Z)) (hp : list (Z * Z)) (free : Z) : xstate :=
  let regs0 := fold_left (fun m r => PM.add (N.succ_pos r) (880000 + Z.of_N r) m)
                         [4; 5; 6; 7; 8; 9; 10; 11; 12; 13; 14; 15]%N (PM.empty Z) in
  let regs1 := PM.add (N.succ_pos STACK) X_SP0
               (PM.add (N.succ_pos TEMP) 777001
               (PM.add (N.succ_pos HEAP) (HEAP_BASE + 64 * 5000)
               (PM.add (N.succ_pos FREE) free regs0))) in
  let stack0 := PM.add (key (x_slot_addr SPILL_TEMP)) 777000
                (PM.add (key (X_SP0 - 8)) 666001
                (PM.add (key (X_SP0 + SPILL_SPACE)) 666002
                (PM.add (key (X_SP0 + SPILL_SPACE + 8)) 666003 (PM.empty Z)))) in
  let heap0 := fold_left (fun m (av : Z * Z) => PM.add (key (fst av)) (snd av) m) hp (PM.empty Z) in
  let s0 := {| regs := regs1; heap := heap0; stack := stack0; flags := None; out := []; hw := HEAP_BASE - 8 |} in
  fold_left (fun s (tv : xtemp * Z) => x_put s (fst tv) (snd tv)) temps s0.

Definition x_run (cs : list xcode) (exit_label : string) (s : xstate) : option string * xstate :=
  let im := mk_image (cs ++ [LAB exit_label])%list in
  let '(ob, s') := run 200 2000 im 1%positive s in
  match snd ob with
  | OStuck "fell-off-the-end" => (None, s')
  | OStuck w => (Some ("fault " ++ w), s')
  | OUndef w => (Some ("undefined " ++ w), s')
  | OExit _ => (Some "returned", s')
  | OOutOfFuel => (Some "out of fuel", s')
  end.

Definition x_get (s : xstate) (t : xtemp) : option Z :=
  match t with XR r => rget s r | XS p => PM.find (key (x_slot_addr p)) (stack s) end.
Definition x_heap (s : xstate) (a : Z) : Z := match PM.find (key a) (heap s) with Some z => z | None => 0 end.
Definition x_heap_dom (s : xstate) : list Z := map (fun kv => Z.pos (fst kv) - 1) (PM.elements (heap s)).

Definition oz_eqb (a b : option Z) : bool :=
  match a, b with Some x, Some y => Z.eqb x y | None, None => true | _, _ => false end.

Definition x_frame (s0 s1 : xstate) : option string :=
  if negb (oz_eqb (rget s0 STACK) (rget s1 STACK)) then Some "rsp changed"
  else if negb (oz_eqb (rget s0 HEAP) (rget s1 HEAP)) then Some "the HEAP register changed"
  else if negb (Nat.eqb (List.length (out s0)) (List.length (out s1))) then Some "output changed"
  else
    let outside (a : Z) := (a <? X_SP0) || (X_SP0 + SPILL_SPACE <=? a) in
    let keys := (map fst (PM.elements (stack s0)) ++ map fst (PM.elements (stack s1)))%list in
    match find (fun k => outside (Z.pos k - 1) && negb (oz_eqb (PM.find k (stack s0)) (PM.find k (stack s1)))) keys with
    | Some k => Some ("stack word " ++ z_to_string (Z.pos k - 1) ++ " outside the spill area changed")
    | None => None
    end.

Definition x86_sbackend : sbackend := {|
  sb_Code := xcode; sb_Temp := xtemp; sb_State := xstate;
  sb_B := x86_backend;
  sb_read := g_xcodes;
  sb_show := s_xcode;
  sb_is_spill := fun t => match t with XS _ => true | XR _ => false end;
  sb_block_size := 8 * (2 + 2 * Z.of_N FIELDS_PER_BLOCK);
  sb_heap_base := HEAP_BASE;
  sb_init := x_init;
  sb_run := x_run;
  sb_get := x_get;
  sb_heap := x_heap;
  sb_heap_dom := x_heap_dom;
  sb_free := fun s => rget s FREE;
  sb_frame := x_frame;
|}.
