(* Functional model of the Fun type checker: fun::syntax::program::Program::check and everything it
   calls (lang/fun/src/typing/{check,symbol_table,errors}.rs, syntax/{types,context,program}.rs,
   syntax/declarations/*.rs, the 15 `impl Check` in syntax/terms/*.rs).  Line-by-line, quirks
   included:
   - the symbol table is threaded explicitly (Rust: &mut SymbolTable); HashMaps are association
     lists in insertion order (insert = replace in place or append); the only places where Rust
     iterates a HashMap are  lookup_ty_for_{c,d}tor / lookup_ty_template_for_{c,d}tor  (at most one
     entry can match for parseable names),  check_type_params  (which of several errors is reported
     depends on the hash order: the model uses insertion order)  and the final collection of the
     instances, which Rust sorts by name afterwards (so the output order is deterministic);
   - instances are keyed by the PRINTED instance name  name ++ print(type_args)  (e.g. "List[i64]"),
     xtors of instances by  xtor ++ print(type_args); the type of a constructor is recovered by
     scanning the instances and  name.replace(print(type_args), "");
   - types are only instantiated lazily (Ty::check); since fix d524b1f Constructor::check and
     New::check first call expected.check(symbol_table), so the instance of the expected type exists
     before its xtors are looked up (flag [eager] = true; [eager] = false is the code before that
     fix, kept for the regression statements);
   - case/new clauses are re-ordered into declaration order using Vec::swap_remove;
   - NameContext::no_dups reports TypeParameterBoundMultipleTimes;
   - since fix eb42971 Ty::check_template checks the types written in data/codata declarations
     completely (a type parameter takes no arguments, a template as many as it has parameters, the
     arguments recursively) WITHOUT creating instances; [old_ty_check_template] .. [old_check_decls]
     are the code before that fix (head name only; finding C15-lazy-declaration-types), kept for the
     regression statements;
   - since fix 5b8c76f Def::check compares the declared return type of `main` with i64
     (check_equality: Mismatch); [old_def_check] .. [old_check_main] are the code before that fix
     (finding main-non-integer-result of C12), kept for the regression statements.
   Errors are the variants of typing::errors::Error without their payload. No proofs here. *)
From Coq Require Import List ZArith NArith String Ascii Bool.
From SCC Require Import Base.Sexp Lang.SynUtil Lang.FunSyn.
Import ListNotations.
Open Scope list_scope.
Open Scope string_scope.

(* ---------- errors.rs ---------- *)
Inductive cerror :=
| EDefinedMultipleTimes | EUndefined | EMismatch | EUnboundVariable | EUnboundCovariable
| EWrongNumberOfArguments | EExpectedTermGotCovariable | EExpectedCovariableGotTerm | EEmptyMatch
| EMissingDtorInNew | EExpectedI64ForNew | EExpectedDataForNew | EWrongNumberOfBinders
| ETypingContextMismatch | EMissingCtorInCase | EUnexpectedCtorsInCase | EUnexpectedDtorsInNew
| EVarBoundMultipleTimes | ECovarBoundMultipleTimes | ETypeParameterBoundMultipleTimes
| EExpectedI64ForConstructor | EWrongNumberOfTypeArguments | EUndefinedWrongTypeArguments
| EInternalPanic.      (* program.rs: panic!("Couldn't find constructor ..") *)

Definition cerror_name (e : cerror) : string :=
  match e with
  | EDefinedMultipleTimes => "DefinedMultipleTimes" | EUndefined => "Undefined" | EMismatch => "Mismatch"
  | EUnboundVariable => "UnboundVariable" | EUnboundCovariable => "UnboundCovariable"
  | EWrongNumberOfArguments => "WrongNumberOfArguments"
  | EExpectedTermGotCovariable => "ExpectedTermGotCovariable"
  | EExpectedCovariableGotTerm => "ExpectedCovariableGotTerm" | EEmptyMatch => "EmptyMatch"
  | EMissingDtorInNew => "MissingDtorInNew" | EExpectedI64ForNew => "ExpectedI64ForNew"
  | EExpectedDataForNew => "ExpectedDataForNew" | EWrongNumberOfBinders => "WrongNumberOfBinders"
  | ETypingContextMismatch => "TypingContextMismatch" | EMissingCtorInCase => "MissingCtorInCase"
  | EUnexpectedCtorsInCase => "UnexpectedCtorsInCase" | EUnexpectedDtorsInNew => "UnexpectedDtorsInNew"
  | EVarBoundMultipleTimes => "VarBoundMultipleTimes" | ECovarBoundMultipleTimes => "CovarBoundMultipleTimes"
  | ETypeParameterBoundMultipleTimes => "TypeParameterBoundMultipleTimes"
  | EExpectedI64ForConstructor => "ExpectedI64ForConstructor"
  | EWrongNumberOfTypeArguments => "WrongNumberOfTypeArguments"
  | EUndefinedWrongTypeArguments => "UndefinedWrongTypeArguments"
  | EInternalPanic => "PANIC"
  end.

Inductive cres (X : Type) := COk (x : X) | CErr (e : cerror).
Arguments COk {X} x.
Arguments CErr {X} e.
Definition cbind {X Y} (r : cres X) (f : X -> cres Y) : cres Y :=
  match r with COk x => f x | CErr e => CErr e end.
Notation "'doc' x <- e ; k" := (cbind e (fun x => k)) (at level 200, x pattern, e at level 100, k at level 200).

(* ---------- printing of types: Print for Ty / TypeArgs with allow_linebreaks = false ---------- *)
Definition print_list (f : fty -> string) (args : list fty) : string :=
  match args with
  | [] => ""
  | a :: r => "[" ++ f a ++ fold_right (fun b acc => ", " ++ f b ++ acc) "]" r
  end.
Fixpoint print_ty (t : fty) : string :=
  match t with
  | FI64 => "i64"
  | FDecl n args => n ++ print_list print_ty args
  end.
Definition print_targs (args : list fty) : string := print_list print_ty args.

(* str::replace(pat, ""): all non-overlapping occurrences, left to right; an empty pattern matches
   between all characters and replacing it by "" changes nothing *)
Fixpoint str_remove_go (pat : string) (plen : nat) (s : string) (skip : nat) : string :=
  match s with
  | EmptyString => EmptyString
  | String c r =>
      match skip with
      | S k => str_remove_go pat plen r k
      | O => if String.prefix pat s then str_remove_go pat plen r (plen - 1)
             else String c (str_remove_go pat plen r 0)
      end
  end.
Definition str_remove (s pat : string) : string :=
  match pat with EmptyString => s | _ => str_remove_go pat (String.length pat) s 0 end.

(* ---------- HashMap<Name, V> as association list in insertion order ---------- *)
Definition amap (V : Type) := list (fname * V).
Fixpoint aget {V} (m : amap V) (k : fname) : option V :=
  match m with
  | [] => None
  | (k', v) :: r => if String.eqb k' k then Some v else aget r k
  end.
Definition ahas {V} (m : amap V) (k : fname) : bool := is_some (aget m k).
Fixpoint ainsert {V} (m : amap V) (k : fname) (v : V) : amap V :=
  match m with
  | [] => [(k, v)]
  | (k', v') :: r => if String.eqb k' k then (k, v) :: r else (k', v') :: ainsert r k v
  end.

(* symbol_table.rs: struct SymbolTable *)
Record symtab := mkst {
  st_defs : amap (fctx * fty);
  st_ctors : amap fctx;
  st_dtors : amap (fctx * fty);
  st_types : amap (fpol * list fty * list fname);
  st_ctor_templates : amap fctx;
  st_dtor_templates : amap (fctx * fty);
  st_type_templates : amap (fpol * fnamectx * list fname)
}.
Definition st_empty : symtab := mkst [] [] [] [] [] [] [].
Definition set_defs st v := mkst v (st_ctors st) (st_dtors st) (st_types st) (st_ctor_templates st) (st_dtor_templates st) (st_type_templates st).
Definition set_ctors st v := mkst (st_defs st) v (st_dtors st) (st_types st) (st_ctor_templates st) (st_dtor_templates st) (st_type_templates st).
Definition set_dtors st v := mkst (st_defs st) (st_ctors st) v (st_types st) (st_ctor_templates st) (st_dtor_templates st) (st_type_templates st).
Definition set_types st v := mkst (st_defs st) (st_ctors st) (st_dtors st) v (st_ctor_templates st) (st_dtor_templates st) (st_type_templates st).
Definition set_ctor_templates st v := mkst (st_defs st) (st_ctors st) (st_dtors st) (st_types st) v (st_dtor_templates st) (st_type_templates st).
Definition set_dtor_templates st v := mkst (st_defs st) (st_ctors st) (st_dtors st) (st_types st) (st_ctor_templates st) v (st_type_templates st).
Definition set_type_templates st v := mkst (st_defs st) (st_ctors st) (st_dtors st) (st_types st) (st_ctor_templates st) (st_dtor_templates st) v.

(* ---------- types.rs: subst_ty, Ty::check, create_instance, TypeArgs::is_instance ---------- *)
(* mappings: HashMap built by collect() from zip(params, args): a later duplicate key wins *)
Definition mk_mappings (params : fnamectx) (targs : list fty) : amap fty :=
  fold_left (fun m kv => ainsert m (fst kv) (snd kv)) (combine params targs) [].
Fixpoint subst_ty (m : amap fty) (t : fty) : fty :=
  match t with
  | FI64 => FI64
  | FDecl n args => match aget m n with Some ty => ty | None => FDecl n (map (subst_ty m) args) end
  end.
Definition subst_binding (m : amap fty) (b : fbinding) : fbinding := mkfb (fbvar b) (fbchi b) (subst_ty m (fbty b)).
Definition subst_ctx (m : amap fty) (c : fctx) : fctx := map (subst_binding m) c.

(* the tail of create_instance, after is_instance: insert the xtor instances, then the type *)
Fixpoint insert_ctor_instances (m : amap fty) (sfx : string) (xtors : list fname) (st : symtab) : cres symtab :=
  match xtors with
  | [] => COk st
  | base :: r =>
      match aget (st_ctor_templates st) base with
      | None => CErr EUndefined
      | Some args => insert_ctor_instances m sfx r (set_ctors st (ainsert (st_ctors st) (base ++ sfx) (subst_ctx m args)))
      end
  end.
Fixpoint insert_dtor_instances (m : amap fty) (sfx : string) (xtors : list fname) (st : symtab) : cres symtab :=
  match xtors with
  | [] => COk st
  | base :: r =>
      match aget (st_dtor_templates st) base with
      | None => CErr EUndefined
      | Some (args, cont) =>
          insert_dtor_instances m sfx r
            (set_dtors st (ainsert (st_dtors st) (base ++ sfx) (subst_ctx m args, subst_ty m cont)))
      end
  end.
Definition create_instance_tail (iname : string) (targs : list fty) (pol : fpol) (params : fnamectx)
           (xtors : list fname) (st : symtab) : cres symtab :=
  let m := mk_mappings params targs in
  let sfx := print_targs targs in
  doc st1 <- match pol with
             | FData => insert_ctor_instances m sfx xtors st
             | FCodata => insert_dtor_instances m sfx xtors st
             end;
  COk (set_types st1 (ainsert (st_types st1) iname (pol, targs, xtors))).

Fixpoint ty_check (t : fty) (st : symtab) {struct t} : cres symtab :=
  match t with
  | FI64 => COk st
  | FDecl name targs =>
      let iname := name ++ print_targs targs in
      match aget (st_types st) iname with
      | Some _ => COk st
      | None =>
          match aget (st_type_templates st) name with
          | None => CErr EUndefined
          | Some (pol, params, xtors) =>
              (* create_instance: type_args.is_instance(&type_params, symbol_table)? *)
              if negb (Nat.eqb (List.length targs) (List.length params)) then CErr EWrongNumberOfTypeArguments
              else
                doc st1 <- (fix go (l : list fty) (st : symtab) : cres symtab :=
                              match l with
                              | [] => COk st
                              | a :: r => doc st' <- ty_check a st; go r st'
                              end) targs st;
                create_instance_tail iname targs pol params xtors st1
          end
      end
  end.
Fixpoint tys_check (l : list fty) (st : symtab) : cres symtab :=
  match l with
  | [] => COk st
  | a :: r => doc st' <- ty_check a st; tys_check r st'
  end.

(* check.rs: check_equality *)
Definition check_equality (st : symtab) (expected got : fty) : cres symtab :=
  doc st1 <- ty_check expected st;
  doc st2 <- ty_check got st1;
  if fty_eqb expected got then COk st2 else CErr EMismatch.

(* ---------- symbol_table.rs: lookups that scan a HashMap ---------- *)
Definition xtor_matches (sfx xt : string) (xtors : list fname) : bool :=
  existsb (fun x => String.eqb (x ++ sfx) xt) xtors.
(* lookup_ty_for_ctor / lookup_ty_for_dtor *)
Fixpoint lookup_ty_for_xtor_in (pol : fpol) (types : amap (fpol * list fty * list fname)) (xt : fname)
  : option (fty * list fname) :=
  match types with
  | [] => None
  | (name, (p, targs, xtors)) :: r =>
      if fpol_eqb p pol && xtor_matches (print_targs targs) xt xtors
      then Some (FDecl (str_remove name (print_targs targs)) targs, xtors)
      else lookup_ty_for_xtor_in pol r xt
  end.
Definition lookup_ty_for_xtor (pol : fpol) (st : symtab) (xt : fname) : option (fty * list fname) :=
  lookup_ty_for_xtor_in pol (st_types st) xt.
(* lookup_ty_template_for_ctor / _dtor *)
Fixpoint find_template_for_xtor (pol : fpol) (tmpl : amap (fpol * fnamectx * list fname)) (x : fname)
  : option (fname * list fname) :=
  match tmpl with
  | [] => None
  | (name, (p, _, xtors)) :: r =>
      if fpol_eqb p pol && existsb (String.eqb x) xtors then Some (name, xtors)
      else find_template_for_xtor pol r x
  end.
Definition lookup_ty_template_for_xtor (pol : fpol) (st : symtab) (x : fname) (targs : list fty)
  : cres (fty * list fname * symtab) :=
  match find_template_for_xtor pol (st_type_templates st) x with
  | Some (name, xtors) =>
      let ty := FDecl name targs in
      doc st1 <- ty_check ty st;
      COk (ty, xtors, st1)
  | None => CErr EUndefinedWrongTypeArguments
  end.
(* the pattern  match lookup_ty_for_X(..) { Ok(ty) => ty, Err(_) => lookup_ty_template_for_X(..)? } *)
Definition lookup_ty_for_xtor_or_template (pol : fpol) (st : symtab) (x : fname) (targs : list fty)
  : cres (fty * list fname * symtab) :=
  match lookup_ty_for_xtor pol st (x ++ print_targs targs) with
  | Some (ty, xtors) => COk (ty, xtors, st)
  | None => lookup_ty_template_for_xtor pol st x targs
  end.

(* ---------- context.rs ---------- *)
(* rightmost binding of the name, whatever its chirality *)
Fixpoint lookup_last (ctx : fctx) (v : fname) : option fbinding :=
  match ctx with
  | [] => None
  | b :: r =>
      match lookup_last r v with
      | Some x => Some x
      | None => if String.eqb (fbvar b) v then Some b else None
      end
  end.
Definition lookup_var (ctx : fctx) (v : fname) : cres fty :=
  match lookup_last ctx v with
  | Some b => match fbchi b with FCns => CErr EExpectedTermGotCovariable | FPrd => COk (fbty b) end
  | None => CErr EUnboundVariable
  end.
Definition lookup_covar (ctx : fctx) (v : fname) : cres fty :=
  match lookup_last ctx v with
  | Some b => match fbchi b with FPrd => CErr EExpectedCovariableGotTerm | FCns => COk (fbty b) end
  | None => CErr EUnboundCovariable
  end.
Definition mem_name (x : fname) (l : list fname) : bool := existsb (String.eqb x) l.
(* TypingContext::no_dups: the chirality of the SECOND occurrence selects the error *)
Fixpoint ctx_no_dups_go (seen : list fname) (c : fctx) : cres unit :=
  match c with
  | [] => COk tt
  | b :: r =>
      if mem_name (fbvar b) seen
      then match fbchi b with FPrd => CErr EVarBoundMultipleTimes | FCns => CErr ECovarBoundMultipleTimes end
      else ctx_no_dups_go (fbvar b :: seen) r
  end.
Definition ctx_no_dups (c : fctx) : cres unit := ctx_no_dups_go [] c.
(* NameContext::no_dups and TypeContext::no_dups: same error variant *)
Fixpoint names_no_dups_go (seen : list fname) (l : list fname) : cres unit :=
  match l with
  | [] => COk tt
  | x :: r => if mem_name x seen then CErr ETypeParameterBoundMultipleTimes else names_no_dups_go (x :: seen) r
  end.
Definition names_no_dups (l : list fname) : cres unit := names_no_dups_go [] l.
(* NameContext::add_types *)
Fixpoint zip_names (names : list fname) (sig : fctx) : fctx :=
  match names, sig with
  | n :: nr, b :: br => mkfb n (fbchi b) (fbty b) :: zip_names nr br
  | _, _ => []
  end.
Definition add_types (names : fnamectx) (sig : fctx) : cres fctx :=
  if negb (Nat.eqb (List.length names) (List.length sig)) then CErr EWrongNumberOfBinders
  else COk (zip_names names sig).
(* TypingContext::check *)
Fixpoint ctx_check (c : fctx) (st : symtab) : cres symtab :=
  match c with
  | [] => COk st
  | b :: r => doc st' <- ty_check (fbty b) st; ctx_check r st'
  end.

(* ---------- the Check trait ---------- *)
Definition checker := symtab -> fctx -> fty -> cres (fterm * symtab).

(* check.rs: check_args, after the length test (zip) *)
Definition check_args_with (chk : fterm -> checker) :=
  fix go (args : list fterm) (tys : fctx) (st : symtab) (ctx : fctx) {struct args} : cres (list fterm * symtab) :=
    match args, tys with
    | a :: ar, b :: br =>
        match fbchi b with
        | FCns =>
            match a with
            | FVar v ty chi =>
                match chi with
                | Some FPrd => CErr EExpectedCovariableGotTerm
                | _ =>
                    doc found <- lookup_covar ctx v;
                    doc st1 <- match ty with Some t => check_equality st t found | None => COk st end;
                    doc st2 <- check_equality st1 (fbty b) found;
                    doc (ar', st3) <- go ar br st2 ctx;
                    COk (FVar v (Some found) (Some FCns) :: ar', st3)
                end
            | _ => CErr EExpectedCovariableGotTerm
            end
        | FPrd =>
            doc st1 <- ty_check (fbty b) st;
            doc (a', st2) <- chk a st1 ctx (fbty b);
            doc (ar', st3) <- go ar br st2 ctx;
            COk (a' :: ar', st3)
        end
    | _, _ => COk ([], st)
    end.
Definition check_args (chk : fterm -> checker) (args : list fterm) (tys : fctx) (st : symtab) (ctx : fctx)
  : cres (list fterm * symtab) :=
  if negb (Nat.eqb (List.length tys) (List.length args)) then CErr EWrongNumberOfArguments
  else check_args_with chk args tys st ctx.

(* clauses together with the checker of their body *)
Record pclause := mkpc { pc_pol : fpol; pc_xtor : fname; pc_names : fnamectx; pc_ctx : fctx; pc_body : fterm; pc_chk : checker }.
Definition prep_clauses (chk : fterm -> checker) :=
  fix go (cls : list fclause) : list pclause :=
    match cls with
    | [] => []
    | FClause p x names ctx body :: r => mkpc p x names ctx body (chk body) :: go r
    end.

(* Vec::swap_remove(position of the first element satisfying f) *)
Fixpoint pop_last {X} (l : list X) : option (list X * X) :=
  match l with
  | [] => None
  | x :: r => match pop_last r with None => Some ([], x) | Some (m, z) => Some (x :: m, z) end
  end.
Fixpoint swap_remove_first {X} (f : X -> bool) (l : list X) : option (X * list X) :=
  match l with
  | [] => None
  | x :: r =>
      if f x then match pop_last r with None => Some (x, []) | Some (m, z) => Some (x, z :: m) end
      else match swap_remove_first f r with Some (y, r') => Some (y, x :: r') | None => None end
  end.

(* the loop `for xtor in expected_xtors` of Case::check (is_case = true) and New::check.
   sig_of full_name = the instance signature and the type the body is checked against *)
Fixpoint check_clauses (is_case : bool) (sfx : string) (expected : fty) (xtors : list fname)
         (cls : list pclause) (st : symtab) (ctx : fctx) : cres (list fclause * list pclause * symtab) :=
  match xtors with
  | [] => COk ([], cls, st)
  | x :: xr =>
      match swap_remove_first (fun c => String.eqb (pc_xtor c) x) cls with
      | None => CErr (if is_case then EMissingCtorInCase else EMissingDtorInNew)
      | Some (cl, cls') =>
          let full := x ++ sfx in
          doc sigty <- (if is_case
                        then match aget (st_ctors st) full with Some sg => COk (sg, expected) | None => CErr EUndefined end
                        else match aget (st_dtors st) full with Some (sg, ret) => COk (sg, ret) | None => CErr EUndefined end);
          let '(sg, bty) := sigty in
          doc _ <- names_no_dups (pc_names cl);
          doc cctx <- add_types (pc_names cl) sg;
          doc (body', st1) <- pc_chk cl st (ctx ++ cctx)%list bty;
          doc (rest, leftover, st2) <- check_clauses is_case sfx expected xr cls' st1 ctx;
          COk (FClause (pc_pol cl) (pc_xtor cl) (pc_names cl) cctx body' :: rest, leftover, st2)
      end
  end.

(* [eager] = true: the code as it is (since fix d524b1f): Constructor::check and New::check first
   call expected.check(symbol_table) (for i64 this is a no-op, so doing it before the i64 test is
   the same).  [eager] = false: the code before the fix (instance-order defect). *)
Fixpoint check_term_gen (eager : bool) (t : fterm) : checker :=
  let check_term := check_term_gen eager in
  fun st ctx expected =>
  match t with
  | FVar v ty chi =>                                            (* var.rs *)
      match chi with
      | Some FCns => CErr EExpectedTermGotCovariable
      | _ =>
          doc found <- lookup_var ctx v;
          doc st1 <- match ty with Some t => check_equality st t found | None => COk st end;
          doc st2 <- check_equality st1 expected found;
          COk (FVar v (Some expected) (Some FPrd), st2)
      end
  | FLit n =>                                                   (* literal.rs *)
      doc st1 <- check_equality st expected FI64;
      COk (FLit n, st1)
  | FOp a o b =>                                                (* op.rs *)
      doc st1 <- check_equality st FI64 expected;
      doc (a', st2) <- check_term a st1 ctx FI64;
      doc (b', st3) <- check_term b st2 ctx FI64;
      COk (FOp a' o b', st3)
  | FIfC so a b th el _ =>                                      (* ifc.rs *)
      doc (a', st1) <- check_term a st ctx FI64;
      doc (b', st2) <- match b with
                       | None => COk (None, st1)
                       | Some b0 => doc (b1, s) <- check_term b0 st1 ctx FI64; COk (Some b1, s)
                       end;
      doc (th', st3) <- check_term th st2 ctx expected;
      doc (el', st4) <- check_term el st3 ctx expected;
      COk (FIfC so a' b' th' el' (Some expected), st4)
  | FPrint nl a next _ =>                                       (* print.rs *)
      doc (a', st1) <- check_term a st ctx FI64;
      doc (next', st2) <- check_term next st1 ctx expected;
      COk (FPrint nl a' next' (Some expected), st2)
  | FLet v vty bound body _ =>                                  (* let.rs *)
      doc st1 <- ty_check vty st;
      doc (bound', st2) <- check_term bound st1 ctx vty;
      doc (body', st3) <- check_term body st2 (ctx ++ [mkfb v FPrd vty])%list expected;
      COk (FLet v vty bound' body' (Some expected), st3)
  | FCall f args _ =>                                           (* call.rs *)
      match aget (st_defs st) f with
      | None => CErr EUndefined
      | Some (types, ret_ty) =>
          doc st1 <- check_equality st expected ret_ty;
          doc (args', st2) <- check_args check_term args types st1 ctx;
          COk (FCall f args' (Some expected), st2)
      end
  | FCtor x args _ =>                                           (* constructor.rs *)
      doc st <- (if eager then ty_check expected st else COk st);
      match expected with
      | FI64 => CErr EExpectedI64ForConstructor
      | FDecl _ targs =>
          let name := x ++ print_targs targs in
          match aget (st_ctors st) name with
          | None => CErr EUndefined
          | Some types =>
              match lookup_ty_for_xtor FData st name with
              | None => CErr EUndefined
              | Some (ty, _) =>
                  doc (args', st1) <- check_args check_term args types st ctx;
                  doc st2 <- check_equality st1 expected ty;
                  COk (FCtor x args' (Some expected), st2)
              end
          end
      end
  | FDtor scrut x targs args _ =>                               (* destructor.rs *)
      let dname := x ++ print_targs targs in
      doc (ty, _, st1) <- lookup_ty_for_xtor_or_template FCodata st x targs;
      doc (scrut', st2) <- check_term scrut st1 ctx ty;
      match aget (st_dtors st2) dname with
      | None => CErr EUndefined
      | Some (types, ret_ty) =>
          doc (args', st3) <- check_args check_term args types st2 ctx;
          doc st4 <- check_equality st3 expected ret_ty;
          COk (FDtor scrut' x targs args' (Some expected), st4)
      end
  | FCase scrut targs cls _ =>                                  (* case.rs *)
      match cls with
      | [] => CErr EEmptyMatch
      | FClause _ x0 _ _ _ :: _ =>
          doc (ty, xtors, st1) <- lookup_ty_for_xtor_or_template FData st x0 targs;
          doc (scrut', st2) <- check_term scrut st1 ctx ty;
          doc (cls', leftover, st3) <- check_clauses true (print_targs targs) expected xtors
                                      (prep_clauses check_term cls) st2 ctx;
          match leftover with
          | [] => COk (FCase scrut' targs cls' (Some expected), st3)
          | _ => CErr EUnexpectedCtorsInCase
          end
      end
  | FNew cls _ =>                                               (* new.rs *)
      doc st <- (if eager then ty_check expected st else COk st);
      match expected with
      | FI64 => CErr EExpectedI64ForNew
      | FDecl name targs =>
          match aget (st_types st) (name ++ print_targs targs) with
          | None => CErr EUndefined
          | Some (FData, _, _) => CErr EExpectedDataForNew
          | Some (FCodata, _, dtors) =>
              doc (cls', leftover, st1) <- check_clauses false (print_targs targs) expected dtors
                                          (prep_clauses check_term cls) st ctx;
              match leftover with
              | [] => COk (FNew cls' (Some expected), st1)
              | _ => CErr EUnexpectedDtorsInNew
              end
          end
      end
  | FLabel l t _ =>                                             (* label.rs *)
      doc (t', st1) <- check_term t st (ctx ++ [mkfb l FCns expected])%list expected;
      COk (FLabel l t' (Some expected), st1)
  | FGoto l t _ =>                                              (* goto.rs *)
      doc cont <- lookup_covar ctx l;
      doc (t', st1) <- check_term t st ctx cont;
      COk (FGoto l t' (Some expected), st1)
  | FExit a _ =>                                                (* exit.rs *)
      doc (a', st1) <- check_term a st ctx FI64;
      COk (FExit a' (Some expected), st1)
  | FParen t =>                                                 (* paren.rs *)
      doc (t', st1) <- check_term t st ctx expected;
      COk (FParen t', st1)
  end.

(* ---------- symbol_table.rs: build_symbol_table ---------- *)
Fixpoint build_ctors (cs : list fctorsig) (st : symtab) : cres symtab :=
  match cs with
  | [] => COk st
  | c :: r =>
      if ahas (st_ctor_templates st) (fctname c) then CErr EDefinedMultipleTimes
      else build_ctors r (set_ctor_templates st (ainsert (st_ctor_templates st) (fctname c) (fctargs c)))
  end.
Fixpoint build_dtors (ds : list fdtorsig) (st : symtab) : cres symtab :=
  match ds with
  | [] => COk st
  | d :: r =>
      if ahas (st_dtor_templates st) (fdtname d) then CErr EDefinedMultipleTimes
      else build_dtors r (set_dtor_templates st (ainsert (st_dtor_templates st) (fdtname d) (fdtargs d, fdtcont d)))
  end.
Definition build_decl (d : fdecl) (st : symtab) : cres symtab :=
  match d with
  | FDDef d =>
      if ahas (st_defs st) (fdname d) then CErr EDefinedMultipleTimes
      else COk (set_defs st (ainsert (st_defs st) (fdname d) (fdctx d, fdret d)))
  | FDData d =>
      if ahas (st_type_templates st) (fdaname d) then CErr EDefinedMultipleTimes
      else build_ctors (fdactors d)
             (set_type_templates st (ainsert (st_type_templates st) (fdaname d)
                                       (FData, fdaparams d, map fctname (fdactors d))))
  | FDCodata d =>
      if ahas (st_type_templates st) (fcoaname d) then CErr EDefinedMultipleTimes
      else build_dtors (fcodtors d)
             (set_type_templates st (ainsert (st_type_templates st) (fcoaname d)
                                       (FCodata, fcoparams d, map fdtname (fcodtors d))))
  end.
Fixpoint build_decls (ds : list fdecl) (st : symtab) : cres symtab :=
  match ds with
  | [] => COk st
  | d :: r => doc st' <- build_decl d st; build_decls r st'
  end.
(* check_type_params: iterates the HashMap type_templates (model: insertion order) *)
Fixpoint check_type_params_go (all : amap (fpol * fnamectx * list fname)) (l : amap (fpol * fnamectx * list fname)) : cres unit :=
  match l with
  | [] => COk tt
  | (_, (_, params, _)) :: r =>
      doc _ <- names_no_dups params;
      if existsb (fun p => ahas all p) params then CErr EDefinedMultipleTimes
      else check_type_params_go all r
  end.
Definition build_symbol_table (p : fprog) : cres symtab :=
  doc st <- build_decls (fpdecls p) st_empty;
  doc _ <- check_type_params_go (st_type_templates st) (st_type_templates st);
  COk st.

(* ---------- declarations: Data::check, Codata::check (check_template), Def::check ---------- *)
(* types.rs: Ty::check_template.  `expected` = the number of type arguments the head takes: the number
   of parameters of the template of that name, 0 for a type parameter of the enclosing template *)
Definition template_arity (st : symtab) (params : fnamectx) (name : fname) : option nat :=
  match aget (st_type_templates st) name with
  | Some (_, tparams, _) => Some (List.length tparams)
  | None => if mem_name name params then Some 0%nat else None
  end.
Fixpoint ty_check_template (st : symtab) (params : fnamectx) (t : fty) {struct t} : cres unit :=
  match t with
  | FI64 => COk tt
  | FDecl name targs =>
      match template_arity st params name with
      | None => CErr EUndefined
      | Some expected =>
          if negb (Nat.eqb (List.length targs) expected) then CErr EWrongNumberOfTypeArguments
          else (fix go (l : list fty) : cres unit :=
                  match l with
                  | [] => COk tt
                  | a :: r => doc _ <- ty_check_template st params a; go r
                  end) targs
      end
  end.
Fixpoint ctx_check_template (st : symtab) (params : fnamectx) (c : fctx) : cres unit :=
  match c with
  | [] => COk tt
  | b :: r => doc _ <- ty_check_template st params (fbty b); ctx_check_template st params r
  end.
Fixpoint data_check (st : symtab) (params : fnamectx) (cs : list fctorsig) : cres unit :=
  match cs with
  | [] => COk tt
  | c :: r => doc _ <- ctx_check_template st params (fctargs c); data_check st params r
  end.
Fixpoint codata_check (st : symtab) (params : fnamectx) (ds : list fdtorsig) : cres unit :=
  match ds with
  | [] => COk tt
  | d :: r =>
      doc _ <- ctx_check_template st params (fdtargs d);
      doc _ <- ty_check_template st params (fdtcont d);
      codata_check st params r
  end.
Definition check_term : fterm -> checker := check_term_gen true.

(* def.rs: Def::check.  `if self.name == "main" { check_equality(.., &Ty::mk_i64(), &self.ret_ty)? }` *)
Definition main_ret_check (d : fdef) (st : symtab) : cres symtab :=
  if String.eqb (fdname d) "main" then check_equality st FI64 (fdret d) else COk st.
Definition def_check_gen (eager : bool) (d : fdef) (st : symtab) : cres (fdef * symtab) :=
  doc _ <- ctx_no_dups (fdctx d);
  doc st1 <- ctx_check (fdctx d) st;
  doc st2 <- ty_check (fdret d) st1;
  doc st2 <- main_ret_check d st2;
  doc (body', st3) <- check_term_gen eager (fdbody d) st2 (fdctx d) (fdret d);
  COk (mkfdef (fdname d) (fdctx d) (fdret d) body', st3).
Definition def_check := def_check_gen true.

(* ---------- program.rs: check_with_table ---------- *)
Fixpoint check_type_decls (ds : list fdecl) (st : symtab) : cres unit :=
  match ds with
  | [] => COk tt
  | FDData d :: r => doc _ <- data_check st (fdaparams d) (fdactors d); check_type_decls r st
  | FDCodata d :: r => doc _ <- codata_check st (fcoparams d) (fcodtors d); check_type_decls r st
  | FDDef _ :: r => check_type_decls r st
  end.
Fixpoint defs_of (ds : list fdecl) : list fdef :=
  match ds with
  | [] => []
  | FDDef d :: r => d :: defs_of r
  | _ :: r => defs_of r
  end.
Fixpoint check_defs_gen (eager : bool) (ds : list fdef) (st : symtab) : cres (list fdef * symtab) :=
  match ds with
  | [] => COk ([], st)
  | d :: r =>
      doc (d', st1) <- def_check_gen eager d st;
      doc (r', st2) <- check_defs_gen eager r st1;
      COk (d' :: r', st2)
  end.
Definition check_defs := check_defs_gen true.

(* collection of the instances *)
Fixpoint collect_ctors (st : symtab) (sfx : string) (xtors : list fname) : cres (list fctorsig) :=
  match xtors with
  | [] => COk []
  | base :: r =>
      match aget (st_ctors st) (base ++ sfx) with
      | None => CErr EInternalPanic
      | Some args => doc r' <- collect_ctors st sfx r; COk (mkfctor base args :: r')
      end
  end.
Fixpoint collect_dtors (st : symtab) (sfx : string) (xtors : list fname) : cres (list fdtorsig) :=
  match xtors with
  | [] => COk []
  | base :: r =>
      match aget (st_dtors st) (base ++ sfx) with
      | None => CErr EInternalPanic
      | Some (args, cont) => doc r' <- collect_dtors st sfx r; COk (mkfdtor base args cont :: r')
      end
  end.
Fixpoint collect_types (st : symtab) (types : amap (fpol * list fty * list fname))
  : cres (list fdata * list fcodata) :=
  match types with
  | [] => COk ([], [])
  | (name, (pol, targs, xtors)) :: r =>
      match pol with
      | FData =>
          doc cs <- collect_ctors st (print_targs targs) xtors;
          doc (das, cos) <- collect_types st r;
          COk (mkfdata name [] cs :: das, cos)
      | FCodata =>
          doc ds <- collect_dtors st (print_targs targs) xtors;
          doc (das, cos) <- collect_types st r;
          COk (das, mkfcodata name [] ds :: cos)
      end
  end.

(* sort_by(|a, b| a.name.cmp(&b.name)): stable; byte-wise string order *)
Definition name_leb (a b : string) : bool := String.leb a b.
Fixpoint insert_sorted {X} (key : X -> string) (x : X) (l : list X) : list X :=
  match l with
  | [] => [x]
  | y :: r => if name_leb (key y) (key x) then y :: insert_sorted key x r else x :: l
  end.
(* stable: later elements are inserted after equal earlier ones *)
Definition sort_by_name {X} (key : X -> string) (l : list X) : list X :=
  fold_left (fun acc x => insert_sorted key x acc) l [].

Definition check_with_table_gen (eager : bool) (p : fprog) (st : symtab) : cres fcprog :=
  doc _ <- check_type_decls (fpdecls p) st;
  doc (defs, st1) <- check_defs_gen eager (defs_of (fpdecls p)) st;
  doc (das, cos) <- collect_types st1 (st_types st1);
  COk (mkfcprog (sort_by_name fdaname das) (sort_by_name fcoaname cos) defs).

Definition check_with_table := check_with_table_gen true.

(* Program::check *)
Definition check_gen (eager : bool) (p : fprog) : cres fcprog :=
  doc st <- build_symbol_table p;
  check_with_table_gen eager p st.
Definition check : fprog -> cres fcprog := check_gen true.
(* the checker before fix d524b1f (instance-order defect), for the regression statements *)
Definition check_before_fix : fprog -> cres fcprog := check_gen false.

(* ---------- the code before the two fixes, for the regression statements ----------
   [old_check_gen strict_decls main_i64]: Program::check with the declaration types checked completely
   (strict_decls = true, the code since fix eb42971) or by head name only (false, the code before it), and with
   (main_i64 = true, since fix 5b8c76f) or without (false) the comparison of main's return type with i64.
   old_check_gen true true = check (Proof/CheckOld.v old_check_gen_current). *)
Definition old_ty_check_template (st : symtab) (params : fnamectx) (t : fty) : cres unit :=
  match t with
  | FI64 => COk tt
  | FDecl name _ =>
      if ahas (st_type_templates st) name then COk tt
      else if mem_name name params then COk tt else CErr EUndefined
  end.
Fixpoint old_ctx_check_template (st : symtab) (params : fnamectx) (c : fctx) : cres unit :=
  match c with
  | [] => COk tt
  | b :: r => doc _ <- old_ty_check_template st params (fbty b); old_ctx_check_template st params r
  end.
Fixpoint old_data_check (st : symtab) (params : fnamectx) (cs : list fctorsig) : cres unit :=
  match cs with
  | [] => COk tt
  | c :: r => doc _ <- old_ctx_check_template st params (fctargs c); old_data_check st params r
  end.
Fixpoint old_codata_check (st : symtab) (params : fnamectx) (ds : list fdtorsig) : cres unit :=
  match ds with
  | [] => COk tt
  | d :: r =>
      doc _ <- old_ctx_check_template st params (fdtargs d);
      doc _ <- old_ty_check_template st params (fdtcont d);
      old_codata_check st params r
  end.
Fixpoint old_check_type_decls (ds : list fdecl) (st : symtab) : cres unit :=
  match ds with
  | [] => COk tt
  | FDData d :: r => doc _ <- old_data_check st (fdaparams d) (fdactors d); old_check_type_decls r st
  | FDCodata d :: r => doc _ <- old_codata_check st (fcoparams d) (fcodtors d); old_check_type_decls r st
  | FDDef _ :: r => old_check_type_decls r st
  end.
Definition old_def_check (main_i64 : bool) (d : fdef) (st : symtab) : cres (fdef * symtab) :=
  doc _ <- ctx_no_dups (fdctx d);
  doc st1 <- ctx_check (fdctx d) st;
  doc st2 <- ty_check (fdret d) st1;
  doc st2 <- (if main_i64 then main_ret_check d st2 else COk st2);
  doc (body', st3) <- check_term (fdbody d) st2 (fdctx d) (fdret d);
  COk (mkfdef (fdname d) (fdctx d) (fdret d) body', st3).
Fixpoint old_check_defs (main_i64 : bool) (ds : list fdef) (st : symtab) : cres (list fdef * symtab) :=
  match ds with
  | [] => COk ([], st)
  | d :: r =>
      doc (d', st1) <- old_def_check main_i64 d st;
      doc (r', st2) <- old_check_defs main_i64 r st1;
      COk (d' :: r', st2)
  end.
Definition old_check_gen (strict_decls main_i64 : bool) (p : fprog) : cres fcprog :=
  doc st <- build_symbol_table p;
  doc _ <- (if strict_decls then check_type_decls (fpdecls p) st else old_check_type_decls (fpdecls p) st);
  doc (defs, st1) <- old_check_defs main_i64 (defs_of (fpdecls p)) st;
  doc (das, cos) <- collect_types st1 (st_types st1);
  COk (mkfcprog (sort_by_name fdaname das) (sort_by_name fcoaname cos) defs).
(* the checker before fix eb42971 (declaration types by head name only) *)
Definition old_check_decls : fprog -> cres fcprog := old_check_gen false true.
(* the checker before fix 5b8c76f (return type of main unconstrained) *)
Definition old_check_main : fprog -> cres fcprog := old_check_gen true false.
