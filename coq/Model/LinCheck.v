(* The two typing disciplines of AxCut as boolean checkers (executable, used by modelrun and by the
   theorems of C05):
   - `ax_check`  : the NON-linear discipline of programs before linearization.  The context is a
                   set of typed variables read by id (`lookup_b`, first match); every use must find
                   its variable with the expected chirality and type; xtor/definition signatures
                   are respected; clauses come one per xtor in declaration order.
   - `lin_check` : the ORDERED, LINEAR discipline the back ends assume (C05): at each statement
                   the context is exactly the list the statement expects
                     call     : positions agree in kind and type with the callee's parameters
                     invoke   : arguments (kinds/types of the destructor signature) then the closure
                     let      : rest, then the arguments (ids, kinds and types), which match the xtor
                     switch   : rest, then the scrutinee; clause bodies see rest ++ clause context
                     create   : rest, then the captured environment; clause bodies see
                                clause context ++ environment; next sees rest ++ [closure]
                     literal/op push one ext binding; print/ifc leave the context unchanged and
                     their operands (ext, i64) must be in it; exit's operand likewise
                   ids in a context are pairwise distinct; values are duplicated, dropped or
                   reordered only by `substitute`, whose sources must be in the context with the
                   kind and type of the target binding.
   No proofs in this file (Proof/LinearizeProof.v: `lin_wt`, soundness, the theorems). *)
From Coq Require Import List ZArith NArith String Bool.
From SCC Require Import Base.Sexp Lang.AxSyn Model.Linearize.
Import ListNotations.
Open Scope string_scope.
Open Scope list_scope.
Open Scope N_scope.

(* ---------- signatures: what a program declares ---------- *)
Record sigs := mks { sg_labels : list (ident * ctx); sg_types : list tydecl }.
Definition sigs_of (p : prog) : sigs := mks (map (fun d => (dname d, dctx d)) (pdefs p)) (ptypes p).

Definition lookup_label (S : sigs) (l : ident) : option ctx :=
  match find (fun p => ident_eqb (fst p) l) (sg_labels S) with Some p => Some (snd p) | None => None end.
Definition type_xtors (S : sigs) (t : ty) : option (list xtorsig) :=
  match t with
  | Decl n => match find (fun d => ident_eqb (tname d) n) (sg_types S) with
              | Some d => Some (txtors d) | None => None end
  | I64 => None
  end.
Definition lookup_xtor (S : sigs) (t : ty) (tag : ident) : option ctx :=
  match type_xtors S t with
  | Some xs => match find (fun x => ident_eqb (xname x) tag) xs with
               | Some x => Some (xargs x) | None => None end
  | None => None
  end.

(* ---------- contexts ---------- *)
Definition lookup_b (c : ctx) (x : N) : option binding := find (fun b => N.eqb (idn (bvar b)) x) c.
Definition kt_eqb (a b : binding) : bool := chi_eqb (bchi a) (bchi b) && ty_eqb (bty a) (bty b).
(* the context has variable x (by id) with this kind and type *)
Definition has (c : ctx) (x : ident) (k : chi) (t : ty) : bool :=
  match lookup_b c (idn x) with
  | Some b => chi_eqb (bchi b) k && ty_eqb (bty b) t
  | None => false
  end.
Definition has_b (c : ctx) (b : binding) : bool := has c (bvar b) (bchi b) (bty b).
Definition has_ext (c : ctx) (x : ident) : bool := has c x Ext I64.
(* kinds and types agree position by position (names and ids are not compared) *)
Fixpoint sig_match (a s : ctx) : bool :=
  match a, s with
  | [], [] => true
  | x :: a', y :: s' => kt_eqb x y && sig_match a' s'
  | _, _ => false
  end.
(* ids, kinds and types agree position by position *)
Fixpoint ctx_match (a b : ctx) : bool :=
  match a, b with
  | [], [] => true
  | x :: a', y :: b' => N.eqb (idn (bvar x)) (idn (bvar y)) && kt_eqb x y && ctx_match a' b'
  | _, _ => false
  end.
(* one clause per xtor, in declaration order, binding what the xtor declares *)
Fixpoint cls_sig (cls : list clause) (xs : list xtorsig) : bool :=
  match cls, xs with
  | [], [] => true
  | c :: cr, x :: xr => ident_eqb (cl_xtor c) (xname x) && sig_match (cl_ctx c) (xargs x) && cls_sig cr xr
  | _, _ => false
  end.
Definition cls_ok (S : sigs) (t : ty) (cls : list clause) : bool :=
  match type_xtors S t with Some xs => cls_sig cls xs | None => false end.
Definition args_ok (S : sigs) (t : ty) (tag : ident) (args : ctx) : bool :=
  match lookup_xtor S t tag with Some sg => sig_match args sg | None => false end.
Fixpoint nodupb (l : list N) : bool :=
  match l with [] => true | x :: r => negb (mem x r) && nodupb r end.
Definition split_lastn (n : nat) (c : ctx) : option (ctx * ctx) :=
  if Nat.leb n (List.length c)
  then Some (firstn (List.length c - n) c, skipn (List.length c - n) c)
  else None.

(* ---------- the non-linear discipline ---------- *)
Fixpoint ax_check (S : sigs) (c : ctx) (s : stmt) : bool :=
  let clauses := fix go (cls : list (ident * ctx * stmt)) : bool :=
    match cls with
    | [] => true
    | (_, cc, b) :: r => ax_check S (cc ++ c) b && go r
    end in
  match s with
  | Substitute _ _ => false
  | Call l args =>
      match lookup_label S l with
      | Some ps => sig_match args ps && forallb (has_b c) args
      | None => false
      end
  | Let v t tag args next =>
      args_ok S t tag args && forallb (has_b c) args && ax_check S (mkb v Prd t :: c) next
  | Switch v t cls => has c v Prd t && cls_ok S t cls && clauses cls
  | Create v t _ cls next => cls_ok S t cls && clauses cls && ax_check S (mkb v Cns t :: c) next
  | Invoke v tag t args => has c v Cns t && args_ok S t tag args && forallb (has_b c) args
  | Literal _ v next => ax_check S (mkb v Ext I64 :: c) next
  | Op a _ b v next => has_ext c a && has_ext c b && ax_check S (mkb v Ext I64 :: c) next
  | PrintI64 _ v next => has_ext c v && ax_check S c next
  | IfC _ a b t e =>
      has_ext c a && match b with Some b => has_ext c b | None => true end
      && ax_check S c t && ax_check S c e
  | Exit v => has_ext c v
  end.

(* binders of a statement, in program order *)
Fixpoint binders (s : stmt) : list N :=
  let bcs := fix go (cls : list (ident * ctx * stmt)) : list N :=
    match cls with
    | [] => []
    | (_, cc, b) :: r => ids cc ++ binders b ++ go r
    end in
  match s with
  | Substitute re next => map (fun p => idn (bvar (fst p))) re ++ binders next
  | Call _ _ | Invoke _ _ _ _ | Exit _ => []
  | Let v _ _ _ next | Literal _ v next | Op _ _ _ v next => idn v :: binders next
  | Switch _ _ cls => bcs cls
  | Create v _ _ cls next => idn v :: bcs cls ++ binders next
  | PrintI64 _ _ next => binders next
  | IfC _ _ _ t e => binders t ++ binders e
  end.

(* what the theorems assume of a definition: typed, binders unique and distinct from the
   parameters, all ids below max_id *)
Definition def_ok (S : sigs) (max_id : N) (d : def) : bool :=
  ax_check S (dctx d) (dbody d)
  && nodupb (ids (dctx d) ++ binders (dbody d))
  && forallb (fun x => N.leb x max_id) (ids (dctx d) ++ binders (dbody d)).
Definition prog_ok (p : prog) : bool := forallb (def_ok (sigs_of p) (pmax p)) (pdefs p).

(* ---------- the ordered linear discipline ---------- *)
Fixpoint lin_check (S : sigs) (c : ctx) (s : stmt) : bool :=
  nodupb (ids c) &&
  match s with
  | Substitute re next =>
      forallb (fun p : binding * ident => has c (snd p) (bchi (fst p)) (bty (fst p))) re
      && lin_check S (map fst re) next
  | Call l _ =>
      match lookup_label S l with Some ps => sig_match c ps | None => false end
  | Let v t tag args next =>
      match split_lastn (List.length args) c with
      | Some (c0, tl) => ctx_match tl args && args_ok S t tag args && lin_check S (c0 ++ [mkb v Prd t]) next
      | None => false
      end
  | Switch v t cls =>
      match split_lastn 1 c with
      | Some (c0, [b]) =>
          N.eqb (idn (bvar b)) (idn v) && chi_eqb (bchi b) Prd && ty_eqb (bty b) t && cls_ok S t cls
          && (fix go (cls : list (ident * ctx * stmt)) : bool :=
                match cls with
                | [] => true
                | (_, cc, body) :: r => lin_check S (c0 ++ cc) body && go r
                end) cls
      | _ => false
      end
  | Create v t (Some env) cls next =>
      match split_lastn (List.length env) c with
      | Some (c0, tl) =>
          ctx_match tl env && cls_ok S t cls
          && (fix go (cls : list (ident * ctx * stmt)) : bool :=
                match cls with
                | [] => true
                | (_, cc, body) :: r => lin_check S (cc ++ env) body && go r
                end) cls
          && lin_check S (c0 ++ [mkb v Cns t]) next
      | None => false
      end
  | Create _ _ None _ _ => false
  | Invoke v tag t _ =>
      match split_lastn 1 c with
      | Some (c0, [b]) =>
          N.eqb (idn (bvar b)) (idn v) && chi_eqb (bchi b) Cns && ty_eqb (bty b) t && args_ok S t tag c0
      | _ => false
      end
  | Literal _ v next => lin_check S (c ++ [mkb v Ext I64]) next
  | Op a _ b v next => has_ext c a && has_ext c b && lin_check S (c ++ [mkb v Ext I64]) next
  | PrintI64 _ v next => has_ext c v && lin_check S c next
  | IfC _ a b t e =>
      has_ext c a && match b with Some b => has_ext c b | None => true end
      && lin_check S c t && lin_check S c e
  | Exit v => has_ext c v
  end.

Definition lin_check_def (S : sigs) (d : def) : bool := lin_check S (dctx d) (dbody d).
Definition lin_check_prog (p : prog) : bool := forallb (lin_check_def (sigs_of p)) (pdefs p).

(* where a program is not linear: name of the first definition that fails (diagnostics only) *)
Definition first_bad_def (p : prog) : string :=
  match find (fun d => negb (lin_check_def (sigs_of p) d)) (pdefs p) with
  | Some d => show_ident (dname d)
  | None => ""
  end.

(* ---------- operands stay available (C05, last sentence) ---------- *)
(* threads the context like lin_check; at op / print / ifc / exit the operands must be in the
   environment that is PASSED ON to the continuation(s) *)
Fixpoint ops_kept (c : ctx) (s : stmt) : bool :=
  match s with
  | Substitute re next => ops_kept (map fst re) next
  | Call _ _ | Invoke _ _ _ _ => true
  | Let v t _ args next =>
      match split_lastn (List.length args) c with
      | Some (c0, _) => ops_kept (c0 ++ [mkb v Prd t]) next
      | None => false
      end
  | Switch _ _ cls =>
      match split_lastn 1 c with
      | Some (c0, _) =>
          (fix go (cls : list (ident * ctx * stmt)) : bool :=
             match cls with
             | [] => true
             | (_, cc, body) :: r => ops_kept (c0 ++ cc) body && go r
             end) cls
      | None => false
      end
  | Create v t (Some env) cls next =>
      match split_lastn (List.length env) c with
      | Some (c0, _) =>
          (fix go (cls : list (ident * ctx * stmt)) : bool :=
             match cls with
             | [] => true
             | (_, cc, body) :: r => ops_kept (cc ++ env) body && go r
             end) cls
          && ops_kept (c0 ++ [mkb v Cns t]) next
      | None => false
      end
  | Create _ _ None _ _ => false
  | Literal _ v next => ops_kept (c ++ [mkb v Ext I64]) next
  | Op a _ b v next =>
      let c' := c ++ [mkb v Ext I64] in has_ext c' a && has_ext c' b && ops_kept c' next
  | PrintI64 _ v next => has_ext c v && ops_kept c next
  | IfC _ a b t e =>
      has_ext c a && match b with Some b => has_ext c b | None => true end
      && ops_kept c t && ops_kept c e
  | Exit v => has_ext c v
  end.

(* binders other than the targets of explicit substitutions *)
Fixpoint binders_ns (s : stmt) : list N :=
  let bcs := fix go (cls : list (ident * ctx * stmt)) : list N :=
    match cls with
    | [] => []
    | (_, cc, b) :: r => ids cc ++ binders_ns b ++ go r
    end in
  match s with
  | Substitute _ next => binders_ns next
  | Call _ _ | Invoke _ _ _ _ | Exit _ => []
  | Let v _ _ _ next | Literal _ v next | Op _ _ _ v next => idn v :: binders_ns next
  | Switch _ _ cls => bcs cls
  | Create v _ _ cls next => idn v :: bcs cls ++ binders_ns next
  | PrintI64 _ _ next => binders_ns next
  | IfC _ _ _ t e => binders_ns t ++ binders_ns e
  end.
