(* Functional model of lang/axcut2rv64: config.rs, utils.rs, code.rs (impl Instructions + Display),
   memory.rs (impl Memory), parallel_moves.rs (impl ParallelMoves), into_routine.rs.
   Constants come from Generated/Constants.v (module RVC, regenerated from the compiled crate on
   every run).  COMMENT instructions are not produced by the code generator model (the
   correspondence drops them from the Rust instruction list); the text rendering is modelled for
   instruction lists WITH comments (type `ritem`), so the printed routine is compared verbatim.

   Differences from the x86-64 back end that matter:
   - no spills: a temporary is a register; position p owns registers RESERVED+2p, RESERVED+2p+1;
     `assert!(register_number < REGISTER_NUM, "Out of registers")` is the capacity limit (Err here);
   - X0 is the zero register, X1 the scratch register; reference counts are updated by
     LW/ADDI/SW through X1 (no read-modify-write instruction);
   - `acquire_block` takes an additional scratch register (the Snd register of the new position);
   - `print_i64` is `panic!("not implemented in RISC-V backend")`: see `rv_compile`. *)
From Coq Require Import List ZArith NArith String Bool.
From SCC Require Import Base.Sexp Lang.AxSyn Model.ParMoves Model.Backend Generated.Constants.
Import ListNotations.
Open Scope string_scope.
Open Scope list_scope.

Definition reg := N.
Definition rtemp := reg.

(* enum Code, in declaration order, without COMMENT *)
Inductive rcode :=
| ADD (x y z : reg) | ADDI (x y : reg) (c : Z)
| SUB (x y z : reg) | MUL (x y z : reg) | DIV (x y z : reg) | REM (x y z : reg)
| JAL (x : reg) (l : string) | JALR (x y : reg) (c : Z)
| LA (x : reg) (l : string) | LI (x : reg) (c : Z) | MV (x y : reg)
| LW (x y : reg) (c : Z) | SW (x y : reg) (c : Z)
| BEQ (x y : reg) (l : string) | BNE (x y : reg) (l : string) | BLT (x y : reg) (l : string)
| BLE (x y : reg) (l : string) | BGT (x y : reg) (l : string) | BGE (x y : reg) (l : string)
| LAB (l : string).

(* ---------- config.rs ---------- *)
Definition cN (z : Z) : N := Z.to_N z.
Definition REGISTER_NUM := cN RVC.REGISTER_NUM.
Definition RESERVED := cN RVC.RESERVED.
Definition FIELDS_PER_BLOCK := cN RVC.FIELDS_PER_BLOCK.
Definition ZERO : reg := cN RVC.ZERO.
Definition TEMP : reg := cN RVC.TEMP.
Definition HEAP : reg := cN RVC.HEAP.
Definition FREE : reg := cN RVC.FREE.
Definition RETURN1 : reg := cN RVC.RETURN1.
Definition RETURN2 : reg := cN RVC.RETURN2.
Definition REFERENCE_COUNT_OFFSET : Z := RVC.REFERENCE_COUNT_OFFSET.
Definition NEXT_ELEMENT_OFFSET : Z := RVC.NEXT_ELEMENT_OFFSET.
Definition address (n : Z) : Z := RVC.address1 * n.

(* the shape of these two functions is read off config.rs; their values on samples are regenerated
   from the crate and compared in Proof/RVSel.v (rv_field_offset_samples, rv_jump_length_samples) *)
Definition field_offset (n : tnum) (i : N) : Z := address (2 + 2 * Z.of_N i + Z.of_N (tnum_n n)).
Definition jump_length (n : N) : Z := 4 * Z.of_N n.

(* ---------- utils.rs ---------- *)
(* `position` is 2 * variable_position + number, as Backend.v passes it *)
Definition temporary_from_position (position : N) : res rtemp :=
  let register_number := (position + RESERVED)%N in
  if N.ltb register_number REGISTER_NUM then Ok register_number else Err "Out of registers".

(* ---------- code.rs: impl Instructions ---------- *)
Definition jcc (s : ifsort) (a b : reg) (l : string) : rcode :=
  match s with
  | Eq => BEQ a b l | Ne => BNE a b l | Lt => BLT a b l | Le => BLE a b l | Gt => BGT a b l | Ge => BGE a b l
  end.
Definition r_arith (o : binop) (t s1 s2 : reg) : list rcode :=
  match o with
  | Sum => [ADD t s1 s2] | Sub => [SUB t s1 s2] | Prod => [MUL t s1 s2]
  | Div => [DIV t s1 s2] | Rem => [REM t s1 s2]
  end.
Definition r_jump (t : reg) : list rcode := [JALR ZERO t 0].
Definition r_jump_label (l : string) : list rcode := [JAL ZERO l].
Definition r_load_immediate (t : reg) (i : Z) : list rcode := [LI t i].
Definition r_load_label (t : reg) (l : string) : list rcode := [LA t l].
(* add_and_jump (repaired, fix of the finding "tag dispatch immediate", docs/C14.md): the immediate of ADDI has 12 bits
   (signed); a larger offset (a type with more than 512 xtors) is first loaded into the scratch register *)
Definition addi_fits (i : Z) : bool := ((-2048 <=? i) && (i <=? 2047))%Z.
Definition r_add_and_jump (t : reg) (i : Z) : list rcode :=
  (if addi_fits i then [ADDI TEMP t i] else [LI TEMP i; ADD TEMP t TEMP]) ++ [JALR ZERO TEMP 0].
(* the code before the repair (regression lemmas of C14) *)
Definition old_r_add_and_jump (t : reg) (i : Z) : list rcode := [ADDI TEMP t i; JALR ZERO TEMP 0].
Definition r_mov (t s : reg) : list rcode := [MV t s].

(* ---------- memory.rs ---------- *)
Definition lab (n : N) : string := "lab" +++ n_to_string n.

Definition skip_if_zero (condition : reg) (to_skip : list rcode) (lc : N) : list rcode * N :=
  let l := lab (lc + 1) in
  ([BEQ condition ZERO l] ++ to_skip ++ [LAB l], (lc + 1)%N).

(* the branches are generated BEFORE the labels are drawn, so their own labels are smaller *)
Definition if_zero_then_else (condition : reg) (then_branch else_branch : list rcode) (lc : N) : list rcode * N :=
  let l_then := lab (lc + 1) in
  let l_else := lab (lc + 2) in
  ([BEQ condition ZERO l_then] ++ else_branch ++ [JAL ZERO l_else; LAB l_then] ++ then_branch ++ [LAB l_else],
   (lc + 2)%N).

Definition r_erase_block (to_erase : reg) (lc : N) : list rcode * N :=
  let then_branch := [SW FREE to_erase NEXT_ELEMENT_OFFSET; MV FREE to_erase] in
  let else_branch := [ADDI TEMP TEMP (-1); SW TEMP to_erase REFERENCE_COUNT_OFFSET] in
  let '(c, lc1) := if_zero_then_else TEMP then_branch else_branch lc in
  skip_if_zero to_erase ([LW TEMP to_erase REFERENCE_COUNT_OFFSET] ++ c) lc1.

Definition r_share_block_n (to_share : reg) (n : N) (lc : N) : list rcode * N :=
  skip_if_zero to_share
    [LW TEMP to_share REFERENCE_COUNT_OFFSET; ADDI TEMP TEMP (Z.of_N n); SW TEMP to_share REFERENCE_COUNT_OFFSET] lc.

Definition nseq (start len : N) : list N := map N.of_nat (seq (N.to_nat start) (N.to_nat len)).

Definition erase_fields (to_erase additional_temp : reg) (lc : N) : list rcode * N :=
  fold_left (fun (acc : list rcode * N) (offset : N) =>
               let '(c, lc) := acc in
               let '(c1, lc1) := r_erase_block additional_temp lc in
               (c ++ [LW additional_temp to_erase (field_offset Fst offset)] ++ c1, lc1))
            (nseq 0 FIELDS_PER_BLOCK) ([], lc).

Definition acquire_block (new_block additional_temp : reg) (lc : N) : list rcode * N :=
  let c0 := [MV new_block HEAP; LW HEAP HEAP NEXT_ELEMENT_OFFSET] in
  let then_branch_free := [ADDI FREE HEAP (field_offset Fst FIELDS_PER_BLOCK)] in
  let '(ef, lc1) := erase_fields HEAP additional_temp lc in
  let else_branch_free := [SW ZERO HEAP NEXT_ELEMENT_OFFSET] ++ ef in
  let '(inner, lc2) := if_zero_then_else FREE then_branch_free else_branch_free lc1 in
  let then_branch := [MV HEAP FREE; LW FREE FREE NEXT_ELEMENT_OFFSET] ++ inner in
  let else_branch := [SW ZERO new_block REFERENCE_COUNT_OFFSET] in
  let '(outer, lc3) := if_zero_then_else HEAP then_branch else_branch lc2 in
  (c0 ++ outer, lc3).

Definition release_block (r : reg) : list rcode := [SW HEAP r NEXT_ELEMENT_OFFSET; MV HEAP r].
Definition store_zero (block : reg) (offset : N) : list rcode := [SW ZERO block (field_offset Fst offset)].
Definition store_zeros (free_fields : N) (block : reg) : list rcode :=
  flat_map (store_zero block) (nseq 0 free_fields).

Definition r_fresh (n : tnum) (c : ctx) : res reg :=
  temporary_from_position (2 * N.of_nat (List.length c) + tnum_n n).

Definition store_field (n : tnum) (c : ctx) (block : reg) (offset : N) : res (list rcode) :=
  dor t <- r_fresh n c; Ok [SW t block (field_offset n offset)].
Definition load_field (n : tnum) (c : ctx) (block : reg) (offset : N) : res (list rcode) :=
  dor t <- r_fresh n c; Ok [LW t block (field_offset n offset)].

Definition store_value (b : binding) (remaining : ctx) (block : reg) (offset : N) : res (list rcode) :=
  dor c1 <- store_field Snd remaining block offset;
  match bchi b with
  | Ext => Ok (c1 ++ store_zero block offset)
  | _ => dor c2 <- store_field Fst remaining block offset; Ok (c1 ++ c2)
  end.

Inductive load_mode := Release | Share.

Definition load_value (b : binding) (existing : ctx) (block : reg) (offset : N) (m : load_mode) (lc : N)
  : res (list rcode * N) :=
  dor c1 <- load_field Snd existing block offset;
  match bchi b with
  | Ext => Ok (c1, lc)
  | _ =>
      dor c2 <- load_field Fst existing block offset;
      match m with
      | Share => dor t <- r_fresh Fst existing;
                 let '(c3, lc1) := r_share_block_n t 1 lc in Ok (c1 ++ c2 ++ c3, lc1)
      | Release => Ok (c1 ++ c2, lc)
      end
  end.

(* while let Some(binding) = to_store.pop(): last binding first, into field free_fields-1 downwards *)
Fixpoint store_values (to_store_rev : list binding) (remaining : ctx) (block : reg) (free_fields : N) : res (list rcode) :=
  match to_store_rev with
  | [] => Ok (store_zeros free_fields block)
  | b :: rest_rev =>
      dor c1 <- store_value b (remaining ++ rev rest_rev) block (free_fields - 1);
      dor c2 <- store_values rest_rev remaining block (free_fields - 1);
      Ok (c1 ++ c2)
  end.
Fixpoint load_values (to_load_rev : list binding) (existing : ctx) (block : reg) (free_fields : N) (m : load_mode) (lc : N)
  : res (list rcode * N) :=
  match to_load_rev with
  | [] => Ok ([], lc)
  | b :: rest_rev =>
      dor r1 <- load_value b (existing ++ rev rest_rev) block (free_fields - 1) m lc;
      let '(c1, lc1) := r1 in
      dor r2 <- load_values rest_rev existing block (free_fields - 1) m lc1;
      let '(c2, lc2) := r2 in
      Ok (c1 ++ c2, lc2)
  end.

Inductive block_position := Last | Other.
Definition bp_n (b : block_position) : N := match b with Last => 0 | Other => 1 end.

Fixpoint store_fields (fuel : nat) (to_store remaining : ctx) (bp : block_position) (lc : N) : res (list rcode * N) :=
  match fuel with
  | O => Err "store_fields: out of fuel"
  | S fuel' =>
      match to_store with
      | [] =>
          match bp with
          | Last => dor t <- r_fresh Fst remaining; Ok ([MV t ZERO], lc)
          | Other => Ok ([], lc)
          end
      | _ =>
          let remaining_plus_to_store := remaining ++ to_store in
          dor c0 <- match bp with
                    | Other => store_field Fst remaining_plus_to_store HEAP (FIELDS_PER_BLOCK - 1)
                    | Last => Ok []
                    end;
          let cap := (FIELDS_PER_BLOCK - bp_n bp)%N in
          let len := N.of_nat (List.length to_store) in
          let rest_length := if N.leb len cap then 0%N else (len - cap)%N in
          let rest := firstn (N.to_nat rest_length) to_store in
          let to_store_next := skipn (N.to_nat rest_length) to_store in
          let remaining_plus_rest := remaining ++ rest in
          dor c1 <- store_values (rev to_store_next) remaining_plus_rest HEAP cap;
          dor t <- r_fresh Fst remaining_plus_rest;
          dor t2 <- r_fresh Snd remaining_plus_rest;
          let '(c2, lc2) := acquire_block t t2 lc in
          dor r3 <- store_fields fuel' rest remaining Other lc2;
          let '(c3, lc3) := r3 in
          Ok (c0 ++ c1 ++ c2 ++ c3, lc3)
      end
  end.

Fixpoint load_fields (fuel : nat) (to_load existing : ctx) (bp : block_position) (m : load_mode) (lc : N)
  : res (list rcode * N) :=
  match fuel with
  | O => Err "load_fields: out of fuel"
  | S fuel' =>
      match to_load with
      | [] => Ok ([], lc)
      | _ =>
          let existing_plus_to_load := existing ++ to_load in
          let cap := (FIELDS_PER_BLOCK - bp_n bp)%N in
          let len := N.of_nat (List.length to_load) in
          let rest_length := if N.leb len cap then 0%N else (len - cap)%N in
          let rest := firstn (N.to_nat rest_length) to_load in
          let to_load_next := skipn (N.to_nat rest_length) to_load in
          let existing_plus_rest := existing ++ rest in
          dor r0 <- load_fields fuel' rest existing Other m lc;
          let '(c0, lc0) := r0 in
          dor memory_block <- r_fresh Fst existing_plus_rest;
          let c1 := match m with Release => release_block memory_block | Share => [] end in
          dor c2 <- match bp with
                    | Other => load_field Fst existing_plus_to_load memory_block (FIELDS_PER_BLOCK - 1)
                    | Last => Ok []
                    end;
          dor r3 <- load_values (rev to_load_next) existing_plus_rest memory_block cap m lc0;
          let '(c3, lc3) := r3 in
          Ok (c0 ++ c1 ++ c2 ++ c3, lc3)
      end
  end.

Definition r_store (to_store remaining : ctx) (lc : N) : res (list rcode * N) :=
  store_fields (S (List.length to_store)) to_store remaining Last lc.

Definition r_load (to_load existing : ctx) (lc : N) : res (list rcode * N) :=
  match to_load with
  | [] => Ok ([], lc)
  | _ =>
      dor memory_block <- r_fresh Fst existing;
      dor r1 <- load_fields (S (List.length to_load)) to_load existing Last Release lc;
      let '(then_branch, lc1) := r1 in
      dor r2 <- load_fields (S (List.length to_load)) to_load existing Last Share lc1;
      let '(else_body, lc2) := r2 in
      let else_branch := [ADDI TEMP TEMP (-1); SW TEMP memory_block REFERENCE_COUNT_OFFSET] ++ else_body in
      let '(c, lc3) := if_zero_then_else TEMP then_branch else_branch lc2 in
      Ok ([LW TEMP memory_block REFERENCE_COUNT_OFFSET] ++ c, lc3)
  end.

(* print_i64 panics on this back end.  Backend.b_print cannot fail, so the model emits nothing
   there and `rv_compile` rejects every program that contains a print statement: the generic
   code generator visits every statement of every definition (no statement is skipped), so
   "some print statement exists" is exactly "the Rust call panics, there or earlier". *)
Definition rv_backend : backend rcode rtemp := {|
  b_label := LAB;
  b_mark := fun _ => [];
  b_jump := r_jump;
  b_jump_label := r_jump_label;
  b_jump_label_fixed := r_jump_label;
  b_jcc2 := fun s a b l => [jcc s a b l];
  b_jcc1 := fun s a l => [jcc s a ZERO l];
  b_load_immediate := r_load_immediate;
  b_load_label := r_load_label;
  b_add_and_jump := r_add_and_jump;
  b_arith := r_arith;
  b_mov := r_mov;
  b_print := fun _ _ _ => [];
  b_erase := r_erase_block;
  b_share_n := r_share_block_n;
  b_store := r_store;
  b_load := r_load;
  b_contains_spill_edge := fun _ => false;
  b_store_temporary := fun t _ => [MV TEMP t];
  b_restore_temporary := fun t _ => [MV t TEMP];
  b_temp := TEMP;
  b_return1 := RETURN1;
  b_jump_length := jump_length;
  b_temporary_from_position := temporary_from_position;
  b_tcompare := N.compare;
|}.

Fixpoint stmt_has_print (s : stmt) : bool :=
  let cls_have := fix go (l : list clause) : bool :=
    match l with [] => false | (_, _, b) :: r => stmt_has_print b || go r end in
  match s with
  | Substitute _ next => stmt_has_print next
  | Call _ _ => false
  | Let _ _ _ _ next => stmt_has_print next
  | Switch _ _ cls => cls_have cls
  | Create _ _ _ cls next => cls_have cls || stmt_has_print next
  | Invoke _ _ _ _ => false
  | Literal _ _ next => stmt_has_print next
  | Op _ _ _ _ next => stmt_has_print next
  | PrintI64 _ _ _ => true
  | IfC _ _ _ t e => stmt_has_print t || stmt_has_print e
  | Exit _ => false
  end.
Definition prog_has_print (p : prog) : bool := existsb (fun d => stmt_has_print (dbody d)) (pdefs p).

Definition rv_compile (p : prog) (lc : N) : res (list rcode * nat * N) :=
  if prog_has_print p then Err "not implemented in RISC-V backend"
  else compile rv_backend p lc.

(* ---------- code.rs: impl Display;  into_routine.rs ---------- *)
Inductive ritem := RI (c : rcode) | RC (msg : string).

Definition show_reg (r : reg) : string := "X" +++ n_to_string r.
Definition sp3 (op a b c : string) : string := op +++ " " +++ a +++ " " +++ b +++ " " +++ c.
Definition display (c : rcode) : string :=
  match c with
  | ADD x y z => sp3 "ADD" (show_reg x) (show_reg y) (show_reg z)
  | ADDI x y c => sp3 "ADD" (show_reg x) (show_reg y) (z_to_string c)     (* sic: "ADD", not "ADDI" *)
  | SUB x y z => sp3 "SUB" (show_reg x) (show_reg y) (show_reg z)
  | MUL x y z => sp3 "MUL" (show_reg x) (show_reg y) (show_reg z)
  | DIV x y z => sp3 "DIV" (show_reg x) (show_reg y) (show_reg z)
  | REM x y z => sp3 "REM" (show_reg x) (show_reg y) (show_reg z)
  | JAL x l => "JAL " +++ show_reg x +++ " " +++ l
  | JALR x y c => sp3 "JALR" (show_reg x) (show_reg y) (z_to_string c)
  | LA x l => "LA " +++ show_reg x +++ " " +++ l
  | LI x c => "LI " +++ show_reg x +++ " " +++ z_to_string c
  | MV x y => "MV " +++ show_reg x +++ " " +++ show_reg y
  | LW x y c => sp3 "LW" (show_reg x) (z_to_string c) (show_reg y)
  | SW x y c => sp3 "SW" (show_reg x) (z_to_string c) (show_reg y)
  | BEQ x y l => sp3 "BEQ" (show_reg x) (show_reg y) l
  | BNE x y l => sp3 "BNE" (show_reg x) (show_reg y) l
  | BLT x y l => sp3 "BLT" (show_reg x) (show_reg y) l
  | BLE x y l => sp3 "BLE" (show_reg x) (show_reg y) l
  | BGT x y l => sp3 "BGT" (show_reg x) (show_reg y) l
  | BGE x y l => sp3 "BGE" (show_reg x) (show_reg y) l
  | LAB l => nl +++ l +++ ":"
  end.
Definition display_item (i : ritem) : string :=
  match i with RI c => display c | RC msg => "// " +++ msg end.

(* "// actual code" is concatenated with the program text WITHOUT a separator; since the first
   item is always the label of the first definition, whose rendering starts with a newline, the
   first line is just the comment.  The number of arguments is not used (no set-up code). *)
Definition into_rv64_routine (items : list ritem) : string :=
  String.concat (nl +++ nl)
    [ "// actual code" +++ String.concat nl (map display_item items); "cleanup:" ].
