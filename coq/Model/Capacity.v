(* Model/Capacity.v - the documented CAPACITY LIMITS of the three back ends as boolean predicates on
   linear AxCut programs (property C12: "no internal failure other than the documented capacity
   limits").  No proofs here (Proof/CodegenTotal.v: within capacity, code generation returns Ok).

   A variable at position i of the context owns the temporaries 2i and 2i+1
   (Backend.variable_temporary).  `temporary_from_position p` of a back end succeeds exactly for
   p < P, where
     x86-64   P = (REGISTER_NUM - RESERVED) + (SPILL_NUM - RESERVED_SPILLS) = 12 + 255 = 267
     AArch64  P = 26 + 255 = 281          RISC-V   P = REGISTER_NUM - RESERVED = 28 (no spilling)
   (assert "Out of temporaries" / "Out of registers" otherwise).  The generic code generator asks
   for the temporaries of the variables of the context reaching a statement, of the variable the
   statement binds, and - when fields are stored to / loaded from memory - for one FRESH pair
   beyond the context (Memory::store / Memory::load use `fresh_temporary` for the block pointer).
   So a context of n variables needs at most the positions 0 .. 2n+1:

     [cap_ok K c s]  every context reaching a statement of s (started in context c, contexts
                     threaded as by LinCheck.lin_check) has at most K variables
     K = (P - 2) / 2:   x86-64 132,  AArch64 139,  RISC-V 13.

   The bound is sufficient, and exact up to one variable: a context of K+1 variables still
   compiles unless a statement stores or loads more fields than fit into one block or binds a new
   variable.  The other documented limits: `main` takes at most 5 (x86-64) / 7 (AArch64) arguments
   in registers ("too many arguments for main"); the RISC-V back end has no print
   ("not implemented in RISC-V backend"); a program has at least one definition. *)
From Coq Require Import List ZArith NArith String Bool.
From SCC Require Import Base.Sexp Lang.AxSyn Model.Backend Model.X86 Model.A64 Model.RV.
Import ListNotations.
Open Scope list_scope.

Definition butlast_n (n : nat) (c : ctx) : ctx := firstn (List.length c - n) c.
Definition last_n (n : nat) (c : ctx) : ctx := skipn (List.length c - n) c.

Fixpoint cap_ok (K : nat) (c : ctx) (s : stmt) {struct s} : bool :=
  Nat.leb (List.length c) K &&
  match s with
  | Substitute re next => cap_ok K (map fst re) next
  | Call _ _ | Invoke _ _ _ _ | Exit _ => true
  | Let v t _ args next => cap_ok K (butlast_n (List.length args) c ++ [mkb v Prd t]) next
  | Switch _ _ cls =>
      (fix go (cls : list (ident * ctx * stmt)) : bool :=
         match cls with
         | [] => true
         | (_, cc, body) :: r => cap_ok K (butlast_n 1 c ++ cc) body && go r
         end) cls
  | Create v t env cls next =>
      match env with
      | None => false
      | Some env =>
          (fix go (cls : list (ident * ctx * stmt)) : bool :=
             match cls with
             | [] => true
             | (_, cc, body) :: r => cap_ok K (cc ++ env) body && go r
             end) cls
          && cap_ok K (butlast_n (List.length env) c ++ [mkb v Cns t]) next
      end
  | Literal _ v next => cap_ok K (c ++ [mkb v Ext I64]) next
  | Op _ _ _ v next => cap_ok K (c ++ [mkb v Ext I64]) next
  | PrintI64 _ _ next => cap_ok K c next
  | IfC _ _ _ t e => cap_ok K c t && cap_ok K c e
  end.

(* the largest context reaching a statement (statistics only) *)
Fixpoint max_ctx (c : ctx) (s : stmt) {struct s} : nat :=
  Nat.max (List.length c)
  match s with
  | Substitute re next => max_ctx (map fst re) next
  | Call _ _ | Invoke _ _ _ _ | Exit _ => 0
  | Let v t _ args next => max_ctx (butlast_n (List.length args) c ++ [mkb v Prd t]) next
  | Switch _ _ cls =>
      (fix go (cls : list (ident * ctx * stmt)) : nat :=
         match cls with
         | [] => 0
         | (_, cc, body) :: r => Nat.max (max_ctx (butlast_n 1 c ++ cc) body) (go r)
         end) cls
  | Create v t env cls next =>
      let env := match env with Some e => e | None => [] end in
      Nat.max
        ((fix go (cls : list (ident * ctx * stmt)) : nat :=
            match cls with
            | [] => 0
            | (_, cc, body) :: r => Nat.max (max_ctx (cc ++ env) body) (go r)
            end) cls)
        (max_ctx (butlast_n (List.length env) c ++ [mkb v Cns t]) next)
  | Literal _ v next => max_ctx (c ++ [mkb v Ext I64]) next
  | Op _ _ _ v next => max_ctx (c ++ [mkb v Ext I64]) next
  | PrintI64 _ _ next => max_ctx c next
  | IfC _ _ _ t e => Nat.max (max_ctx c t) (max_ctx c e)
  end.
Definition max_ctx_prog (p : prog) : nat :=
  fold_left (fun acc d => Nat.max acc (max_ctx (dctx d) (dbody d))) (pdefs p) 0.

Definition cap_ok_prog (K : nat) (p : prog) : bool := forallb (fun d => cap_ok K (dctx d) (dbody d)) (pdefs p).
Definition main_arity (p : prog) : nat := match pdefs p with d :: _ => List.length (dctx d) | [] => 0 end.
Definition has_defs (p : prog) : bool := match pdefs p with [] => false | _ => true end.

(* number of temporary positions of each back end, from its constants *)
Definition positions_x86 : N := ((X86.REGISTER_NUM - X86.RESERVED) + (X86.SPILL_NUM - X86.RESERVED_SPILLS))%N.
Definition positions_a64 : N := ((A64.REGISTER_NUM - A64.RESERVED) + (A64.SPILL_NUM - A64.RESERVED_SPILLS))%N.
Definition positions_rv : N := (RV.REGISTER_NUM - RV.RESERVED)%N.
Definition cap_of (positions : N) : nat := N.to_nat ((positions - 2) / 2).
Definition K_x86 : nat := cap_of positions_x86.
Definition K_a64 : nat := cap_of positions_a64.
Definition K_rv : nat := cap_of positions_rv.

Definition within_capacity_x86 (p : prog) : bool :=
  has_defs p && cap_ok_prog K_x86 p && Nat.leb (main_arity p) 5.
Definition within_capacity_a64 (p : prog) : bool :=
  has_defs p && cap_ok_prog K_a64 p && Nat.leb (main_arity p) 7.
Definition within_capacity_rv (p : prog) : bool :=
  has_defs p && cap_ok_prog K_rv p && negb (RV.prog_has_print p).

(* the panic messages that ARE the documented capacity limits (the texts of the assertions in
   axcut2x86_64/src/{utils,into_routine}.rs, axcut2aarch64/src/{utils,into_routine}.rs,
   axcut2rv64/src/{utils,code}.rs) *)
Definition is_capacity_message (backend msg : string) : bool :=
  if String.eqb backend "rv"
  then String.eqb msg "Out of registers" || String.eqb msg "not implemented in RISC-V backend"
  else String.eqb msg "Out of temporaries" || String.eqb msg "too many arguments for main".
