(* modelrun command "check" (property C15): the model of the type checker against the real one, and
   the executable form of the property.
   Case file written by `harness check`:
     (case k ("<name>" <tag> <dbg(parsed Program)>) <result>)
     <tag>    = wt (built to be well-typed) | ill (expected failure) | <mutation class>
     <result> = (ok <dbg(CheckedProgram)>) | (err <ErrorVariant>) | (PANIC "msg")

   Correspondence (model = Model.Check.check):
     - same accept/reject;
     - on accept the same checked program (Rust sorts the instance declarations by name, the model
       does the same, so the comparison is exact; if only the ORDER of the type declarations
       differed the verdict says `decl-order`);
     - on reject the same error variant - strict, except that the two errors of
       SymbolTable::check_type_params (TypeParameterBoundMultipleTimes / DefinedMultipleTimes) are
       interchangeable: which one Rust reports when several templates are faulty depends on the
       HashMap iteration order (tag `class-loose`).
   Executable property (spec = Sem.FunTyping.has_type_b, evaluated on the input; the verdict is
   about the REAL checker's answer):
     - Rust rejects a program the specification types:  VIOL class=rejects-well-typed err=<V> …
       (for a `wt` case whose input the specification does NOT type: BAD, the input is wrong);
     - Rust accepts a program the specification rejects: VIOL class=accepts-ill-typed:<tag> spec=<reason> …
       (for an ill-formed type in a declaration <reason> = template-type-ill-formed:<shape> lax=<accepts|rejects>:
        the shape of the first defect, and whether the program satisfies the rules once declaration
        types are checked by head name only - the class predicate of the FORMER finding
        C15-lazy-declaration-types, fixed in /repo by eb42971: any such acceptance is a violation now)
     - a mutant the specification types and Rust accepts:  SKIP mutant-well-typed
     - on accept: every annotation is present and the checked definitions erase to the parsed ones
       up to the order of clauses, else  VIOL class=annotation …
   Every VIOL line carries corr=ok|diff (whether model and implementation agreed on that case).
   Domain of the theorems about programs with type parameters (Props/C15.v, round 2): every compared
   input must have identifier-like type / constructor / destructor names (Sem.FunNames.prog_names_ok),
   else  BAD names-not-identifier-like;  the OK line says dt-wf / dt-ill (Sem.FunNames.decl_types_wf:
   until fix eb42971 the guard of the soundness theorem; now established by the checker, so an accepted
   program is always dt-wf).
   Instance table (Sem.FunClosed): on accept the REAL output must satisfy defs_closed (every producer's type is
   declared under its printed name), else  VIOL class=output-not-closed;  the OK line says closed-full /
   closed-part (whether also fields, clause binders and passed-down annotations are declared: fcprog_closed). *)
From Coq Require Import List ZArith NArith String Bool.
From SCC Require Import Base.Sexp Lang.SynUtil Lang.FunSyn Model.RunBase Model.Check Sem.FunTyping Sem.FunErase.
From SCC Require Import Sem.FunNames Sem.FunClosed.
Import ListNotations.
Open Scope string_scope.

Definition loose_pair (a b : string) : bool :=
  let l := ["TypeParameterBoundMultipleTimes"; "DefinedMultipleTimes"] in
  existsb (String.eqb a) l && existsb (String.eqb b) l.

Definition sorted_decls (q : fcprog) : fcprog :=
  mkfcprog (sort_by_name fdaname (fcpdata q)) (sort_by_name fcoaname (fcpcodata q)) (fcpdefs q).

Inductive rust_res := RAcc (q : fcprog) | RRej (v : string) | RPanic.

(* correspondence: None = agree (with tag), Some (m, r) = differ *)
Definition correspond (m : cres fcprog) (r : rust_res) (rtext : sexp) : string + (string * string) :=
  match m, r with
  | COk qm, RAcc qr =>
      if fcprog_eqb qm qr then inl "acc"
      else if fcprog_eqb (sorted_decls qm) (sorted_decls qr) then inr ("decl-order " ++ trunc 300 (show (s_fcprog qm)), trunc 300 (show (s_fcprog qr)))
      else inr (trunc 2000 (show (s_fcprog qm)), trunc 2000 (show (s_fcprog qr)))
  | CErr EInternalPanic, RPanic => inl "panic"
  | CErr e, RRej v =>
      if String.eqb (cerror_name e) v then inl ("rej:" ++ v)
      else if loose_pair (cerror_name e) v then inl ("rej:" ++ v ++ " class-loose")
      else inr ("(err " ++ cerror_name e ++ ")", "(err " ++ v ++ ")")
  | COk qm, _ => inr ("(ok ..)", trunc 300 (show rtext))
  | CErr e, _ => inr ("(err " ++ cerror_name e ++ ")", trunc 300 (show rtext))
  end.

Definition prog_tags (p : fprog) : string :=
  let poly := existsb (fun d => match d with
                                | FDData d => negb (Nat.eqb (List.length (fdaparams d)) 0)
                                | FDCodata d => negb (Nat.eqb (List.length (fcoparams d)) 0)
                                | FDDef _ => false end) (fpdecls p) in
  (if poly then " poly" else " mono") ++ " size" ++ n_to_string (N.log2 (size_fprog p)).

Definition check_case (i r : sexp) : verdict :=
  match i with
  | L [Q _; A tag; ps] =>
      match g_fprog ps with
      | None => VBad ("input unreadable " ++ show_bad (first_bad readable_fun ps))
      | Some p =>
          if negb (prog_names_ok p) then VBad "names-not-identifier-like (outside the domain of the C15 theorems)" else
          let rr := match r with
                    | L [A "ok"; q] => match g_fcprog q with Some q => Some (RAcc q) | None => None end
                    | L [A "err"; A v] => Some (RRej v)
                    | L (A "PANIC" :: _) => Some RPanic
                    | _ => None
                    end in
          match rr with
          | None => VBad ("rust output unreadable " ++ match r with L [A "ok"; q] => show_bad (first_bad readable_fun q) | _ => trunc 200 (show r) end)
          | Some rr =>
              let m := check p in
              let spec := has_type_b p in
              let corr := correspond m rr r in
              let corr_tag := match corr with inl _ => "corr=ok" | inr _ => "corr=diff" end in
              let is_wt := String.eqb tag "wt" in
              (* the property, on the implementation's answer *)
              let prop : option verdict :=
                match rr with
                | RAcc q =>
                    if negb spec then Some (VViol ("class=accepts-ill-typed:" ++ tag ++ " spec=" ++ ill_reason p ++ " " ++ corr_tag))
                    else if negb (annotated_fcprog q) then Some (VViol ("class=annotation missing " ++ corr_tag))
                    else if negb (defs_erase_to (fcpdefs q) (fdefs (fpdecls p))) then Some (VViol ("class=annotation erasure " ++ corr_tag))
                    else if negb (defs_closed q) then Some (VViol ("class=output-not-closed (a producer's type has no declaration) " ++ corr_tag))
                    else if is_wt then None else Some (VSkip "mutant-well-typed")
                | RRej v =>
                    if spec then Some (VViol ("class=rejects-well-typed err=" ++ v ++ " tag=" ++ tag ++ " " ++ corr_tag))
                    else if is_wt then Some (VBad ("wt-tagged input is ill-typed by the specification: " ++ ill_reason p))
                    else None
                | RPanic => Some (VViol ("class=checker-panic " ++ corr_tag))
                end in
              match prop, corr with
              | Some (VViol w), _ => VViol w
              | Some (VBad w), _ => VBad w
              | _, inr (a, b) => VDiff a b
              | Some v, inl _ => v
              | None, inl t => VOk ("nt " ++ tag ++ " " ++ t ++ (if spec then " spec-wt" else " spec-ill")
                                     ++ (if decl_types_wf (tdecls (fpdecls p)) then " dt-wf" else " dt-ill")
                                     ++ (match rr with RAcc q => if fcprog_closed q then " closed-full" else " closed-part" | _ => "" end)
                                     ++ prog_tags p)
              end
          end
      end
  | _ => VBad "input shape"
  end.
Definition run_check : string -> string := run_cases check_case.
