(* modelrun command "fmt" (property C16): the printer / lexer / parser models against the real
   formatter round trip.  Case format: see harness/src/cmd_fmt.rs.

   Per program:     (0) model lexer + parser on the source text  =  parse_module(text)   (accept/reject and tree);
                        the parsed tree satisfies wf_prog, the "parser shaped" hypothesis of the theorems
   Per configuration (width, indent, allow_linebreaks, omit_decl_sep):
     (i)   tokens (d_prog cfg p1)  =  lex (real t2)             model printer (token level) and lexer
     (i')  render cfg (d_prog cfg p1) = real t2                 model printer (layout level), see Model/Pretty.v
     (ii)  parse (lex t2)  =  p2                                model parser on the printed text
     (iii) the property on the implementation's outputs: p2 = p1 and t3 = t2.  The model describes the
           REPAIRED printer (zero-literal defect, fix commit c039e57), so every failure is a violation;
           [old_renorm], the closed description of the behaviour before the repair, only names a recurrence:
             VIOL class=tree-changed:minus-zero-comparison   p2 is exactly old_renorm p1 (<> p1)
             VIOL class=unparsable:zero-literal-comparison   p2 does not parse and old_renorm p1 = None
             VIOL class=tree-changed:other / class=unparsable:other / class=not-idempotent   anything else *)
From Coq Require Import List ZArith NArith String Ascii Bool.
From SCC Require Import Base.Sexp Lang.SynUtil Lang.FunSyn Model.Printer Model.Parser Model.Pretty Model.FmtClass Model.RunBase.
From SCC Require Import Proof.FmtDefs.   (* definitions only: wf_prog, the hypothesis "parser shaped" of the theorems *)
Import ListNotations.
Open Scope string_scope.

(* ---------- helpers ---------- *)
Definition show_token (t : token) : string :=
  match t with
  | TSym y => sym_text y
  | TColonCns => ":cns"
  | TCmpZ c => cmp_text c ++ "_0"
  | TZCmp c => "0_" ++ cmp_text c
  | TLower s => s
  | TUpper s => s
  | TNum n => n_to_string n
  | TKw k => "kw:" ++ kw_text k
  end.
Definition token_eqb (a b : token) : bool := String.eqb (show_token a) (show_token b) &&
  match a, b with
  | TSym _, TSym _ | TColonCns, TColonCns | TCmpZ _, TCmpZ _ | TZCmp _, TZCmp _ | TLower _, TLower _
  | TUpper _, TUpper _ | TNum _, TNum _ | TKw _, TKw _ => true
  | _, _ => false
  end.
(* first difference of two token lists: position and the tokens there *)
Fixpoint tokens_diff (i : N) (a b : list token) : option string :=
  match a, b with
  | [], [] => None
  | x :: a', y :: b' => if token_eqb x y then tokens_diff (i + 1) a' b'
                        else Some ("at " ++ n_to_string i ++ ": " ++ show_token x ++ " / " ++ show_token y)
  | x :: _, [] => Some ("at " ++ n_to_string i ++ ": " ++ show_token x ++ " / <end>")
  | [], y :: _ => Some ("at " ++ n_to_string i ++ ": <end> / " ++ show_token y)
  end.

Fixpoint first_n (n : nat) (s : string) : string :=
  match n, s with S n, String c r => String c (first_n n r) | _, _ => "" end.
Definition oneline (s : string) : string := first_n 160 (show (Q s)).

(* first position where two texts differ *)
Fixpoint text_diff (i : N) (a b : string) : string :=
  match a, b with
  | String x a', String y b' => if Ascii.eqb x y then text_diff (i + 1) a' b'
                                else "offset " ++ n_to_string i ++ " model " ++ oneline (first_n 40 a) ++ " real " ++ oneline (first_n 40 b)
  | _, _ => "offset " ++ n_to_string i ++ " model " ++ oneline (first_n 40 a) ++ " real " ++ oneline (first_n 40 b)
  end.

(* feature tags of a program (input distribution) *)
Fixpoint feat_t (t : fterm) (acc : list string) : list string :=
  let add s acc := if existsb (String.eqb s) acc then acc else s :: acc in
  let go_list := fix go (l : list fterm) (acc : list string) : list string :=
    match l with [] => acc | y :: r => go r (feat_t y acc) end in
  let go_cls := fix go (l : list fclause) (acc : list string) : list string :=
    match l with [] => acc | FClause _ _ ns _ b :: r => go r (feat_t b (match ns with [] => acc | _ => add "clause-binders" acc end)) end in
  match t with
  | FVar _ _ _ => acc
  | FLit n => if (n <? 0)%Z then add "neg-lit" acc else if (n =? 0)%Z then add "zero-lit" acc else acc
  | FOp a _ b => feat_t a (feat_t b (add "op" acc))
  | FIfC _ a b th el _ =>
      feat_t a (feat_t th (feat_t el (match b with Some b' => feat_t b' (add "if" acc) | None => add "if-zero" acc end)))
  | FPrint _ a n _ => feat_t a (feat_t n (add "print" acc))
  | FLet _ _ b t _ => feat_t b (feat_t t (add "let" acc))
  | FCall _ args _ => go_list args (add "call" acc)
  | FCtor _ args _ => go_list args (add "ctor" acc)
  | FDtor s _ targs args _ => feat_t s (go_list args (match targs with [] => add "dtor" acc | _ => add "dtor" (add "type-args" acc) end))
  | FCase s targs cls _ =>
      feat_t s (go_cls cls (match cls with [] => add "empty-clauses" (add "case" acc) | _ =>
                                match targs with [] => add "case" acc | _ => add "case" (add "type-args" acc) end end))
  | FNew cls _ => go_cls cls (match cls with [] => add "empty-clauses" (add "new" acc) | _ => add "new" acc end)
  | FLabel _ t _ => feat_t t (add "label" acc)
  | FGoto _ t _ => feat_t t (add "goto" acc)
  | FExit a _ => feat_t a (add "exit" acc)
  | FParen t => feat_t t (add "paren" acc)
  end.
Definition feat_prog (p : fprog) : string :=
  let fs := fold_left (fun acc d => match d with
                                    | FDDef d => feat_t (fdbody d) acc
                                    | FDData d => match fdaparams d with [] => acc | _ => if existsb (String.eqb "type-params") acc then acc else "type-params" :: acc end
                                    | FDCodata d => match fcoparams d with [] => acc | _ => if existsb (String.eqb "type-params") acc then acc else "type-params" :: acc end
                                    end) (fpdecls p) [] in
  fold_left (fun s f => s ++ " " ++ f) fs "".

Definition width_bucket (w : N) : string :=
  if (w <=? 2)%N then "w1-2" else if (w <=? 10)%N then "w3-10" else if (w <=? 40)%N then "w11-40"
  else if (w <=? 100)%N then "w41-100" else "w101-200".

(* ---------- one configuration ---------- *)
Inductive rust_p2 := RSame | RProg (p : fprog) | RFail (what : string) | RUnread.
Definition read_p2 (x : sexp) : rust_p2 :=
  match x with
  | A "=" => RSame
  | L [A "ERR"; Q m] => RFail "ERR"
  | L [A "PANIC"; Q m] => RFail "PANIC"
  | _ => match g_fprog x with Some p => RProg p | None => RUnread end
  end.

Record cfg_cache := mkcc { cc_text : string; cc_toks : option (list token); cc_parse : option fprog }.

(* result lines for one configuration: list of (kind, rest) *)
Definition cfg_lines (p1 : fprog) (feats : string) (cache : list cfg_cache) (x : sexp)
  : list (string * string) * cfg_cache :=
  let dummy := mkcc "" None None in
  match x with
  | L [w; i; lb; om; t2; p2; t3] =>
      match getN w, getZ i, getB lb, getB om with
      | Some w, Some i, Some lb, Some om =>
          let c := mkpcfg w lb om i in
          let where_ := "w=" ++ n_to_string w ++ " i=" ++ z_to_string i ++ (if lb then "" else " nolb") ++ (if om then " omit" else "") in
          let entry := match t2 with
                       | Q s => let tk := lex_string s in Some (mkcc s tk (match tk with Some l => parse l | None => None end))
                       | L [A "="; j] => match getN j with Some j => nth_error cache (N.to_nat j) | None => None end
                       | _ => None
                       end in
          match entry with
          | None => ([("BAD", where_ ++ " t2 unreadable")], dummy)
          | Some e =>
              let d := d_prog c p1 in
              (* (i) token level *)
              let l1 := match cc_toks e with
                        | None => [("DIFF", "model=lexer-rejects rust=printed-text " ++ where_ ++ " " ++ oneline (cc_text e))]
                        | Some real => match tokens_diff 0 (tokens d) real with
                                       | None => []
                                       | Some m => [("DIFF", "model=tokens(print p1) rust=lex(t2) " ++ where_ ++ " " ++ m)]
                                       end
                        end in
              (* (i') layout level *)
              let l1' := let m := render (pwidth c) d in
                         if String.eqb m (cc_text e) then []
                         else [("DIFF", "model=render rust=t2 " ++ where_ ++ " " ++ text_diff 0 m (cc_text e))] in
              (* (ii) model parser on the printed text *)
              let r2 := read_p2 p2 in
              let same_as_p1 := match r2 with RSame => true | RProg q => fprog_eqb q p1 | _ => false end in
              let l2 := match r2, cc_parse e with
                        | RUnread, _ => [("BAD", where_ ++ " p2 unreadable")]
                        | RFail _, None => []
                        | RFail k, Some _ => [("DIFF", "model=parses rust=" ++ k ++ " " ++ where_ ++ " " ++ oneline (cc_text e))]
                        | RSame, Some q => if fprog_eqb q p1 then [] else [("DIFF", "model=other-tree rust=p1 " ++ where_)]
                        | RProg p, Some q => if fprog_eqb q p then [] else [("DIFF", "model=other-tree rust=p2 " ++ where_)]
                        | _, None => [("DIFF", "model=rejects rust=parses " ++ where_ ++ " " ++ oneline (cc_text e))]
                        end in
              (* (iii) the property, on the implementation's outputs; old_renorm names a recurrence of the repaired class *)
              let before_fix := old_renorm p1 in
              let t3same := match t3 with A "=" => true | _ => false end in
              let l3 :=
                match r2 with
                | RUnread => []
                | RFail k =>
                    match before_fix with
                    | None => [("VIOL", "class=unparsable:zero-literal-comparison " ++ where_ ++ " output " ++ oneline (cc_text e))]
                    | Some _ => [("VIOL", "class=unparsable:other " ++ k ++ " " ++ where_ ++ " output " ++ oneline (cc_text e))]
                    end
                | _ =>
                    if same_as_p1 then
                      (if t3same then [] else [("VIOL", "class=not-idempotent " ++ where_)])
                    else
                      let q2 := match r2 with RProg q => q | _ => p1 end in
                      match before_fix with
                      | Some q => if fprog_eqb q q2
                                  then [("VIOL", "class=tree-changed:minus-zero-comparison " ++ where_ ++ (if t3same then "" else " t3-differs") ++ " output " ++ oneline (cc_text e))]
                                  else [("VIOL", "class=tree-changed:other " ++ where_ ++ " output " ++ oneline (cc_text e))]
                      | None => [("VIOL", "class=tree-changed:other " ++ where_ ++ " output " ++ oneline (cc_text e))]
                      end
                end in
              let all := (l3 ++ l1 ++ l1' ++ l2)%list in
              (match all with
               | [] => [("OK", "nt " ++ width_bucket w ++ " indent" ++ z_to_string i ++ feats)]
               | _ => all
               end, e)
          end
      | _, _, _, _ => ([("BAD", "configuration unreadable")], dummy)
      end
  | _ => ([("BAD", "configuration shape")], dummy)
  end.

Fixpoint cfgs_lines (p1 : fprog) (feats : string) (cache : list cfg_cache) (l : list sexp) : list (string * string) :=
  match l with
  | [] => []
  | x :: r => let (ls, e) := cfg_lines p1 feats cache x in (ls ++ cfgs_lines p1 feats (cache ++ [e]) r)%list
  end.

Definition fmt_case (i r : sexp) : list (string * string) :=
  match i with
  | L [Q name; Q text; p1s] =>
      let m := parse_text text in
      match p1s with
      | L [A "ERR"; _] | L [A "PANIC"; _] =>
          match m with
          | None => [("OK", "reject-agree")]
          | Some _ => [("DIFF", "model=parses rust=rejects source " ++ oneline text)]
          end
      | _ =>
          match g_fprog p1s with
          | None => [("BAD", "p1 unreadable")]
          | Some p1 =>
              let l0 := match m with
                        | None => [("DIFF", "model=rejects rust=parses source " ++ oneline text)]
                        | Some q => if fprog_eqb q p1 then [("OK", "nt source-agree")]
                                    else [("DIFF", "model=other-tree rust=p1 source " ++ oneline text)]
                        end in
              let l0 := if wf_prog p1 then l0
                        else (("DIFF", "model=not-parser-shaped(wf_prog) rust=parsed source " ++ oneline text) :: l0) in
              (* thm-hyps = wf_prog (checked above); zero-literal-class = an input of the repaired defect class *)
              let feats := feat_prog p1 ++ (if zsafe_prog p1 then " thm-hyps" else " thm-hyps zero-literal-class") in
              match r with
              | L cfgs => (l0 ++ cfgs_lines p1 feats [] cfgs)%list
              | _ => (l0 ++ [("BAD", "configurations")])%list
              end
          end
      end
  | L [A "inplace"; Q name; w; ind] | L [A "cli"; Q name; w; ind] =>
      match r with
      | L [Q after; Q t2] =>
          if String.eqb after t2 then [("OK", "nt inplace-agree")]
          else
            (* the file left behind is not the formatted text: evaluate the property itself on it *)
            match parse_text after, parse_text t2 with
            | None, Some _ => [("VIOL", "class=inplace-corrupts-file " ++ name ++ ": the file left by in-place formatting no longer parses; " ++ text_diff 0 t2 after)]
            | Some q, Some q2 => if fprog_eqb q q2 then [("DIFF", "model=t2 rust=file-after-inplace (same tree) " ++ text_diff 0 t2 after)]
                                 else [("VIOL", "class=inplace-corrupts-file " ++ name ++ ": the file left by in-place formatting parses to another program; " ++ text_diff 0 t2 after)]
            | _, None => [("DIFF", "model=t2 rust=file-after-inplace " ++ text_diff 0 t2 after)]
            end
      | L [L [A "ERR"; Q m]; _] => [("DIFF", "model=t2 rust=inplace-failed " ++ oneline m)]
      | _ => [("BAD", "inplace shape")]
      end
  | _ => [("BAD", "input shape")]
  end.

Definition run_fmt (input : string) : string :=
  match read_all input with
  | None => "BAD - unreadable file" ++ nl
  | Some cases =>
      unlines (flat_map (fun c =>
        match c with
        | L [A "case"; A k; i; r] => map (fun kr => fst kr ++ " " ++ k ++ " " ++ snd kr) (fmt_case i r)
        | _ => ["BAD - not a case"]
        end) cases)
  end.
