(* modelrun command "heapops-x86": operation-level correspondence between the REAL x86-64 code of
   memory.rs (erase_block, share_block_n, store, load; emitted by the trait methods of
   axcut2x86_64::Backend for a random sequence of operations, see harness/src/cmd_heapops.rs) and
   the abstract allocator Model/Heap.v.

   The code of each operation is run on the ISA model (Sem/X86Sem.v) from the machine state left by
   the previous one; in lockstep the abstract state is advanced by Heap.step with the operands read
   from the machine state.  After EVERY operation:
     (a) abs_heap of the machine state (header = word 0, slots = words 16/32/48 of every block,
         HEAP / FREE registers) equals the abstract state on every block up to two blocks beyond
         the abstract frontier;
     (b) nothing at or above the abstract frontier has been written;
     (c) the pointer returned by store is the one alloc_object returns; the pointers loaded by
         load are the fields obj_fields predicts;
     (d) the executable invariant inv_check holds with the first temporaries of the live pointer
         variables as roots (C09 at operation granularity), its frontier is the abstract one;
   and at the end (e) the frontier is exactly (peak of blocks in use) + 1 blocks above the base
   (C10: footprint_exact). *)
From Coq Require Import List ZArith NArith String Ascii Bool FMapPositive.
From SCC Require Import Base.Sexp Lang.AxSyn Sem.AxSem Model.Backend Model.X86 Sem.X86Sem Sem.HeapCheck Sem.X86Heap
  Model.X86Io Model.RunBase.
From SCC Require Model.Heap.
Import ListNotations.
Open Scope string_scope.
Open Scope Z_scope.

Inductive hfield := FInt | FPtr (t : xtemp).
Inductive hop :=
| HInt (t : xtemp)
| HDup (n : N) (t : xtemp)
| HDrop (t : xtemp)
| HStore (fs : list hfield) (res : xtemp)
| HLoad (kinds : list bool) (blk : xtemp) (loaded : list xtemp)     (* true = pointer field *)
| HMove.

Definition g_temp (x : sexp) : option xtemp :=
  match x with
  | L [A "R"; n] => do n <- getN n; Some (XR n)
  | L [A "S"; n] => do n <- getN n; Some (XS n)
  | _ => None
  end.
Definition g_field (x : sexp) : option hfield :=
  match x with
  | A "i" => Some FInt
  | L [A "p"; t] => do t <- g_temp t; Some (FPtr t)
  | _ => None
  end.
Definition g_kind (x : sexp) : option bool :=
  match x with A "i" => Some false | A "p" => Some true | _ => None end.
Definition g_hop (x : sexp) : option hop :=
  match x with
  | L [A "int"; t] => do t <- g_temp t; Some (HInt t)
  | L [A "dup"; n; t] => do n <- getN n; do t <- g_temp t; Some (HDup n t)
  | L [A "drop"; t] => do t <- g_temp t; Some (HDrop t)
  | L [A "store"; fs; t] => do fs <- getL g_field fs; do t <- g_temp t; Some (HStore fs t)
  | L [A "load"; ks; t; ls] => do ks <- getL g_kind ks; do t <- g_temp t; do ls <- getL g_temp ls; Some (HLoad ks t ls)
  | L [A "move"] => Some HMove
  | _ => None
  end.
Definition g_roots (x : sexp) : option (list xtemp) :=
  match x with L (A "roots" :: ts) => omap g_temp ts | _ => None end.
Fixpoint g_ops (l : list sexp) : option (list (hop * list xtemp)) :=
  match l with
  | [] => Some []
  | o :: r :: rest => do o <- g_hop o; do r <- g_roots r; do k <- g_ops rest; Some ((o, r) :: k)
  | _ => None
  end.

(* ---------- the machine ---------- *)
Definition ho_sp : Z := STACK_TOP - 8 - 64 - SPILL_SPACE.
Definition ho_init : xstate :=
  rset (rset (rset (init_state []) 0%N (Some ho_sp)) HEAP (Some HEAP_BASE)) FREE (Some (HEAP_BASE + 64)).
Definition rd_temp (s : xstate) (t : xtemp) : option Z :=
  match t with
  | XR r => rget s r
  | XS p => PM.find (key (ho_sp + stack_offset p)) (stack s)
  end.
Definition hwd (s : xstate) (a : Z) : Z := match PM.find (key a) (X86Sem.heap s) with Some z => z | None => 0 end.

Definition run_frag (cs : list xcode) (s : xstate) : xstate + string :=
  let '(ob, s') := run 50%nat 2000%nat (mk_image cs) 1%positive s in
  match snd ob with
  | OStuck "fell-off-the-end" => inl s'
  | _ => inr ("the code of the operation did not run to its end: " ++ show (s_obs ob))
  end.

(* ---------- comparison with the abstract state ---------- *)
Definition ps_norm (l : list Z) : list Z := match l with [] => [0; 0; 0] | _ => l end.
Fixpoint zlist_eqb (a b : list Z) : bool :=
  match a, b with
  | [], [] => true
  | x :: a', y :: b' => (x =? y) && zlist_eqb a' b'
  | _, _ => false
  end.
Definition show_zs (l : list Z) : string := show (sL sZ l).

Definition cmp_abs (s : xstate) (a : Heap.st) : option string :=
  match rget s HEAP, rget s FREE with
  | Some h, Some f =>
      if negb (h =? Heap.heap a) then Some ("heap register " ++ z_to_string h ++ ", abstract " ++ z_to_string (Heap.heap a))
      else if negb (f =? Heap.free a) then Some ("free register " ++ z_to_string f ++ ", abstract " ++ z_to_string (Heap.free a))
      else if negb (hw s <? Heap.frontier a) then Some ("written at " ++ z_to_string (hw s) ++ ", at or above the abstract frontier " ++ z_to_string (Heap.frontier a))
      else
        let nb := Z.to_nat ((Heap.frontier a - HEAP_BASE) / 64 + 2) in
        match find (fun b => negb ((hwd s b =? Heap.hdr (Heap.m a b)) &&
                                   zlist_eqb [hwd s (b + 16); hwd s (b + 32); hwd s (b + 48)] (ps_norm (Heap.ps (Heap.m a b)))))
                   (blocks_from nb HEAP_BASE) with
        | Some b => Some ("block " ++ z_to_string ((b - HEAP_BASE) / 64) ++ ": machine header " ++ z_to_string (hwd s b) ++ " slots "
                          ++ show_zs [hwd s (b + 16); hwd s (b + 32); hwd s (b + 48)] ++ ", abstract header "
                          ++ z_to_string (Heap.hdr (Heap.m a b)) ++ " slots " ++ show_zs (Heap.ps (Heap.m a b)))
        | None => None
        end
  | _, _ => Some "heap or free register undefined"
  end.

Record hostate := {
  mach : xstate; abst : Heap.st; peak : Z; opno : N;
  n_multi : N; n_rel : N; n_shr : N; n_deferred : N; n_spill : N; n_recycle : N; last_fl : nat;
}.

Definition is_spill (t : xtemp) : bool := match t with XS _ => true | XR _ => false end.
Definition op_spills (o : hop) : bool :=
  match o with
  | HInt t | HDup _ t | HDrop t => is_spill t
  | HStore fs t => is_spill t || existsb (fun f => match f with FPtr t => is_spill t | FInt => false end) fs
  | HLoad _ t ls => is_spill t || existsb is_spill ls
  | HMove => false
  end.

Definition omapZ (s : xstate) (ts : list xtemp) : option (list Z) := omap (rd_temp s) ts.
Fixpoint select {X} (ks : list bool) (l : list X) : list X :=
  match ks, l with
  | true :: ks', x :: l' => x :: select ks' l'
  | false :: ks', _ :: l' => select ks' l'
  | _, _ => []
  end.

(* the abstract effect of an operation and what the machine must show afterwards;
   result: new abstract state, check on the machine state after the code has run *)
Definition abs_op (s : xstate) (a : Heap.st) (o : hop) : (Heap.st * (xstate -> option string) * (bool * bool * bool)) + string :=
  let none := fun _ : xstate => @None string in
  match o with
  | HInt _ | HMove => inl (a, none, (false, false, false))
  | HDup n t =>
      match rd_temp s t with
      | Some p => inl (Heap.step a (Heap.OShare p (Z.of_N n)), none, (false, false, false))
      | None => inr "shared temporary undefined"
      end
  | HDrop t =>
      match rd_temp s t with
      | Some p => inl (Heap.step a (Heap.OErase p), none, (false, false, false))
      | None => inr "erased temporary undefined"
      end
  | HStore fs res =>
      match omap (fun f => match f with FInt => Some 0 | FPtr t => rd_temp s t end) fs with
      | Some slots =>
          let r := Heap.alloc_object slots a in
          inl (snd r,
               (fun s' => match rd_temp s' res with
                          | Some b => if b =? fst r then None
                                      else Some ("store returned " ++ z_to_string b ++ ", alloc_object " ++ z_to_string (fst r))
                          | None => Some "result temporary of store undefined"
                          end),
               (Nat.ltb 3 (List.length fs), false, false))
      | None => inr "stored temporary undefined"
      end
  | HLoad ks blk loaded =>
      match rd_temp s blk with
      | Some p =>
          let n := List.length ks in
          match n with
          | O => inl (a, none, (false, false, false))
          | _ =>
              let k := Heap.nlinks n in
              let released := Heap.hdr (Heap.m a p) =? 0 in
              let expect := select ks (Heap.lastn n (Heap.obj_fields k (Heap.m a) p)) in
              inl (Heap.step a (Heap.OLoadObj k p),
                   (fun s' => match omapZ s' loaded with
                              | Some got => if zlist_eqb got expect then None
                                            else Some ("load gave pointers " ++ show_zs got ++ ", obj_fields " ++ show_zs expect)
                              | None => Some "a loaded pointer temporary is undefined"
                              end),
                   (false, released, negb released))
          end
      | None => inr "block temporary of load undefined"
      end
  end.

Definition ho_step (st : hostate) (o : hop) (roots : list xtemp) (cs : list xcode) : hostate + string :=
  let at_op := "op " ++ n_to_string (opno st) ++ ": " in
  match abs_op (mach st) (abst st) o with
  | inr why => inr (at_op ++ why)
  | inl (a', post, (multi, rel, shr)) =>
      match run_frag cs (mach st) with
      | inr why => inr (at_op ++ why)
      | inl s' =>
          match cmp_abs s' a' with
          | Some why => inr (at_op ++ "abs_heap of the machine state differs from Heap.step: " ++ why)
          | None =>
              match post s' with
              | Some why => inr (at_op ++ why)
              | None =>
                  match view_of s', omapZ s' roots with
                  | Some v, Some rs =>
                      match inv_check v rs with
                      | inr why => inr (at_op ++ "heap invariant: " ++ why)
                      | inl rep =>
                          if negb (hr_frontier rep =? Heap.frontier a')
                          then inr (at_op ++ "frontier of the machine heap " ++ z_to_string (hr_frontier rep) ++ ", abstract " ++ z_to_string (Heap.frontier a'))
                          else
                            let inuse := Z.of_nat (List.length (hr_counted rep) + List.length (hr_fl rep)) in
                            let b2n (b : bool) : N := if b then 1%N else 0%N in
                            inl {| mach := s'; abst := a'; peak := Z.max (peak st) inuse; opno := (opno st + 1)%N;
                                   n_multi := (n_multi st + b2n multi)%N; n_rel := (n_rel st + b2n rel)%N; n_shr := (n_shr st + b2n shr)%N;
                                   n_deferred := (n_deferred st + b2n (negb (Nat.eqb (List.length (hr_fl rep)) 0)))%N;
                                   n_spill := (n_spill st + b2n (op_spills o))%N;
                                   n_recycle := (n_recycle st + b2n (Nat.ltb (List.length (hr_fl rep)) (last_fl st)))%N;
                                   last_fl := List.length (hr_fl rep) |}
                      end
                  | _, _ => inr (at_op ++ "a live pointer variable is undefined")
                  end
              end
          end
      end
  end.

Fixpoint ho_run (st : hostate) (ops : list (hop * list xtemp)) (codes : list (list xcode)) : hostate + string :=
  match ops, codes with
  | [], [] => inl st
  | (o, r) :: ops', cs :: codes' =>
      match ho_step st o r cs with
      | inl st' => ho_run st' ops' codes'
      | inr why => inr why
      end
  | _, _ => inr "operation and code lists differ in length"
  end.

Definition heapops_case (i r : sexp) : verdict :=
  match i, r with
  | L ops, L codes =>
      match g_ops ops, omap g_xcodes codes with
      | Some ops, Some codes =>
          let st0 := {| mach := ho_init; abst := Heap.init HEAP_BASE; peak := 0; opno := 0;
                        n_multi := 0; n_rel := 0; n_shr := 0; n_deferred := 0; n_spill := 0; n_recycle := 0; last_fl := O |} in
          match ho_run st0 ops codes with
          | inr why => VViol ("class=heapops-mismatch " ++ why)
          | inl st =>
              let blocks := (Heap.frontier (abst st) - HEAP_BASE) / 64 in
              if negb (blocks =? peak st + 1)
              then VViol ("class=heap-footprint frontier " ++ z_to_string blocks ++ " blocks, peak in use " ++ z_to_string (peak st) ++ " (expected peak + 1)")
              else
                let tag (b : bool) (s : string) := if b then " " ++ s else "" in
                VOk ((if N.ltb 3 (opno st) then "nt" else "small")
                     ++ " ops" ++ n_to_string (N.log2 (opno st + 1)) ++ " peak" ++ z_to_string (Z.log2 (peak st + 1))
                     ++ tag (N.ltb 0 (n_multi st)) "multiblock" ++ tag (N.ltb 0 (n_rel st)) "release" ++ tag (N.ltb 0 (n_shr st)) "share"
                     ++ tag (N.ltb 0 (n_deferred st)) "deferred" ++ tag (N.ltb 0 (n_recycle st)) "recycle" ++ tag (N.ltb 0 (n_spill st)) "spill")
          end
      | _, _ => VBad "case unreadable"
      end
  | _, _ => VBad "case shape"
  end.
Definition run_heapops_x86 : string -> string := run_cases heapops_case.
