(* modelrun command "pm": generic parallel moves against the recording backend. *)
From Coq Require Import List ZArith NArith String Bool.
From SCC Require Import Base.Sexp Model.ParMoves Model.RunBase.
Import ListNotations.
Open Scope string_scope.

Definition g_amap (x : sexp) : option (amap Z) :=
  getL (fun e => match e with
                 | L [k; ts] => do k <- getZ k; do ts <- getL getZ ts; Some (k, ts)
                 | _ => None end) x.

Definition s_pinstr (i : pinstr Z) : sexp :=
  match i with
  | Mov _ d s => L [A "mov"; sZ d; sZ s]
  | Save _ t => L [A "save"; sZ t; A "false"]
  | Restore _ t => L [A "restore"; sZ t; A "false"]
  end.

Definition pm_fuel (M : amap Z) : nat := List.length (all_targets Z M) + 2.

Definition pm_model (M : amap Z) : sexp :=
  match parallel_moves Z Z.eqb (pm_fuel M) M with
  | None => A "OUT_OF_FUEL"
  | Some [] => L []
  | Some is => L (L [A "comment"; Q "#move variables"] :: map s_pinstr is)
  end.

(* executable form of the property on the implementation's output: run the recorded moves on
   distinct marker values and compare with the simultaneous assignment *)
Definition g_pinstr (x : sexp) : option (option (pinstr Z)) :=
  match x with
  | L [A "mov"; d; s] => do d <- getZ d; do s <- getZ s; Some (Some (Mov Z d s))
  | L [A "save"; t; _] => do t <- getZ t; Some (Some (Save Z t))
  | L [A "restore"; t; _] => do t <- getZ t; Some (Some (Restore Z t))
  | L [A "comment"; _] => Some None
  | _ => None
  end.
Fixpoint somes {X} (l : list (option X)) : list X :=
  match l with [] => [] | Some x :: r => x :: somes r | None :: r => somes r end.

Definition source_of (M : amap Z) (u : Z) : Z :=
  match find (fun kt => existsb (Z.eqb u) (snd kt)) M with Some kt => fst kt | None => u end.
Definition universe (M : amap Z) : list Z := map fst M ++ all_targets Z M.

Definition pm_semantic_ok (M : amap Z) (is : list (pinstr Z)) : bool :=
  let c' := exec Z Z.eqb Z is (fun t => t, (-1)%Z) in
  forallb (fun u => Z.eqb (fst c' u) (source_of M u)) (universe M).

Definition pm_case (i r : sexp) : verdict :=
  match g_amap i with
  | None => VBad "input"
  | Some M =>
      match cmp_sexp (pm_model M) r with
      | VOk _ =>
          let out := pm_model M in
          let has_cycle := match parallel_moves Z Z.eqb (pm_fuel M) M with
                           | Some is => existsb (fun i => match i with Save _ _ => true | _ => false end) is
                           | None => false end in
          VOk ((match out with L [] => "empty" | _ => "nt" end) ++ (if has_cycle then " cycle" else " acyclic")
               ++ " size" ++ n_to_string (N.of_nat (List.length (universe M) / 4)))
      | VDiff m r' =>
          (* correspondence broken: does the implementation's output still implement the assignment? *)
          match getL g_pinstr r with
          | Some is => if pm_semantic_ok M (somes is) then VDiff m r' else VViol ("moves do not implement the assignment: " ++ r')
          | None => VDiff m r'
          end
      | v => v
      end
  end.
Definition run_pm : string -> string := run_cases pm_case.
