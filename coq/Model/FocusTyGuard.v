(* Model/FocusTyGuard.v (C12) - the boolean side conditions of the typing-preservation theorem for focusing
   (C12_focus_preserves_typing), beyond wt_core and C03's pre_check.  Not models of Rust code.
   [xtor_tys_ok c]: the field types of all xtors are declared.  Sem/CoreCheck.v does not ask for it (the real
     checker's output is not closed under the types it mentions, C15), but focusing names every non-variable
     argument by a cut AT THE FIELD TYPE, and Sem/FsCheck.v demands a declared type at every cut.  It is the
     second half of [decls_ok] (Sem/FsFrag2.v), which the shrinking theorem needs anyway.
   [names_le c]: the ids of the definition NAMES are <= max_id ([ids_bounded] of Sem/FsCheck.v looks at them;
     fun2core emits id 0). *)
From Coq Require Import List ZArith NArith String Bool.
From SCC Require Import Base.Sexp Lang.SynUtil Lang.CoreSyn Sem.FsCheck.
Import ListNotations.

Definition xtor_tys_ok (c : cprog) : bool :=
  forallb (fun t => forallb (fun x => forallb (fun b => ty_ok (cpdata c) (cpcodata c) (cbty b)) (cxargs x)) (ctxtors t))
          (cpdata c ++ cpcodata c).
Definition names_le (c : cprog) : bool :=
  forallb (fun d => N.leb (cid_id (cdname d)) (cpmax c)) (cpdefs c).
