(* C16: the layout algorithm of the `pretty` crate (version 0.11.3, src/render.rs: `best` and
   `fitting`) on the document algebra of Model/Printer.v, so that the model printer can be compared
   with the implementation byte for byte (RunFmt.v check (i')).

     line   = hardline.flat_alt(text " ")     line_ = hardline.flat_alt(nil)
     align  = column(|col| nesting(|nest| self.nest(col - nest)))     i.e. indentation := current column
     group  : in break mode, `fitting` decides whether the group (and the rest of the line after it,
              up to the first possible line break) fits into the remaining width; flat mode is inherited.

   `fitting` is transliterated with its quirks: after the group itself it walks the pending
   commands in break mode regardless of their own mode; a text counts against the width with its
   byte length; a hardline inside the group makes it not fit.
   The theorems of C16 do not depend on this file: they quantify over all layouts ([renders] in
   Proof/FmtProof.v), of which this algorithm computes one. *)
From Coq Require Import List ZArith NArith String Ascii Bool.
From SCC Require Import Base.Sexp Model.Printer.
Import ListNotations.
Open Scope string_scope.
Local Open Scope N_scope.

Definition cmd := (N * bool * doc)%type.          (* indentation, flat mode?, document *)

Fixpoint dsize (d : doc) : nat :=
  match d with
  | DAppend a b => S (dsize a + dsize b)
  | DNest _ d | DGroup d | DAlign d => S (dsize d)
  | _ => 1%nat
  end.

Definition text_len (a : atom) : N := N.of_nat (String.length (atom_text a)).

(* Best::fitting(next, pos, ind): fc = fcmds (top first), bc = the pending commands (top first),
   brk = the mode variable (false = Flat while inside the group) *)
Fixpoint fitting (fuel : nat) (fc : list doc) (bc : list cmd) (brk : bool) (pos width : N) : bool :=
  match fuel with
  | O => false
  | S fuel =>
      match fc with
      | [] => match bc with
              | [] => true
              | (_, _, b) :: bc' => fitting fuel [b] bc' true pos width
              end
      | d :: fc' =>
          match d with
          | DNil => fitting fuel fc' bc brk pos width
          | DAppend a b => fitting fuel (a :: b :: fc') bc brk pos width
          | DHardline => brk
          | DComment => let pos' := pos + 2 in                   (* text "//" then hardline *)
                        if width <? pos' then false else brk
          | DText a => let pos' := pos + text_len a in
                       if width <? pos' then false else fitting fuel fc' bc brk pos' width
          | DSpace => let pos' := pos + 1 in
                      if width <? pos' then false else fitting fuel fc' bc brk pos' width
          | DLine => if brk then true
                     else let pos' := pos + 1 in
                          if width <? pos' then false else fitting fuel fc' bc brk pos' width
          | DLine_ => if brk then true else fitting fuel fc' bc brk pos width
          | DNest _ d' | DGroup d' | DAlign d' => fitting fuel (d' :: fc') bc brk pos width
          end
      end
  end.

Definition spaces (n : N) : string := N.iter n (String " ") "".
Definition newline (ind : N) : string := String "010" (spaces ind).
(* usize::saturating_add / saturating_sub of Doc::Nest *)
Definition nest_ind (ind : N) (off : Z) : N :=
  if (0 <=? off)%Z then ind + Z.to_N off else ind - Z.to_N (- off).

(* Best::best: out = the pieces written so far, last first *)
Fixpoint best (fuel ffuel : nat) (bc : list cmd) (pos width : N) (out : list string) : list string :=
  match fuel with
  | O => out
  | S fuel =>
      match bc with
      | [] => out
      | (ind, flat, d) :: bc' =>
          match d with
          | DNil => best fuel ffuel bc' pos width out
          | DAppend a b => best fuel ffuel ((ind, flat, a) :: (ind, flat, b) :: bc') pos width out
          | DGroup d' =>
              let flat' := if flat then true else fitting ffuel [d'] bc' false pos width in
              best fuel ffuel ((ind, flat', d') :: bc') pos width out
          | DNest off d' => best fuel ffuel ((nest_ind ind off, flat, d') :: bc') pos width out
          | DAlign d' => best fuel ffuel ((pos, flat, d') :: bc') pos width out
          | DHardline => best fuel ffuel bc' ind width (newline ind :: out)
          | DComment => best fuel ffuel bc' ind width (spaces ind :: comment_text :: out)   (* "//" ++ newline ind *)
          | DText a => best fuel ffuel bc' (pos + text_len a) width (atom_text a :: out)
          | DSpace => best fuel ffuel bc' (pos + 1) width (" " :: out)
          | DLine => if flat then best fuel ffuel bc' (pos + 1) width (" " :: out)
                     else best fuel ffuel bc' ind width (newline ind :: out)
          | DLine_ => if flat then best fuel ffuel bc' pos width out
                      else best fuel ffuel bc' ind width (newline ind :: out)
          end
      end
  end.

Fixpoint concat_rev (l : list string) (acc : string) : string :=
  match l with [] => acc | s :: r => concat_rev r (s ++ acc) end.

(* doc.render(width, out): starts in break mode at column 0, indentation 0 *)
Definition render (width : N) (d : doc) : string :=
  let f := (2 * dsize d + 8)%nat in
  concat_rev (best f f [(0, false, d)] 0 width []) "".
