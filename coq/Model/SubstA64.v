(* C11: the AArch64 instance of Model/SubstGen.sbackend (state builder and runner over Sem/A64Sem). *)
From Coq Require Import List ZArith NArith String Bool FMapPositive.
From SCC Require Import Base.Sexp Lang.AxSyn Sem.AxSem Sem.A64Sem Model.ParMoves Model.Backend Model.A64 Model.A64Io
     Model.RunBase Model.SubstGen.
Import ListNotations.
Open Scope string_scope.
Open Scope Z_scope.

(* sp during the body of a compiled function: 16-aligned, spill area inside the stack *)
Definition A_SP0 : Z := STACK_TOP - 8192.
Definition a_slot_addr (p : N) : Z := A_SP0 + stack_offset p.

Definition a_put (s : astate) (t : atemp) (v : Z) : astate :=
  match t with
  | AR r => rset s r (Some v)
  | AS p => {| regs := regs s; spv := spv s; heap := heap s; stack := PM.add (key (a_slot_addr p)) v (stack s);
               flags := flags s; out := out s; hw := hw s |}
  end.

Definition xn (r : areg) : N := match r with X n => n | _ => 0%N end.

Definition a_init (temps : list (atemp * Z)) (hp : list (Z * Z)) (free : Z) : astate :=
  (* every general register gets a marker; then HEAP, FREE, the scratch registers *)
  let regs0 := fold_left (fun m r => PM.add (N.succ_pos r) (880000 + Z.of_N r) m)
                         (map N.of_nat (seq 0 31)) (PM.empty Z) in
  let regs1 := PM.add (N.succ_pos (xn TEMP)) 777001
               (PM.add (N.succ_pos (xn TEMP2)) 777002
               (PM.add (N.succ_pos (xn HEAP)) (HEAP_BASE + 64 * 5000)
               (PM.add (N.succ_pos (xn FREE)) free regs0))) in
  let stack0 := PM.add (key (a_slot_addr SPILL_TEMP)) 777000
                (PM.add (key (A_SP0 - 8)) 666001
                (PM.add (key (A_SP0 + SPILL_SPACE)) 666002
                (PM.add (key (A_SP0 + SPILL_SPACE + 8)) 666003 (PM.empty Z)))) in
  let heap0 := fold_left (fun m (av : Z * Z) => PM.add (key (fst av)) (snd av) m) hp (PM.empty Z) in
  let s0 := {| regs := regs1; spv := Some A_SP0; heap := heap0; stack := stack0; flags := None; out := [];
               hw := HEAP_BASE - 8 |} in
  fold_left (fun s (tv : atemp * Z) => a_put s (fst tv) (snd tv)) temps s0.

Definition a_run (cs : list acode) (exit_label : string) (s : astate) : option string * astate :=
  let im := mk_image (cs ++ [LAB exit_label])%list in
  let '(ob, s') := run 200 2000 im 1%positive s in
  match snd ob with
  | OStuck "fell-off-the-end" => (None, s')
  | OStuck w => (Some ("fault " ++ w), s')
  | OUndef w => (Some ("undefined " ++ w), s')
  | OExit _ => (Some "returned", s')
  | OOutOfFuel => (Some "out of fuel", s')
  end.

Definition a_get (s : astate) (t : atemp) : option Z :=
  match t with AR r => rget s r | AS p => PM.find (key (a_slot_addr p)) (stack s) end.
Definition a_heap (s : astate) (a : Z) : Z := match PM.find (key a) (heap s) with Some z => z | None => 0 end.
Definition a_heap_dom (s : astate) : list Z := map (fun kv => Z.pos (fst kv) - 1) (PM.elements (heap s)).

Definition oz_eqb (a b : option Z) : bool :=
  match a, b with Some x, Some y => Z.eqb x y | None, None => true | _, _ => false end.

(* registers that are neither variable temporaries (x4..x29) nor scratch (TEMP, TEMP2) nor FREE:
   HEAP; plus sp, the output and the stack outside the spill area *)
Definition a_frame (s0 s1 : astate) : option string :=
  if negb (oz_eqb (spv s0) (spv s1)) then Some "sp changed"
  else if negb (oz_eqb (rget s0 HEAP) (rget s1 HEAP)) then Some "the HEAP register changed"
  else if negb (Nat.eqb (List.length (out s0)) (List.length (out s1))) then Some "output changed"
  else
    let outside (a : Z) := (a <? A_SP0) || (A_SP0 + SPILL_SPACE <=? a) in
    let keys := (map fst (PM.elements (stack s0)) ++ map fst (PM.elements (stack s1)))%list in
    match find (fun k => outside (Z.pos k - 1) && negb (oz_eqb (PM.find k (stack s0)) (PM.find k (stack s1)))) keys with
    | Some k => Some ("stack word " ++ z_to_string (Z.pos k - 1) ++ " outside the spill area changed")
    | None => None
    end.

Definition a64_sbackend : sbackend := {|
  sb_Code := acode; sb_Temp := atemp; sb_State := astate;
  sb_B := a64_backend;
  sb_read := g_acodes;
  sb_show := s_acode;
  sb_is_spill := fun t => match t with AS _ => true | AR _ => false end;
  sb_block_size := 8 * (2 + 2 * Z.of_N FIELDS_PER_BLOCK);
  sb_heap_base := HEAP_BASE;
  sb_init := a_init;
  sb_run := a_run;
  sb_get := a_get;
  sb_heap := a_heap;
  sb_heap_dom := a_heap_dom;
  sb_free := fun s => rget s FREE;
  sb_frame := a_frame;
|}.
