(* C16: model of the Fun parser: /repo/lang/fun/src/parser/fun.lalrpop.

   [lex]    the lexer lalrpop generates from the `match { .. }` block: at every position all
            terminals are tried, the longest match wins, a literal beats a regex of the same length;
            whitespace r"\s*" and `//` comments are skipped (an empty skip = InvalidToken).
            Written per first character; the terminals with an embedded `\s*` (r"==\s*0", r"0\s*==",
            r":\s*cns", ...) look ahead over blanks.  Texts are UTF-8 byte strings; `\s` is the regex
            crate's Unicode class; other bytes >= 128 are accepted inside comments only.
   [parse]  the grammar as recursive descent over the token list (the LALR(1) automaton itself is
            not modelled; agreement of accepted language and trees is checked by correspondence):
              Term  ::= print_i64 ( Term ) ; Term | println_i64 ( Term ) ; Term | Term3
              Term3 ::= if ..  | label n { Term } | goto n ( Term ) | exit Term | Term1 BinOp Term1
                      | let n : Ty = Term3 ; Term | Term2
              Term2 ::= new { Coclauses } | Ctor OptArgs | Term2 . dtor OptTypeArgs OptArgs
                      | Term2 . case OptTypeArgs { Clauses } | Term1
              Term1 ::= Num | - Num | n | n ( Args ) | ( Term )
            with the 18 `if` productions: 6 general, 6 `t cmp 0` (terminal r"cmp\s*0") and 6 flipped
            `0 cmp t` (terminal r"0\s*cmp"; the action stores the mirrored sort).
            A literal above i64::MAX is rejected by the action of Num (a panic before /repo commit 57bde9f,
            a ParseError::User since): the model answers None.
   Fuel: every function takes fuel and calls with the predecessor; [parse] supplies
   8 * |tokens| + 16.  No proofs here. *)
From Coq Require Import List ZArith NArith String Ascii Bool.
From SCC Require Import Base.Sexp Lang.SynUtil Lang.FunSyn Model.Printer.
Import ListNotations.
Open Scope string_scope.

(* ================= lexer ================= *)
Definition is_blank (c : ascii) : bool :=          (* ASCII part of the regex class \s *)
  match nat_of_ascii c with 9 | 10 | 11 | 12 | 13 | 32 => true | _ => false end.
Definition is_nl (c : ascii) : bool := match nat_of_ascii c with 10 | 13 => true | _ => false end.

Fixpoint skip_while (p : ascii -> bool) (s : string) : string :=
  match s with
  | String c r => if p c then skip_while p r else s
  | EmptyString => s
  end.
Fixpoint take_while (p : ascii -> bool) (s : string) : string :=
  match s with
  | String c r => if p c then String c (take_while p r) else EmptyString
  | EmptyString => EmptyString
  end.
(* r"\s*": the regex crate's Unicode class \s = [\t-\r ] and U+0085 U+00A0 U+1680 U+2000-U+200A U+2028
   U+2029 U+202F U+205F U+3000 (see the generated __intern_token::new_builder), on the UTF-8 bytes.
   (/repo/examples contains U+00A0 between tokens.) *)
Definition in_range (lo hi : nat) (c : ascii) : bool := let n := nat_of_ascii c in (lo <=? n)%nat && (n <=? hi)%nat.
Fixpoint skip_ws (s : string) : string :=
  match s with
  | String c r =>
      if is_blank c then skip_ws r
      else match s with
           | String "194" (String c2 r2) =>
               if in_range 133 133 c2 || in_range 160 160 c2 then skip_ws r2 else s
           | String "225" (String "154" (String "128" r3)) => skip_ws r3
           | String "226" (String "128" (String c3 r3)) =>
               if in_range 128 138 c3 || in_range 168 169 c3 || in_range 175 175 c3 then skip_ws r3 else s
           | String "226" (String "129" (String "159" r3)) => skip_ws r3
           | String "227" (String "128" (String "128" r3)) => skip_ws r3
           | _ => s
           end
  | EmptyString => s
  end.

Inductive lexstep := LTok (t : token) (rest : string) | LSkip (rest : string) | LErr.

(* after "==" etc.: r"==\s*0" is longer than "==" whenever it matches *)
Definition after_cmp (c : fifsort) (r : string) : lexstep :=
  match skip_ws r with
  | String "0" r' => LTok (TCmpZ c) r'
  | _ => LTok (TSym (SCmp c)) r
  end.
(* after "0" and blanks: r"0\s*<=" beats r"0\s*<" *)
Definition zero_cmp (r : string) : option (fifsort * string) :=
  match r with
  | String "=" (String "=" r') => Some (FEq, r')
  | String "!" (String "=" r') => Some (FNe, r')
  | String "<" (String "=" r') => Some (FLe, r')
  | String ">" (String "=" r') => Some (FGe, r')
  | String "<" r' => Some (FLt, r')
  | String ">" r' => Some (FGt, r')
  | _ => None
  end.
(* the comment terminal  // ( ( [^ \n\r] | SPACE [^|\n\r] ) [^\n\r]* )? [\n\r]*  , given the text after the two slashes:
   the rest of the line is part of the comment unless it starts with a blank followed by a bar or the line end *)
Definition comment_rest (r : string) : string :=
  let body :=
    match r with
    | String c r2 =>
        if is_nl c then r
        else if Ascii.eqb c " "
             then match r2 with
                  | String c2 _ => if is_nl c2 || Ascii.eqb c2 "|" then r else skip_while (fun x => negb (is_nl x)) r
                  | EmptyString => r
                  end
             else skip_while (fun x => negb (is_nl x)) r
    | EmptyString => r
    end in
  skip_while is_nl body.

(* one terminal at the head of s (s is not empty and does not start with a blank) *)
Definition scan (s : string) : lexstep :=
  match s with
  | EmptyString => LErr
  | String c r =>
      if is_lower c || is_upper c then LTok (word_token (take_while is_wordc s)) (skip_while is_wordc s)
      else if Ascii.eqb c "0" then
        match zero_cmp (skip_ws r) with
        | Some (o, r') => LTok (TZCmp o) r'
        | None => LTok (TNum 0) r
        end
      else if is_digit c then
        match n_of_string (take_while is_digit s) with
        | Some k => LTok (TNum k) (skip_while is_digit s)
        | None => LErr
        end
      else match c with
      | "="%char => match r with
                    | String "=" r1 => after_cmp FEq r1
                    | String ">" r1 => LTok (TSym SArrow) r1
                    | _ => LTok (TSym SAssign) r
                    end
      | "!"%char => match r with String "=" r1 => after_cmp FNe r1 | _ => LErr end
      | "<"%char => match r with String "=" r1 => after_cmp FLe r1 | _ => after_cmp FLt r end
      | ">"%char => match r with String "=" r1 => after_cmp FGe r1 | _ => after_cmp FGt r end
      | ":"%char => match skip_ws r with
                    | String "c" (String "n" (String "s" r1)) => LTok TColonCns r1
                    | _ => LTok (TSym SColon) r
                    end
      | "/"%char => match r with String "/" r1 => LSkip (comment_rest r1) | _ => LTok (TSym SSlash) r end
      | "("%char => LTok (TSym SLPar) r
      | ")"%char => LTok (TSym SRPar) r
      | "{"%char => LTok (TSym SLBrace) r
      | "}"%char => LTok (TSym SRBrace) r
      | "["%char => LTok (TSym SLBrack) r
      | "]"%char => LTok (TSym SRBrack) r
      | ";"%char => LTok (TSym SSemi) r
      | ","%char => LTok (TSym SComma) r
      | "."%char => LTok (TSym SDot) r
      | "+"%char => LTok (TSym SPlus) r
      | "*"%char => LTok (TSym SStar) r
      | "-"%char => LTok (TSym SMinus) r
      | "%"%char => LTok (TSym SPercent) r
      | _ => LErr
      end
  end.

Fixpoint lex (n : nat) (s : string) : option (list token) :=
  match n with
  | O => None
  | S n =>
      match skip_ws s with
      | EmptyString => Some []
      | s' => match scan s' with
              | LTok t r => match lex n r with Some l => Some (t :: l) | None => None end
              | LSkip r => lex n r
              | LErr => None
              end
      end
  end.
Definition lex_string (s : string) : option (list token) := lex (S (String.length s)) s.

(* ================= parser ================= *)
Definition pr (X : Type) := option (X * list token).
Definition i64_max : N := 9223372036854775807%N.

Definition sym_eqb (a b : sym) : bool :=
  match a, b with
  | SLPar, SLPar | SRPar, SRPar | SLBrace, SLBrace | SRBrace, SRBrace | SLBrack, SLBrack | SRBrack, SRBrack
  | SSemi, SSemi | SArrow, SArrow | SComma, SComma | SColon, SColon | SDot, SDot | SAssign, SAssign
  | SPlus, SPlus | SStar, SStar | SMinus, SMinus | SSlash, SSlash | SPercent, SPercent => true
  | SCmp c, SCmp d => fifsort_eqb c d
  | _, _ => false
  end.
Definition expect (y : sym) (ts : list token) : option (list token) :=
  match ts with TSym z :: r => if sym_eqb y z then Some r else None | _ => None end.

(* Comma<Rule> followed by the closing bracket:  (Rule ",")* Rule? close *)
Definition comma_loop {X} (item : list token -> pr X) (close : sym) : nat -> list token -> pr (list X) :=
  fix go (m : nat) (ts : list token) : pr (list X) :=
    match m with
    | O => None
    | S m =>
        match expect close ts with
        | Some r => Some ([], r)
        | None =>
            do (x, r) <- item ts;
            match expect SComma r with
            | Some r' => do (l, r'') <- go m r'; Some (x :: l, r'')
            | None => do r' <- expect close r; Some ([x], r')
            end
        end
    end.

(* Ty, OptTypeArgs *)
Fixpoint p_ty (n : nat) (ts : list token) : pr fty :=
  match n with
  | O => None
  | S n =>
      match ts with
      | TKw KI64 :: r => Some (FI64, r)
      | TUpper s :: TSym SLBrack :: r => do (args, r') <- comma_loop (p_ty n) SRBrack n r; Some (FDecl s args, r')
      | TUpper s :: r => Some (FDecl s [], r)
      | _ => None
      end
  end.
Definition p_opttyargs (n : nat) (ts : list token) : pr (list fty) :=
  match ts with
  | TSym SLBrack :: r => comma_loop (p_ty n) SRBrack n r
  | _ => Some ([], ts)
  end.

(* Name, OptNameContext, Binding, OptContext, OptTypeContext *)
Definition p_lower (ts : list token) : pr fname := match ts with TLower s :: r => Some (s, r) | _ => None end.
Definition p_upper (ts : list token) : pr fname := match ts with TUpper s :: r => Some (s, r) | _ => None end.
Definition p_optnames (n : nat) (ts : list token) : pr fnamectx :=
  match ts with TSym SLPar :: r => comma_loop p_lower SRPar n r | _ => Some ([], ts) end.
Definition p_opttypectx (n : nat) (ts : list token) : pr fnamectx :=
  match ts with TSym SLBrack :: r => comma_loop p_upper SRBrack n r | _ => Some ([], ts) end.
Definition p_binding (n : nat) (ts : list token) : pr fbinding :=
  match ts with
  | TLower v :: TSym SColon :: r => do (t, r') <- p_ty n r; Some (mkfb v FPrd t, r')
  | TLower v :: TColonCns :: r => do (t, r') <- p_ty n r; Some (mkfb v FCns t, r')
  | _ => None
  end.
Definition p_optctx (n : nat) (ts : list token) : pr fctx :=
  match ts with TSym SLPar :: r => comma_loop (p_binding n) SRPar n r | _ => Some ([], ts) end.

Definition binop_of (y : sym) : option fbinop :=
  match y with
  | SPlus => Some FSum | SMinus => Some FSub | SStar => Some FProd | SSlash => Some FDiv | SPercent => Some FRem
  | _ => None
  end.
(* the actions of IfZRight .. IfGEZRight: `0 > t` is stored as Less, etc.: [flip] of Model/Printer.v *)
Definition lit_ok (k : N) : bool := (k <=? i64_max)%N.

(* The bool returned with a Term2 says whether it is a Term1 (only those may be operands of BinOp). *)
Fixpoint p_term (n : nat) (ts : list token) : pr fterm :=
  match n with
  | O => None
  | S n =>
      match ts with
      | TKw KPrint :: TSym SLPar :: r =>
          do (a, r1) <- p_term n r; do r2 <- expect SRPar r1; do r3 <- expect SSemi r2;
          do (t, r4) <- p_term n r3; Some (FPrint false a t None, r4)
      | TKw KPrintln :: TSym SLPar :: r =>
          do (a, r1) <- p_term n r; do r2 <- expect SRPar r1; do r3 <- expect SSemi r2;
          do (t, r4) <- p_term n r3; Some (FPrint true a t None, r4)
      | _ => p_term3 n ts
      end
  end
with p_term3 (n : nat) (ts : list token) : pr fterm :=
  match n with
  | O => None
  | S n =>
      match ts with
      | TKw KIf :: TZCmp c :: r =>
          do (a, r1) <- p_term n r;
          do (th, r2) <- p_block n r1; match r2 with
          | TKw KElse :: r3 => do (el, r4) <- p_block n r3; Some (FIfC (flip c) a None th el None, r4)
          | _ => None end
      | TKw KIf :: r =>
          do (a, r1) <- p_term n r;
          match r1 with
          | TSym (SCmp c) :: r2 =>
              do (b, r3) <- p_term n r2;
              do (th, r4) <- p_block n r3; match r4 with
              | TKw KElse :: r5 => do (el, r6) <- p_block n r5; Some (FIfC c a (Some b) th el None, r6)
              | _ => None end
          | TCmpZ c :: r2 =>
              do (th, r4) <- p_block n r2; match r4 with
              | TKw KElse :: r5 => do (el, r6) <- p_block n r5; Some (FIfC c a None th el None, r6)
              | _ => None end
          | _ => None
          end
      | TKw KLabel :: TLower l :: r => do (t, r1) <- p_block n r; Some (FLabel l t None, r1)
      | TKw KGoto :: TLower l :: TSym SLPar :: r =>
          do (t, r1) <- p_term n r; do r2 <- expect SRPar r1; Some (FGoto l t None, r2)
      | TKw KExit :: r => do (t, r1) <- p_term n r; Some (FExit t None, r1)
      | TKw KLet :: TLower v :: TSym SColon :: r =>
          do (ty, r1) <- p_ty n r; do r2 <- expect SAssign r1;
          do (b, r3) <- p_term3 n r2; do r4 <- expect SSemi r3;
          do (t, r5) <- p_term n r4; Some (FLet v ty b t None, r5)
      | _ =>
          do (eb, r) <- p_term2 n ts;
          let (e, is1) := eb : fterm * bool in
          match r with
          | TSym y :: r1 =>
              match binop_of y with
              | Some o => if is1 then do (b, r2) <- p_term1 n r1; Some (FOp e o b, r2) else None
              | None => Some (e, r)
              end
          | _ => Some (e, r)
          end
      end
  end
(* Braces<Term> *)
with p_block (n : nat) (ts : list token) : pr fterm :=
  match n with
  | O => None
  | S n =>
      match ts with
      | TSym SLBrace :: r => do (t, r1) <- p_term n r; do r2 <- expect SRBrace r1; Some (t, r2)
      | _ => None
      end
  end
with p_term2 (n : nat) (ts : list token) : pr (fterm * bool) :=
  match n with
  | O => None
  | S n =>
      match ts with
      | TKw KNew :: TSym SLBrace :: r =>
          do (cls, r1) <- comma_loop (p_clause n FCodata) SRBrace n r; p_postfix n (FNew cls None) false r1
      | TUpper x :: TSym SLPar :: r =>
          do (args, r1) <- comma_loop (p_term n) SRPar n r; p_postfix n (FCtor x args None) false r1
      | TUpper x :: r => p_postfix n (FCtor x [] None) false r
      | _ => do (e, r) <- p_term1 n ts; p_postfix n e true r
      end
  end
with p_term1 (n : nat) (ts : list token) : pr fterm :=
  match n with
  | O => None
  | S n =>
      match ts with
      | TNum k :: r => if lit_ok k then Some (FLit (Z.of_N k), r) else None
      | TSym SMinus :: TNum k :: r => if lit_ok k then Some (FLit (- Z.of_N k), r) else None
      | TLower v :: TSym SLPar :: r =>
          do (args, r1) <- comma_loop (p_term n) SRPar n r; Some (FCall v args None, r1)
      | TLower v :: r => Some (FVar v None None, r)
      | TSym SLPar :: r => do (t, r1) <- p_term n r; do r2 <- expect SRPar r1; Some (FParen t, r2)
      | _ => None
      end
  end
(* the left-recursive part of Term2: destructor calls and case expressions on what was parsed so far *)
with p_postfix (n : nat) (e : fterm) (is1 : bool) (ts : list token) : pr (fterm * bool) :=
  match n with
  | O => None
  | S n =>
      match ts with
      | TSym SDot :: TKw KCase :: r =>
          do (targs, r1) <- p_opttyargs n r;
          do r2 <- expect SLBrace r1;
          do (cls, r3) <- comma_loop (p_clause n FData) SRBrace n r2;
          p_postfix n (FCase e targs cls None) false r3
      | TSym SDot :: TLower x :: r =>
          do (targs, r1) <- p_opttyargs n r;
          match r1 with
          | TSym SLPar :: r2 =>
              do (args, r3) <- comma_loop (p_term n) SRPar n r2; p_postfix n (FDtor e x targs args None) false r3
          | _ => p_postfix n (FDtor e x targs [] None) false r1
          end
      | TSym SDot :: _ => None
      | _ => Some ((e, is1), ts)
      end
  end
(* Clause (pol = Data: CtorName) / Coclause (pol = Codata: DtorName) *)
with p_clause (n : nat) (pol : fpol) (ts : list token) : pr fclause :=
  match n with
  | O => None
  | S n =>
      do (x, r) <- match pol with FData => p_upper ts | FCodata => p_lower ts end;
      do (names, r1) <- p_optnames n r;
      do r2 <- expect SArrow r1;
      do (body, r3) <- p_term n r2;
      Some (FClause pol x names [] body, r3)
  end.

(* declarations *)
Definition p_ctorsig (n : nat) (ts : list token) : pr fctorsig :=
  do (x, r) <- p_upper ts; do (g, r1) <- p_optctx n r; Some (mkfctor x g, r1).
Definition p_dtorsig (n : nat) (ts : list token) : pr fdtorsig :=
  do (x, r) <- p_lower ts; do (g, r1) <- p_optctx n r; do r2 <- expect SColon r1;
  do (t, r3) <- p_ty n r2; Some (mkfdtor x g t, r3).
Definition p_decl (n : nat) (ts : list token) : pr fdecl :=
  match ts with
  | TKw KDef :: TLower f :: r =>
      do (g, r1) <- p_optctx n r; do r2 <- expect SColon r1; do (t, r3) <- p_ty n r2;
      do (b, r4) <- p_block n r3; Some (FDDef (mkfdef f g t b), r4)
  | TKw KData :: TUpper x :: r =>
      do (ps, r1) <- p_opttypectx n r; do r2 <- expect SLBrace r1;
      do (cs, r3) <- comma_loop (p_ctorsig n) SRBrace n r2; Some (FDData (mkfdata x ps cs), r3)
  | TKw KCodata :: TUpper x :: r =>
      do (ps, r1) <- p_opttypectx n r; do r2 <- expect SLBrace r1;
      do (ds, r3) <- comma_loop (p_dtorsig n) SRBrace n r2; Some (FDCodata (mkfcodata x ps ds), r3)
  | _ => None
  end.
(* Prog: Declaration* up to the end of the input *)
Fixpoint p_decls (m n : nat) (ts : list token) : option (list fdecl) :=
  match m with
  | O => None
  | S m =>
      match ts with
      | [] => Some []
      | _ => do (d, r) <- p_decl n ts; do l <- p_decls m n r; Some (d :: l)
      end
  end.

Definition fuel_of (ts : list token) : nat := 8 * List.length ts + 16.
Definition parse (ts : list token) : option fprog :=
  do ds <- p_decls (S (List.length ts)) (fuel_of ts) ts; Some (mkfprog ds).
(* fun::parser::parse_module on text *)
Definition parse_text (s : string) : option fprog := do ts <- lex_string s; parse ts.
(* TermParser (used by tests of the repo; start symbol Term) *)
Definition parse_term_tokens (ts : list token) : option fterm :=
  match p_term (fuel_of ts) ts with Some (t, []) => Some t | _ => None end.
