(* Executable forms of property C03 (boolean checkers), used by modelrun `focus` on the output of
   the Rust code and by the theorems of Proof/FocusProof.v.  No proofs here.

   After uniquify "only the id matters internally, the name is just for pretty-printing"
   (names.rs): the later passes rename by id (trait SubstVar: `&[(ID, Identifier)]`).  Binder
   uniqueness is therefore uniqueness of IDS.

   Input side (full Core):
     binder_ids_*      all binder ids of a term/statement/definition (parameters, mu/mutilde variables,
                       clause contexts), in traversal order
     occ_ok / scoped   every variable occurrence with id <> 0 lies in the scope of a binder with that id
     ids_le            every variable identifier (binder or occurrence) has id <= bound
     focus_wf          the shapes on which no `panic!` of subst_sim/focus/bind is reachable
     pre_check         the precondition of the uniqueness theorem
   Output side (focused Core):
     fs_binder_ids_*   as above for the fs types
     unique_check      binders pairwise distinct along every path of every definition, distinct
                       from the free names, every id not inherited from the input above the
                       input's max_id, output max_id >= every id *)
From Coq Require Import List ZArith NArith String Bool.
From SCC Require Import Base.Sexp Lang.CoreSyn.
Import ListNotations.
Open Scope string_scope.

Definition memN (x : N) (l : list N) : bool := existsb (N.eqb x) l.
Fixpoint nodupN (l : list N) : bool :=
  match l with [] => true | x :: r => negb (memN x r) && nodupN r end.
Definition nonzero (l : list N) : list N := filter (fun n => negb (N.eqb n 0)) l.

(* ---------- binder ids, full Core ---------- *)
Fixpoint binder_ids_term (t : cterm) : list N :=
  match t with
  | CXVar _ _ _ => []
  | CLit _ => []
  | COp a _ b => binder_ids_term a ++ binder_ids_term b
  | CMu _ v s _ => cid_id v :: binder_ids_stmt s
  | CXtor _ _ args _ => flat_map binder_ids_arg args
  | CXCase _ cls _ => flat_map binder_ids_clause cls
  end
with binder_ids_arg (a : carg) : list N :=
  match a with CProducer p => binder_ids_term p | CConsumer k => binder_ids_term k end
with binder_ids_clause (c : cclause) : list N :=
  match c with CClause _ _ ctx body => cids ctx ++ binder_ids_stmt body end
with binder_ids_stmt (s : cstmt) : list N :=
  match s with
  | CCut p _ k => binder_ids_term p ++ binder_ids_term k
  | CIfC _ a b t e =>
      binder_ids_term a ++ match b with Some b' => binder_ids_term b' | None => [] end
      ++ binder_ids_stmt t ++ binder_ids_stmt e
  | CPrint _ a next => binder_ids_term a ++ binder_ids_stmt next
  | CCall _ args _ => flat_map binder_ids_arg args
  | CExit a _ => binder_ids_term a
  end.
Definition binder_ids_def (d : cdef) : list N := cids (cdctx d) ++ binder_ids_stmt (cdbody d).

(* ---------- all variable ids (binders and occurrences) <= bound ---------- *)
Fixpoint ids_le_term (b : N) (t : cterm) : bool :=
  match t with
  | CXVar _ v _ => N.leb (cid_id v) b
  | CLit _ => true
  | COp x _ y => ids_le_term b x && ids_le_term b y
  | CMu _ v s _ => N.leb (cid_id v) b && ids_le_stmt b s
  | CXtor _ _ args _ => forallb (ids_le_arg b) args
  | CXCase _ cls _ => forallb (ids_le_clause b) cls
  end
with ids_le_arg (b : N) (a : carg) : bool :=
  match a with CProducer p => ids_le_term b p | CConsumer k => ids_le_term b k end
with ids_le_clause (b : N) (c : cclause) : bool :=
  match c with CClause _ _ ctx body => forallb (fun i => N.leb i b) (cids ctx) && ids_le_stmt b body end
with ids_le_stmt (b : N) (s : cstmt) : bool :=
  match s with
  | CCut p _ k => ids_le_term b p && ids_le_term b k
  | CIfC _ x y t e =>
      ids_le_term b x && match y with Some y' => ids_le_term b y' | None => true end
      && ids_le_stmt b t && ids_le_stmt b e
  | CPrint _ x next => ids_le_term b x && ids_le_stmt b next
  | CCall _ args _ => forallb (ids_le_arg b) args
  | CExit x _ => ids_le_term b x
  end.
Definition ids_le_def (b : N) (d : cdef) : bool :=
  forallb (fun i => N.leb i b) (cids (cdctx d)) && ids_le_stmt b (cdbody d).

(* ---------- scoping of the non-zero ids: an occurrence with id <> 0 is below a binder with that id ---------- *)
Fixpoint scoped_term (env : list N) (t : cterm) : bool :=
  match t with
  | CXVar _ v _ => N.eqb (cid_id v) 0 || memN (cid_id v) env
  | CLit _ => true
  | COp x _ y => scoped_term env x && scoped_term env y
  | CMu _ v s _ => scoped_stmt (cid_id v :: env) s
  | CXtor _ _ args _ => forallb (scoped_arg env) args
  | CXCase _ cls _ => forallb (scoped_clause env) cls
  end
with scoped_arg (env : list N) (a : carg) : bool :=
  match a with CProducer p => scoped_term env p | CConsumer k => scoped_term env k end
with scoped_clause (env : list N) (c : cclause) : bool :=
  match c with CClause _ _ ctx body => scoped_stmt (cids ctx ++ env) body end
with scoped_stmt (env : list N) (s : cstmt) : bool :=
  match s with
  | CCut p _ k => scoped_term env p && scoped_term env k
  | CIfC _ x y t e =>
      scoped_term env x && match y with Some y' => scoped_term env y' | None => true end
      && scoped_stmt env t && scoped_stmt env e
  | CPrint _ x next => scoped_term env x && scoped_stmt env next
  | CCall _ args _ => forallb (scoped_arg env) args
  | CExit x _ => scoped_term env x
  end.
Definition scoped_def (d : cdef) : bool := scoped_stmt (cids (cdctx d)) (cdbody d).

(* ---------- focus_wf: no panic reachable ----------
   [c] = chirality of the position.  Excluded: Literal/Op in a consumer position ("cannot
   happen"), a cut of two xtors (the consumer xtor reaches Xtor::focus), a cut of an operator
   against a destructor (the operator reaches Op::focus).  Every well-typed program qualifies:
   Literal/Op are producers of i64; an xtor producer has a data type and an xtor consumer a
   codata type. *)
Definition is_xtor (t : cterm) : bool := match t with CXtor _ _ _ _ => true | _ => false end.
Definition is_op (t : cterm) : bool := match t with COp _ _ _ => true | _ => false end.
Fixpoint wf_term (c : cchi) (t : cterm) : bool :=
  match t with
  | CXVar _ _ _ => true
  | CLit _ => cchi_eqb c CPrd
  | COp a _ b => cchi_eqb c CPrd && wf_term CPrd a && wf_term CPrd b
  | CMu _ _ s _ => wf_stmt s
  | CXtor _ _ args _ => forallb wf_arg args
  | CXCase _ cls _ => forallb wf_clause cls
  end
with wf_arg (a : carg) : bool :=
  match a with CProducer p => wf_term CPrd p | CConsumer k => wf_term CCns k end
with wf_clause (cl : cclause) : bool :=
  match cl with CClause _ _ _ body => wf_stmt body end
with wf_stmt (s : cstmt) : bool :=
  match s with
  | CCut p _ k =>
      wf_term CPrd p && wf_term CCns k
      && negb (is_xtor p && is_xtor k) && negb (is_op p && is_xtor k)
  | CIfC _ a b t e =>
      wf_term CPrd a && match b with Some b' => wf_term CPrd b' | None => true end
      && wf_stmt t && wf_stmt e
  | CPrint _ a next => wf_term CPrd a && wf_stmt next
  | CCall _ args _ => forallb wf_arg args
  | CExit a _ => wf_term CPrd a
  end.
Definition focus_wf (p : cprog) : bool := forallb (fun d => wf_stmt (cdbody d)) (cpdefs p).

(* ---------- the precondition of the uniqueness theorem ----------
   per definition: every variable id <= max_id; the binders with id <> 0 pairwise distinct (the
   binders with id 0 are the ones uniquify renames); occurrences with id <> 0 in scope.
   fun2core output: every id is 0 and max_id = 0. *)
Definition pre_def (mx : N) (d : cdef) : bool :=
  ids_le_def mx d && nodupN (nonzero (binder_ids_def d)) && scoped_def d.
Definition pre_check (p : cprog) : bool := forallb (pre_def (cpmax p)) (cpdefs p).

(* ---------- focused Core ---------- *)
Fixpoint fs_binder_ids_term (t : fsterm) : list N :=
  match t with
  | FsMu _ v s _ => cid_id v :: fs_binder_ids_stmt s
  | FsXCase _ cls _ => flat_map fs_binder_ids_clause cls
  | _ => []
  end
with fs_binder_ids_clause (c : fsclause) : list N :=
  match c with FsClause _ _ ctx body => cids ctx ++ fs_binder_ids_stmt body end
with fs_binder_ids_stmt (s : fsstmt) : list N :=
  match s with
  | FsCut p _ k => fs_binder_ids_term p ++ fs_binder_ids_term k
  | FsIfC _ _ _ t e => fs_binder_ids_stmt t ++ fs_binder_ids_stmt e
  | FsPrint _ _ next => fs_binder_ids_stmt next
  | FsCall _ _ => []
  | FsExit _ => []
  end.
Definition fs_binder_ids_def (d : fsdef) : list N := cids (fsdctx d) ++ fs_binder_ids_stmt (fsdbody d).

(* binders distinct along every path: [seen] = ids bound above *)
Fixpoint path_uniq_ctx (seen : list N) (ids : list N) : option (list N) :=
  match ids with
  | [] => Some seen
  | i :: r => if memN i seen then None else path_uniq_ctx (i :: seen) r
  end.
Fixpoint path_uniq_term (seen : list N) (t : fsterm) : bool :=
  match t with
  | FsMu _ v s _ => negb (memN (cid_id v) seen) && path_uniq_stmt (cid_id v :: seen) s
  | FsXCase _ cls _ => forallb (path_uniq_clause seen) cls
  | _ => true
  end
with path_uniq_clause (seen : list N) (c : fsclause) : bool :=
  match c with
  | FsClause _ _ ctx body =>
      match path_uniq_ctx seen (cids ctx) with
      | Some seen' => path_uniq_stmt seen' body
      | None => false
      end
  end
with path_uniq_stmt (seen : list N) (s : fsstmt) : bool :=
  match s with
  | FsCut p _ k => path_uniq_term seen p && path_uniq_term seen k
  | FsIfC _ _ _ t e => path_uniq_stmt seen t && path_uniq_stmt seen e
  | FsPrint _ _ next => path_uniq_stmt seen next
  | FsCall _ _ => true
  | FsExit _ => true
  end.
Definition path_uniq_def (d : fsdef) : bool :=
  match path_uniq_ctx [] (cids (fsdctx d)) with
  | Some seen => path_uniq_stmt seen (fsdbody d)
  | None => false
  end.

(* free names: occurrences not below a binder with the same id.  [fs_free_ok env bs]: every
   occurrence is bound (id in env) or its id is the id of no binder of the definition (bs). *)
Definition occ_ok (env bs : list N) (v : cident) : bool := memN (cid_id v) env || negb (memN (cid_id v) bs).
Fixpoint fs_free_ok_term (env bs : list N) (t : fsterm) : bool :=
  match t with
  | FsXVar _ v _ => occ_ok env bs v
  | FsLit _ => true
  | FsOp a _ b => occ_ok env bs a && occ_ok env bs b
  | FsMu _ v s _ => fs_free_ok_stmt (cid_id v :: env) bs s
  | FsXtor _ _ args _ => forallb (occ_ok env bs) (cvars args)
  | FsXCase _ cls _ => forallb (fs_free_ok_clause env bs) cls
  end
with fs_free_ok_clause (env bs : list N) (c : fsclause) : bool :=
  match c with FsClause _ _ ctx body => fs_free_ok_stmt (cids ctx ++ env) bs body end
with fs_free_ok_stmt (env bs : list N) (s : fsstmt) : bool :=
  match s with
  | FsCut p _ k => fs_free_ok_term env bs p && fs_free_ok_term env bs k
  | FsIfC _ a b t e =>
      occ_ok env bs a && match b with Some b' => occ_ok env bs b' | None => true end
      && fs_free_ok_stmt env bs t && fs_free_ok_stmt env bs e
  | FsPrint _ a next => occ_ok env bs a && fs_free_ok_stmt env bs next
  | FsCall _ args => forallb (occ_ok env bs) (cvars args)
  | FsExit v => occ_ok env bs v
  end.
Definition fs_free_ok_def (d : fsdef) : bool :=
  fs_free_ok_stmt (cids (fsdctx d)) (fs_binder_ids_def d) (fsdbody d).

(* all variable ids <= bound *)
Fixpoint fs_ids_le_term (b : N) (t : fsterm) : bool :=
  match t with
  | FsXVar _ v _ => N.leb (cid_id v) b
  | FsLit _ => true
  | FsOp x _ y => N.leb (cid_id x) b && N.leb (cid_id y) b
  | FsMu _ v s _ => N.leb (cid_id v) b && fs_ids_le_stmt b s
  | FsXtor _ _ args _ => forallb (fun i => N.leb i b) (cids args)
  | FsXCase _ cls _ => forallb (fs_ids_le_clause b) cls
  end
with fs_ids_le_clause (b : N) (c : fsclause) : bool :=
  match c with FsClause _ _ ctx body => forallb (fun i => N.leb i b) (cids ctx) && fs_ids_le_stmt b body end
with fs_ids_le_stmt (b : N) (s : fsstmt) : bool :=
  match s with
  | FsCut p _ k => fs_ids_le_term b p && fs_ids_le_term b k
  | FsIfC _ x y t e =>
      N.leb (cid_id x) b && match y with Some y' => N.leb (cid_id y') b | None => true end
      && fs_ids_le_stmt b t && fs_ids_le_stmt b e
  | FsPrint _ x next => N.leb (cid_id x) b && fs_ids_le_stmt b next
  | FsCall _ args => forallb (fun i => N.leb i b) (cids args)
  | FsExit x => N.leb (cid_id x) b
  end.
Definition fs_ids_le_def (b : N) (d : fsdef) : bool :=
  forallb (fun i => N.leb i b) (cids (fsdctx d)) && fs_ids_le_stmt b (fsdbody d).

(* [unique_check_def T old d]: T = max_id of the input program, old = binder ids of the input
   definition *)
Definition fresh_above (T : N) (old : list N) (d : fsdef) : bool :=
  forallb (fun i => N.ltb T i || memN i old) (fs_binder_ids_def d).
Definition unique_check_def (T : N) (old : list N) (d : fsdef) : bool :=
  path_uniq_def d && fs_free_ok_def d && fresh_above T old d.
Fixpoint unique_check_defs (T : N) (ins : list cdef) (outs : list fsdef) : bool :=
  match ins, outs with
  | [], [] => true
  | i :: ins', o :: outs' => unique_check_def T (binder_ids_def i) o && unique_check_defs T ins' outs'
  | _, _ => false
  end.
Definition unique_check (p : cprog) (q : fsprog) : bool :=
  unique_check_defs (cpmax p) (cpdefs p) (fspdefs q)
  && forallb (fs_ids_le_def (fspmax q)) (fspdefs q)
  && N.leb (cpmax p) (fspmax q).

(* the same three checks on the output of uniquify alone (full Core syntax) *)
Fixpoint cpath_uniq_term (seen : list N) (t : cterm) : bool :=
  match t with
  | CXVar _ _ _ => true
  | CLit _ => true
  | COp a _ b => cpath_uniq_term seen a && cpath_uniq_term seen b
  | CMu _ v s _ => negb (memN (cid_id v) seen) && cpath_uniq_stmt (cid_id v :: seen) s
  | CXtor _ _ args _ => forallb (cpath_uniq_arg seen) args
  | CXCase _ cls _ => forallb (cpath_uniq_clause seen) cls
  end
with cpath_uniq_arg (seen : list N) (a : carg) : bool :=
  match a with CProducer p => cpath_uniq_term seen p | CConsumer k => cpath_uniq_term seen k end
with cpath_uniq_clause (seen : list N) (c : cclause) : bool :=
  match c with
  | CClause _ _ ctx body =>
      match path_uniq_ctx seen (cids ctx) with
      | Some seen' => cpath_uniq_stmt seen' body
      | None => false
      end
  end
with cpath_uniq_stmt (seen : list N) (s : cstmt) : bool :=
  match s with
  | CCut p _ k => cpath_uniq_term seen p && cpath_uniq_term seen k
  | CIfC _ a b t e =>
      cpath_uniq_term seen a && match b with Some b' => cpath_uniq_term seen b' | None => true end
      && cpath_uniq_stmt seen t && cpath_uniq_stmt seen e
  | CPrint _ a next => cpath_uniq_term seen a && cpath_uniq_stmt seen next
  | CCall _ args _ => forallb (cpath_uniq_arg seen) args
  | CExit a _ => cpath_uniq_term seen a
  end.
Definition cpath_uniq_def (d : cdef) : bool :=
  match path_uniq_ctx [] (cids (cdctx d)) with
  | Some seen => cpath_uniq_stmt seen (cdbody d)
  | None => false
  end.
Definition uniquified_check_def (T : N) (old : list N) (d : cdef) : bool :=
  cpath_uniq_def d
  && forallb (fun i => negb (N.eqb i 0) && (N.ltb T i || memN i old)) (binder_ids_def d).
Fixpoint uniquified_check_defs (T : N) (ins outs : list cdef) : bool :=
  match ins, outs with
  | [], [] => true
  | i :: ins', o :: outs' => uniquified_check_def T (binder_ids_def i) o && uniquified_check_defs T ins' outs'
  | _, _ => false
  end.
Definition uniquified_check (p q : cprog) : bool :=
  uniquified_check_defs (cpmax p) (cpdefs p) (cpdefs q)
  && forallb (ids_le_def (cpmax q)) (cpdefs q) && N.leb (cpmax p) (cpmax q).

(* ---------- focused Core embedded into full Core (for the semantic comparison: the Core
   machine runs both sides) ----------
   FsOp operands and ifc/print/exit arguments are integer variables; an FsXtor / FsCall argument
   list is a context: each binding becomes the variable it names.  The type annotation FsCall
   dropped is irrelevant to evaluation (I64 is put back). *)
Definition embed_binding (b : cbinding) : carg :=
  match cbchi b with
  | CPrd => CProducer (CXVar CPrd (cbvar b) (cbty b))
  | CCns => CConsumer (CXVar CCns (cbvar b) (cbty b))
  end.
Definition ivar (v : cident) : cterm := CXVar CPrd v CI64.
Fixpoint embed_term (t : fsterm) : cterm :=
  match t with
  | FsXVar c v ty => CXVar c v ty
  | FsLit n => CLit n
  | FsOp a o b => COp (ivar a) o (ivar b)
  | FsMu c v s ty => CMu c v (embed_stmt s) ty
  | FsXtor c x args ty => CXtor c x (map embed_binding args) ty
  | FsXCase c cls ty => CXCase c (map embed_clause cls) ty
  end
with embed_clause (c : fsclause) : cclause :=
  match c with FsClause ch x ctx body => CClause ch x ctx (embed_stmt body) end
with embed_stmt (s : fsstmt) : cstmt :=
  match s with
  | FsCut p ty k => CCut (embed_term p) ty (embed_term k)
  | FsIfC so a b t e => CIfC so (ivar a) (option_map ivar b) (embed_stmt t) (embed_stmt e)
  | FsPrint nl a next => CPrint nl (ivar a) (embed_stmt next)
  | FsCall f args => CCall f (map embed_binding args) CI64
  | FsExit v => CExit (ivar v) CI64
  end.
Definition embed_def (d : fsdef) : cdef := mkcd (fsdname d) (fsdctx d) (embed_stmt (fsdbody d)).
Definition embed_prog (p : fsprog) : cprog :=
  mkcp (map embed_def (fspdefs p)) (fspdata p) (fspcodata p) (fspmax p).
