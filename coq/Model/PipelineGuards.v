(* The boolean guards of the composed end-to-end theorem (Props/C01.v, C01_compile_correct_middle_discharged), as one
   executable list over the MODEL's stage outputs of a checked Fun program; evaluated on every real input of the C01
   run (tag thm-middle) and on the non-vacuity examples. *)
From Coq Require Import List ZArith NArith String Bool.
From SCC Require Import Base.Sexp Lang.AxSyn Lang.FunSyn Lang.CoreSyn Sem.FsCheck Sem.FsFrag2
     Model.Backend Model.Fun2Core Model.Fun2CoreGuard Model.Focus Model.FocusCheck Model.FocusGuard Model.Shrink Model.Linearize Model.LinCheck Model.X86.
Import ListNotations.

Definition pipeline_stages (p : fcprog) : option (cprog * fsprog * prog) :=
  match compile_prog p with
  | Fun2Core.Ok c =>
      match focus_prog c with
      | Backend.Ok f => match shrink_prog f with SOk a => Some (c, f, a) | _ => None end
      | _ => None
      end
  | _ => None
  end.
Definition pipeline_guards (p : fcprog) : list bool :=
  match pipeline_stages p with
  | Some (c, f, a) =>
      [prog_guard p; pre_check c; focus_wf c; cs_prog c; static_ok c;
       frag2_prog f; decls_ok f; wt_fs f; unique_binders f; ids_bounded f; prog_ok a;
       match x86_compile (linearize a) 0 with Backend.Ok _ => true | _ => false end]
  | None => [false]
  end.
Definition in_composed_theorem (p : fcprog) : bool := forallb (fun b => b) (pipeline_guards p).
