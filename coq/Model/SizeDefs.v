(* Definitions shared by the size theorems of C19 (Proof/SizeShrink.v) and the modelrun command `sizes`
   (Model/RunSizes.v): what the type declarations contribute to the size bound of shrinking. *)
From Coq Require Import List NArith.
From SCC Require Import Lang.CoreSyn Lang.AxSize Lang.FsSize Model.Shrink.
Import ListNotations.
Open Scope N_scope.

(* largest number of xtors of a declared type / largest xtor arity, in a shrinking environment *)
Definition env_X (E : senv) : N := N.max (decl_xtors (e_data E)) (decl_xtors (e_codata E)).
Definition env_A (E : senv) : N := N.max (decl_arity (e_data E)) (decl_arity (e_codata E)).

(* ... of a program: its data types plus the continuation type `_Cont { Ret(x) }`, its codata types *)
Definition prog_X (p : fsprog) : N := N.max (decl_xtors (fspdata p ++ [cont_int])) (decl_xtors (fspcodata p)).
Definition prog_A (p : fsprog) : N := N.max (decl_arity (fspdata p ++ [cont_int])) (decl_arity (fspcodata p)).
