(* Functional model of lang/axcut2x86_64: config.rs, utils.rs, code.rs (impl Instructions),
   memory.rs (impl Memory), parallel_moves.rs (impl ParallelMoves), into_routine.rs.
   Constants come from Generated/Constants.v (regenerated from the compiled crate on every run).
   COMMENT instructions are not produced (the correspondence drops them from the Rust output). *)
From Coq Require Import List ZArith NArith String Ascii Bool.
From SCC Require Import Base.Sexp Lang.AxSyn Model.ParMoves Model.Backend Generated.Constants.
Import ListNotations.
Open Scope string_scope.
Open Scope list_scope.

Definition reg := N.
Inductive xtemp := XR (r : reg) | XS (p : N).

Inductive xcode :=
| ADD (a b : reg) | ADDRM (a b : reg) (i : Z) | ADDMR (a : reg) (i : Z) (b : reg) | ADDI (a : reg) (i : Z)
| ADDIM (a : reg) (i j : Z)
| SUB (a b : reg) | SUBRM (a b : reg) (i : Z) | SUBMR (a : reg) (i : Z) (b : reg) | SUBI (a : reg) (i : Z)
| IMUL (a b : reg) | IMULRM (a b : reg) (i : Z) | IMULMR (a : reg) (i : Z) (b : reg)
| IDIV (a : reg) | IDIVM (a : reg) (i : Z) | CQO
| JMP (a : reg) | JMPL (l : string) | JMPLN (l : string) | LEAL (a : reg) (l : string)
| MOV (a b : reg) | MOVS (a b : reg) (i : Z) | MOVL (a b : reg) (i : Z) | MOVI (a : reg) (i : Z)
| MOVIM (a : reg) (i j : Z)
| CMP (a b : reg) | CMPRM (a b : reg) (i : Z) | CMPMR (a : reg) (i : Z) (b : reg) | CMPI (a : reg) (i : Z)
| CMPIM (a : reg) (i j : Z)
| JEL (l : string) | JNEL (l : string) | JLL (l : string) | JLEL (l : string) | JGL (l : string) | JGEL (l : string)
| PUSH (a : reg) | POP (a : reg) | CALL (l : string) | RET | LAB (l : string)
| NOEXECSTACK | TEXT | GLOBAL (l : string) | EXTERN (l : string).

(* ---------- constants ---------- *)
Definition cN (z : Z) : N := Z.to_N z.
Definition REGISTER_NUM := cN X86C.REGISTER_NUM.
Definition RESERVED := cN X86C.RESERVED.
Definition SPILL_NUM := cN X86C.SPILL_NUM.
Definition RESERVED_SPILLS := cN X86C.RESERVED_SPILLS.
Definition FIELDS_PER_BLOCK := cN X86C.FIELDS_PER_BLOCK.
Definition STACK : reg := cN X86C.STACK.
Definition TEMP : reg := cN X86C.TEMP.
Definition HEAP : reg := cN X86C.HEAP.
Definition FREE : reg := cN X86C.FREE.
Definition RETURN1 : reg := cN X86C.RETURN1.
Definition RETURN2 : reg := cN X86C.RETURN2.
Definition SPILL_TEMP : N := cN X86C.SPILL_TEMP.
Definition TEMPORARY_TEMP : reg := cN X86C.TEMPORARY_TEMP.
Definition CALLER_SAVE_FIRST := cN X86C.CALLER_SAVE_FIRST.
Definition CALLER_SAVE_LAST := cN X86C.CALLER_SAVE_LAST.
Definition SPILL_SPACE : Z := X86C.SPILL_SPACE.
Definition REFERENCE_COUNT_OFFSET : Z := X86C.REFERENCE_COUNT_OFFSET.
Definition NEXT_ELEMENT_OFFSET : Z := X86C.NEXT_ELEMENT_OFFSET.
Definition address (n : Z) : Z := X86C.address1 * n.

(* the shape of these three functions is read off config.rs; their values on samples are
   regenerated from the crate and compared in Proof/X86Consts.v *)
Definition stack_offset (p : N) : Z := SPILL_SPACE - 8 * (Z.of_N p + 1).
Definition field_offset (n : tnum) (i : N) : Z := address (2 + 2 * Z.of_N i + Z.of_N (tnum_n n)).
Definition jump_length (n : N) : Z := 5 * Z.of_N n.
Definition arg (n : nat) : reg := cN (nth n X86C.arg_regs 0%Z).

(* ---------- utils.rs ---------- *)
Definition temporary_from_position (position : N) : res xtemp :=
  let register_number := (position + RESERVED)%N in
  if N.ltb register_number REGISTER_NUM then Ok (XR register_number)
  else let spill_number := (register_number - REGISTER_NUM + RESERVED_SPILLS)%N in
       if N.ltb spill_number SPILL_NUM then Ok (XS spill_number) else Err "Out of temporaries".

Definition xtemp_compare (a b : xtemp) : comparison :=
  match a, b with
  | XR x, XR y => N.compare x y
  | XR _, XS _ => Datatypes.Lt
  | XS _, XR _ => Datatypes.Gt
  | XS x, XS y => N.compare x y
  end.
Definition xtemp_eqb (a b : xtemp) : bool :=
  match a, b with XR x, XR y => N.eqb x y | XS x, XS y => N.eqb x y | _, _ => false end.

(* ---------- code.rs ---------- *)
Definition move_from_register (t : xtemp) (r : reg) : list xcode :=
  match t with XR tr => [MOV tr r] | XS p => [MOVS r STACK (stack_offset p)] end.
Definition move_to_register (r : reg) (t : xtemp) : list xcode :=
  match t with XR s => [MOV r s] | XS p => [MOVL r STACK (stack_offset p)] end.
Definition add_to_register (r : reg) (t : xtemp) : list xcode :=
  match t with XR s => [ADD r s] | XS p => [ADDRM r STACK (stack_offset p)] end.
Definition add_to_spill (q : N) (t : xtemp) : list xcode :=
  match t with
  | XR s => [ADDMR STACK (stack_offset q) s]
  | XS p => [MOVL TEMP STACK (stack_offset p); ADDMR STACK (stack_offset q) TEMP]
  end.
Definition mul_to_register (r : reg) (t : xtemp) : list xcode :=
  match t with XR s => [IMUL r s] | XS p => [IMULRM r STACK (stack_offset p)] end.
Definition mul_to_spill (q : N) (t : xtemp) : list xcode :=
  match t with
  | XR s => [IMULMR STACK (stack_offset q) s]
  | XS p => [MOVL TEMP STACK (stack_offset p); IMULMR STACK (stack_offset q) TEMP]
  end.
Definition op_commutative (to_reg : reg -> xtemp -> list xcode) (to_spill : N -> xtemp -> list xcode)
           (t s1 s2 : xtemp) : list xcode :=
  match t with
  | XR tr =>
      if xtemp_eqb t s1 then to_reg tr s2
      else if xtemp_eqb t s2 then to_reg tr s1
      else move_to_register tr s1 ++ to_reg tr s2
  | XS tp =>
      if xtemp_eqb t s1 then to_spill tp s2
      else if xtemp_eqb t s2 then to_spill tp s1
      else move_to_register TEMP s1 ++ to_reg TEMP s2 ++ [MOVS TEMP STACK (stack_offset tp)]
  end.
Definition sub_to_register (r : reg) (t : xtemp) : list xcode :=
  match t with XR s => [SUB r s] | XS p => [SUBRM r STACK (stack_offset p)] end.
Definition sub_to_spill (q : N) (t : xtemp) : list xcode :=
  match t with
  | XR s => [SUBMR STACK (stack_offset q) s]
  | XS p => [MOVL TEMP STACK (stack_offset p); SUBMR STACK (stack_offset q) TEMP]
  end.
Definition sub (t s1 s2 : xtemp) : list xcode :=
  match t with
  | XR tr =>
      if xtemp_eqb t s1 then sub_to_register tr s2
      else if xtemp_eqb t s2 then move_to_register TEMP s1 ++ sub_to_register TEMP s2 ++ [MOV tr TEMP]
      else move_to_register tr s1 ++ sub_to_register tr s2
  | XS tp =>
      if xtemp_eqb t s1 then sub_to_spill tp s2
      else move_to_register TEMP s1 ++ sub_to_register TEMP s2 ++ [MOVS TEMP STACK (stack_offset tp)]
  end.
Definition div_core (divisor : xtemp) : list xcode :=
  match divisor with
  | XR r => if N.eqb r RETURN2 then [CQO; IDIV TEMP] else [CQO; IDIV r]
  | XS p => [CQO; IDIVM STACK (stack_offset p)]
  end.
Definition compare (a b : xtemp) : list xcode :=
  match a, b with
  | XR x, XR y => [CMP x y]
  | XR x, XS q => [CMPRM x STACK (stack_offset q)]
  | XS p, XR y => [CMPMR STACK (stack_offset p) y]
  | XS p, XS q => [MOVL TEMP STACK (stack_offset p); CMPRM TEMP STACK (stack_offset q)]
  end.
Definition compare_immediate (t : xtemp) (i : Z) : list xcode :=
  match t with XR r => [CMPI r i] | XS p => [CMPIM STACK (stack_offset p) i] end.

Definition jcc (s : ifsort) (l : string) : xcode :=
  match s with Eq => JEL l | Ne => JNEL l | Lt => JLL l | Le => JLEL l | Gt => JGL l | Ge => JGEL l end.

Definition x_div (t s1 s2 : xtemp) : list xcode :=
  [MOV TEMP RETURN2] ++ move_from_register t RETURN1 ++ move_to_register RETURN1 s1 ++ div_core s2
  ++ [MOV RETURN2 RETURN1] ++ move_to_register RETURN1 t ++ move_from_register t RETURN2 ++ [MOV RETURN2 TEMP].
Definition x_rem (t s1 s2 : xtemp) : list xcode :=
  [MOV TEMP RETURN2] ++ move_from_register t RETURN1 ++ move_to_register RETURN1 s1 ++ div_core s2
  ++ move_to_register RETURN1 t ++ move_from_register t RETURN2 ++ [MOV RETURN2 TEMP].
Definition x_mov (t s : xtemp) : list xcode :=
  match s, t with
  | XR sr, _ => move_from_register t sr
  | _, XR tr => move_to_register tr s
  | _, _ => move_to_register TEMP s ++ move_from_register t TEMP
  end.
Definition x_arith (o : binop) (t s1 s2 : xtemp) : list xcode :=
  match o with
  | Sum => op_commutative add_to_register add_to_spill t s1 s2
  | Prod => op_commutative mul_to_register mul_to_spill t s1 s2
  | Sub => sub t s1 s2
  | Div => x_div t s1 s2
  | Rem => x_rem t s1 s2
  end.
Definition x_jump (t : xtemp) : list xcode :=
  match t with XR r => [JMP r] | XS p => [MOVL TEMP STACK (stack_offset p); JMP TEMP] end.
Definition fits_i32 (i : Z) : bool := (Z.leb (- 2147483648) i && Z.leb i 2147483647)%Z.
Definition x_load_immediate (t : xtemp) (i : Z) : list xcode :=
  match t with
  | XR r => [MOVI r i]
  | XS p => if fits_i32 i then [MOVIM STACK (stack_offset p) i]
            else [MOVI TEMP i; MOVS TEMP STACK (stack_offset p)]
  end.
Definition x_load_label (t : xtemp) (l : string) : list xcode :=
  match t with XR r => [LEAL r l] | XS p => [LEAL TEMP l; MOVS TEMP STACK (stack_offset p)] end.
Definition x_add_and_jump (t : xtemp) (i : Z) : list xcode :=
  match t with
  | XR r => [ADDI r i; JMP r]
  | XS p => [MOVL TEMP STACK (stack_offset p); ADDI TEMP i; JMP TEMP]
  end.

(* print_i64 and the caller-save logic *)
Definition nseq (start len : N) : list N := map N.of_nat (seq (N.to_nat start) (N.to_nat len)).
Definition caller_save_registers_info (context : ctx) : N * list N :=
  let first_backup_register := N.max (2 * N.of_nat (List.length context) + RESERVED) (CALLER_SAVE_LAST + 1) in
  let caller_save_count := (CALLER_SAVE_LAST + 1 - CALLER_SAVE_FIRST)%N in
  let taken := firstn (N.to_nat (caller_save_count / 2)) context in
  let regs := flat_map (fun ob : N * binding =>
                          let '(offset, b) := ob in
                          match bchi b with
                          | Ext => [CALLER_SAVE_FIRST + 2 * offset + 1]
                          | _ => [CALLER_SAVE_FIRST + 2 * offset; CALLER_SAVE_FIRST + 2 * offset + 1]
                          end)%N
                       (combine (nseq 0 (N.of_nat (List.length taken))) taken) in
  (first_backup_register, regs).
Definition backup_used (first_backup_register : N) (regs : list N) : nat :=
  Nat.min (List.length regs) (N.to_nat (REGISTER_NUM - first_backup_register)).
Definition save_caller_save_registers (fb : N) (regs : list N) : list xcode :=
  let used := backup_used fb regs in
  map (fun or_ : N * N => MOV (fb + fst or_)%N (snd or_)) (combine (nseq 0 (N.of_nat used)) (firstn used regs))
  ++ map PUSH (skipn used regs)
  ++ (if Nat.even (List.length regs - used) then [SUBI STACK (address 1)] else []).
Definition restore_caller_save_registers (fb : N) (regs : list N) : list xcode :=
  let used := backup_used fb regs in
  map (fun or_ : N * N => MOV (snd or_) (fb + fst or_)%N) (combine (nseq 0 (N.of_nat used)) (firstn used regs))
  ++ (if Nat.even (List.length regs - used) then [ADDI STACK (address 1)] else [])
  ++ map POP (rev (skipn used regs)).
Definition x_print (newline : bool) (s : xtemp) (context : ctx) : list xcode :=
  let '(fb, regs) := caller_save_registers_info context in
  (match s with XS _ => move_to_register TEMP s | XR _ => [] end)
  ++ save_caller_save_registers fb regs
  ++ [match s with XR r => MOV (arg 0) r | XS _ => MOV (arg 0) TEMP end]
  ++ [CALL (if newline then "println_i64" else "print_i64")]
  ++ restore_caller_save_registers fb regs.

(* ---------- parallel_moves.rs ---------- *)
Fixpoint spill_edge (spill_mode : bool) (root_spill : bool) (t : tree xtemp) : bool :=
  (* spill_mode = true: spill_edge_spill, false: spill_edge_register *)
  match t with
  | BackEdge _ => if spill_mode then root_spill else false
  | Node _ (XR _) cs => existsb (spill_edge false root_spill) cs
  | Node _ (XS _) cs => if spill_mode then true else existsb (spill_edge true root_spill) cs
  end.
Definition x_contains_spill_edge (r : root xtemp) : bool :=
  match r with
  | StartNode _ (XR _) cs => existsb (spill_edge false false) cs
  | StartNode _ (XS _) cs => existsb (spill_edge true true) cs
  end.
Definition x_store_temporary (t : xtemp) (f : bool) : list xcode :=
  match t with
  | XR r => if f then [MOVS r STACK (stack_offset SPILL_TEMP)] else [MOV TEMP r]
  | XS p => [MOVL TEMP STACK (stack_offset p)] ++ (if f then [MOVS TEMP STACK (stack_offset SPILL_TEMP)] else [])
  end.
Definition x_restore_temporary (t : xtemp) (f : bool) : list xcode :=
  match t with
  | XR r => if f then [MOVL r STACK (stack_offset SPILL_TEMP)] else [MOV r TEMP]
  | XS p => (if f then [MOVL TEMP STACK (stack_offset SPILL_TEMP)] else []) ++ [MOVS TEMP STACK (stack_offset p)]
  end.

(* ---------- memory.rs ---------- *)
Definition lab (n : N) : string := "lab" +++ n_to_string n.

Definition skip_if_zero (condition : xtemp) (to_skip : list xcode) (lc : N) : list xcode * N :=
  let l := lab (lc + 1) in
  (compare_immediate condition 0 ++ [JEL l] ++ to_skip ++ [LAB l], (lc + 1)%N).

(* the branches are generated BEFORE the labels are drawn, so their own labels are smaller *)
Definition if_zero_then_else (condition : reg) (offset : option Z) (then_branch else_branch : list xcode) (lc : N)
  : list xcode * N :=
  let l_then := lab (lc + 1) in
  let l_else := lab (lc + 2) in
  ([match offset with Some o => CMPIM condition o 0 | None => CMPI condition 0 end; JEL l_then]
   ++ else_branch ++ [JMPL l_else; LAB l_then] ++ then_branch ++ [LAB l_else], (lc + 2)%N).

Definition erase_valid_object (to_erase : reg) (lc : N) : list xcode * N :=
  if_zero_then_else to_erase (Some REFERENCE_COUNT_OFFSET)
    [MOVS FREE to_erase NEXT_ELEMENT_OFFSET; MOV FREE to_erase]
    [ADDIM to_erase REFERENCE_COUNT_OFFSET (-1)] lc.

Definition x_erase_block (t : xtemp) (lc : N) : list xcode * N :=
  match t with
  | XR r =>
      let '(c, lc1) := erase_valid_object r lc in
      skip_if_zero t c lc1
  | XS p =>
      let '(c, lc1) := erase_valid_object TEMP lc in
      let '(c2, lc2) := skip_if_zero (XR TEMP) c lc1 in
      ([MOVL TEMP STACK (stack_offset p)] ++ c2, lc2)
  end.

Definition x_share_block_n (t : xtemp) (n : N) (lc : N) : list xcode * N :=
  match t with
  | XR r => skip_if_zero t [ADDIM r REFERENCE_COUNT_OFFSET (Z.of_N n)] lc
  | XS p => skip_if_zero t [MOVL TEMP STACK (stack_offset p); ADDIM TEMP REFERENCE_COUNT_OFFSET (Z.of_N n)] lc
  end.

Definition erase_fields (to_erase : reg) (lc : N) : list xcode * N :=
  fold_left (fun (acc : list xcode * N) (offset : N) =>
               let '(c, lc) := acc in
               let '(c1, lc1) := x_erase_block (XR TEMP) lc in
               (c ++ [MOVL TEMP to_erase (field_offset Fst offset)] ++ c1, lc1))
            (nseq 0 FIELDS_PER_BLOCK) ([], lc).

Definition acquire_block (new_block : xtemp) (lc : N) : list xcode * N :=
  let c0 := match new_block with
            | XR r => [MOV r HEAP]
            | XS p => [MOV TEMP HEAP; MOVS HEAP STACK (stack_offset p)]
            end ++ [MOVL HEAP HEAP NEXT_ELEMENT_OFFSET] in
  let then_branch_free := [MOV FREE HEAP; ADDI FREE (field_offset Fst FIELDS_PER_BLOCK)] in
  let '(ef, lc1) := erase_fields HEAP lc in
  let else_branch_free := [MOVIM HEAP NEXT_ELEMENT_OFFSET 0] ++ ef in
  let '(inner, lc2) := if_zero_then_else FREE None then_branch_free else_branch_free lc1 in
  let then_branch := [MOV HEAP FREE; MOVL FREE FREE NEXT_ELEMENT_OFFSET] ++ inner in
  let else_branch := match new_block with
                     | XR r => [MOVIM r REFERENCE_COUNT_OFFSET 0]
                     | XS _ => [MOVIM TEMP REFERENCE_COUNT_OFFSET 0]
                     end in
  let '(outer, lc3) := if_zero_then_else HEAP None then_branch else_branch lc2 in
  (c0 ++ outer, lc3).

Definition release_block (r : reg) : list xcode :=
  [MOVS HEAP r NEXT_ELEMENT_OFFSET; MOV HEAP r].
Definition store_zero (block : reg) (offset : N) : list xcode := [MOVIM block (field_offset Fst offset) 0].
Definition store_zeros (free_fields : N) (block : reg) : list xcode :=
  flat_map (store_zero block) (nseq 0 free_fields).

Definition x_fresh (n : tnum) (c : ctx) : res xtemp :=
  temporary_from_position (2 * N.of_nat (List.length c) + tnum_n n).

Definition store_field (n : tnum) (c : ctx) (block : reg) (offset : N) : res (list xcode) :=
  dor t <- x_fresh n c;
  Ok match t with
     | XR r => [MOVS r block (field_offset n offset)]
     | XS p => [MOVL TEMP STACK (stack_offset p); MOVS TEMP block (field_offset n offset)]
     end.
Definition load_field (n : tnum) (c : ctx) (block : reg) (offset : N) : res (list xcode) :=
  dor t <- x_fresh n c;
  Ok match t with
     | XR r => [MOVL r block (field_offset n offset)]
     | XS p => [MOVL TEMP block (field_offset n offset); MOVS TEMP STACK (stack_offset p)]
     end.
Definition store_value (b : binding) (remaining : ctx) (block : reg) (offset : N) : res (list xcode) :=
  dor c1 <- store_field Snd remaining block offset;
  match bchi b with
  | Ext => Ok (c1 ++ store_zero block offset)
  | _ => dor c2 <- store_field Fst remaining block offset; Ok (c1 ++ c2)
  end.

Inductive load_mode := Release | Share.

Definition load_value (b : binding) (existing : ctx) (block : reg) (offset : N) (m : load_mode) (lc : N)
  : res (list xcode * N) :=
  dor c1 <- load_field Snd existing block offset;
  match bchi b with
  | Ext => Ok (c1, lc)
  | _ =>
      dor c2 <- load_field Fst existing block offset;
      dor t <- x_fresh Fst existing;
      let r := match t with XR r => r | XS _ => TEMP end in
      match m with
      | Share => let '(c3, lc1) := x_share_block_n (XR r) 1 lc in Ok (c1 ++ c2 ++ c3, lc1)
      | Release => Ok (c1 ++ c2, lc)
      end
  end.

(* while let Some(binding) = to_store.pop(): last binding first, into field free_fields-1 downwards *)
Fixpoint store_values (to_store_rev : list binding) (remaining : ctx) (block : reg) (free_fields : N) : res (list xcode) :=
  match to_store_rev with
  | [] => Ok (store_zeros free_fields block)
  | b :: rest_rev =>
      dor c1 <- store_value b (remaining ++ rev rest_rev) block (free_fields - 1);
      dor c2 <- store_values rest_rev remaining block (free_fields - 1);
      Ok (c1 ++ c2)
  end.
Fixpoint load_values (to_load_rev : list binding) (existing : ctx) (block : reg) (free_fields : N) (m : load_mode) (lc : N)
  : res (list xcode * N) :=
  match to_load_rev with
  | [] => Ok ([], lc)
  | b :: rest_rev =>
      dor r1 <- load_value b (existing ++ rev rest_rev) block (free_fields - 1) m lc;
      let '(c1, lc1) := r1 in
      dor r2 <- load_values rest_rev existing block (free_fields - 1) m lc1;
      let '(c2, lc2) := r2 in
      Ok (c1 ++ c2, lc2)
  end.

Inductive block_position := Last | Other.
Definition bp_n (b : block_position) : N := match b with Last => 0 | Other => 1 end.

Fixpoint store_fields (fuel : nat) (to_store remaining : ctx) (bp : block_position) (lc : N) : res (list xcode * N) :=
  match fuel with
  | O => Err "store_fields: out of fuel"
  | S fuel' =>
      match to_store with
      | [] =>
          match bp with
          | Last => dor t <- x_fresh Fst remaining; Ok (x_load_immediate t 0, lc)
          | Other => Ok ([], lc)
          end
      | _ =>
          let remaining_plus_to_store := remaining ++ to_store in
          dor c0 <- match bp with
                    | Other => store_field Fst remaining_plus_to_store HEAP (FIELDS_PER_BLOCK - 1)
                    | Last => Ok []
                    end;
          let cap := (FIELDS_PER_BLOCK - bp_n bp)%N in
          let len := N.of_nat (List.length to_store) in
          let rest_length := if N.leb len cap then 0%N else (len - cap)%N in
          let rest := firstn (N.to_nat rest_length) to_store in
          let to_store_next := skipn (N.to_nat rest_length) to_store in
          let remaining_plus_rest := remaining ++ rest in
          dor c1 <- store_values (rev to_store_next) remaining_plus_rest HEAP cap;
          dor t <- x_fresh Fst remaining_plus_rest;
          let '(c2, lc2) := acquire_block t lc in
          dor r3 <- store_fields fuel' rest remaining Other lc2;
          let '(c3, lc3) := r3 in
          Ok (c0 ++ c1 ++ c2 ++ c3, lc3)
      end
  end.

(* register_freed is threaded as in the Rust code (a &mut bool) *)
Fixpoint load_fields (fuel : nat) (to_load existing : ctx) (bp : block_position) (m : load_mode)
         (register_freed : bool) (lc : N) : res (list xcode * bool * N) :=
  match fuel with
  | O => Err "load_fields: out of fuel"
  | S fuel' =>
      match to_load with
      | [] => Ok ([], register_freed, lc)
      | _ =>
          let existing_plus_to_load := existing ++ to_load in
          let cap := (FIELDS_PER_BLOCK - bp_n bp)%N in
          let len := N.of_nat (List.length to_load) in
          let rest_length := if N.leb len cap then 0%N else (len - cap)%N in
          let rest := firstn (N.to_nat rest_length) to_load in
          let to_load_next := skipn (N.to_nat rest_length) to_load in
          let existing_plus_rest := existing ++ rest in
          dor r0 <- load_fields fuel' rest existing Other m register_freed lc;
          let '(c0, freed0, lc0) := r0 in
          dor memory_block <- x_fresh Fst existing_plus_rest;
          match memory_block with
          | XR mr =>
              let c1 := match m with Release => release_block mr | Share => [] end in
              dor c2 <- match bp with
                        | Other => load_field Fst existing_plus_to_load mr (FIELDS_PER_BLOCK - 1)
                        | Last => Ok []
                        end;
              dor r3 <- load_values (rev to_load_next) existing_plus_rest mr cap m lc0;
              let '(c3, lc3) := r3 in
              Ok (c0 ++ c1 ++ c2 ++ c3, freed0, lc3)
          | XS mp =>
              let ce := if freed0 then [] else [MOVS TEMPORARY_TEMP STACK (stack_offset SPILL_TEMP)] in
              let cl := [MOVL TEMPORARY_TEMP STACK (stack_offset mp)] in
              let c1 := match m with Release => release_block TEMPORARY_TEMP | Share => [] end in
              dor c2 <- match bp with
                        | Other => load_field Fst existing_plus_to_load TEMPORARY_TEMP (FIELDS_PER_BLOCK - 1)
                        | Last => Ok []
                        end;
              dor r3 <- load_values (rev to_load_next) existing_plus_rest TEMPORARY_TEMP cap m lc0;
              let '(c3, lc3) := r3 in
              let c4 := match bp with
                        | Last => [MOVL TEMPORARY_TEMP STACK (stack_offset SPILL_TEMP)]
                        | Other => []
                        end in
              Ok (c0 ++ ce ++ cl ++ c1 ++ c2 ++ c3 ++ c4, true, lc3)
          end
      end
  end.

Definition x_store (to_store remaining : ctx) (lc : N) : res (list xcode * N) :=
  store_fields (S (List.length to_store)) to_store remaining Last lc.

Definition load_register (block : reg) (to_load existing : ctx) (lc : N) : res (list xcode * N) :=
  dor r1 <- load_fields (S (List.length to_load)) to_load existing Last Release false lc;
  let '(then_branch, _, lc1) := r1 in
  dor r2 <- load_fields (S (List.length to_load)) to_load existing Last Share false lc1;
  let '(else_body, _, lc2) := r2 in
  let else_branch := [ADDIM block REFERENCE_COUNT_OFFSET (-1)] ++ else_body in
  Ok (if_zero_then_else block (Some REFERENCE_COUNT_OFFSET) then_branch else_branch lc2).

Definition x_load (to_load existing : ctx) (lc : N) : res (list xcode * N) :=
  match to_load with
  | [] => Ok ([], lc)
  | _ =>
      dor memory_block <- x_fresh Fst existing;
      match memory_block with
      | XR r => load_register r to_load existing lc
      | XS p =>
          dor r <- load_register TEMP to_load existing lc;
          Ok ([MOVL TEMP STACK (stack_offset p)] ++ fst r, snd r)
      end
  end.

(* statement-boundary marker used only by the heap-invariant runner: a label "#m" followed by one
   character per environment position (e = integer, p = object/closure) *)
Definition kinds_string (c : ctx) : string :=
  fold_right (fun b acc => String (match bchi b with Ext => "e"%char | _ => "p"%char end) acc) "" c.
Definition x86_mark (c : ctx) : list xcode := [LAB ("#m" +++ kinds_string c)].
Definition is_mark (c : xcode) : bool :=
  match c with LAB (String "#"%char (String "m"%char _)) => true | _ => false end.

Definition x86_backend_with (mark : ctx -> list xcode) : backend xcode xtemp := {|
  b_label := LAB;
  b_mark := mark;
  b_jump := x_jump;
  b_jump_label := fun l => [JMPL l];
  b_jump_label_fixed := fun l => [JMPLN l];
  b_jcc2 := fun s a b l => compare a b ++ [jcc s l];
  b_jcc1 := fun s a l => compare_immediate a 0 ++ [jcc s l];
  b_load_immediate := x_load_immediate;
  b_load_label := x_load_label;
  b_add_and_jump := x_add_and_jump;
  b_arith := x_arith;
  b_mov := x_mov;
  b_print := x_print;
  b_erase := x_erase_block;
  b_share_n := x_share_block_n;
  b_store := x_store;
  b_load := x_load;
  b_contains_spill_edge := x_contains_spill_edge;
  b_store_temporary := x_store_temporary;
  b_restore_temporary := x_restore_temporary;
  b_temp := XR TEMP;
  b_return1 := XR RETURN1;
  b_jump_length := jump_length;
  b_temporary_from_position := temporary_from_position;
  b_tcompare := xtemp_compare;
|}.
Definition x86_backend := x86_backend_with (fun _ => []).
Definition x86_backend_marked := x86_backend_with x86_mark.

(* ---------- into_routine.rs ---------- *)
Fixpoint move_arguments (n : nat) : res (list xcode) :=
  match n with
  | 0 => Ok []
  | S m =>
      if Nat.ltb 5 n then Err "too many arguments for main" else
      dor r <- move_arguments m;
      Ok ([MOV (RESERVED + 2 * N.of_nat m + 1)%N (arg n)] ++ r)
  end.
Definition setup (n : nat) : res (list xcode) :=
  dor ma <- move_arguments n;
  Ok ([PUSH 2; PUSH 3; PUSH 12; PUSH 13; PUSH 14; PUSH 15; SUBI STACK SPILL_SPACE;
       MOV HEAP (arg 0); MOV FREE HEAP; ADDI FREE (field_offset Fst FIELDS_PER_BLOCK)] ++ ma)%N.
Definition cleanup : list xcode :=
  [LAB "cleanup"; ADDI STACK SPILL_SPACE; POP 15; POP 14; POP 13; POP 12; POP 3; POP 2; RET]%N.
Definition preamble : list xcode :=
  [NOEXECSTACK; TEXT; EXTERN "print_i64"; EXTERN "println_i64"; GLOBAL "asm_main"; LAB "asm_main"].

Definition into_x86_64_routine (instructions : list xcode) (n : nat) : res (list xcode) :=
  dor s <- setup n;
  Ok (preamble ++ s ++ instructions ++ cleanup).

Definition x86_compile_with (B : backend xcode xtemp) (p : prog) (lc : N) : res (list xcode * nat * N) :=
  dor c <- compile B p lc;
  let '(is, n, lc') := c in
  dor r <- into_x86_64_routine is n;
  Ok (r, n, lc').
Definition x86_compile := x86_compile_with x86_backend.
Definition x86_compile_marked := x86_compile_with x86_backend_marked.
