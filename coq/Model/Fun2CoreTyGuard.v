(* ======================================================================================
   Model/Fun2CoreTyGuard  -  the boolean guard of the typing-preservation theorem for fun2core
   (C12_fun2core_preserves_typing_fragment2).  Not a model of Rust code; used by the proofs
   (Proof/Fun2CoreTy*.v) and by modelrun wt-stages (tag f2c-guard).  No proofs here.

   [tg G t]: the ANNOTATED Fun term t (as the type checker leaves it) is well typed at its own
   annotation in the scope G - a list of CORE bindings, innermost first, looked up by name; every type
   is compared after [compile_ty] (the name of the monomorphic instance).  It strengthens the scope
   check [ws] of Model/Fun2CoreGuard.v from "every occurrence carries the chirality and type of its
   binder" to full typing: operands are i64, the branches of a conditional / the body of a let / the
   clauses of a case have the type of the whole term, arguments follow the signature of the callee /
   the xtor IN THE COMPILED DECLARATIONS, clauses follow the xtors of the type in declaration order
   with pairwise distinct parameters; the type of every let variable, label, goto target,
   argument position and definition parameter is declared (a clause parameter that is never used may have an
   undeclared type: the checker's output is not closed under the types it mentions, C15).  All term forms (data and codata, labels,
   consumer arguments), calls of `main` included (former finding call-to-main, repaired in /repo by f929eb7: the
   clause `negb (f = "main") || calls_main_prog p` of a call holds of every call inside a definition of p; when main is
   called its declared return type must be i64 as well).  Excluded: a `main` whose body is
   not of type i64 (former finding main-non-integer-result: the exit continuation of compile_main is typed with the
   body's annotation; since fix 5b8c76f of /repo the checker rejects such a main, so for CHECKED programs this
   clause is implied: Proof/Fun2CoreTyChecked.v prog_tyguard_src).
   There is NO capture guard any more (it was the negation of [shadowing_risk], the syntactic detector of the
   former finding capture-under-binder, repaired in /repo by d5d4151): the translation never places a
   continuation under a let variable / clause parameter whose name is free in it - it names the continuation first.
   ====================================================================================== *)
From Coq Require Import List ZArith NArith String Bool.
From SCC Require Import Base.Sexp Lang.SynUtil Lang.FunSyn Lang.FunTy Lang.CoreSyn.
From SCC Require Import Sem.AxSem Sem.FunSem Sem.FsCheck Sem.CoreCheck Model.Fun2Core Model.Fun2CoreGuard.
Import ListNotations.
Open Scope string_scope.
Open Scope list_scope.

(* the last entry of a destructor signature is the return continuation *)
Fixpoint split_last (l : cctx) : option (cctx * cbinding) :=
  match l with
  | [] => None
  | [b] => Some ([], b)
  | b :: r => match split_last r with Some (pre, last) => Some (b :: pre, last) | None => None end
  end.

Section TyGuard.
  Variable p : fcprog.
  Variable data codata : list ctydecl.       (* the COMPILED declarations *)

  Definition tyo (t : fterm) : option cty := option_map compile_ty (fterm_type t).
  Definition has_ty (t : fterm) (ty : cty) : bool :=
    match tyo t with Some ty' => cty_eqb ty' ty | None => false end.
  Definition same_ty (t : fterm) (o : option fty) : bool :=
    match o with Some ty0 => has_ty t (compile_ty ty0) | None => false end.
  Definition tyd (ty : cty) : bool := ty_ok data codata ty.
  Definition ann_ok (o : option fty) : bool := match o with Some ty0 => tyd (compile_ty ty0) | None => false end.
  Definition ctx_tyd (c : cctx) : bool := forallb (fun b => tyd (cbty b)) c.

  Fixpoint tg (G : cctx) (t : fterm) {struct t} : bool :=
    (* an argument against the parameter binding it is passed for *)
    let tg_arg := fun (y : fterm) (b : cbinding) =>
      match cbchi b with
      | CCns => match y with FVar v ty (Some FCns) => var_ok G v ty CCns && has_ty y (cbty b) && tyd (cbty b) | _ => false end
      | CPrd => negb (is_cns_var y) && tg G y && has_ty y (cbty b) && tyd (cbty b)
      end in
    let tg_args := fix go (l : list fterm) (sig : cctx) {struct l} : bool :=
      match l, sig with
      | [], [] => true
      | y :: r, b :: sr => tg_arg y b && go r sr
      | _, _ => false
      end in
    match t with
    | FVar v ty _ => var_ok G v ty CPrd
    | FLit _ => true
    | FOp a _ b => tg G a && tg G b && has_ty a CI64 && has_ty b CI64
    | FIfC _ a b t1 t2 ty =>
        tg G a && has_ty a CI64
        && (match b with Some b' => tg G b' && has_ty b' CI64 | None => true end)
        && tg G t1 && tg G t2 && same_ty t1 ty && same_ty t2 ty
    | FPrint _ a next ty => tg G a && has_ty a CI64 && tg G next && same_ty next ty
    | FLet v vty bound body ty =>
        tg G bound && has_ty bound (compile_ty vty) && tyd (compile_ty vty)
        && tg (mkcb (new_id v) CPrd (compile_ty vty) :: G) body && same_ty body ty
    | FCall f args ret =>
        (negb (String.eqb f "main") || calls_main_prog p)
        && match ffind_def p f, ret with
           | Some d, Some r =>
               tg_args args (compile_ctx (fdctx d))
               && cty_eqb (compile_ty r) (compile_ty (fdret d)) && tyd (compile_ty r)
           | _, _ => false
           end
    | FCtor x args ty =>
        match tyo t with
        | Some (CDecl n) =>
            match find_decl data n with
            | Some d => match find_cxtor d (new_id x) with Some sg => tg_args args (cxargs sg) | None => false end
            | None => false
            end
        | _ => false
        end
    | FDtor scrut x _ args ty =>
        tg G scrut
        && match tyo scrut with
           | Some (CDecl n) =>
               match find_decl codata n with
               | Some d =>
                   match find_cxtor d (new_id x) with
                   | Some sg =>
                       match split_last (cxargs sg) with
                       | Some (pre, last) =>
                           tg_args args pre && cchi_eqb (cbchi last) CCns && has_ty t (cbty last)
                       | None => false
                       end
                   | None => false
                   end
               | None => false
               end
           | _ => false
           end
    | FCase scrut _ cls ty =>
        let tg_clause := fun (c : fclause) (sg : cxtorsig) =>
          match c with
          | FClause _ x names ctx body =>
              list_eqb String.eqb names (fvars ctx)
              && cident_eqb (new_id x) (cxname sg)
              && fparams_ok (compile_ctx ctx) (cxargs sg)
              && nodup_str (fvars ctx)
              && tg (compile_ctx ctx ++ G) body && same_ty body ty
          end in
        tg G scrut
        && match tyo scrut with
           | Some (CDecl n) =>
               match find_decl data n with
               | Some d =>
                   (fix go (l : list fclause) (xs : list cxtorsig) {struct l} : bool :=
                      match l, xs with
                      | [], [] => true
                      | c :: r, sg :: xr => tg_clause c sg && go r xr
                      | _, _ => false
                      end) cls (ctxtors d)
               | None => false
               end
           | _ => false
           end
    | FNew cls ty =>
        let tg_coclause := fun (c : fclause) (sg : cxtorsig) =>
          match c with
          | FClause _ x names ctx body =>
              list_eqb String.eqb names (fvars ctx)
              && cident_eqb (new_id x) (cxname sg)
              && match split_last (cxargs sg) with
                 | Some (pre, last) =>
                     fparams_ok (compile_ctx ctx) pre && cchi_eqb (cbchi last) CCns
                     && has_ty body (cbty last) && tyd (cbty last)
                 | None => false
                 end
              && nodup_str (fvars ctx)
              && tg (compile_ctx ctx ++ G) body
          end in
        match tyo t with
        | Some (CDecl n) =>
            match find_decl codata n with
            | Some d =>
                (fix go (l : list fclause) (xs : list cxtorsig) {struct l} : bool :=
                   match l, xs with
                   | [], [] => true
                   | c :: r, sg :: xr => tg_coclause c sg && go r xr
                   | _, _ => false
                   end) cls (ctxtors d)
            | None => false
            end
        | _ => false
        end
    | FLabel l t' ty =>
        match ty with
        | Some ty0 =>
            tyd (compile_ty ty0) && tg (mkcb (new_id l) CCns (compile_ty ty0) :: G) t' && has_ty t' (compile_ty ty0)
        | None => false
        end
    | FGoto l t' _ => var_ok G l (fterm_type t') CCns && ann_ok (fterm_type t') && tg G t'
    | FExit a ty => tg G a && has_ty a CI64 && ann_ok ty
    | FParen t' => tg G t'
    end.

  (* the local helpers of [tg] as top-level definitions (equal by computation) *)
  Definition tg_arg (G : cctx) (y : fterm) (b : cbinding) : bool :=
    match cbchi b with
    | CCns => match y with FVar v ty (Some FCns) => var_ok G v ty CCns && has_ty y (cbty b) && tyd (cbty b) | _ => false end
    | CPrd => negb (is_cns_var y) && tg G y && has_ty y (cbty b) && tyd (cbty b)
    end.
  Definition tg_args (G : cctx) : list fterm -> cctx -> bool :=
    fix go (l : list fterm) (sig : cctx) {struct l} : bool :=
      match l, sig with
      | [], [] => true
      | y :: r, b :: sr => tg_arg G y b && go r sr
      | _, _ => false
      end.
  Definition tg_clause (G : cctx) (ty : option fty) (c : fclause) (sg : cxtorsig) : bool :=
    match c with
    | FClause _ x names ctx body =>
        list_eqb String.eqb names (fvars ctx)
        && cident_eqb (new_id x) (cxname sg)
        && fparams_ok (compile_ctx ctx) (cxargs sg)
        && nodup_str (fvars ctx)
        && tg (compile_ctx ctx ++ G) body && same_ty body ty
    end.
  Definition tg_clauses (G : cctx) (ty : option fty) : list fclause -> list cxtorsig -> bool :=
    fix go (l : list fclause) (xs : list cxtorsig) {struct l} : bool :=
      match l, xs with
      | [], [] => true
      | c :: r, sg :: xr => tg_clause G ty c sg && go r xr
      | _, _ => false
      end.
  Definition tg_coclause (G : cctx) (c : fclause) (sg : cxtorsig) : bool :=
    match c with
    | FClause _ x names ctx body =>
        list_eqb String.eqb names (fvars ctx)
        && cident_eqb (new_id x) (cxname sg)
        && match split_last (cxargs sg) with
           | Some (pre, last) =>
               fparams_ok (compile_ctx ctx) pre && cchi_eqb (cbchi last) CCns
               && has_ty body (cbty last) && tyd (cbty last)
           | None => false
           end
        && nodup_str (fvars ctx)
        && tg (compile_ctx ctx ++ G) body
    end.
  Definition tg_coclauses (G : cctx) : list fclause -> list cxtorsig -> bool :=
    fix go (l : list fclause) (xs : list cxtorsig) {struct l} : bool :=
      match l, xs with
      | [], [] => true
      | c :: r, sg :: xr => tg_coclause G c sg && go r xr
      | _, _ => false
      end.

  (* one definition: parameters pairwise distinct and of declared types, body typed at the return type
     (main: at i64, and no return continuation).  No capture clause: until fix d5d4151 of /repo the guard also
     demanded [negb (shadowing_risk ..)]; the repaired translation keeps a continuation outside of binders whose names
     it mentions, so shadowing is allowed *)
  Definition def_tyguard (d : fdef) : bool :=
    nodup_str (fvars (fdctx d)) && ctx_tyd (compile_ctx (fdctx d))
    && tg (compile_ctx (fdctx d)) (fdbody d)
    && (if String.eqb (fdname d) "main"
        then has_ty (fdbody d) CI64
             (* when main is called (fix f929eb7) it is compiled like any other definition, with a return continuation
                of its declared return type; the checker demands i64 of it since fix 5b8c76f *)
             && (negb (calls_main_prog p) || cty_eqb (compile_ty (fdret d)) CI64)
        else has_ty (fdbody d) (compile_ty (fdret d)) && tyd (compile_ty (fdret d))).
End TyGuard.

(* the declarations of the compiled program (they do not depend on the definitions) *)
Definition cdata_of (p : fcprog) : list ctydecl := map compile_data (fcpdata p).
Definition ccodata_of (p : fcprog) : list ctydecl := map compile_codata (fcpcodata p).

(* what check_core asks of the declarations and of the definition names *)
Definition decls_tyguard (p : fcprog) : bool :=
  let ts := cdata_of p ++ ccodata_of p in
  nodup_by cident_eqb (map ctname ts)
  && negb (existsb (fun t => cident_eqb (ctname t) cont_name_fs) ts)
  && forallb (fun t => nodup_by cident_eqb (map cxname (ctxtors t))) ts
  && nodup_str (map fdname (fcpdefs p)).

Definition prog_tyguard (p : fcprog) : bool :=
  decls_tyguard p && forallb (def_tyguard p (cdata_of p) (ccodata_of p)) (fcpdefs p).

(* ---------- the witness of the former finding main-non-integer-result (corpus/fun/c12_main_nonint.sc; the source is
   rejected by the checker since fix 5b8c76f, the annotated form is what the checker before the fix produced):
   `data Bar { B }  def main(): Bar { B }` as parsed and as the type checker annotates it (modelrun
   wt-stages compares the latter with the real CheckedProgram of that file on every run) ---------- *)
Definition main_nonint_source : fprog :=
  mkfprog [FDData (mkfdata "Bar" [] [mkfctor "B" []]);
           FDDef (mkfdef "main" [] (FDecl "Bar" []) (FCtor "B" [] None))].
Definition main_nonint_witness : fcprog :=
  mkfcprog [mkfdata "Bar" [] [mkfctor "B" []]] []
    [mkfdef "main" [] (FDecl "Bar" []) (FCtor "B" [] (Some (FDecl "Bar" [])))].

(* the field types of all (compiled) xtors are declared: with prog_tyguard, the source-level guard of the
   composition C12_pipeline_wt_source (it gives decls_ok of the focused program; the checker's output is not
   closed under the types it mentions, C15, so this is not implied by acceptance) *)
Definition xtor_tys_guard (p : fcprog) : bool :=
  let D := cdata_of p in let C := ccodata_of p in
  forallb (fun t => forallb (fun x => forallb (fun b => ty_ok D C (cbty b)) (cxargs x)) (ctxtors t)) (D ++ C).
