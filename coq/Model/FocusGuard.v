(* Executable side conditions of the C03 preservation theorems (round 2), kept in Model/ so that
   modelrun `focus` can evaluate them on every case (tags cs / guard-* / clashfree):

   clash_config / clash_free : the run meets no KIND CLASH - a by-name producer value (PThunk, PDelay,
       a mu at a codata cut) against a by-value return continuation (KRet); see Proof/FocusSim.v.
   sg_* bn kr                : static guard; bn = false forbids what creates a by-name value,
                               kr = false forbids what creates a KRet (Proof/FocusFrag.v).
   cs_*                      : chirality-consistent scoping - every occurrence refers to a binder of its
                               own chirality (Proof/UqAeq.v); [c] = chirality of the position as in
                               subst_term. *)
From Coq Require Import List ZArith NArith String Bool.
From SCC Require Import Base.Sexp Lang.SynUtil Lang.CoreSyn Sem.AxSem Sem.CoreSem.
Import ListNotations.
Open Scope list_scope.

(* ---------- kind clashes ---------- *)
Definition is_kret (kv : kval) : bool := match kv with KRet _ => true | _ => false end.
Definition by_name (pv : pval) : bool := match pv with PThunk _ _ _ | PDelay _ => true | _ => false end.
Definition clash_val (pv : pval) (kv : kval) : bool := is_kret kv && by_name pv.
Definition clash_cut (cd : bool) (p : cterm) (e : cenv) (kv : kval) : bool :=
  match p with
  | CMu _ _ _ _ => cd && is_kret kv
  | CXVar _ v _ => match clookup e v with Some (BP pv) => clash_val pv kv | _ => false end
  | _ => false
  end.
Definition clash_config (ps : cprog) (c : config) : bool :=
  match c with
  | Run (CCut pr ty k) e =>
      match pr, k with
      | CXtor _ _ _ _, _ => false
      | _, CXtor _ _ _ _ => false
      | COp _ _ _, _ => false
      | _, _ => match khead k e with inl kv => clash_cut (is_codata ps ty) pr e kv | inr _ => false end
      end
  | App (MCutK k e) (BP pv) => match khead k e with inl kv => clash_val pv kv | inr _ => false end
  | App (MCutP cd pr e) (BK kv) => clash_cut cd pr e kv
  | _ => false
  end.


(* no kind clash during the first [fuel] transitions *)
Fixpoint clash_free (ps : cprog) (fuel : nat) (c : config) : bool :=
  match fuel with
  | O => true
  | S f =>
      negb (clash_config ps c) &&
      match cstep ps c with
      | SNext c' => clash_free ps f c'
      | SPrint _ _ c' => clash_free ps f c'
      | SHalt _ => true
      end
  end.
Definition clash_free_prog (fuel : nat) (p : cprog) (args : list Z) : bool :=
  match cpdefs p with
  | d :: _ => match centry_env d args with Some e => clash_free p fuel (Run (cdbody d) e) | None => true end
  | [] => true
  end.


Section Guard.
Variable cod : cty -> bool.
Variables bn kr : bool.

Definition arg_ok_prd (t : cterm) : bool :=
  match t with CMu _ _ _ ty => if cod ty then bn else kr | _ => true end.
Definition arg_ok_cns (t : cterm) : bool :=
  match t with CMu _ _ _ ty => if cod ty then bn else true | _ => true end.
Definition cut_ok (cd : bool) (p : cterm) : bool :=
  match p with CMu _ _ _ _ => if cd then bn else true | _ => true end.

Fixpoint sg_term (t : cterm) : bool :=
  match t with
  | CXVar _ _ _ => true
  | CLit _ => true
  | COp a _ b => sg_term a && arg_ok_prd a && (sg_term b && arg_ok_prd b)
  | CMu _ _ s _ => sg_stmt s
  | CXtor _ _ args _ => forallb sg_arg args
  | CXCase _ cls _ => forallb sg_clause cls
  end
with sg_arg (a : carg) : bool :=
  match a with
  | CProducer p => sg_term p && arg_ok_prd p
  | CConsumer k => sg_term k && arg_ok_cns k
  end
with sg_clause (cl : cclause) : bool :=
  match cl with CClause _ _ _ b => sg_stmt b end
with sg_stmt (s : cstmt) : bool :=
  match s with
  | CCut p ty k => sg_term p && sg_term k && cut_ok (cod ty) p
  | CIfC _ a b t e =>
      sg_term a && arg_ok_prd a && match b with Some b' => sg_term b' && arg_ok_prd b' | None => true end
      && sg_stmt t && sg_stmt e
  | CPrint _ a n => sg_term a && arg_ok_prd a && sg_stmt n
  | CCall _ args _ => forallb sg_arg args
  | CExit a _ => sg_term a && arg_ok_prd a
  end.
End Guard.

Definition sg_prog (bn kr : bool) (p : cprog) : bool :=
  forallb (fun d => sg_stmt (is_codata p) bn kr (cdbody d)) (cpdefs p).


(* a mu-abstraction that is a producer binds a covariable and vice versa *)
Definition mu_binds (c : cchi) : cchi := match c with CPrd => CCns | CCns => CPrd end.


(* ---------- chirality-consistent scoping ([c] = chirality of the position, as in subst_term) ---------- *)
Fixpoint sfind (S : list (cident * cchi)) (x : cident) : option cchi :=
  match S with
  | [] => None
  | (y, ch) :: r => if cident_eqb y x then Some ch else sfind r x
  end.
Definition ctx_sc (ctx : cctx) : list (cident * cchi) := map (fun b => (cbvar b, cbchi b)) ctx.

Fixpoint cs_term (S : list (cident * cchi)) (c : cchi) (t : cterm) : bool :=
  match t with
  | CXVar _ v _ => match sfind S v with Some ch => cchi_eqb ch c | None => true end
  | CLit _ => true
  | COp a _ b => cs_term S CPrd a && cs_term S CPrd b
  | CMu c' v s _ => cs_stmt ((v, mu_binds c') :: S) s
  | CXtor _ _ args _ => forallb (cs_arg S) args
  | CXCase _ cls _ => forallb (cs_clause S) cls
  end
with cs_arg (S : list (cident * cchi)) (a : carg) : bool :=
  match a with CProducer p => cs_term S CPrd p | CConsumer k => cs_term S CCns k end
with cs_clause (S : list (cident * cchi)) (cl : cclause) : bool :=
  match cl with CClause _ _ ctx b => cs_stmt (ctx_sc ctx ++ S) b end
with cs_stmt (S : list (cident * cchi)) (s : cstmt) : bool :=
  match s with
  | CCut p _ k => cs_term S CPrd p && cs_term S CCns k
  | CIfC _ a b t e =>
      cs_term S CPrd a && match b with Some b' => cs_term S CPrd b' | None => true end && cs_stmt S t && cs_stmt S e
  | CPrint _ a n => cs_term S CPrd a && cs_stmt S n
  | CCall _ args _ => forallb (cs_arg S) args
  | CExit a _ => cs_term S CPrd a
  end.
Definition cs_def (d : cdef) : bool := cs_stmt (ctx_sc (cdctx d)) (cdbody d).
Definition cs_prog (p : cprog) : bool := forallb cs_def (cpdefs p).


(* ---------- simple types: the discipline that excludes kind clashes ----------
   [tc_* S c ty t]: the term t, standing in a position of chirality c, has type ty when the binders in
   scope have the types S (one namespace, innermost first, as in the machine).  Annotations must be
   exact: an occurrence carries the type of its binder, a cut the type of both sides; xtor arguments
   and clause contexts are checked against the declaration of the type (constructors: data_types,
   destructors: codata_types), call arguments against the parameters of the callee.  Chiralities are
   not checked here (cs_prog does that). *)
Definition tenv := list (cident * cty).
Fixpoint tfind (S : tenv) (x : cident) : option cty :=
  match S with
  | [] => None
  | (y, k) :: r => if cident_eqb y x then Some k else tfind r x
  end.

Section Types.
Variable p : cprog.
Definition ctx_tys (ctx : cctx) : list cty := map cbty ctx.
Definition ctx_tenv (ctx : cctx) : tenv := map (fun b => (cbvar b, cbty b)) ctx.
(* the declared argument types of xtor [tag] of the type [ty], looked up among the data (pol = false)
   or the codata (pol = true) declarations *)
Definition xtor_sig (pol : bool) (ty : cty) (tag : cident) : option (list cty) :=
  match ty with
  | CI64 => None
  | CDecl n =>
      if Bool.eqb (is_codata p ty) pol then
        match find (fun d => cident_eqb (ctname d) n) (if pol then cpcodata p else cpdata p) with
        | Some d =>
            match find (fun x => cident_eqb (cxname x) tag) (ctxtors d) with
            | Some x => Some (ctx_tys (cxargs x))
            | None => None
            end
        | None => None
        end
      else None
  end.
Definition def_sig (f : cident) : option (list cty) :=
  match cfind_def p f with Some d => Some (ctx_tys (cdctx d)) | None => None end.

Fixpoint tc_term (S : tenv) (c : cchi) (ty : cty) (t : cterm) : bool :=
  match t with
  | CXVar _ x ty' => cty_eqb ty' ty && match tfind S x with Some tx => cty_eqb tx ty | None => true end
  | CLit _ => cty_eqb ty CI64 && cchi_eqb c CPrd
  | COp a _ b => cty_eqb ty CI64 && cchi_eqb c CPrd && tc_term S CPrd CI64 a && tc_term S CPrd CI64 b
  | CMu _ x s ty' => cty_eqb ty' ty && tc_stmt ((x, ty) :: S) s
  | CXtor _ tag args ty' =>
      cty_eqb ty' ty &&
      match xtor_sig (match c with CPrd => false | CCns => true end) ty tag with
      | Some tys =>
          ((fix go (l : list carg) (ts : list cty) {struct l} : bool :=
              match l, ts with
              | [], [] => true
              | x :: r, t0 :: tr => tc_arg S t0 x && go r tr
              | _, _ => false
              end) args tys)
      | None => false
      end
  | CXCase _ cls ty' =>
      cty_eqb ty' ty &&
      forallb (tc_clause S (match c with CPrd => true | CCns => false end) ty) cls
  end
with tc_arg (S : tenv) (ty : cty) (a : carg) : bool :=
  match a with
  | CProducer t => tc_term S CPrd ty t
  | CConsumer t => tc_term S CCns ty t
  end
with tc_clause (S : tenv) (pol : bool) (ty : cty) (cl : cclause) : bool :=
  match cl with
  | CClause _ tag ctx b =>
      match xtor_sig pol ty tag with
      | Some tys => list_eqb cty_eqb (ctx_tys ctx) tys
      | None => false
      end && tc_stmt (ctx_tenv ctx ++ S) b
  end
with tc_stmt (S : tenv) (s : cstmt) : bool :=
  match s with
  | CCut a ty b => tc_term S CPrd ty a && tc_term S CCns ty b
  | CIfC _ a b t e =>
      tc_term S CPrd CI64 a && match b with Some b' => tc_term S CPrd CI64 b' | None => true end
      && tc_stmt S t && tc_stmt S e
  | CPrint _ a n => tc_term S CPrd CI64 a && tc_stmt S n
  | CCall f args _ =>
      match def_sig f with
      | Some tys =>
          ((fix go (l : list carg) (ts : list cty) {struct l} : bool :=
              match l, ts with
              | [], [] => true
              | x :: r, t0 :: tr => tc_arg S t0 x && go r tr
              | _, _ => false
              end) args tys)
      | None => false
      end
  | CExit a _ => tc_term S CPrd CI64 a
  end.
Definition tc_def (d : cdef) : bool := tc_stmt (ctx_tenv (cdctx d)) (cdbody d).
Definition tc_prog : bool := forallb tc_def (cpdefs p).
(* the entry definition takes integers *)
Definition tc_entry : bool :=
  match cpdefs p with
  | d :: _ => forallb (fun b => cty_eqb (cbty b) CI64) (cdctx d)
  | [] => true
  end.
End Types.

(* the static side condition of the preservation theorems: one of the two syntactic guards, or typing *)
Definition static_ok (p : cprog) : bool :=
  sg_prog false true p || sg_prog true false p || (tc_prog p && tc_entry p).
