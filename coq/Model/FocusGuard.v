(* Executable side conditions of the C03 preservation theorems (round 2), kept in Model/ so that
   modelrun `focus` can evaluate them on every case (tags cs / guard-* / clashfree):

   clash_config / clash_free : the run meets no KIND CLASH - a by-name producer value (PThunk, PDelay,
       a mu at a codata cut) against a by-value return continuation (KRet); see Proof/FocusSim.v.
   sg_* bn kr                : static guard; bn = false forbids what creates a by-name value,
                               kr = false forbids what creates a KRet (Proof/FocusFrag.v).
   cs_*                      : chirality-consistent scoping - every occurrence refers to a binder of its
                               own chirality (Proof/UqAeq.v); [c] = chirality of the position as in
                               subst_term. *)
From Coq Require Import List ZArith NArith String Bool.
From SCC Require Import Base.Sexp Lang.CoreSyn Sem.AxSem Sem.CoreSem.
Import ListNotations.
Open Scope list_scope.

(* ---------- kind clashes ---------- *)
Definition is_kret (kv : kval) : bool := match kv with KRet _ => true | _ => false end.
Definition by_name (pv : pval) : bool := match pv with PThunk _ _ _ | PDelay _ => true | _ => false end.
Definition clash_val (pv : pval) (kv : kval) : bool := is_kret kv && by_name pv.
Definition clash_cut (cd : bool) (p : cterm) (e : cenv) (kv : kval) : bool :=
  match p with
  | CMu _ _ _ _ => cd && is_kret kv
  | CXVar _ v _ => match clookup e v with Some (BP pv) => clash_val pv kv | _ => false end
  | _ => false
  end.
Definition clash_config (ps : cprog) (c : config) : bool :=
  match c with
  | Run (CCut pr ty k) e =>
      match pr, k with
      | CXtor _ _ _ _, _ => false
      | _, CXtor _ _ _ _ => false
      | COp _ _ _, _ => false
      | _, _ => match khead k e with inl kv => clash_cut (is_codata ps ty) pr e kv | inr _ => false end
      end
  | App (MCutK k e) (BP pv) => match khead k e with inl kv => clash_val pv kv | inr _ => false end
  | App (MCutP cd pr e) (BK kv) => clash_cut cd pr e kv
  | _ => false
  end.


(* no kind clash during the first [fuel] transitions *)
Fixpoint clash_free (ps : cprog) (fuel : nat) (c : config) : bool :=
  match fuel with
  | O => true
  | S f =>
      negb (clash_config ps c) &&
      match cstep ps c with
      | SNext c' => clash_free ps f c'
      | SPrint _ _ c' => clash_free ps f c'
      | SHalt _ => true
      end
  end.
Definition clash_free_prog (fuel : nat) (p : cprog) (args : list Z) : bool :=
  match cpdefs p with
  | d :: _ => match centry_env d args with Some e => clash_free p fuel (Run (cdbody d) e) | None => true end
  | [] => true
  end.


Section Guard.
Variable cod : cty -> bool.
Variables bn kr : bool.

Definition arg_ok_prd (t : cterm) : bool :=
  match t with CMu _ _ _ ty => if cod ty then bn else kr | _ => true end.
Definition arg_ok_cns (t : cterm) : bool :=
  match t with CMu _ _ _ ty => if cod ty then bn else true | _ => true end.
Definition cut_ok (cd : bool) (p : cterm) : bool :=
  match p with CMu _ _ _ _ => if cd then bn else true | _ => true end.

Fixpoint sg_term (t : cterm) : bool :=
  match t with
  | CXVar _ _ _ => true
  | CLit _ => true
  | COp a _ b => sg_term a && arg_ok_prd a && (sg_term b && arg_ok_prd b)
  | CMu _ _ s _ => sg_stmt s
  | CXtor _ _ args _ => forallb sg_arg args
  | CXCase _ cls _ => forallb sg_clause cls
  end
with sg_arg (a : carg) : bool :=
  match a with
  | CProducer p => sg_term p && arg_ok_prd p
  | CConsumer k => sg_term k && arg_ok_cns k
  end
with sg_clause (cl : cclause) : bool :=
  match cl with CClause _ _ _ b => sg_stmt b end
with sg_stmt (s : cstmt) : bool :=
  match s with
  | CCut p ty k => sg_term p && sg_term k && cut_ok (cod ty) p
  | CIfC _ a b t e =>
      sg_term a && arg_ok_prd a && match b with Some b' => sg_term b' && arg_ok_prd b' | None => true end
      && sg_stmt t && sg_stmt e
  | CPrint _ a n => sg_term a && arg_ok_prd a && sg_stmt n
  | CCall _ args _ => forallb sg_arg args
  | CExit a _ => sg_term a && arg_ok_prd a
  end.
End Guard.

Definition sg_prog (bn kr : bool) (p : cprog) : bool :=
  forallb (fun d => sg_stmt (is_codata p) bn kr (cdbody d)) (cpdefs p).


(* a mu-abstraction that is a producer binds a covariable and vice versa *)
Definition mu_binds (c : cchi) : cchi := match c with CPrd => CCns | CCns => CPrd end.


(* ---------- chirality-consistent scoping ([c] = chirality of the position, as in subst_term) ---------- *)
Fixpoint sfind (S : list (cident * cchi)) (x : cident) : option cchi :=
  match S with
  | [] => None
  | (y, ch) :: r => if cident_eqb y x then Some ch else sfind r x
  end.
Definition ctx_sc (ctx : cctx) : list (cident * cchi) := map (fun b => (cbvar b, cbchi b)) ctx.

Fixpoint cs_term (S : list (cident * cchi)) (c : cchi) (t : cterm) : bool :=
  match t with
  | CXVar _ v _ => match sfind S v with Some ch => cchi_eqb ch c | None => true end
  | CLit _ => true
  | COp a _ b => cs_term S CPrd a && cs_term S CPrd b
  | CMu c' v s _ => cs_stmt ((v, mu_binds c') :: S) s
  | CXtor _ _ args _ => forallb (cs_arg S) args
  | CXCase _ cls _ => forallb (cs_clause S) cls
  end
with cs_arg (S : list (cident * cchi)) (a : carg) : bool :=
  match a with CProducer p => cs_term S CPrd p | CConsumer k => cs_term S CCns k end
with cs_clause (S : list (cident * cchi)) (cl : cclause) : bool :=
  match cl with CClause _ _ ctx b => cs_stmt (ctx_sc ctx ++ S) b end
with cs_stmt (S : list (cident * cchi)) (s : cstmt) : bool :=
  match s with
  | CCut p _ k => cs_term S CPrd p && cs_term S CCns k
  | CIfC _ a b t e =>
      cs_term S CPrd a && match b with Some b' => cs_term S CPrd b' | None => true end && cs_stmt S t && cs_stmt S e
  | CPrint _ a n => cs_term S CPrd a && cs_stmt S n
  | CCall _ args _ => forallb (cs_arg S) args
  | CExit a _ => cs_term S CPrd a
  end.
Definition cs_def (d : cdef) : bool := cs_stmt (ctx_sc (cdctx d)) (cdbody d).
Definition cs_prog (p : cprog) : bool := forallb cs_def (cpdefs p).

