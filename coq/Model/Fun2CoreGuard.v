(* ======================================================================================
   Model/Fun2CoreGuard  -  the executable predicates of the preservation theorem for fun2core
   (C02_fun2core_correct_fragment2): names and binders of a term ([nm], [bnd]), the scope check [ws],
   the former capture guard [nocap] (no longer part of any guard since the repair d5d4151 of the
   translation; kept as a definition: the Barendregt condition implies it), the fragment [frag], and the
   program guards [prog_guard] / [frag_prog].  Not models of Rust code; used by the proofs (Proof/Fun2Core*.v) and by modelrun
   (tag proved-fragment2).  No proofs here.
   ====================================================================================== *)
From Coq Require Import List ZArith NArith String Bool.
From SCC Require Import Base.Sexp Lang.SynUtil Lang.FunSyn Lang.FunTy Lang.CoreSyn.
From SCC Require Import Sem.AxSem Sem.FunSem Model.Fun2Core.
Import ListNotations.
Open Scope string_scope.
Open Scope list_scope.

(* ---------- scopes: a list of Core bindings, first match by name ---------- *)
Definition gl (G : list cbinding) (x : cident) : option cbinding :=
  find (fun b => cident_eqb (cbvar b) x) G.

Definition cl_names (c : fclause) : list string := match c with FClause _ _ _ ctx _ => fvars ctx end.
Fixpoint nm (t : fterm) : list string :=
  match t with
  | FVar v _ _ => [v]
  | FLit _ => []
  | FOp a _ b => nm a ++ nm b
  | FIfC _ a b t1 t2 _ => nm a ++ (match b with Some b' => nm b' | None => [] end) ++ nm t1 ++ nm t2
  | FPrint _ a next _ => nm a ++ nm next
  | FLet v _ bound body _ => v :: nm bound ++ nm body
  | FCall _ args _ => flat_map nm args
  | FCtor _ args _ => flat_map nm args
  | FDtor scrut _ _ args _ => nm scrut ++ flat_map nm args
  | FCase scrut _ cls _ =>
      nm scrut ++ flat_map (fun c => match c with FClause _ _ _ ctx body => fvars ctx ++ nm body end) cls
  | FNew cls _ => flat_map (fun c => match c with FClause _ _ _ ctx body => fvars ctx ++ nm body end) cls
  | FLabel l t' _ => l :: nm t'
  | FGoto l t' _ => l :: nm t'
  | FExit a _ => nm a
  | FParen t' => nm t'
  end.
Fixpoint bnd (t : fterm) : list string :=
  match t with
  | FVar _ _ _ | FLit _ => []
  | FOp a _ b => bnd a ++ bnd b
  | FIfC _ a b t1 t2 _ => bnd a ++ (match b with Some b' => bnd b' | None => [] end) ++ bnd t1 ++ bnd t2
  | FPrint _ a next _ => bnd a ++ bnd next
  | FLet v _ bound body _ => v :: bnd bound ++ bnd body
  | FCall _ args _ => flat_map bnd args
  | FCtor _ args _ => flat_map bnd args
  | FDtor scrut _ _ args _ => bnd scrut ++ flat_map bnd args
  | FCase scrut _ cls _ =>
      bnd scrut ++ flat_map (fun c => match c with FClause _ _ _ ctx body => fvars ctx ++ bnd body end) cls
  | FNew cls _ => flat_map (fun c => match c with FClause _ _ _ ctx body => fvars ctx ++ bnd body end) cls
  | FLabel l t' _ => l :: bnd t'
  | FGoto _ t' _ => bnd t'
  | FExit a _ => bnd a
  | FParen t' => bnd t'
  end.
Definition cl_nm (c : fclause) : list string := match c with FClause _ _ _ ctx body => fvars ctx ++ nm body end.
Definition cl_bnd (c : fclause) : list string := match c with FClause _ _ _ ctx body => fvars ctx ++ bnd body end.


Definition var_ok (G : list cbinding) (v : fname) (ty : option fty) (chi : cchi) : bool :=
  match ty with
  | Some ty0 =>
      match gl G (new_id v) with
      | Some b => cbinding_eqb b (mkcb (new_id v) chi (compile_ty ty0))
      | None => false
      end
  | None => false
  end.

Definition is_cns_var (t : fterm) : bool := match t with FVar _ _ (Some FCns) => true | _ => false end.

(* well-scopedness with kinds and types: every occurrence of a name carries the chirality and the
   (compiled) type of the binding in scope *)
Fixpoint ws (G : list cbinding) (t : fterm) : bool :=
  let ws_arg := fun (y : fterm) =>
    match y with
    | FVar v ty (Some FCns) => var_ok G v ty CCns
    | _ => ws G y
    end in
  let ws_cls := fun (c : fclause) =>
    match c with FClause _ _ _ ctx body => ws (compile_ctx ctx ++ G) body end in
  match t with
  | FVar v ty _ => var_ok G v ty CPrd
  | FLit _ => true
  | FOp a _ b => ws G a && ws G b
  | FIfC _ a b t1 t2 _ => ws G a && (match b with Some b' => ws G b' | None => true end) && ws G t1 && ws G t2
  | FPrint _ a next _ => ws G a && ws G next
  | FLet v vty bound body _ => ws G bound && ws (mkcb (new_id v) CPrd (compile_ty vty) :: G) body
  | FCall _ args _ => forallb ws_arg args
  | FCtor _ args _ => forallb ws_arg args
  | FDtor scrut _ _ args _ => ws G scrut && forallb ws_arg args
  | FCase scrut _ cls _ => ws G scrut && forallb ws_cls cls
  | FNew cls _ => forallb ws_cls cls
  | FLabel l t' ty =>
      match ty with Some ty0 => ws (mkcb (new_id l) CCns (compile_ty ty0) :: G) t' | None => false end
  | FGoto l t' _ => var_ok G l (fterm_type t') CCns && ws G t'
  | FExit a _ => ws G a
  | FParen t' => ws G t'
  end.
Definition ws_arg (G : list cbinding) (y : fterm) : bool :=
  match y with
  | FVar v ty (Some FCns) => var_ok G v ty CCns
  | _ => ws G y
  end.

Definition disj (a b : list string) : bool := negb (inter_nonempty a b).

(* the capture guard: wherever the translation places a continuation built from a term u under the
   binders of a term t (let-bound term / case scrutinee / labelled term), the binders of t are
   distinct from all names of u.  (Implied by the Barendregt condition on well-scoped definitions.) *)
Fixpoint nocap (t : fterm) : bool :=
  match t with
  | FVar _ _ _ | FLit _ => true
  | FOp a _ b => nocap a && nocap b
  | FIfC _ a b t1 t2 _ => nocap a && (match b with Some b' => nocap b' | None => true end) && nocap t1 && nocap t2
  | FPrint _ a next _ => nocap a && nocap next
  | FLet v _ bound body _ => disj (bnd bound) (v :: nm body) && nocap bound && nocap body
  | FCall _ args _ => forallb nocap args
  | FCtor _ args _ => forallb nocap args
  | FDtor scrut _ _ args _ => disj (bnd scrut) (flat_map nm args) && nocap scrut && forallb nocap args
  | FCase scrut _ cls _ =>
      disj (bnd scrut) (flat_map cl_nm cls) && nocap scrut
      && forallb (fun c => match c with FClause _ _ _ _ body => nocap body end) cls
  | FNew cls _ => forallb (fun c => match c with FClause _ _ _ _ body => nocap body end) cls
  | FLabel l t' _ => negb (mem l (bnd t')) && nocap t'
  | FGoto l t' _ => negb (mem l (bnd t')) && nocap t'
  | FExit a _ => nocap a
  | FParen t' => nocap t'
  end.


Section Frag.
  Variable p : fcprog.
  Definition data_ty (ty : option fty) : bool :=
    match ty with Some t => negb (f_is_codata p t) | None => false end.
  (* the KIND of a term: is its (annotated) type a codata type? *)
  Definition tkind (t : fterm) : bool := f_is_codata_o p (fterm_type t).
  (* the kind of the result of a destructor: some destructor of that name returns codata *)
  Definition dkind (x : fname) : bool :=
    existsb (fun cd => existsb (fun d => String.eqb (fdtname d) x && f_is_codata p (fdtcont d)) (fcodtors cd))
            (fcpcodata p).

  Definition arg_chi (y : fterm) : fchi := match y with FVar _ _ (Some FCns) => FCns | _ => FPrd end.
  Definition chi_kind_eqb (a b : fchi * bool) : bool := fchi_eqb (fst a) (fst b) && Bool.eqb (snd a) (snd b).
  (* the kinds (chirality, data/codata) of the arguments of a call are those of the callee's parameters,
     and the kind of the call is that of the callee's return type *)
  Definition call_kinds (f : fname) (args : list fterm) (ret : option fty) : bool :=
    match ffind_def p f with
    | Some d => list_eqb chi_kind_eqb (map (fun y => (arg_chi y, tkind y)) args)
                                      (map (fun b => (fbchi b, f_is_codata p (fbty b))) (fdctx d))
                && Bool.eqb (f_is_codata_o p ret) (f_is_codata p (fdret d))
    | None => true
    end.
  Definition scrut_atomic (t : fterm) : bool := match t with FVar _ _ _ | FNew _ _ => true | _ => false end.
  Definition atomic (t : fterm) : bool := match t with FVar _ _ _ | FLit _ => true | _ => false end.
  Definition ctx_data (ctx : fctx) : bool :=
    forallb (fun b => fchi_eqb (fbchi b) FPrd && negb (f_is_codata p (fbty b))) ctx.

  (* the fragment for which the simulation is proved: everything except calls of `main` (mis-translated,
     finding call-to-main), continuations or by-name values stored in data or passed to destructors,
     conditionals / case / labels of codata type, and destructor calls in which both the scrutinee and
     some argument need evaluation (there the translation evaluates the scrutinee BEFORE the
     arguments, the source semantics after: the property's precondition effect_sequenced) *)
  Fixpoint frag (t : fterm) : bool :=
    let arg_ok := fun (y : fterm) =>
      match y with
      | FVar _ _ (Some FCns) => true
      | _ => frag y && is_some (fterm_type y)
      end in
    let darg_ok := fun (y : fterm) => negb (is_cns_var y) && frag y && data_ty (fterm_type y) in
    match t with
    | FVar _ _ _ | FLit _ => true
    | FOp a _ b => frag a && frag b
    | FIfC _ a b t1 t2 _ => frag a && (match b with Some b' => frag b' | None => true end) && frag t1 && frag t2
    | FPrint _ a next _ => frag a && frag next
    | FLet _ _ bound body _ => frag bound && frag body
    | FCall f args ret => (negb (String.eqb f "main") || calls_main_prog p) && call_kinds f args ret && forallb arg_ok args
    | FCtor _ args _ => forallb darg_ok args
    | FCase scrut _ cls _ =>
        frag scrut && data_ty (fterm_type scrut)
        && forallb (fun c => match c with FClause _ _ names ctx body =>
                                list_eqb String.eqb names (fvars ctx) && ctx_data ctx && frag body end) cls
    | FLabel _ t' ty => data_ty ty && frag t'
    | FGoto _ t' _ => frag t'
    | FExit a _ => frag a
    | FParen t' => frag t'
    | FNew cls _ =>
        forallb (fun c => match c with FClause _ _ names ctx body =>
                             list_eqb String.eqb names (fvars ctx) && ctx_data ctx && frag body end) cls
    | FDtor scrut _ _ args _ =>
        frag scrut && forallb darg_ok args && (scrut_atomic scrut || forallb atomic args)
    end.
  Definition arg_ok (y : fterm) : bool :=
    match y with
    | FVar _ _ (Some FCns) => true
    | _ => frag y && is_some (fterm_type y)
    end.
  Definition darg_ok (y : fterm) : bool := negb (is_cns_var y) && frag y && data_ty (fterm_type y).

  (* the kind discipline (a consequence of typing): where the translation hands the SAME continuation to a
     sub-term, the sub-term has the kind of the term; operands, conditions, printed and exit values,
     constructor and destructor arguments, case scrutinees are data; a let-bound term has the kind of the
     variable's type; a `new` is codata and each clause body has the kind its destructor returns; a
     destructor call has the kind its destructor returns and its scrutinee is codata *)
  Fixpoint kd (t : fterm) : bool :=
    let arg_kd := fun (y : fterm) => match y with FVar _ ty (Some FCns) => negb (f_is_codata_o p ty) | _ => kd y end in
    let same := fun (u : fterm) (ty : option fty) => Bool.eqb (tkind u) (f_is_codata_o p ty) in
    match t with
    | FVar _ _ _ | FLit _ => true
    | FOp a _ b => kd a && kd b && negb (tkind a) && negb (tkind b)
    | FIfC _ a b t1 t2 ty =>
        kd a && (match b with Some b' => kd b' && negb (tkind b') | None => true end) && kd t1 && kd t2
        && negb (tkind a) && negb (tkind t1) && negb (tkind t2) && negb (f_is_codata_o p ty)
    | FPrint _ a next ty => kd a && kd next && negb (tkind a) && same next ty
    | FLet _ vty bound body ty =>
        kd bound && kd body && Bool.eqb (tkind bound) (f_is_codata p vty) && same body ty
    | FCall _ args _ => forallb arg_kd args
    | FCtor _ args ty => forallb arg_kd args && negb (f_is_codata_o p ty)
    | FCase scrut _ cls ty =>
        kd scrut && negb (f_is_codata_o p ty)
        && forallb (fun c => match c with FClause _ _ _ _ body => kd body && negb (tkind body) end) cls
    | FLabel _ t' ty => kd t' && negb (tkind t') && negb (f_is_codata_o p ty)
    | FGoto _ t' _ => kd t' && negb (tkind t')
    | FExit a _ => kd a && negb (tkind a)
    | FParen t' => kd t'
    | FNew cls ty =>
        f_is_codata_o p ty
        && forallb (fun c => match c with FClause _ x _ _ body => kd body && Bool.eqb (tkind body) (dkind x) end) cls
    | FDtor scrut x _ args ty =>
        kd scrut && tkind scrut && forallb arg_kd args && Bool.eqb (f_is_codata_o p ty) (dkind x)
    end.
  Definition arg_kd (y : fterm) : bool := match y with FVar _ ty (Some FCns) => negb (f_is_codata_o p ty) | _ => kd y end.
End Frag.


(* the guard of the preservation theorem, per definition and per program *)
Definition def_guard (p : fcprog) (d : fdef) : bool :=
  frag p (fdbody d) && ws (compile_ctx (fdctx d)) (fdbody d)
  && (if String.eqb (fdname d) "main"
      then data_ty p (fterm_type (fdbody d)) && ctx_data p (fdctx d)
           (* when main is called (fix f929eb7: the entry point passes its parameters on BY NAME): distinct parameters *)
           && (negb (calls_main_prog p) || nodup_str (fvars (fdctx d)))
      else true)
  && kd p (fdbody d) && Bool.eqb (tkind p (fdbody d)) (f_is_codata p (fdret d)).
Definition prog_guard (p : fcprog) : bool := forallb (def_guard p) (fcpdefs p).


(* the program guard as it was stated next to the Barendregt condition, when [def_guard] still contained the
   capture guard [nocap]; now the same predicate as [def_guard] *)
Definition def_guard_b (p : fcprog) (d : fdef) : bool :=
  frag p (fdbody d) && ws (compile_ctx (fdctx d)) (fdbody d)
  && (if String.eqb (fdname d) "main"
      then data_ty p (fterm_type (fdbody d)) && ctx_data p (fdctx d)
           && (negb (calls_main_prog p) || nodup_str (fvars (fdctx d)))
      else true)
  && kd p (fdbody d) && Bool.eqb (tkind p (fdbody d)) (f_is_codata p (fdret d)).
Definition frag_prog (p : fcprog) : bool := forallb (def_guard_b p) (fcpdefs p).

