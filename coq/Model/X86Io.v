(* Reader/printer between x86-64 `Code` values (Rust Debug shape) and Model/X86.xcode. *)
From Coq Require Import List ZArith NArith String Ascii Bool.
From SCC Require Import Base.Sexp Model.X86.
Import ListNotations.
Open Scope string_scope.

Inductive operand := OReg (r : N) | OImm (z : Z) | OLbl (s : string).

Definition g_operand (x : sexp) : option operand :=
  match x with
  | L [A "Register"; n] => do n <- getN n; Some (OReg n)
  | L [A "Immediate"; z] => do z <- getZ z; Some (OImm z)
  | Q s => Some (OLbl s)
  | _ => None
  end.
Definition s_operand (o : operand) : sexp :=
  match o with
  | OReg n => L [A "Register"; sN n]
  | OImm z => L [A "Immediate"; sZ z]
  | OLbl s => Q s
  end.

Definition to_gen (c : xcode) : string * list operand :=
  match c with
  | ADD a b => ("ADD", [OReg a; OReg b]) | ADDRM a b i => ("ADDRM", [OReg a; OReg b; OImm i])
  | ADDMR a i b => ("ADDMR", [OReg a; OImm i; OReg b]) | ADDI a i => ("ADDI", [OReg a; OImm i])
  | ADDIM a i j => ("ADDIM", [OReg a; OImm i; OImm j])
  | SUB a b => ("SUB", [OReg a; OReg b]) | SUBRM a b i => ("SUBRM", [OReg a; OReg b; OImm i])
  | SUBMR a i b => ("SUBMR", [OReg a; OImm i; OReg b]) | SUBI a i => ("SUBI", [OReg a; OImm i])
  | IMUL a b => ("IMUL", [OReg a; OReg b]) | IMULRM a b i => ("IMULRM", [OReg a; OReg b; OImm i])
  | IMULMR a i b => ("IMULMR", [OReg a; OImm i; OReg b])
  | IDIV a => ("IDIV", [OReg a]) | IDIVM a i => ("IDIVM", [OReg a; OImm i]) | CQO => ("CQO", [])
  | JMP a => ("JMP", [OReg a]) | JMPL l => ("JMPL", [OLbl l]) | JMPLN l => ("JMPLN", [OLbl l])
  | LEAL a l => ("LEAL", [OReg a; OLbl l])
  | MOV a b => ("MOV", [OReg a; OReg b]) | MOVS a b i => ("MOVS", [OReg a; OReg b; OImm i])
  | MOVL a b i => ("MOVL", [OReg a; OReg b; OImm i]) | MOVI a i => ("MOVI", [OReg a; OImm i])
  | MOVIM a i j => ("MOVIM", [OReg a; OImm i; OImm j])
  | CMP a b => ("CMP", [OReg a; OReg b]) | CMPRM a b i => ("CMPRM", [OReg a; OReg b; OImm i])
  | CMPMR a i b => ("CMPMR", [OReg a; OImm i; OReg b]) | CMPI a i => ("CMPI", [OReg a; OImm i])
  | CMPIM a i j => ("CMPIM", [OReg a; OImm i; OImm j])
  | JEL l => ("JEL", [OLbl l]) | JNEL l => ("JNEL", [OLbl l]) | JLL l => ("JLL", [OLbl l])
  | JLEL l => ("JLEL", [OLbl l]) | JGL l => ("JGL", [OLbl l]) | JGEL l => ("JGEL", [OLbl l])
  | PUSH a => ("PUSH", [OReg a]) | POP a => ("POP", [OReg a]) | CALL l => ("CALL", [OLbl l])
  | RET => ("RET", []) | LAB l => ("LAB", [OLbl l])
  | NOEXECSTACK => ("NOEXECSTACK", []) | TEXT => ("TEXT", [])
  | GLOBAL l => ("GLOBAL", [OLbl l]) | EXTERN l => ("EXTERN", [OLbl l])
  end.

Definition of_gen (name : string) (ops : list operand) : option xcode :=
  match name, ops with
  | "ADD", [OReg a; OReg b] => Some (ADD a b) | "ADDRM", [OReg a; OReg b; OImm i] => Some (ADDRM a b i)
  | "ADDMR", [OReg a; OImm i; OReg b] => Some (ADDMR a i b) | "ADDI", [OReg a; OImm i] => Some (ADDI a i)
  | "ADDIM", [OReg a; OImm i; OImm j] => Some (ADDIM a i j)
  | "SUB", [OReg a; OReg b] => Some (SUB a b) | "SUBRM", [OReg a; OReg b; OImm i] => Some (SUBRM a b i)
  | "SUBMR", [OReg a; OImm i; OReg b] => Some (SUBMR a i b) | "SUBI", [OReg a; OImm i] => Some (SUBI a i)
  | "IMUL", [OReg a; OReg b] => Some (IMUL a b) | "IMULRM", [OReg a; OReg b; OImm i] => Some (IMULRM a b i)
  | "IMULMR", [OReg a; OImm i; OReg b] => Some (IMULMR a i b)
  | "IDIV", [OReg a] => Some (IDIV a) | "IDIVM", [OReg a; OImm i] => Some (IDIVM a i) | "CQO", [] => Some CQO
  | "JMP", [OReg a] => Some (JMP a) | "JMPL", [OLbl l] => Some (JMPL l) | "JMPLN", [OLbl l] => Some (JMPLN l)
  | "LEAL", [OReg a; OLbl l] => Some (LEAL a l)
  | "MOV", [OReg a; OReg b] => Some (MOV a b) | "MOVS", [OReg a; OReg b; OImm i] => Some (MOVS a b i)
  | "MOVL", [OReg a; OReg b; OImm i] => Some (MOVL a b i) | "MOVI", [OReg a; OImm i] => Some (MOVI a i)
  | "MOVIM", [OReg a; OImm i; OImm j] => Some (MOVIM a i j)
  | "CMP", [OReg a; OReg b] => Some (CMP a b) | "CMPRM", [OReg a; OReg b; OImm i] => Some (CMPRM a b i)
  | "CMPMR", [OReg a; OImm i; OReg b] => Some (CMPMR a i b) | "CMPI", [OReg a; OImm i] => Some (CMPI a i)
  | "CMPIM", [OReg a; OImm i; OImm j] => Some (CMPIM a i j)
  | "JEL", [OLbl l] => Some (JEL l) | "JNEL", [OLbl l] => Some (JNEL l) | "JLL", [OLbl l] => Some (JLL l)
  | "JLEL", [OLbl l] => Some (JLEL l) | "JGL", [OLbl l] => Some (JGL l) | "JGEL", [OLbl l] => Some (JGEL l)
  | "PUSH", [OReg a] => Some (PUSH a) | "POP", [OReg a] => Some (POP a) | "CALL", [OLbl l] => Some (CALL l)
  | "RET", [] => Some RET | "LAB", [OLbl l] => Some (LAB l)
  | "NOEXECSTACK", [] => Some NOEXECSTACK | "TEXT", [] => Some TEXT
  | "GLOBAL", [OLbl l] => Some (GLOBAL l) | "EXTERN", [OLbl l] => Some (EXTERN l)
  | _, _ => None
  end.

Definition s_xcode (c : xcode) : sexp :=
  let '(n, ops) := to_gen c in
  match ops with [] => A n | _ => L (A n :: map s_operand ops) end.

(* None = unreadable; Some None = a COMMENT (dropped) *)
Definition g_xcode (x : sexp) : option (option xcode) :=
  match x with
  | L [A "COMMENT"; _] => Some None
  | A n => do c <- of_gen n []; Some (Some c)
  | L (A n :: ops) => do ops <- omap g_operand ops; do c <- of_gen n ops; Some (Some c)
  | _ => None
  end.
Fixpoint somes {X} (l : list (option X)) : list X :=
  match l with [] => [] | Some x :: r => x :: somes r | None :: r => somes r end.
Definition g_xcodes (x : sexp) : option (list xcode) :=
  match x with L l => do cs <- omap g_xcode l; Some (somes cs) | _ => None end.

(* the implementation's own statement markers: every statement's code starts with a COMMENT that is
   neither a '#'-sub-comment nor one of the fixed routine/branch comments; such a comment is kept
   as the pseudo-label "#s" (labels are no-ops of size 0) *)
Definition fixed_comments : list string :=
  ["else branch"; "then branch"; "asmsyntax=nasm"; "setup"; "save registers"; "reserve space for register spills";
   "initialize heap pointer"; "initialize free pointer"; "move parameters into place"; "actual code";
   "free space for register spills"; "restore registers"].
Definition is_statement_comment (c : string) : bool :=
  match c with
  | String "#"%char _ => false
  | _ => negb (existsb (String.eqb c) fixed_comments)
  end.
Definition g_xcode_s (x : sexp) : option (option xcode) :=
  match x with
  | L [A "COMMENT"; Q c] => Some (if is_statement_comment c then Some (LAB ("#s" ++ c)) else None)
  | _ => g_xcode x
  end.
Definition g_xcodes_s (x : sexp) : option (list xcode) :=
  match x with L l => do cs <- omap g_xcode_s l; Some (somes cs) | _ => None end.
