(* modelrun command "robust-lit" (property C18): the literal conversion of the real parser against the model.
   Case file written by `harness robust-lit`:
     (case k ("<literal text>" "def main(): i64 { <literal text> }") <result>)
     <result> = (Some <n>)  the source parses and the body of main is the literal n
              | (None)      parse error
              | (Other)     the source parses to something else
   Compared: (a) [parse_text] on the source (lexer + parser model) gives the same answer; (b) when the literal text is
   in the terminal r"0|[1-9][0-9]*", [num_of_digits] gives NumOk n exactly when the parser answers (Some n) and
   NumRange exactly when it answers (None).  A `(PANIC ..)` from the real parser is the violation of C18. *)
From Coq Require Import List ZArith NArith String Ascii Bool.
From SCC Require Import Base.Sexp Lang.SynUtil Lang.FunSyn Model.RunBase Model.Printer Model.Parser Model.NumLit.
Import ListNotations.
Open Scope string_scope.

Definition lit_answer (src : string) : sexp :=
  match parse_text src with
  | None => L [A "None"]
  | Some p =>
      match fpdecls p with
      | FDDef d :: _ => match fdbody d with FLit z => L [A "Some"; sZ z] | _ => L [A "Other"] end
      | _ => L [A "Other"]
      end
  end.

Definition robust_lit_case (i r : sexp) : verdict :=
  match i with
  | L [Q lit; Q src] =>
      match r with
      | L [A "PANIC"; Q m] => VViol ("class=panic-in-parser literal " ++ lit ++ ": " ++ m)
      | _ =>
          let m := lit_answer src in
          if negb (String.eqb (show m) (show r)) then VDiff (show m) (show r)
          else if num_terminal lit then
            match num_of_digits lit, r with
            | NumOk z, L [A "Some"; A n] => if String.eqb (z_to_string z) n then VOk "nt terminal in-range" else VDiff ("num_of_digits=" ++ z_to_string z) (show r)
            | NumRange, L [A "None"] => VOk "nt terminal out-of-range"
            | NumOk z, _ => VDiff ("num_of_digits=" ++ z_to_string z) (show r)
            | NumRange, _ => VDiff "num_of_digits=range-error" (show r)
            end
          else VOk (match r with L [A "Some"; _] => "nt other-literal" | L [A "None"] => "nt not-a-literal" | _ => "nt other-term" end)
      end
  | _ => VBad "not a robust-lit case"
  end.
Definition run_robust_lit : string -> string := run_cases robust_lit_case.
