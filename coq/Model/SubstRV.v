(* C11: the RISC-V instance of Model/SubstGen.sbackend (state builder and runner over Sem/RVSem).
   The RISC-V back end has no spill slots: temporaries are registers x4..x31, x1 is the scratch. *)
From Coq Require Import List ZArith NArith String Bool FMapPositive.
From SCC Require Import Base.Sexp Lang.AxSyn Sem.AxSem Sem.RVSem Model.ParMoves Model.Backend Model.RV Model.RVIo
     Model.RunBase Model.SubstGen.
Import ListNotations.
Open Scope string_scope.
Open Scope Z_scope.

Definition r_init (temps : list (rtemp * Z)) (hp : list (Z * Z)) (free : Z) : rstate :=
  let regs0 := fold_left (fun m r => PM.add (N.succ_pos r) (880000 + Z.of_N r) m)
                         (map N.of_nat (seq 4 28)) (PM.empty Z) in
  let regs1 := PM.add (N.succ_pos TEMP) 777001
               (PM.add (N.succ_pos HEAP) (HEAP_BASE + 64 * 5000)
               (PM.add (N.succ_pos FREE) free regs0)) in
  let heap0 := fold_left (fun m (av : Z * Z) => PM.add (key (fst av)) (snd av) m) hp (PM.empty Z) in
  let s0 := {| regs := regs1; heap := heap0; hw := HEAP_BASE - 8 |} in
  fold_left (fun s (tv : rtemp * Z) => rset s (fst tv) (Some (snd tv))) temps s0.

Definition r_run (cs : list rcode) (exit_label : string) (s : rstate) : option string * rstate :=
  let im := mk_image (cs ++ [LAB exit_label])%list in
  match find_label (labels im) exit_label with
  | None => (Some "no exit label", s)
  | Some stop =>
      let '(ob, s') := run 200 2000 im stop 1%positive s in
      match snd ob with
      | OExit _ => (None, s')                      (* arrived at the exit label *)
      | OStuck "undef-result" => (None, s')
      | OStuck w => (Some ("fault " ++ w), s')
      | OUndef w => (Some ("undefined " ++ w), s')
      | OOutOfFuel => (Some "out of fuel", s')
      end
  end.

Definition r_heap (s : rstate) (a : Z) : Z := match PM.find (key a) (heap s) with Some z => z | None => 0 end.
Definition r_heap_dom (s : rstate) : list Z := map (fun kv => Z.pos (fst kv) - 1) (PM.elements (heap s)).
Definition oz_eqb (a b : option Z) : bool :=
  match a, b with Some x, Some y => Z.eqb x y | None, None => true | _, _ => false end.

(* x0 is hard-wired, x1 is the scratch, x3 is FREE, x4..x31 are variable temporaries: what is left is HEAP *)
Definition r_frame (s0 s1 : rstate) : option string :=
  if negb (oz_eqb (rget s0 HEAP) (rget s1 HEAP)) then Some "the HEAP register changed" else None.

Definition g_rcodes (x : sexp) : option (list rcode) := option_map codes_of (g_ritems x).

Definition rv_sbackend : sbackend := {|
  sb_Code := rcode; sb_Temp := rtemp; sb_State := rstate;
  sb_B := rv_backend;
  sb_read := g_rcodes;
  sb_show := s_rcode;
  sb_is_spill := fun _ => false;
  sb_block_size := 8 * (2 + 2 * Z.of_N FIELDS_PER_BLOCK);
  sb_heap_base := HEAP_BASE;
  sb_init := r_init;
  sb_run := r_run;
  sb_get := rget;
  sb_heap := r_heap;
  sb_heap_dom := r_heap_dom;
  sb_free := fun s => rget s FREE;
  sb_frame := r_frame;
|}.
