(* modelrun command "wt-stages" (property C12): the checker of each intermediate language on the
   REAL output of every stage of the pipeline, for programs accepted by the real type checker.

   Case (written by `harness wt-stages`, one per accepted program):
     (case k (<name> <checked program>)
             ((core X) (uniquified X) (focused X) (shrunk X) (linearized X) (x86 R) (a64 R) (rv R)))
   X = Debug-shaped value | (PANIC "msg") | (NOTRUN);   R = (OK n) | (PANIC "msg") | (NOTRUN).

   Checks, in pipeline order; the FIRST failing one gives the verdict:
     checked     annotated_fcprog                         (every node carries its type after check)
     core        wt_core  +  pre_check, focus_wf          (preconditions of the focusing theorems)
     uniquified  wt_core
     focused     wt_fs + unique_binders + ids_bounded + names_ok;  also wt_core (embed_prog f) must agree
     shrunk      AxCheck.check_prog (wt_ax)  +  LinCheck.prog_ok (hypothesis of the linearize theorem)
     linearized  LinCheck.lin_check_prog
     x86/a64/rv  a panic whose message is one of the documented capacity limits is accepted; if the
                 program is [within_capacity_<b>] (Model/Capacity.v), ANY panic is a failure (this
                 ties theorem codegen_total to the real code generators)
   Verdicts:
     VIOL class=capture-under-binder <name> core: <why>     the FORMER finding capture-under-binder-typing (repaired in /repo by
                                 d5d4151; no known_findings entry matches it any more: a plain violation now): ONLY when
                                 [shadowing_risk_prog] holds of the source AND the first ill-typed stage is core
                                 AND the failure is an occurrence resolved to a binder of another chirality/type
                                 (or two parameters of the same name in a shared continuation share_<def>_<k>)
     VIOL class=call-to-main-typing <name> core: <why>      the FORMER finding call-to-main (C02; repaired in /repo by f929eb7;
                                 no known_findings entry matches it any more: a plain violation now): ONLY when
                                 [calls_main_prog] holds of the source AND the first ill-typed stage is core
                                 AND the failure is the arity of a call of main
     VIOL class=main-non-integer-result <name> core: <why>  the FORMER finding main-non-integer-result (fixed in /repo by
                                 5b8c76f: such a main is rejected, so this class is a plain violation now): ONLY when the
                                 declared return type of main is not i64 ([main_nonint]) AND the first ill-typed stage
                                 is core AND the failure is the type of the operand of main's final exit
     VIOL class=ill-typed-stage:core-inside-guard <name> ..  the source satisfies prog_tyguard (the hypothesis of theorem
                                 C12_fun2core_preserves_typing_fragment2) and the REAL fun2core output is ill-typed:
                                 would contradict the theorem (model/code mismatch)
     VIOL class=ill-typed-stage:<stage>-inside-pipeline-guard ..  both hypotheses of theorem C12_pipeline_wt_source hold
                                 (prog_tyguard and xtor_tys_guard of the SOURCE program) and a checker rejects a REAL stage
                                 output: would contradict the theorem (model/code mismatch)
     VIOL class=ill-typed-stage:<stage> <name> <why>        any other failure of a checker
     VIOL class=internal-failure:<stage> <name> <panic message>    any non-capacity panic, any panic within capacity
     OK k nt <risk> <f2c-guard | f2c-noguard:why> <pipe-guard | pipe-noguard:which> x86:<ok|ok-beyond|cap> a64:<..> rv:<ok|ok-beyond|cap|noprint> ctx<log2 max context> size<log2 nodes>
        ok = within capacity and compiled; ok-beyond = compiled although outside the (sufficient)
        capacity predicate; cap = documented capacity panic outside the predicate *)
From Coq Require Import List ZArith NArith String Bool.
From SCC Require Import Base.Sexp Lang.SynUtil Lang.FunSyn Lang.CoreSyn Model.RunBase.
From SCC Require Import Sem.FsCheck Sem.CoreCheck Model.FocusCheck Model.Fun2Core.
From SCC Require Lang.AxSyn Sem.AxCheck Model.LinCheck Model.Capacity Model.RV Model.WtDefs.
From SCC Require Import Lang.FunTy Model.Fun2CoreGuard Model.Fun2CoreTyGuard Model.FocusTyGuard Sem.FsFrag2.
Import ListNotations.
Open Scope string_scope.

Inductive sres (X : Type) := SVal (x : X) | SPanic (msg : string) | SNotRun | SUnreadable (why : string).
Arguments SVal {X} x.
Arguments SPanic {X} msg.
Arguments SNotRun {X}.
Arguments SUnreadable {X} why.

Definition read_stage {X} (g : sexp -> option X) (readable : sexp -> bool) (x : sexp) : sres X :=
  match x with
  | L [A "PANIC"; Q m] => SPanic m
  | L [A "NOTRUN"] => SNotRun
  | _ => match g x with
         | Some v => SVal v
         | None => SUnreadable (show_bad (first_bad readable x))
         end
  end.

Definition readable_ax (x : sexp) : bool :=
  is_some (AxSyn.g_ident x) || is_some (AxSyn.g_chi x) || is_some (AxSyn.g_ty x) || is_some (AxSyn.g_binding x)
  || is_some (AxSyn.g_ctx x) || is_some (AxSyn.g_binop x) || is_some (AxSyn.g_ifsort x) || is_some (AxSyn.g_stmt x)
  || is_some (AxSyn.g_opt AxSyn.g_ctx x) || is_some (AxSyn.g_opt AxSyn.g_ident x) || is_some (AxSyn.g_tydecl x)
  || is_some (AxSyn.g_def x) || is_some (AxSyn.g_prog x)
  || match x with A "None" => true | L [A "Some"; _] => true | _ => false end.

(* result of one stage check: None = fine; Some (true, m) = ill-typed, Some (false, m) = panic *)
Definition outcome := option (bool * string).
Definition ill (m : string) : outcome := Some (true, m).
Definition stage_check {X} (r : sres X) (chk : X -> option string) : outcome :=
  match r with
  | SVal v => match chk v with None => None | Some m => ill m end
  | SPanic m => Some (false, m)
  | SNotRun => None
  | SUnreadable w => ill ("unreadable " ++ w)
  end.

Local Notation "a ?> b" := (match a with None => b | Some e => Some e end) (at level 61, right associativity).

Definition chk_core (c : cprog) : option string :=
  check_core c
  ?> fensure (pre_check c) "pre_check fails (ids above max_id / duplicate non-zero binder ids / unscoped non-zero id)"
  ?> fensure (focus_wf c) "focus_wf fails (a shape on which focusing panics)".
Definition chk_uniq (c : cprog) : option string := check_core c.
Definition chk_focused (f : fsprog) : option string :=
  check_fs f
  ?> fensure (unique_binders f) "binders not unique along a path"
  ?> fensure (ids_bounded f) "an id exceeds max_id"
  ?> fensure (FsFrag2.names_ok f) "two identifiers with the same id are spelled differently (contradicts theorem C12_focus_names_ok)"
  ?> match check_core (embed_prog f) with
     | None => None
     | Some m => Some ("wt_fs accepts but wt_core (embed_prog f) rejects: " ++ m)
     end.
Definition chk_shrunk (a : AxSyn.prog) : option string :=
  match AxCheck.check_prog a with
  | Some (cls, m) => Some (cls ++ ": " ++ m)
  | None =>
      fensure (WtDefs.pre_linear_prog a) "an explicit substitution or an annotated closure environment before linearization"
      ?> fensure (WtDefs.binders_ok a) "binders of a definition not globally distinct or above max_id"
      ?> fensure (LinCheck.prog_ok a) "wt_ax, pre_linear and binders_ok hold but LinCheck.prog_ok rejects (contradicts theorem wt_ax_prog_ok)"
  end.
Definition chk_lin (a : AxSyn.prog) : option string :=
  fensure (LinCheck.lin_check_prog a) ("lin_check fails in definition " ++ LinCheck.first_bad_def a).

(* back ends: (tag, outcome) *)
Definition backend_check (b : string) (within : bool) (r : sexp) : string * outcome :=
  match r with
  | L [A "OK"; _] => (b ++ (if within then ":ok" else ":ok-beyond"), None)
  | L [A "NOTRUN"] => (b ++ ":notrun", None)
  | L [A "PANIC"; Q m] =>
      if within then (b ++ ":panic", Some (false, "within capacity but: " ++ m))
      else if Capacity.is_capacity_message b m
           then (b ++ (if String.eqb m "not implemented in RISC-V backend" then ":noprint" else ":cap"), None)
           else (b ++ ":panic", Some (false, m))
  | _ => (b ++ ":bad", ill "unreadable back-end result")
  end.

(* the only way the capture defect shows in the checker: an occurrence resolved to a nearer binder
   of the same name with another chirality or type ([cbound]'s message, after "def <name>: ") *)
Fixpoint contains (needle s : string) : bool :=
  prefix needle s || match s with EmptyString => false | String _ r => contains needle r end.
Definition is_rebinding_message (why : string) : bool :=
  (contains ": variable " why && contains " but bound as " why)
  (* second face: the captured name and the capturing binder both become parameters of a SHARED
     continuation (corpus/fun/c12_capture_share_dup.sc) *)
  || (prefix "def share_" why && contains ": duplicate parameter" why).

(* former finding main-non-integer-result (fixed by 5b8c76f; a recurrence is reported under its own class):
   the declared return type of main is not i64 (Program::check did not
   constrain it); compile_main then types the operand of the final `exit` with that type *)
Definition main_nonint (p : fcprog) : bool :=
  existsb (fun d => String.eqb (fdname d) "main" && negb (fty_eqb (fdret d) FI64)) (fcpdefs p).
Definition is_exit_operand_message (why : string) : bool :=
  prefix "def main: variable x" why && contains " where i64 is expected" why.

Definition find_stage (name : string) (l : list sexp) : sexp :=
  match find (fun x => match x with L [A n; _] => String.eqb n name | _ => false end) l with
  | Some (L [_; v]) => v
  | _ => L [A "NOTRUN"]
  end.

Definition size_ax (p : AxSyn.prog) : N :=
  fold_left (fun acc d => acc + 1 + N.of_nat (List.length (LinCheck.binders (AxSyn.dbody d))))%N (AxSyn.pdefs p) 0%N.

(* the witnesses of theorems C12_fun2core_typing_refuted_before_fix / C12_capture_typing_witness_fixed /
   C12_fun2core_main_result_refuted are the real checked
   forms of their corpus files *)
Fixpoint ends_with (suffix s : string) : bool :=
  String.eqb suffix s || match s with EmptyString => false | String _ r => ends_with suffix r end.
Definition witness_ok (name : string) (p : fcprog) : bool :=
  if ends_with "corpus/fun/c12_capture_illtyped.sc" name then fcprog_eqb p WtDefs.capture_typing_witness
  else if ends_with "corpus/fun/c12_main_nonint.sc" name then fcprog_eqb p main_nonint_witness
  else if ends_with "corpus/fun/call_main_nontail.sc" name then fcprog_eqb p call_main_witness
  else if ends_with "corpus/fun/call_main_tail.sc" name then fcprog_eqb p WtDefs.call_main_tail_witness
  else true.

(* the innermost node at which [tg] fails (diagnosis only) *)
Definition kids (G : cctx) (t : fterm) : list (cctx * fterm) :=
  let cl := fun (c : fclause) => match c with FClause _ _ _ ctx body => (compile_ctx ctx ++ G, body)%list end in
  match t with
  | FVar _ _ _ | FLit _ => []
  | FOp a _ b => [(G, a); (G, b)]
  | FIfC _ a b t1 t2 _ => (G, a) :: (match b with Some b' => [(G, b')] | None => [] end) ++ [(G, t1); (G, t2)]
  | FPrint _ a next _ => [(G, a); (G, next)]
  | FLet v vty bound body _ => [(G, bound); (mkcb (new_id v) CPrd (compile_ty vty) :: G, body)]
  | FCall _ args _ | FCtor _ args _ => map (fun y => (G, y)) (filter (fun y => negb (is_cns_var y)) args)
  | FDtor scrut _ _ args _ => (G, scrut) :: map (fun y => (G, y)) (filter (fun y => negb (is_cns_var y)) args)
  | FCase scrut _ cls _ => (G, scrut) :: map cl cls
  | FNew cls _ => map cl cls
  | FLabel l t' ty => [(match ty with Some ty0 => mkcb (new_id l) CCns (compile_ty ty0) :: G | None => G end, t')]
  | FGoto _ t' _ | FExit t' _ | FParen t' => [(G, t')]
  end.
Definition node_name (t : fterm) : string :=
  match t with
  | FVar _ _ _ => "var" | FLit _ => "lit" | FOp _ _ _ => "op" | FIfC _ _ _ _ _ _ => "ifc" | FPrint _ _ _ _ => "print"
  | FLet _ _ _ _ _ => "let" | FCall _ _ _ => "call" | FCtor _ _ _ => "ctor" | FDtor _ _ _ _ _ => "dtor"
  | FCase _ _ _ _ => "case" | FNew _ _ => "new" | FLabel _ _ _ => "label" | FGoto _ _ _ => "goto"
  | FExit _ _ => "exit" | FParen _ => "paren"
  end.
Fixpoint tg_diag (fuel : nat) (p : fcprog) (D C : list ctydecl) (G : cctx) (t : fterm) : string :=
  match fuel with
  | O => "fuel"
  | S f =>
      match find (fun gk => negb (tg p D C (fst gk) (snd gk))) (kids G t) with
      | Some gk => tg_diag f p D C (fst gk) (snd gk)
      | None =>
          node_name t ++
          match t with
          | FCase _ _ cls _ | FNew cls _ =>
              if negb (forallb (fun c => match c with FClause _ _ names ctx _ => list_eqb String.eqb names (fvars ctx) end) cls) then "-names"
              else if negb (forallb (fun c => match c with FClause _ _ _ ctx _ => nodup_str (fvars ctx) end) cls) then "-dup"
              else "-other"
          | _ => ""
          end
      end
  end.

(* why a program is outside prog_tyguard (first failing component; tag of the OK line) *)
Definition tyguard_why (p : fcprog) : string :=
  if negb (decls_tyguard p) then "decls" else
  let D := cdata_of p in let C := ccodata_of p in
  match find (fun d => negb (def_tyguard p D C d)) (fcpdefs p) with
  | None => "none"
  | Some d =>
      if negb (nodup_str (fvars (fdctx d))) then "dup-param"
      else if negb (ctx_tyd D C (compile_ctx (fdctx d))) then "param-type-undeclared"
      else if negb (tg p D C (compile_ctx (fdctx d)) (fdbody d))
           then "body-typing-" ++ tg_diag 200 p D C (compile_ctx (fdctx d)) (fdbody d)
      else "result-type"
  end.

Definition wtstages_case (i r : sexp) : verdict :=
  match i, r with
  | L [Q name; p], L stages =>
      match g_fcprog p with
      | None => VBad ("checked program unreadable: " ++ show_bad (first_bad readable_fun p))
      | Some fp =>
          if negb (witness_ok name fp)
          then VBad ("the witness value in Model/WtDefs.v differs from the checked program of " ++ name)
          else
          let core := read_stage g_cprog readable_core (find_stage "core" stages) in
          let uniq := read_stage g_cprog readable_core (find_stage "uniquified" stages) in
          let foc := read_stage g_fsprog readable_fs (find_stage "focused" stages) in
          let shr := read_stage AxSyn.g_prog readable_ax (find_stage "shrunk" stages) in
          let lin := read_stage AxSyn.g_prog readable_ax (find_stage "linearized" stages) in
          let within (f : AxSyn.prog -> bool) := match lin with SVal a => f a | _ => false end in
          let bx := backend_check "x86" (within Capacity.within_capacity_x86) (find_stage "x86" stages) in
          let ba := backend_check "a64" (within Capacity.within_capacity_a64) (find_stage "a64" stages) in
          let br := backend_check "rv" (within Capacity.within_capacity_rv) (find_stage "rv" stages) in
          let first : option (string * (bool * string)) :=
            match (if annotated_fcprog fp then None else ill "annotation missing after check") with
            | Some o => Some ("checked", o)
            | None =>
            match stage_check core chk_core with Some o => Some ("core", o) | None =>
            match stage_check uniq chk_uniq with Some o => Some ("uniquified", o) | None =>
            match stage_check foc chk_focused with Some o => Some ("focused", o) | None =>
            match stage_check shr chk_shrunk with Some o => Some ("shrunk", o) | None =>
            match stage_check lin chk_lin with Some o => Some ("linearized", o) | None =>
            match snd bx with Some o => Some ("x86", o) | None =>
            match snd ba with Some o => Some ("a64", o) | None =>
            match snd br with Some o => Some ("rv", o) | None => None
            end end end end end end end end end in
          let risk := shadowing_risk_prog fp in
          let g1 := prog_tyguard fp in
          (* the hypotheses of theorem C12_pipeline_wt_source: two boolean guards on the SOURCE program *)
          let g_xt := xtor_tys_guard fp in
          let g2 := g1 && g_xt in
          let pipe_tag := if g2 then " pipe-guard" else if negb g1 then " pipe-noguard:f2c" else " pipe-noguard:xtor-types" in
          match first with
          | Some (st, (true, why)) =>
              (* theorem C12_fun2core_preserves_typing_fragment2 confronted with the real translation *)
              if g1 && String.eqb st "core" && negb (contains "pre_check fails" why) && negb (contains "focus_wf fails" why)
              then VViol ("class=ill-typed-stage:core-inside-guard " ++ name ++ " prog_tyguard holds but: " ++ trunc 300 why)
              (* theorem C12_pipeline_wt confronted with the real stages: inside its guards no checker may fail
                 (the comparison of wt_fs with wt_core of the embedding is not part of the theorem) *)
              else if g2 && negb (String.eqb st "checked") && negb (contains "wt_core (embed_prog f) rejects" why)
              then VViol ("class=ill-typed-stage:" ++ st ++ "-inside-pipeline-guard " ++ name ++ " the guards of C12_pipeline_wt_source hold but: " ++ trunc 300 why)
              else
              (* former finding call-to-main (C02; repaired by f929eb7, a plain violation now): main was compiled without a return continuation, a call
                 of main passes one - the FIRST ill-typed stage is core and the failure is that call's arity *)
              if calls_main_prog fp && String.eqb st "core" && contains "call main: wrong number of arguments" why
              then VViol ("class=call-to-main-typing " ++ name ++ " core: " ++ trunc 300 why)
              (* former finding capture-under-binder-typing (repaired by d5d4151; a plain violation now) *)
              else if risk && String.eqb st "core" && is_rebinding_message why
              then VViol ("class=capture-under-binder " ++ name ++ " core: " ++ trunc 300 why)
              (* former finding main-non-integer-result (fixed; no known_findings entry matches it any more): the FIRST ill-typed stage is core and the failure is the
                 type of the operand of main's final exit *)
              else if main_nonint fp && String.eqb st "core" && is_exit_operand_message why
              then VViol ("class=main-non-integer-result " ++ name ++ " core: " ++ trunc 300 why)
              else VViol ("class=ill-typed-stage:" ++ st ++ " " ++ name ++ " " ++ trunc 300 why)
          | Some (st, (false, msg)) =>
              VViol ("class=internal-failure:" ++ st ++ " " ++ name ++ " " ++ trunc 300 msg)
          | None =>
              VOk ("nt " ++ (if risk then "shadow-risk" else "no-shadow")
                   ++ (if g1 then " f2c-guard" else " f2c-noguard:" ++ tyguard_why fp)
                   ++ pipe_tag
                   ++ " " ++ fst bx ++ " " ++ fst ba ++ " " ++ fst br
                   ++ match lin with
                      | SVal a => " ctx" ++ n_to_string (N.log2 (N.of_nat (Capacity.max_ctx_prog a)))
                                  ++ " ax" ++ n_to_string (N.log2 (size_ax a))
                      | _ => ""
                      end
                   ++ " size" ++ n_to_string (N.log2 (size_fcprog fp)))
          end
      end
  | _, _ => VBad "input shape"
  end.
Definition run_wtstages : string -> string := run_cases wtstages_case.
