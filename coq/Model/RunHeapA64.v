(* modelrun commands "heap-a64" and "c10-a64": C09 / C10 decided on the REAL AArch64 instruction list
   (output of `harness codegen-a64` / `heapgen-a64` / `c10-a64`), run on Sem/A64Sem.v in lockstep with
   the AxCut linear machine (Sem/A64Heap.v), the counting invariant inv_check evaluated at every
   statement comment of the implementation.  When a run is not in lockstep, the marked model of the
   code generator is used instead, provided that marked code minus marks = the Rust code. *)
From Coq Require Import List ZArith NArith String Bool.
From SCC Require Import Base.Sexp Lang.AxSyn Sem.AxSem Sem.A64Sem Sem.HeapCheck Sem.HeapLock Sem.A64Heap
                        Model.Backend Model.A64 Model.A64Io Model.RunBase Model.RunA64 Model.RunHeapGen.
Import ListNotations.
Open Scope string_scope.

Definition acodes_eqb (a b : list acode) : bool := String.eqb (show (L (map s_acode a))) (show (L (map s_acode b))).

Definition a64_runner (cs : list acode) : runner :=
  fun args tr => let '(ob, s, st) := run_a64_heap_tr isa_outer isa_inner cs args tr in (ob, st, hw s).

Definition heap_a64_case (i r : sexp) : verdict :=
  match i with
  | L [Q _; p; lc; argss] =>
      match g_prog p, getN lc, getL (getL getZ) argss with
      | Some p, Some lc, Some argss =>
          match r with
          | L [A "PANIC"; _] => VSkip "implementation panicked (capacity)"
          | L [cs; _] =>
              match g_acodes_s cs, g_acodes cs with
              | Some cs_s, Some cs =>
                  let mcs (_ : unit) : option runner :=
                    match a64_compile_marked p lc with
                    | Ok (mcs, _, _) => if acodes_eqb (filter (fun c => negb (is_mark c)) mcs) cs then Some (a64_runner mcs) else None
                    | Err _ => None
                    end in
                  let live := max_live (walk_prog p) in
                  heap_verdict HEAP_BASE p (a64_runner cs_s) mcs argss "spillreuse"
                    ((if Nat.ltb lr_boundary live then " spills" else " nospill")
                     ++ " live" ++ n_to_string (N.of_nat (live / 4 * 4)))
              | _, _ => VBad "rust output unreadable"
              end
          | _ => VBad "rust output shape"
          end
      | _, _, _ => VBad "input unreadable"
      end
  | _ => VBad "input shape"
  end.
Definition run_heap_a64 : string -> string := run_cases heap_a64_case.

Definition c10_a64_case (i r : sexp) : verdict :=
  match i with
  | L [Q _; p; lc; argss] =>
      match g_prog p, getL (getL getZ) argss, r with
      | Some _, Some _, L [A "PANIC"; _] => VSkip "implementation panicked (capacity)"
      | Some p, Some argss, L [cs; _] =>
          match g_acodes_s cs with
          | Some cs_s => c10_verdict HEAP_BASE p (a64_runner cs_s) argss
          | None => VBad "rust output unreadable"
          end
      | _, _, _ => VBad "input unreadable"
      end
  | _ => VBad "input shape"
  end.
Definition run_c10_a64 : string -> string := run_cases c10_a64_case.

(* ---------- inspection: the statement marks in execution order next to the machine's kind strings ---------- *)
Fixpoint marks_chunk (fuel : nat) (im : image) (pc : positive) (s : astate) (acc : list string) : option (positive * astate) * list string :=
  match fuel with
  | O => (Some (pc, s), acc)
  | S f =>
      match PM.find pc (code im) with
      | None => (None, acc)
      | Some c =>
          let acc' := match c with LAB l => if is_mark_label l then l :: acc else acc | _ => acc end in
          match step im c s with
          | Next s' => marks_chunk f im (Pos.succ pc) s' acc'
          | Jump s' i => marks_chunk f im (match c with BR _ => back_over_marks 4 im i | _ => i end) s' acc'
          | _ => (None, acc')
          end
      end
  end.
Fixpoint marks_run (outer inner : nat) (im : image) (pc : positive) (s : astate) (acc : list string) : list string :=
  match outer with
  | O => acc
  | S o => match marks_chunk inner im pc s acc with
           | (Some (pc', s'), acc') => marks_run o inner im pc' s' acc'
           | (None, acc') => acc'
           end
  end.
Fixpoint zip_show (a b : list string) : list sexp :=
  match a with
  | [] => map (fun y => L [A "-"; Q y]) b
  | x :: a' => match b with
               | [] => L [Q x; A "-"] :: zip_show a' []
               | y :: b' => L [Q x; Q y] :: zip_show a' b'
               end
  end.
Definition show_heap_a64_case (i r : sexp) : verdict :=
  match i with
  | L [Q _; p; lc; argss] =>
      match g_prog p, getL (getL getZ) argss, r with
      | Some p, Some (args :: _), L [cs; _] =>
          match g_acodes_s cs with
          | Some cs_s =>
              let im := mk_image cs_s in
              match find_label (labels im) "asm_main" with
              | Some i0 =>
                  let ms := rev_append (marks_run isa_outer isa_inner im i0 (init_state args) []) [] in
                  VOk (show (L (zip_show ms (Sem.AxTrace.trace_linear lin_fuel p args))))
              | None => VBad "no asm_main"
              end
          | None => VBad "rust output unreadable"
          end
      | _, _, _ => VBad "input unreadable"
      end
  | _ => VBad "input shape"
  end.
Definition run_show_heap_a64 : string -> string := run_cases show_heap_a64_case.
