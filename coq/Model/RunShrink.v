(* modelrun command "shrink" (property C04): the model of core2axcut::program::shrink_prog against
   the real one, and ALWAYS the executable form of the property on the RUST output:
     (a) Sem/AxCheck.check_prog: the AxCut program is well-scoped and well-typed, clauses are in
         declaration order, lifted definitions are closed (classes ill-typed-output, clause-order,
         lift-wrong-free-vars);
     (b) critical pairs: no `create` binds the variable of the side that must be EXPANDED
         (producer first for i64/data, consumer first for codata; class critical-pair-order);
     (c) semantics: the Core machine on the focused input (Sem/CoreSem.run_fs) and the AxCut named
         machine (Sem/AxSem.run_named) on the Rust output give the same observation for every
         argument tuple of the case; and for the programs of the repository that ship an expected
         standard output, run_named of the Rust output prints exactly that (class semantic-mismatch).
   Then model output = Rust output (DIFF otherwise; a DIFF whose two programs behave differently on
   the case's arguments is reported as VIOL class=semantic-mismatch).
   OK tags: nt, one tag per cut shape that occurs in the input, xtor-count tags of eta-expanded
   types, lifted / lift-unused-param, sem<k> = number of argument tuples compared semantically. *)
From Coq Require Import List ZArith NArith String Bool.
From SCC Require Import Base.Sexp Lang.SynUtil Lang.CoreSyn Lang.AxSyn Sem.AxSem Sem.AxCheck Sem.FsCheck Sem.FsFrag2 Model.Shrink Model.RunBase.
From SCC Require Sem.CoreSem.
Import ListNotations.
Open Scope list_scope.
Open Scope string_scope.

(* ---------- cut-shape histogram of the input ---------- *)
Definition ty_kind (codata : list ctydecl) (t : cty) : string :=
  match t with CI64 => "i64" | _ => if is_codata codata t then "codata" else "data" end.
Definition n_xtors (p : fsprog) (t : cty) : string :=
  match t with
  | CI64 => ""
  | CDecl n =>
      match lookup_type_declaration n (fspdata p ++ fspcodata p) with
      | Some d => match List.length (ctxtors d) with 0 => "xt0" | 1 => "xt1" | 2 => "xt2" | _ => "xt3+" end
      | None => "xt?"
      end
  end.
Definition add_tag (t : string) (l : list string) : list string :=
  if String.eqb t "" || existsb (String.eqb t) l then l else t :: l.

Section Shapes.
Variable p : fsprog.
Definition cut_tags (pr : fsterm) (ty : cty) (k : fsterm) (acc : list string) : list string :=
  let kd := ty_kind (fspcodata p) ty in
  match pr, k with
  | FsMu _ _ _ _, FsXVar _ _ _ => add_tag "renaming-mu" acc
  | FsXVar _ _ _, FsMu _ _ _ _ => add_tag "renaming-mutilde" acc
  | FsXtor _ _ _ _, FsXCase _ _ _ => add_tag "known-ctor-case" acc
  | FsXCase _ _ _, FsXtor _ _ _ _ => add_tag "known-cocase-dtor" acc
  | FsXVar _ _ _, FsXVar _ _ _ => add_tag (n_xtors p ty) (add_tag ("unknown-" ++ kd) acc)
  | FsMu _ _ s1 _, FsMu _ _ s2 _ =>
      let lifted := match ty with
                    | CI64 => false
                    | _ => negb (is_leaf_statement (if is_codata (fspcodata p) ty then s1 else s2))
                    end in
      add_tag (if lifted then "crit-nonleaf" else "") (add_tag (n_xtors p ty) (add_tag ("crit-" ++ kd) acc))
  | FsLit _, FsMu _ _ _ _ => add_tag "lit-mu" acc
  | FsLit _, FsXVar _ _ _ => add_tag "lit-var" acc
  | FsOp _ _ _, FsMu _ _ _ _ => add_tag "op-mu" acc
  | FsOp _ _ _, FsXVar _ _ _ => add_tag "op-var" acc
  | FsXtor _ _ _ _, FsMu _ _ _ _ => add_tag "let-ctor" acc
  | FsMu _ _ _ _, FsXtor _ _ _ _ => add_tag "let-dtor" acc
  | FsXtor _ _ _ _, FsXVar _ _ _ => add_tag "invoke-ctor" acc
  | FsXVar _ _ _, FsXtor _ _ _ _ => add_tag "invoke-dtor" acc
  | FsXVar _ _ _, FsXCase _ _ _ => add_tag "switch-case" acc
  | FsXCase _ _ _, FsXVar _ _ _ => add_tag "switch-cocase" acc
  | FsMu _ _ _ _, FsXCase _ _ _ => add_tag "create-case" acc
  | FsXCase _ _ _, FsMu _ _ _ _ => add_tag "create-cocase" acc
  | _, _ => add_tag "impossible-shape" acc
  end.
Fixpoint tags_term (t : fsterm) (acc : list string) : list string :=
  match t with
  | FsMu _ _ s _ => tags_stmt s acc
  | FsXCase _ cls _ =>
      (fix go (l : list fsclause) (acc : list string) : list string :=
         match l with [] => acc | FsClause _ _ _ b :: r => go r (tags_stmt b acc) end) cls acc
  | _ => acc
  end
with tags_stmt (s : fsstmt) (acc : list string) : list string :=
  match s with
  | FsCut pr ty k => tags_term k (tags_term pr (cut_tags pr ty k acc))
  | FsIfC _ _ b t e => tags_stmt e (tags_stmt t (add_tag (match b with Some _ => "ifc" | None => "ifz" end) acc))
  | FsPrint _ _ n => tags_stmt n (add_tag "print" acc)
  | FsCall _ _ => add_tag "call" acc
  | FsExit _ => add_tag "exit" acc
  end.

(* ---------- (b) critical pairs: ids of the variables that must NOT be bound by a `create` ---------- *)
Fixpoint cp_expand_term (t : fsterm) (acc : list N) : list N :=
  match t with
  | FsMu _ _ s _ => cp_expand_stmt s acc
  | FsXCase _ cls _ =>
      (fix go (l : list fsclause) (acc : list N) : list N :=
         match l with [] => acc | FsClause _ _ _ b :: r => go r (cp_expand_stmt b acc) end) cls acc
  | _ => acc
  end
with cp_expand_stmt (s : fsstmt) (acc : list N) : list N :=
  match s with
  | FsCut pr ty k =>
      let acc := match pr, k with
                 | FsMu _ vp _ _, FsMu _ vc _ _ =>
                     (if is_codata (fspcodata p) ty then cid_id vp else cid_id vc) :: acc
                 | _, _ => acc
                 end in
      cp_expand_term k (cp_expand_term pr acc)
  | FsIfC _ _ _ t e => cp_expand_stmt e (cp_expand_stmt t acc)
  | FsPrint _ _ n => cp_expand_stmt n acc
  | _ => acc
  end.
End Shapes.

Definition prog_tags (p : fsprog) : list string :=
  fold_left (fun acc d => tags_stmt p (fsdbody d) acc) (fspdefs p) [].
Definition cp_expand_ids (p : fsprog) : list N :=
  fold_left (fun acc d => cp_expand_stmt p (fsdbody d) acc) (fspdefs p) [].

Fixpoint create_ids (s : stmt) (acc : list N) : list N :=
  let go_cls := fix go (l : list (ident * ctx * stmt)) (acc : list N) : list N :=
    match l with [] => acc | (_, _, b) :: r => go r (create_ids b acc) end in
  match s with
  | Substitute _ n | Let _ _ _ _ n | Literal _ _ n | Op _ _ _ _ n | PrintI64 _ _ n => create_ids n acc
  | Switch _ _ cls => go_cls cls acc
  | Create v _ _ cls n => create_ids n (go_cls cls (idn v :: acc))
  | IfC _ _ _ t e => create_ids e (create_ids t acc)
  | Call _ _ | Invoke _ _ _ _ | Exit _ => acc
  end.
Definition critical_pair_order_ok (p : fsprog) (r : prog) : option N :=
  let bad := cp_expand_ids p in
  let created := fold_left (fun acc d => create_ids (dbody d) acc) (pdefs r) [] in
  find (fun x => existsb (N.eqb x) bad) created.

(* ---------- (c) semantics ---------- *)
(* N.to_nat recurses as deep as the number; N.iter builds the same numeral with logarithmic depth *)
Definition mk_fuel (n : N) : nat := N.iter n S O.
Definition fuel_ax : nat := mk_fuel 300000.
Definition render_out (ps : prints) : string :=
  fold_right (fun (pz : bool * Z) acc => z_to_string (snd pz) ++ (if fst pz then nl else "") ++ acc) "" ps.
Definition get_tuple (x : sexp) : option (list Z) := getL getZ x.

(* The Core machine (Sem/CoreSem.v, written for C02) on the focused input.  Its fuel is one unit per
   machine transition (several per statement), so it gets more than the AxCut machine.  None when
   it runs out of fuel (the tuple is then not compared). *)
Definition fuel_core : nat := mk_fuel 2000000.
Definition core_obs (p : fsprog) (args : list Z) : option obs :=
  let o := CoreSem.run_fs fuel_core p args in
  match snd o with OOutOfFuel => None | _ => Some o end.

Definition terminated (o : obs) : bool := match snd o with OOutOfFuel => false | _ => true end.

(* equal observations; two stuck runs count as equal whatever the reason (the machines name their
   stuck states differently; a well-typed program never gets stuck) *)
Definition obs_sim (a b : obs) : bool :=
  prints_eqb (fst a) (fst b) &&
  match snd a, snd b with
  | OStuck _, OStuck _ => true
  | x, y => outcome_eqb x y
  end.

(* number of tuples compared with the Core machine, or the first mismatch *)
Fixpoint sem_check (p : fsprog) (r : prog) (tuples : list (list Z)) (n : nat) : string + nat :=
  match tuples with
  | [] => inr n
  | a :: rest =>
      match core_obs p a with
      | None => sem_check p r rest n
      | Some oc =>
          let oa := run_named fuel_ax r a in
          if negb (terminated oa) then sem_check p r rest n
          else if obs_sim oc oa then sem_check p r rest (S n)
          else inl ("args=" ++ show (sL sZ a) ++ " core=" ++ show (s_obs oc) ++ " axcut=" ++ show (s_obs oa))
      end
  end.
Definition expect_check (r : prog) (e : sexp) : option string :=
  match e with
  | L [A "expect"; a; Q text] =>
      match get_tuple a with
      | None => None
      | Some a =>
          let oa := run_named fuel_ax r a in
          match snd oa with
          | OExit _ =>
              if String.eqb (render_out (fst oa)) text then None
              else Some ("expected stdout " ++ show (Q text) ++ " got " ++ show (Q (render_out (fst oa))))
          | _ => Some ("expected stdout " ++ show (Q text) ++ " but the run ended with " ++ show (s_obs oa))
          end
      end
  | _ => None
  end.
(* do two AxCut programs behave the same on the tuples (used to classify a DIFF)? *)
Fixpoint same_behaviour (m r : prog) (tuples : list (list Z)) : option string :=
  match tuples with
  | [] => None
  | a :: rest =>
      let om := run_named fuel_ax m a in
      let orr := run_named fuel_ax r a in
      if obs_eqb om orr then same_behaviour m r rest
      else Some ("args=" ++ show (sL sZ a) ++ " model-output=" ++ show (s_obs om) ++ " rust-output=" ++ show (s_obs orr))
  end.

(* wt_fs, unique_binders, ids_bounded; the reason is one tag *)
Definition precondition (p : fsprog) : option string :=
  match check_fs p with
  | Some _ => Some "not-wt_fs"
  | None => if negb (unique_binders p) then Some "not-unique_binders"
            else if negb (ids_bounded p) then Some "not-ids_bounded" else None
  end.
Definition why_not_wt (i : sexp) : string :=
  match i with
  | L [Q name; p; _; _] =>
      match g_fsprog p with
      | Some p => match check_fs p with Some m => name ++ ": " ++ m | None => "" end
      | None => ""
      end
  | _ => ""
  end.

(* the fragments of the round-2 theorems (Sem/FsFrag2.v): proved-sem = C04_shrink_correct_fragment2 applies
   to this input, proved-typing = C12_shrink_preserves_typing_fragment2 applies; otherwise the conjunct
   that fails *)
Definition frag2_tags (p : fsprog) : string :=
  (if frag2_prog p && decls_ok p then " proved-sem" else " unproved-sem")
  ++ (if frag2t_prog p then " proved-typing" else " unproved-typing")
  ++ (if names_ok p then "" else " not-names_ok")
  ++ (if main_int p then "" else " not-main_int")
  ++ (if decls_ok p then "" else " not-decls_ok")
  ++ (if gub p then "" else " not-gub").

Definition join_tags (l : list string) : string := fold_left (fun acc t => acc ++ " " ++ t) l "".

Definition shrink_case (i r : sexp) : verdict :=
  match i with
  | L [Q name; p; L tuples; expect] =>
      match g_fsprog p, omap get_tuple tuples with
      | Some p, Some tuples =>
          let m := shrink_prog p in
          match r with
          | L [A "PANIC"; Q msg] =>
              match m with
              | SErr _ => VOk "panic-agree"
              | SOk mp => diff_window_b (show (s_prog mp)) (show r)
              end
          | _ =>
              match g_prog r with
              | None => VBad "rust output unreadable"
              | Some rp =>
                  (* the precondition of the property on the input *)
                  match precondition p with
                  | Some why =>
                      (* outside the property's domain: only the correspondence is checked *)
                      match m with
                      | SErr e => VDiff ("(PANIC " ++ show (Q e) ++ ")") (show (s_prog rp))
                      | SOk mp =>
                          if String.eqb (show (s_prog mp)) (show (s_prog rp))
                          then VOk ("input-outside-domain " ++ why)
                          else diff_window_b (show (s_prog mp)) (show (s_prog rp))
                      end
                  | None =>
                  (* the executable property on the Rust output *)
                  match check_prog rp with
                  | Some (cls, msg) => VViol ("class=" ++ cls ++ " " ++ name ++ ": " ++ msg)
                  | None =>
                  match critical_pair_order_ok p rp with
                  | Some x => VViol ("class=critical-pair-order " ++ name ++ ": create binds the id " ++ n_to_string x
                                     ++ " of the side that must be expanded")
                  | None =>
                  match expect_check rp expect with
                  | Some msg => VViol ("class=semantic-mismatch " ++ name ++ ": " ++ msg)
                  | None =>
                  match sem_check p rp tuples 0 with
                  | inl msg => VViol ("class=semantic-mismatch " ++ name ++ ": " ++ msg)
                  | inr nsem =>
                      (* correspondence *)
                      match m with
                      | SErr e => VDiff ("(PANIC " ++ show (Q e) ++ ")") (show (s_prog rp))
                      | SOk mp =>
                          let ms := show (s_prog mp) in
                          let rs := show (s_prog rp) in
                          if String.eqb ms rs then
                            let nl := List.length (filter (fun d => is_lifted_name (dname d)) (pdefs rp)) in
                            VOk ("nt" ++ join_tags (prog_tags p)
                                 ++ (if Nat.eqb nl 0 then "" else " lifted")
                                 ++ (if Nat.eqb (lifted_unused_params rp) 0 then "" else " lift-unused-param")
                                 ++ (if undeclared_field_types (ptypes rp) then " undeclared-field-type" else "")
                                 ++ frag2_tags p
                                 ++ (match expect with L _ => " expected-stdout" | _ => "" end)
                                 ++ " sem" ++ n_to_string (N.of_nat nsem))
                          else
                            match same_behaviour mp rp tuples with
                            | Some msg => VViol ("class=semantic-mismatch " ++ name ++ ": (against the model's output) " ++ msg)
                            | None => VDiff ms rs
                            end
                      end
                  end end end end end
              end
          end
      | _, _ => VBad "input unreadable"
      end
  | _ => VBad "input shape"
  end.
Definition run_shrink : string -> string := run_cases shrink_case.

(* diagnosis: why inputs are outside the domain *)
Definition run_shrink_why : string -> string :=
  run_cases (fun i _ => match why_not_wt i with "" => VOk "" | m => VSkip m end).
