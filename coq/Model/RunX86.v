(* modelrun command "codegen-x86": the model of the x86-64 code generator against the real one. *)
From Coq Require Import List ZArith NArith String Bool.
From SCC Require Import Model.LinCheck.
From SCC Require Import Sem.LabelText.
From SCC Require Import Sem.WfGuard.
From SCC Require Import Base.Sexp Lang.AxSyn Sem.AxSem Sem.AxTrace Sem.X86Sem Sem.X86Wf Sem.LabelGuard Sem.HeapCheck Sem.X86Heap Model.Backend Model.X86 Model.X86Io Model.RunBase.
Import ListNotations.
Open Scope string_scope.

Definition s_res_codes (r : res (list xcode * nat * N)) : sexp :=
  match r with
  | Ok (cs, n, _) => L [L (map s_xcode cs); sNat n]
  | Err m => L [A "PANIC"; Q m]
  end.

Definition count_where (f : xcode -> bool) (cs : list xcode) : nat := List.length (filter f cs).

Definition x86_tags (cs : list xcode) : string :=
  let spill := existsb (fun c => match c with
                                 | MOVS _ 0%N _ | MOVL _ 0%N _ | MOVIM 0%N _ _ | ADDRM _ 0%N _ | ADDMR 0%N _ _ => true
                                 | _ => false end) cs in
  let calls := existsb (fun c => match c with CALL _ => true | _ => false end) cs in
  let tables := existsb (fun c => match c with JMPLN _ => true | _ => false end) cs in
  "nt" ++ (if spill then " spills" else " nospill") ++ (if calls then " print" else "") ++ (if tables then " table" else "")
  ++ " len" ++ n_to_string (N.of_nat (Nat.log2 (List.length cs))).

Definition lin_fuel : nat := 50000.
Definition x86_outer : nat := 2000.
Definition x86_inner : nat := 2000.

(* executable form of C06 on the implementation's output: AxCut linear machine vs. the emitted code *)
Definition sem_check_x86 (p : prog) (cs : list xcode) (argss : list (list Z)) : option string :=
  (* the property is about linearized programs: an input that is not linearity-checked (e.g. the output of the
     pipeline for a program hit by the known fun2core capture finding) is outside its precondition; C05/C12 own it *)
  if negb (lin_check_prog p) then None else
  fold_left (fun acc args =>
    match acc with
    | Some _ => acc
    | None =>
        let ref := run_linear lin_fuel p args in
        match snd ref with
        | OExit _ =>
            let got := fst (run_x86 x86_outer x86_inner cs args) in
            if obs_eqb ref got then None
            else Some ("class=x86-semantic-mismatch args=" ++ show (sL sZ args) ++ " expected=" ++ show (s_obs ref) ++ " got=" ++ show (s_obs got))
        | _ => None
        end
    end) argss None.

Definition defined_runs (p : prog) (argss : list (list Z)) : nat :=
  List.length (filter (fun args => defined (run_linear lin_fuel p args)) argss).

Definition codegen_x86_case (i r : sexp) : verdict :=
  match i with
  | L [Q _; p; lc; argss] =>
      match g_prog p, getN lc, getL (getL getZ) argss with
      | Some p, Some lc, Some argss =>
          let m := x86_compile p lc in
          match r with
          | L [A "PANIC"; Q msg] =>
              match m with
              | Err _ => VOk "panic-agree"
              | Ok _ => diff_window_b (show (s_res_codes m)) (show r)
              end
          | L [cs; n] =>
              match g_xcodes cs, getN n with
              | Some cs, Some n =>
                  let r' := L [L (map s_xcode cs); sN n] in
                  match sem_check_x86 p cs argss with
                  | Some why => VViol why
                  | None =>
                      match m with
                      | Ok (mc, _, _) =>
                          match cmp_sexp (s_res_codes m) r' with
                          | VOk _ => VOk (x86_tags mc ++ " runs" ++ n_to_string (N.of_nat (defined_runs p argss)) ++ (if lin_check_prog p then "" else " not-lin-checked"))
                          | v => v
                          end
                      | Err _ => diff_window_b (show (s_res_codes m)) (show r')
                      end
                  end
              | _, _ => VBad "rust output unreadable"
              end
          | _ => VBad "rust output shape"
          end
      | _, _, _ => VBad "input unreadable"
      end
  | _ => VBad "input shape"
  end.
Definition run_codegen_x86 : string -> string := run_cases codegen_x86_case.

(* ---------- C09 / C10: the heap invariant at every statement boundary of the emitted code ----------
   The markers come from the marked model; marked code minus markers must equal the Rust code, so
   what runs is the implementation's code. *)
Definition codes_eqb (a b : list xcode) : bool := String.eqb (show (L (map s_xcode a))) (show (L (map s_xcode b))).

(* one argument tuple: Some (Some why) = violation found; Some None = checked and fine (with stats);
   None = no verdict (reference run undefined, or the two runs are not in lockstep) *)
Definition heap_one (p : prog) (cs_s : list xcode) (mcs : option (list xcode)) (args : list Z)
  : option (option string * N * Z * Z) :=
  let ref := run_linear lin_fuel p args in
  match snd ref with
  | OExit _ =>
      let judge (r : obs * xstate * hstats) : option (option string * N * Z * Z) :=
        let '(ob, _, st) := r in
        let blocks := (last_frontier st - HEAP_BASE) / 64 in
        match first_violation st with
        | Some why => Some (Some ("class=heap-invariant args=" ++ show (sL sZ args) ++ " at boundary " ++ n_to_string (boundaries st) ++ ": " ++ why), 0%N, 0, 0)
        | None =>
            if blocks >? peak_in_use st + 1
            then Some (Some ("class=heap-footprint args=" ++ show (sL sZ args) ++ " frontier " ++ z_to_string blocks ++ " blocks, peak in use " ++ z_to_string (peak_in_use st)), 0%N, 0, 0)
            else Some (None, boundaries st, peak_in_use st, blocks)
        end in
      let tr := trace_linear lin_fuel p args in
      let r1 := run_x86_heap_tr x86_outer x86_inner cs_s args tr in
      let '(ob1, _, st1) := r1 in
      if obs_eqb ref ob1 && negb (underrun st1) && match pending st1 with [] => true | _ => false end
      then judge r1
      else match mcs with
           | Some mcs =>
               let r2 := run_x86_heap x86_outer x86_inner mcs args in
               if obs_eqb ref (fst (fst r2)) then judge r2 else None
           | None => None
           end
  | _ => None
  end.

Definition heap_x86_case (i r : sexp) : verdict :=
  match i with
  | L [Q _; p; lc; argss] =>
      match g_prog p, getN lc, getL (getL getZ) argss with
      | Some p, Some lc, Some argss =>
          match r with
          | L [A "PANIC"; _] => VSkip "implementation panicked (capacity)"
          | L [cs; _] =>
              match g_xcodes_s cs, g_xcodes cs with
              | Some cs_s, Some cs =>
                  if negb (match pdefs p with d :: _ => forallb (fun b => match bchi b with Ext => true | _ => false end) (dctx d) | [] => false end)
                  then VSkip "first definition is not an entry point (non-integer parameters)"
                  else if negb (lin_check_prog p)
                  then VSkip "not a linearity-checked program: outside the precondition of C09 (C05 / C12 decide that; e.g. the known fun2core capture finding passes a prd where an ext is declared)"
                  else
                    let mcs := match x86_compile_marked p lc with
                               | Ok (mcs, _, _) => if codes_eqb (filter (fun c => negb (is_mark c)) mcs) cs then Some mcs else None
                               | Err _ => None
                               end in
                    let results := map (heap_one p cs_s mcs) argss in
                    match find (fun x => match x with Some (Some _, _, _, _) => true | _ => false end) results with
                    | Some (Some (Some why, _, _, _)) => VViol why
                    | _ =>
                        let nb := fold_left (fun a x => match x with Some (_, n, _, _) => (a + n)%N | None => a end) results 0%N in
                        let peak := fold_left (fun a x => match x with Some (_, _, pk, _) => Z.max a pk | None => a end) results 0 in
                        let fr := fold_left (fun a x => match x with Some (_, _, _, f) => Z.max a f | None => a end) results 0 in
                        let verdicts := List.length (filter (fun x => match x with Some _ => true | None => false end) results) in
                        (* C10: Proof/HeapTrace.footprint_exact says frontier blocks = peak in use + 1 at operation granularity *)
                        let slack := fold_left (fun a x => match x with Some (_, _, pk, f) => Z.max a (f - pk) | None => a end) results 0 in
                        match mcs with
                        | None => VDiff "marked model code minus markers" ("differs from the implementation's code (see C06); heap invariant checked through the implementation's own statement comments on " ++ n_to_string (N.of_nat verdicts) ++ " runs in lockstep, " ++ n_to_string nb ++ " boundaries, no violation")
                        | Some _ =>
                            VOk ((if N.eqb nb 0 then "noruns" else "nt") ++ " boundaries" ++ n_to_string (N.log2 (nb + 1))
                                 ++ " peak" ++ z_to_string (Z.log2 (peak + 1)) ++ (if fr >? 1 then " allocates" else " noalloc")
                                 ++ " verdicts" ++ n_to_string (N.of_nat verdicts) ++ " slack" ++ z_to_string slack)
                        end
                    end
              | _, _ => VBad "rust output unreadable"
              end
          | _ => VBad "rust output shape"
          end
      | _, _, _ => VBad "input unreadable"
      end
  | _ => VBad "input shape"
  end.
Definition run_heap_x86 : string -> string := run_cases heap_x86_case.

(* ---------- C10: space independent of the number of repetitions ----------
   `main(n)` builds and drops a structure n times; the allocation frontier after n = 8 and after
   n = 32 iterations must coincide (and the heap invariant must hold at every boundary). *)
Definition set_frontier (st : hstats) (f : Z) : hstats :=
  {| boundaries := boundaries st; peak_in_use := peak_in_use st; last_frontier := if first_violation st then last_frontier st else Z.max (last_frontier st) f;
     first_violation := first_violation st; pending := pending st; underrun := underrun st |}.
Definition c10_x86_case (i r : sexp) : verdict :=
  match i with
  | L [Q _; p; lc; argss] =>
      match g_prog p, getL (getL getZ) argss, r with
      | Some p, Some argss, L [cs; _] =>
          match g_xcodes_s cs with
          | Some cs_s =>
              let runs := map (fun args =>
                                 let ref := run_linear lin_fuel p args in
                                 let tr := trace_linear lin_fuel p args in
                                 let '(ob, sfin, st) := run_x86_heap_tr x86_outer x86_inner cs_s args tr in
                                 (args, ref, ob, set_frontier st (hw sfin))) argss in
              match find (fun x => let '(_, ref, ob, st) := x in negb (obs_eqb ref ob && defined ref)) runs with
              | Some (args, ref, ob, _) =>
                  (* the reference machine and the code disagree (C05/C06 decide that); the space property is still
                     observable on the code alone: the high-water mark of heap writes after 8 and after 32 iterations *)
                  let highs := map (fun x => let '(_, _, ob, st) := x in (defined ob, (last_frontier st - HEAP_BASE) / 64)) runs in
                  match highs with
                  | [(_, h2); (true, h8); (true, h32)] =>
                      if Z.eqb h8 h32
                      then VSkip ("runs not comparable for args " ++ show (sL sZ args) ++ ": " ++ show (s_obs ref) ++ " vs " ++ show (s_obs ob) ++ " (high-water constant)")
                      else VViol ("class=heap-footprint-grows high-water mark of heap writes after 2/8/32 iterations: " ++ z_to_string h2 ++ "/" ++ z_to_string h8 ++ "/" ++ z_to_string h32
                                  ++ " blocks (the code runs to completion; the AxCut reference run is " ++ show (s_obs ref) ++ ")")
                  | _ => VSkip ("runs not comparable for args " ++ show (sL sZ args) ++ ": " ++ show (s_obs ref) ++ " vs " ++ show (s_obs ob))
                  end
              | None =>
                  match find (fun x => let '(_, _, _, st) := x in match first_violation st with Some _ => true | None => false end) runs with
                  | Some (args, _, _, st) =>
                      VViol ("class=heap-invariant args=" ++ show (sL sZ args) ++ ": " ++ match first_violation st with Some w => w | None => "" end)
                  | None =>
                      let fronts := map (fun x => let '(_, _, _, st) := x in (last_frontier st - HEAP_BASE) / 64) runs in
                      match fronts with
                      | [f2; f8; f32] =>
                          if Z.eqb f8 f32 then VOk ("nt frontier" ++ z_to_string f32 ++ " first" ++ z_to_string f2)
                          else VViol ("class=heap-footprint-grows frontier after 2/8/32 iterations: " ++ z_to_string f2 ++ "/" ++ z_to_string f8 ++ "/" ++ z_to_string f32 ++ " blocks")
                      | _ => VBad "expected three iteration counts"
                      end
                  end
              end
          | None => VBad "rust output unreadable"
          end
      | _, _, _ => VBad "input unreadable"
      end
  | _ => VBad "input shape"
  end.
Definition run_c10_x86 : string -> string := run_cases c10_x86_case.

(* ---------- replay / inspection: observations of both machines on each argument tuple ---------- *)
Definition show_x86_case (i r : sexp) : verdict :=
  match i with
  | L [Q _; p; lc; argss] =>
      match g_prog p, getL (getL getZ) argss, r with
      | Some p, Some argss, L [cs; _] =>
          match g_xcodes cs with
          | Some cs =>
              VOk (show (L (map (fun args => L [sL sZ args; s_obs (run_linear lin_fuel p args);
                                                s_obs (fst (run_x86 x86_outer x86_inner cs args))]) argss)))
          | None => VBad "rust output unreadable"
          end
      | _, _, _ => VBad "input unreadable"
      end
  | _ => VBad "input shape"
  end.
Definition run_show_x86 : string -> string := run_cases show_x86_case.

(* ---------- C14: assembler-level well-formedness of the implementation's output ---------- *)
(* was the program inside the guard of the label theorems (Proof/LabelThms.v)? *)
Definition guard_tag (p : sexp) : string :=
  match g_prog p with
  | Some pp => (if labels_guard pp then " guard" else if name_digits pp then " name-digits" else " noguard")
               ++ (if calls_guard pp then "" else " open-calls")
  | None => ""
  end.
(* is the program inside ALL hypotheses of the theorem Props/C14.v C14_x86_compile_asm_wf (Sem/WfGuard.v)?  Tag
   `thm` / `out:<first hypothesis that fails>`; `small-thm` when also inside C14_x86_compile_code_small.  A program
   inside the hypotheses whose REAL output fails asm_wf (resp. the size bound) contradicts the theorem: the model
   and the code disagree - VIOL class=asm-wf-theorem-contradicted. *)
Definition thm_tag (pp : option prog) : string :=
  match pp with
  | Some pp => (if wf_guard_x86 pp then " thm" else " out:" ++ wf_guard_failed pp)
               ++ (if lin_check_prog pp && size_guard pp then " small-thm" else "")
  | None => ""
  end.
Definition code_small_b (cs : list xcode) : bool :=
  Z.ltb (fold_right (fun c a => isize c + a)%Z 0%Z cs) (4611686018427387904 - CODE_BASE)%Z.
Definition wf_x86_case (i r : sexp) : verdict :=
  match i, r with
  | L [Q _; p; lc; _], L [cs; _] =>
      match g_xcodes cs with
      | Some cs =>
          let pp := g_prog p in
          let inside := match pp with Some q => wf_guard_x86 q | None => false end in
          let inside_small := match pp with Some q => lin_check_prog q && size_guard q | None => false end in
          match bad_label (defined_labels cs ++ flat_map referenced cs) with
          | Some l => VViol ("class=asm-ill-formed label is not an identifier: " ++ l)
          | None =>
          match asm_wf cs with
          | Some why =>
              if inside then VViol ("class=asm-wf-theorem-contradicted " ++ why) else
              (* known finding: <Type>_<k>[_<Xtor>] is ambiguous when type AND xtor names carry `_<digits>` *)
              match first_dup (defined_labels cs), pp with
              | Some l, Some pp => if name_digits pp then VViol ("class=label-collision-name-digits " ++ why)
                                   else VViol ("class=asm-ill-formed " ++ why)
              | _, _ => VViol ("class=asm-ill-formed " ++ why)
              end
          | None =>
              if inside_small && negb (code_small_b cs) then VViol "class=asm-wf-theorem-contradicted code not small" else
              let nlab := List.length (defined_labels cs) in
              let big := existsb (fun c => match c with MOVI _ i => negb (fits32 i) | _ => false end) cs in
              VOk ("nt labels" ++ n_to_string (N.log2 (N.of_nat nlab + 1)) ++ (if big then " imm64" else "")
                   ++ (if existsb (fun c => match c with JMPLN _ => true | _ => false end) cs then " table" else "")
                   ++ guard_tag p ++ thm_tag pp)
          end
          end
      | None => VBad "rust output unreadable"
      end
  | _, L [A "PANIC"; _] => VSkip "implementation panicked (capacity)"
  | _, _ => VBad "case shape"
  end.
Definition run_wf_x86 : string -> string := run_cases wf_x86_case.
