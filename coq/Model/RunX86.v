(* modelrun command "codegen-x86": the model of the x86-64 code generator against the real one. *)
From Coq Require Import List ZArith NArith String Bool.
From SCC Require Import Base.Sexp Lang.AxSyn Model.Backend Model.X86 Model.X86Io Model.RunBase.
Import ListNotations.
Open Scope string_scope.

Definition s_res_codes (r : res (list xcode * nat * N)) : sexp :=
  match r with
  | Ok (cs, n, _) => L [L (map s_xcode cs); sNat n]
  | Err m => L [A "PANIC"; Q m]
  end.

Definition count_where (f : xcode -> bool) (cs : list xcode) : nat := List.length (filter f cs).

Definition x86_tags (cs : list xcode) : string :=
  let spill := existsb (fun c => match c with
                                 | MOVS _ 0%N _ | MOVL _ 0%N _ | MOVIM 0%N _ _ | ADDRM _ 0%N _ | ADDMR 0%N _ _ => true
                                 | _ => false end) cs in
  let calls := existsb (fun c => match c with CALL _ => true | _ => false end) cs in
  let tables := existsb (fun c => match c with JMPLN _ => true | _ => false end) cs in
  "nt" ++ (if spill then " spills" else " nospill") ++ (if calls then " print" else "") ++ (if tables then " table" else "")
  ++ " len" ++ n_to_string (N.of_nat (Nat.log2 (List.length cs))).

Definition codegen_x86_case (i r : sexp) : verdict :=
  match i with
  | L [Q _; p; lc] =>
      match g_prog p, getN lc with
      | Some p, Some lc =>
          let m := x86_compile p lc in
          match r with
          | L [A "PANIC"; Q msg] =>
              match m with
              | Err _ => VOk "panic-agree"
              | Ok _ => VDiff (show (s_res_codes m)) (show r)
              end
          | L [cs; n] =>
              match g_xcodes cs, getN n with
              | Some cs, Some n =>
                  let r' := L [L (map s_xcode cs); sN n] in
                  match m with
                  | Ok (mc, _, _) =>
                      match cmp_sexp (s_res_codes m) r' with
                      | VOk _ => VOk (x86_tags mc)
                      | v => v
                      end
                  | Err _ => VDiff (show (s_res_codes m)) (show r')
                  end
              | _, _ => VBad "rust output unreadable"
              end
          | _ => VBad "rust output shape"
          end
      | _, _ => VBad "input unreadable"
      end
  | _ => VBad "input shape"
  end.
Definition run_codegen_x86 : string -> string := run_cases codegen_x86_case.
