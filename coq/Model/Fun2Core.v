(* ======================================================================================
   Model/Fun2Core  -  line-by-line functional model of /repo/lang/fun2core (the translation of a
   type-checked Fun program into Core), quirks included.  No proofs here (Proof/Fun2CoreProof.v).

   Rust                                            here
   ----------------------------------------------------------------------------------------
   fun::syntax::names::fresh_name                  [fresh_name]   smallest n >= 0 with base++n unused;
                                                   the search is bounded by |used|+1 candidates
                                                   (pigeonhole; Proof: it always finds one)
   HashSet<Var> / HashSet<Name>                    list string used as a set ([mem]); order irrelevant
   fun::traits::used_binders                       [used_binders]  let variables, clause
                                                   context_names, labels (not free variables)
   core_lang TypedFreeVars (BTreeSet<ContextBinding>)   [tfv_*]  strictly sorted list without
                                                   duplicates, order = derived Ord of ContextBinding:
                                                   (name bytes, id), Prd < Cns, I64 < Decl ident;
                                                   a binder removes only the IDENTICAL binding
                                                   (same name, chirality and type)
   compile.rs  CompileState                        [cstate] (used_vars, used_labels, lifted) threaded
                                                   explicitly + the read-only [codata], [cur]
               Compile::compile (default)          [default_compile]: fresh covariable FIRST, then
                                                   the body with that covariable as continuation
               share                               [share]
   terms/*.rs  one impl per term form              [wc_*] (compile_with_cont) and [cmp_*] (compile),
                                                   non-recursive combinators that receive the
                                                   translations of the sub-terms as functions, so that
                                                   the order of the state effects is the Rust evaluation
                                                   order:  Let: in_term BEFORE bound_term;  Case: share,
                                                   clauses in order, scrutinee LAST;  Destructor/Call/
                                                   Constructor: arguments left to right (destructor
                                                   arguments before the scrutinee);  IfC: share, fst, snd,
                                                   thenc, elsec;  Op: fst, snd;  New: clauses in order, each
                                                   taking its fresh covariable before its body.
   arguments.rs compile_subst                      [compile_subst]: a covariable occurrence (chi = Cns)
                                                   is a Consumer argument, everything else Producer
   types.rs / context.rs / declaration.rs          [compile_ty] (Decl name = printed instance name),
                                                   [compile_ctx], [compile_ctor], [compile_dtor]
   def.rs       compile_def / compile_main         [compile_def] / [compile_main]: a definition is
                                                   followed by its lifted statements, most recent first
   program.rs   compile_prog                       [compile_prog]: used_labels = all definition names,
                                                   threaded through the definitions in source order;
                                                   `main` and its lifted statements moved to the front
   `.expect("Types should be annotated ..")`       Err (the model's PANIC)
   ====================================================================================== *)
From Coq Require Import List ZArith NArith String Bool Ascii.
From SCC Require Import Base.Sexp Lang.SynUtil Lang.FunSyn Lang.FunTy Lang.CoreSyn.
Import ListNotations.
Open Scope string_scope.
Open Scope list_scope.

Inductive res (X : Type) := Ok (x : X) | Err (msg : string).
Arguments Ok {X} x.
Arguments Err {X} msg.
Definition rbind {X Y} (r : res X) (f : X -> res Y) : res Y :=
  match r with Ok x => f x | Err m => Err m end.
Notation "'dor' x <- e ; k" := (rbind e (fun x => k)) (at level 200, x pattern, e at level 100, k at level 200).

Definition not_annotated {X} : res X := Err "Types should be annotated before translation".
Definition expect_ty (t : option fty) : res fty :=
  match t with Some t => Ok t | None => not_annotated end.

(* ---------- names ---------- *)
Definition mem (x : string) (l : list string) : bool := existsb (String.eqb x) l.
Definition cand (base : string) (n : N) : string := (base ++ n_to_string n)%string.
Fixpoint fresh_idx (fuel : nat) (used : list string) (base : string) (n : N) : N :=
  match fuel with
  | O => n
  | S fuel' => if mem (cand base n) used then fresh_idx fuel' used base (N.succ n) else n
  end.
(* fresh_name(used, base): the name, and `used` with the name inserted *)
Definition fresh_name (used : list string) (base : string) : string * list string :=
  let nm := cand base (fresh_idx (List.length used) used base 0) in (nm, nm :: used).

Definition new_id (s : string) : cident := (s, 0%N).      (* Identifier::new *)

(* ---------- types, contexts, declarations ---------- *)
Definition compile_ty (t : fty) : cty :=
  match t with
  | FI64 => CI64
  | FDecl _ _ => CDecl (new_id (show_fty t))
  end.
Definition compile_chi (c : fchi) : cchi := match c with FPrd => CPrd | FCns => CCns end.
Definition compile_binding (b : fbinding) : cbinding :=
  mkcb (new_id (fbvar b)) (compile_chi (fbchi b)) (compile_ty (fbty b)).
Definition compile_ctx (c : fctx) : cctx := map compile_binding c.
Definition compile_ctor (c : fctorsig) : cxtorsig :=
  mkcx CData (new_id (fctname c)) (compile_ctx (fctargs c)).
Definition compile_dtor (d : fdtorsig) : cxtorsig :=
  let new_covar := fst (fresh_name (fvars (fdtargs d)) "a") in
  mkcx CCodata (new_id (fdtname d))
       (compile_ctx (fdtargs d) ++ [mkcb (new_id new_covar) CCns (compile_ty (fdtcont d))]).

Definition ty_is_codata (codata : list ctydecl) (t : cty) : bool :=
  match t with
  | CI64 => false
  | CDecl n => existsb (fun d => cident_eqb (ctname d) n) codata
  end.

(* ---------- used_binders ---------- *)
Fixpoint used_binders (t : fterm) (acc : list string) : list string :=
  let go_terms := fix go (l : list fterm) (acc : list string) : list string :=
    match l with [] => acc | y :: r => go r (used_binders y acc) end in
  let go_cls := fix go (l : list fclause) (acc : list string) : list string :=
    match l with
    | [] => acc
    | FClause _ _ names _ body :: r => go r (used_binders body (rev_append names acc))
    end in
  match t with
  | FVar _ _ _ | FLit _ => acc
  | FOp a _ b => used_binders b (used_binders a acc)
  | FIfC _ a b t1 t2 _ =>
      let acc := used_binders a acc in
      let acc := match b with Some b' => used_binders b' acc | None => acc end in
      used_binders t2 (used_binders t1 acc)
  | FPrint _ a next _ => used_binders next (used_binders a acc)
  | FLet v _ bound body _ => used_binders body (used_binders bound (v :: acc))
  | FCall _ args _ => go_terms args acc
  | FCtor _ args _ => go_terms args acc
  | FDtor scrut _ _ args _ => go_terms args (used_binders scrut acc)
  | FCase scrut _ cls _ => go_cls cls (used_binders scrut acc)
  | FNew cls _ => go_cls cls acc
  | FLabel l t' _ => used_binders t' (l :: acc)
  | FGoto _ t' _ => used_binders t' acc
  | FExit a _ => used_binders a acc
  | FParen t' => used_binders t' acc
  end.

(* ---------- BTreeSet<ContextBinding> ---------- *)
Definition cident_compare (a b : cident) : comparison :=
  match String.compare (fst a) (fst b) with
  | Eq => N.compare (snd a) (snd b)
  | c => c
  end.
Definition cchi_compare (a b : cchi) : comparison :=
  match a, b with
  | CPrd, CPrd | CCns, CCns => Eq
  | CPrd, CCns => Lt
  | CCns, CPrd => Gt
  end.
Definition cty_compare (a b : cty) : comparison :=
  match a, b with
  | CI64, CI64 => Eq
  | CI64, CDecl _ => Lt
  | CDecl _, CI64 => Gt
  | CDecl x, CDecl y => cident_compare x y
  end.
Definition cbinding_compare (a b : cbinding) : comparison :=
  match cident_compare (cbvar a) (cbvar b) with
  | Eq => match cchi_compare (cbchi a) (cbchi b) with
          | Eq => cty_compare (cbty a) (cbty b)
          | c => c
          end
  | c => c
  end.
Definition bset := list cbinding.       (* strictly increasing w.r.t. cbinding_compare *)
Fixpoint bset_insert (x : cbinding) (s : bset) : bset :=
  match s with
  | [] => [x]
  | y :: r =>
      match cbinding_compare x y with
      | Lt => x :: s
      | Eq => s
      | Gt => y :: bset_insert x r
      end
  end.
Fixpoint bset_remove (x : cbinding) (s : bset) : bset :=
  match s with
  | [] => []
  | y :: r =>
      match cbinding_compare x y with
      | Lt => s
      | Eq => r
      | Gt => y :: bset_remove x r
      end
  end.
Definition bset_union (a b : bset) : bset := fold_left (fun acc x => bset_insert x acc) b a.   (* vars.extend(b) *)

Definition flip_chi (c : cchi) : cchi := match c with CPrd => CCns | CCns => CPrd end.

Fixpoint tfv_term (t : cterm) (vars : bset) : bset :=
  match t with
  | CXVar c v ty => bset_insert (mkcb v c ty) vars
  | CLit _ => vars
  | COp a _ b => tfv_term b (tfv_term a vars)
  | CMu c v s ty =>
      bset_union vars (bset_remove (mkcb v (flip_chi c) ty) (tfv_stmt s []))
  | CXtor _ _ args _ =>
      (fix go (l : list carg) (vars : bset) : bset :=
         match l with [] => vars | y :: r => go r (tfv_arg y vars) end) args vars
  | CXCase _ cls _ =>
      (fix go (l : list cclause) (vars : bset) : bset :=
         match l with [] => vars | y :: r => go r (tfv_clause y vars) end) cls vars
  end
with tfv_arg (a : carg) (vars : bset) : bset :=
  match a with CProducer p => tfv_term p vars | CConsumer k => tfv_term k vars end
with tfv_clause (c : cclause) (vars : bset) : bset :=
  match c with
  | CClause _ _ ctx body =>
      bset_union vars (fold_left (fun acc b => bset_remove b acc) ctx (tfv_stmt body []))
  end
with tfv_stmt (s : cstmt) (vars : bset) : bset :=
  match s with
  | CCut p _ k => tfv_term k (tfv_term p vars)
  | CIfC _ a b t e =>
      let vars := tfv_term a vars in
      let vars := match b with Some b' => tfv_term b' vars | None => vars end in
      tfv_stmt e (tfv_stmt t vars)
  | CPrint _ a next => tfv_stmt next (tfv_term a vars)
  | CCall _ args _ =>
      (fix go (l : list carg) (vars : bset) : bset :=
         match l with [] => vars | y :: r => go r (tfv_arg y vars) end) args vars
  | CExit a _ => tfv_term a vars
  end.

(* core_lang Typed::get_type for Term *)
Definition cterm_type (t : cterm) : cty :=
  match t with
  | CXVar _ _ ty => ty
  | CLit _ => CI64
  | COp _ _ _ => CI64
  | CMu _ _ _ ty => ty
  | CXtor _ _ _ ty => ty
  | CXCase _ _ ty => ty
  end.

(* ---------- CompileState ---------- *)
Record cstate := mkst { st_used_vars : list string; st_used_labels : list string; st_lifted : list cdef }.

Definition M (X : Type) := cstate -> res (X * cstate).
Definition mret {X} (x : X) : M X := fun st => Ok (x, st).
Definition mbind {X Y} (m : M X) (f : X -> M Y) : M Y :=
  fun st => match m st with Ok (x, st') => f x st' | Err e => Err e end.
Definition mfail {X} (e : string) : M X := fun _ => Err e.
Definition mlift {X} (r : res X) : M X := fun st => match r with Ok x => Ok (x, st) | Err e => Err e end.
Notation "'dom' x <- e ; k" := (mbind e (fun x => k)) (at level 200, x pattern, e at level 100, k at level 200).

Definition fresh_in_vars (base : string) : M string :=
  fun st => let (nm, used') := fresh_name (st_used_vars st) base in
            Ok (nm, mkst used' (st_used_labels st) (st_lifted st)).
Definition fresh_var : M string := fresh_in_vars "x".
Definition fresh_covar : M string := fresh_in_vars "a".
Definition fresh_label (base : string) : M string :=
  fun st => let (nm, used') := fresh_name (st_used_labels st) base in
            Ok (nm, mkst (st_used_vars st) used' (st_lifted st)).
Definition push_lifted (d : cdef) : M unit :=
  fun st => Ok (tt, mkst (st_used_vars st) (st_used_labels st) (d :: st_lifted st)).

Definition op_of (o : fbinop) : cbinop :=
  match o with FDiv => CDiv | FProd => CProd | FRem => CRem | FSum => CSum | FSub => CSub end.
Definition sort_of (s : fifsort) : cifsort :=
  match s with FEq => CEq | FNe => CNe | FLt => CLt | FLe => CLe | FGt => CGt | FGe => CGe end.

Section Translation.
  Variable codata : list ctydecl.     (* CompileState.codata_types *)
  Variable cur : string.              (* CompileState.current_label *)
  (* [true]: the translation as it was BEFORE the fix commits 126604b (goto: target covariable typed
     with the goto expression's own annotation) and d5d4151 (let / case: the continuation was placed
     under a binder of a name it mentions) - kept only for the regression lemmas
     fun2core_goto_unbound_before_fix and fun2core_capture_before_fix; [false]: the current code *)
  Variable goto_legacy : bool.

  (* compile.rs: share *)
  Definition arg_of_binding (b : cbinding) : carg :=
    match cbchi b with
    | CPrd => CProducer (CXVar CPrd (cbvar b) (cbty b))
    | CCns => CConsumer (CXVar CCns (cbvar b) (cbty b))
    end.
  Definition share (cont : cterm) : M cterm :=
    dom vtb <- (match cont with
                | CMu _ v s ty => mret (v, ty, s)
                | _ =>
                    dom var <- fresh_var;
                    let ty := cterm_type cont in
                    mret (new_id var, ty, CCut (CXVar CPrd (new_id var) ty) ty cont)
                end);
    let '(var, ty, body) := vtb in
    let bindings := tfv_stmt body [] in
    let args := map arg_of_binding bindings in
    dom name <- fresh_label ("share_" ++ cur ++ "_")%string;
    dom _ <- push_lifted (mkcd (new_id name) bindings body);
    mret (CMu CCns var (CCall (new_id name) args ty) ty).

  (* the condition under which ifc.rs / case.rs do NOT share the continuation *)
  Definition cont_is_small (cont : cterm) : bool :=
    match cont with
    | CXVar _ _ _ => true
    | CMu _ _ (CExit (CXVar _ _ _) _) _ => true
    | CMu _ _ (CExit (CLit _) _) _ => true
    | _ => false
    end.

  (* compile.rs: default Compile::compile *)
  Definition default_compile (wc : cterm -> M cstmt) (ty : cty) : M cterm :=
    dom a <- fresh_covar;
    dom s <- wc (CXVar CCns (new_id a) ty);
    mret (CMu CPrd (new_id a) s ty).

  (* compile.rs: captures - does the continuation mention one of the binders (by name) freely? *)
  Definition captures (binders : list fname) (cont : cterm) : bool :=
    let fvs := tfv_term cont [] in
    existsb (fun b => existsb (fun bb => String.eqb (fst (cbvar bb)) b) fvs) binders.
  (* compile.rs: compile_outside_cont, as used by terms/let.rs and terms/case.rs.  [w] is the rest of
     compile_with_cont of the term (after the check).  When a binder of the term occurs free in the
     continuation, the continuation is named by a fresh covariable and stays outside:
     < mu a. [[t]]_a | cont >.  `term.compile(..)` is the default method: it draws the covariable and
     calls compile_with_cont again, which repeats the check on the covariable (a second hit would recurse
     without bound; it cannot happen, the covariable is fresh for all binders of the definition). *)
  Definition guard_capture (binders : list fname) (w : cterm -> M cstmt) (ty : option fty) (cont : cterm) : M cstmt :=
    if goto_legacy then w cont
    else if captures binders cont then
      dom ty <- mlift (expect_ty ty);
      let cty := compile_ty ty in
      dom a <- fresh_covar;
      let c' := CXVar CCns (new_id a) cty in
      dom s <- (if captures binders c'
                then mfail "compile_outside_cont: the fresh covariable is captured again"
                else w c');
      mret (CCut (CMu CPrd (new_id a) s cty) cty cont)
    else w cont.

  (* terms/variable.rs *)
  Definition cmp_var (v : fname) (ty : option fty) : M cterm :=
    dom ty <- mlift (expect_ty ty);
    mret (CXVar CPrd (new_id v) (compile_ty ty)).
  Definition wc_var (v : fname) (ty : option fty) (cont : cterm) : M cstmt :=
    dom ty <- mlift (expect_ty ty);
    let ty := compile_ty ty in
    mret (CCut (CXVar CPrd (new_id v) ty) ty cont).
  (* terms/lit.rs *)
  Definition cmp_lit (n : Z) : M cterm := mret (CLit n).
  Definition wc_lit (n : Z) (cont : cterm) : M cstmt := mret (CCut (CLit n) CI64 cont).
  (* terms/op.rs *)
  Definition cmp_op (ca : M cterm) (o : fbinop) (cb : M cterm) : M cterm :=
    dom a <- ca; dom b <- cb; mret (COp a (op_of o) b).
  Definition wc_op (ca : M cterm) (o : fbinop) (cb : M cterm) (cont : cterm) : M cstmt :=
    dom p <- cmp_op ca o cb; mret (CCut p CI64 cont).
  (* terms/ifc.rs *)
  Definition wc_ifc (s : fifsort) (ca : M cterm) (cb : option (M cterm)) (wt we : cterm -> M cstmt)
             (cont : cterm) : M cstmt :=
    dom cont <- (if cont_is_small cont then mret cont else share cont);
    dom a <- ca;
    dom b <- (match cb with Some cb => dom b <- cb; mret (Some b) | None => mret None end);
    dom t <- wt cont;
    dom e <- we cont;
    mret (CIfC (sort_of s) a b t e).
  (* terms/print.rs *)
  Definition wc_print (nl : bool) (ca : M cterm) (wnext : cterm -> M cstmt) (cont : cterm) : M cstmt :=
    dom a <- ca; dom next <- wnext cont; mret (CPrint nl a next).
  (* terms/let.rs *)
  Definition wc_let (v : fname) (vty : fty) (cbound : cty -> M cterm) (wbound : cterm -> M cstmt)
             (wbody : cterm -> M cstmt) (cont : cterm) : M cstmt :=
    let ty := compile_ty vty in
    dom body <- wbody cont;
    let new_cont := CMu CCns (new_id v) body ty in
    if ty_is_codata codata ty then
      dom p <- cbound ty; mret (CCut p ty new_cont)
    else wbound new_cont.
  (* terms/call.rs *)
  Definition wc_call (f : fname) (cargs : M (list carg)) (ret : option fty) (cont : cterm) : M cstmt :=
    dom args <- cargs;
    dom ret <- mlift (expect_ty ret);
    mret (CCall (new_id f) (args ++ [CConsumer cont]) (compile_ty ret)).
  (* terms/constructor.rs *)
  Definition cmp_ctor (x : fname) (cargs : M (list carg)) (ty : option fty) : M cterm :=
    dom args <- cargs;
    dom ty <- mlift (expect_ty ty);
    mret (CXtor CPrd (new_id x) args (compile_ty ty)).
  Definition wc_ctor (x : fname) (cargs : M (list carg)) (ty : option fty) (cont : cterm) : M cstmt :=
    dom ty' <- mlift (expect_ty ty);
    dom p <- cmp_ctor x cargs ty;
    mret (CCut p (compile_ty ty') cont).
  (* terms/destructor.rs *)
  Definition wc_dtor (wscrut : cterm -> M cstmt) (scrut_ty : option fty) (x : fname) (cargs : M (list carg))
             (cont : cterm) : M cstmt :=
    dom args <- cargs;
    dom sty <- mlift (expect_ty scrut_ty);
    wscrut (CXtor CCns (new_id x) (args ++ [CConsumer cont]) (compile_ty sty)).
  (* terms/case.rs *)
  Definition wc_case (wscrut : cterm -> M cstmt) (scrut_ty : option fty) (nclauses : nat)
             (ccls : cterm -> M (list cclause)) (cont : cterm) : M cstmt :=
    dom cont <- (if Nat.leb nclauses 1 || cont_is_small cont then mret cont else share cont);
    dom cls <- ccls cont;
    dom sty <- mlift (expect_ty scrut_ty);
    wscrut (CXCase CCns cls (compile_ty sty)).
  (* terms/clause.rs *)
  Definition compile_clause (x : fname) (ctx : fctx) (wbody : cterm -> M cstmt) (cont : cterm) : M cclause :=
    dom body <- wbody cont;
    mret (CClause CCns (new_id x) (compile_ctx ctx) body).
  Definition compile_coclause (x : fname) (ctx : fctx) (body_ty : option fty) (wbody : cterm -> M cstmt) : M cclause :=
    dom ty <- mlift (expect_ty body_ty);
    let ty := compile_ty ty in
    dom a <- fresh_covar;
    dom body <- wbody (CXVar CCns (new_id a) ty);
    mret (CClause CPrd (new_id x) (compile_ctx ctx ++ [mkcb (new_id a) CCns ty]) body).
  (* terms/new.rs *)
  Definition cmp_new (ccls : M (list cclause)) (ty : option fty) : M cterm :=
    dom cls <- ccls;
    dom ty <- mlift (expect_ty ty);
    mret (CXCase CPrd cls (compile_ty ty)).
  Definition wc_new (ccls : M (list cclause)) (ty : option fty) (cont : cterm) : M cstmt :=
    dom ty' <- mlift (expect_ty ty);
    dom p <- cmp_new ccls ty;
    mret (CCut p (compile_ty ty') cont).
  (* terms/goto.rs *)
  Definition wc_goto (l : fname) (wterm : cterm -> M cstmt) (ty : option fty) (term_ty : option fty) : M cstmt :=
    dom ty <- mlift (expect_ty (if goto_legacy then ty else term_ty));
    wterm (CXVar CCns (new_id l) (compile_ty ty)).
  (* terms/label.rs *)
  Definition cmp_label (l : fname) (wterm : cterm -> M cstmt) (ty : option fty) : M cterm :=
    dom ty <- mlift (expect_ty ty);
    let var_ty := compile_ty ty in
    dom s <- wterm (CXVar CCns (new_id l) var_ty);
    mret (CMu CPrd (new_id l) s var_ty).
  Definition wc_label (l : fname) (wterm : cterm -> M cstmt) (ty : option fty) (cont : cterm) : M cstmt :=
    dom ty' <- mlift (expect_ty ty);
    dom p <- cmp_label l wterm ty;
    mret (CCut p (compile_ty ty') cont).
  (* terms/exit.rs *)
  Definition wc_exit (ca : M cterm) (ty : option fty) : M cstmt :=
    dom a <- ca;
    dom ty <- mlift (expect_ty ty);
    mret (CExit a (compile_ty ty)).

  (* arguments.rs: compile_subst, one entry *)
  Definition compile_arg (t : fterm) (cmp_t : cty -> M cterm) : M carg :=
    match t with
    | FVar v ty (Some FCns) =>
        dom ty <- mlift (expect_ty ty);
        mret (CConsumer (CXVar CCns (new_id v) (compile_ty ty)))
    | _ =>
        dom ty <- mlift (expect_ty (fterm_type t));
        dom p <- cmp_t (compile_ty ty);
        mret (CProducer p)
    end.

  (* the three list traversals (compile_subst, the clause maps of case.rs and new.rs), with the
     translation of the elements as parameters *)
  Section Lists.
    Variable cmpf : fterm -> cty -> M cterm.
    Variable wcf : fterm -> cterm -> M cstmt.
    Fixpoint subst_with (l : list fterm) : M (list carg) :=
      match l with
      | [] => mret []
      | y :: r => dom a <- compile_arg y (cmpf y); dom rest <- subst_with r; mret (a :: rest)
      end.
    Fixpoint clauses_with (cont : cterm) (l : list fclause) : M (list cclause) :=
      match l with
      | [] => mret []
      | FClause _ x _ ctx body :: r =>
          dom c <- compile_clause x ctx (wcf body) cont; dom rest <- clauses_with cont r; mret (c :: rest)
      end.
    Fixpoint coclauses_with (l : list fclause) : M (list cclause) :=
      match l with
      | [] => mret []
      | FClause _ x _ ctx body :: r =>
          dom c <- compile_coclause x ctx (fterm_type body) (wcf body); dom rest <- coclauses_with r; mret (c :: rest)
      end.
  End Lists.

  (* terms/mod.rs: the two methods of `impl Compile for Term` *)
  Fixpoint wc (t : fterm) (cont : cterm) {struct t} : M cstmt :=
    match t with
    | FVar v ty _ => wc_var v ty cont
    | FLit n => wc_lit n cont
    | FOp a o b => wc_op (cmp a CI64) o (cmp b CI64) cont
    | FIfC s a b t1 t2 _ =>
        wc_ifc s (cmp a CI64) (match b with Some b' => Some (cmp b' CI64) | None => None end) (wc t1) (wc t2) cont
    | FPrint nl a next _ => wc_print nl (cmp a CI64) (wc next) cont
    | FLet v vty bound body lty => guard_capture [v] (wc_let v vty (cmp bound) (wc bound) (wc body)) lty cont
    | FCall f args ret => wc_call f (subst_with (fun y => cmp y) args) ret cont
    | FCtor x args ty => wc_ctor x (subst_with (fun y => cmp y) args) ty cont
    | FDtor scrut x _ args _ => wc_dtor (wc scrut) (fterm_type scrut) x (subst_with (fun y => cmp y) args) cont
    | FCase scrut _ cls cty' =>
        guard_capture (flat_map (fun c => match c with FClause _ _ _ ctx _ => fvars ctx end) cls)
          (wc_case (wc scrut) (fterm_type scrut) (List.length cls) (fun cont' => clauses_with (fun b => wc b) cont' cls))
          cty' cont
    | FNew cls ty => wc_new (coclauses_with (fun b => wc b) cls) ty cont
    | FLabel l t' ty => wc_label l (wc t') ty cont
    | FGoto l t' ty => wc_goto l (wc t') ty (fterm_type t')
    | FExit a ty => wc_exit (cmp a CI64) ty
    | FParen t' => wc t' cont
    end
  with cmp (t : fterm) (ty : cty) {struct t} : M cterm :=
    match t with
    | FVar v vty _ => cmp_var v vty
    | FLit n => cmp_lit n
    | FOp a o b => cmp_op (cmp a CI64) o (cmp b CI64)
    | FIfC s a b t1 t2 _ =>
        default_compile
          (wc_ifc s (cmp a CI64) (match b with Some b' => Some (cmp b' CI64) | None => None end) (wc t1) (wc t2)) ty
    | FPrint nl a next _ => default_compile (wc_print nl (cmp a CI64) (wc next)) ty
    | FLet v vty bound body lty =>
        default_compile (guard_capture [v] (wc_let v vty (cmp bound) (wc bound) (wc body)) lty) ty
    | FCall f args ret => default_compile (wc_call f (subst_with (fun y => cmp y) args) ret) ty
    | FCtor x args cty' => cmp_ctor x (subst_with (fun y => cmp y) args) cty'
    | FDtor scrut x _ args _ =>
        default_compile (wc_dtor (wc scrut) (fterm_type scrut) x (subst_with (fun y => cmp y) args)) ty
    | FCase scrut _ cls cty' =>
        default_compile
          (guard_capture (flat_map (fun c => match c with FClause _ _ _ ctx _ => fvars ctx end) cls)
             (wc_case (wc scrut) (fterm_type scrut) (List.length cls) (fun cont' => clauses_with (fun b => wc b) cont' cls))
             cty') ty
    | FNew cls nty => cmp_new (coclauses_with (fun b => wc b) cls) nty
    | FLabel l t' lty => cmp_label l (wc t') lty
    | FGoto l t' gty => default_compile (fun _ => wc_goto l (wc t') gty (fterm_type t')) ty
    | FExit a ety => default_compile (fun _ => wc_exit (cmp a CI64) ety) ty
    | FParen t' => cmp t' ty
    end.
End Translation.

(* ---------- def.rs ---------- *)
Definition run_def_body {X} (codata : list ctydecl) (d : fdef) (used_labels : list string)
           (k : cty -> M X) : res (X * cstate) :=
  match fterm_type (fdbody d) with
  | None => not_annotated
  | Some bty => k (compile_ty bty) (mkst (used_binders (fdbody d) (fvars (fdctx d))) used_labels [])
  end.

(* result: the definition followed by its lifted statements (most recent first), and used_labels *)
Definition compile_def (lg : bool) (d : fdef) (codata : list ctydecl) (used_labels : list string)
  : res (list cdef * list string) :=
  let context := compile_ctx (fdctx d) in
  dor r <- run_def_body codata d used_labels
             (fun ty => dom a <- fresh_covar;
                        dom body <- wc codata (fdname d) lg (fdbody d) (CXVar CCns (new_id a) ty);
                        mret (a, body));
  let '((a, body), st) := r in
  let context := context ++ [mkcb (new_id a) CCns (compile_ty (fdret d))] in
  Ok (mkcd (new_id (fdname d)) context body :: st_lifted st, st_used_labels st).

Definition compile_main (lg : bool) (d : fdef) (codata : list ctydecl) (used_labels : list string)
  : res (list cdef * list string) :=
  let context := compile_ctx (fdctx d) in
  dor r <- run_def_body codata d used_labels
             (fun ty => dom x <- fresh_var;
                        wc codata (fdname d) lg (fdbody d)
                           (CMu CCns (new_id x) (CExit (CXVar CPrd (new_id x) ty) ty) ty));
  let '(body, st) := r in
  Ok (mkcd (new_id (fdname d)) context body :: st_lifted st, st_used_labels st).

(* ---------- program.rs ---------- *)
Definition compile_data (d : fdata) : ctydecl := mkct CData (new_id (fdaname d)) (map compile_ctor (fdactors d)).
Definition compile_codata (d : fcodata) : ctydecl := mkct CCodata (new_id (fcoaname d)) (map compile_dtor (fcodtors d)).

(* ---------- calls_main: `calls(term, "main")` of program.rs ----------
   Until fix f929eb7 of /repo (legacy flag) compile_main gave the Core definition `main` no return-continuation
   parameter (its body ends in `exit`), but wc_call passes `args ++ [continuation]` to every callee: a call whose
   target is `main` had one argument too many; the Core machine was stuck "call-arity", natively the extra argument
   was ignored and the callee exited the process instead of returning (former finding call-to-main).
   [calls_main t]: some call in t targets `main`.  The repaired compile_prog asks it of every definition body. *)
Fixpoint calls_main (t : fterm) : bool :=
  let any := fix go (l : list fterm) : bool :=
    match l with [] => false | y :: r => calls_main y || go r end in
  let any_cls := fix go (l : list fclause) : bool :=
    match l with [] => false | FClause _ _ _ _ body :: r => calls_main body || go r end in
  match t with
  | FVar _ _ _ | FLit _ => false
  | FOp a _ b => calls_main a || calls_main b
  | FIfC _ a b t1 t2 _ =>
      calls_main a || (match b with Some b' => calls_main b' | None => false end) || calls_main t1 || calls_main t2
  | FPrint _ a next _ => calls_main a || calls_main next
  | FLet _ _ bound body _ => calls_main bound || calls_main body
  | FCall f args _ => String.eqb f "main" || any args
  | FCtor _ args _ => any args
  | FDtor scrut _ _ args _ => calls_main scrut || any args
  | FCase scrut _ cls _ => calls_main scrut || any_cls cls
  | FNew cls _ => any_cls cls
  | FLabel _ t' _ => calls_main t'
  | FGoto _ t' _ => calls_main t'
  | FExit a _ => calls_main a
  | FParen t' => calls_main t'
  end.
Definition calls_main_prog (p : fcprog) : bool := existsb (fun d => calls_main (fdbody d)) (fcpdefs p).

(* entry_def: the entry point of a program in which main is called,  def <name>(params) { main(params) } *)
Definition entry_fdef (d : fdef) (name : string) : fdef :=
  mkfdef name (fdctx d) (fdret d)
    (FCall (fdname d) (map (fun b => FVar (fbvar b) (Some (fbty b)) (Some (fbchi b))) (fdctx d)) (Some (fdret d))).

(* the definitions that come first: usually compile_main of `main`; when main is called somewhere in the program
   (and not in legacy mode = the translation before the fixes): the entry point under a fresh label, compiled by
   compile_main (its body becomes  main(params, mu~x. exit x)), then `main` compiled like any other definition *)
Definition compile_main_group (lg called : bool) (d : fdef) (codata : list ctydecl) (used_labels : list string)
  : res (list cdef * list string) :=
  if called && negb lg then
    let (nm, ul1) := fresh_name used_labels "main" in
    dor e <- compile_main lg (entry_fdef d nm) codata ul1;
    dor m <- compile_def lg d codata (snd e);
    Ok (fst e ++ fst m, snd m)
  else compile_main lg d codata used_labels.

(* front = definitions moved to the front (main groups), back = the others, reversed groups *)
Fixpoint compile_defs (lg called : bool) (defs : list fdef) (codata : list ctydecl) (used_labels : list string)
         (front : list cdef) (back_rev : list cdef) : res (list cdef) :=
  match defs with
  | [] => Ok (front ++ rev_append back_rev [])
  | d :: r =>
      if String.eqb (fdname d) "main" then
        dor g <- compile_main_group lg called d codata used_labels;
        compile_defs lg called r codata (snd g) (fst g ++ front) back_rev
      else
        dor g <- compile_def lg d codata used_labels;
        compile_defs lg called r codata (snd g) front (rev_append (fst g) back_rev)
  end.

Definition compile_prog_gen (lg : bool) (p : fcprog) : res cprog :=
  let data_types := map compile_data (fcpdata p) in
  let codata_types := map compile_codata (fcpcodata p) in
  let used_labels := map fdname (fcpdefs p) in
  dor defs <- compile_defs lg (calls_main_prog p) (fcpdefs p) codata_types used_labels [] [];
  Ok (mkcp defs data_types codata_types 0).
(* the current translation, and the one before the fixes 126604b (goto), d5d4151 (capture) and f929eb7 (calls of
   main) of /repo (regression lemmas only) *)
Definition compile_prog (p : fcprog) : res cprog := compile_prog_gen false p.
Definition compile_prog_before_fix (p : fcprog) : res cprog := compile_prog_gen true p.

(* ======================================================================================
   Predicates on Fun programs used by the executable check and by the theorems (not models of
   Rust code).
   ====================================================================================== *)

(* free names (variables, covariables, goto targets) of a Fun term, with repetitions *)
Definition remove_all (xs : list string) (l : list string) : list string :=
  filter (fun y => negb (mem y xs)) l.
Fixpoint fv_fterm (t : fterm) : list string :=
  let go_terms := fix go (l : list fterm) : list string :=
    match l with [] => [] | y :: r => fv_fterm y ++ go r end in
  let go_cls := fix go (l : list fclause) : list string :=
    match l with
    | [] => []
    | FClause _ _ _ ctx body :: r => remove_all (fvars ctx) (fv_fterm body) ++ go r
    end in
  match t with
  | FVar v _ _ => [v]
  | FLit _ => []
  | FOp a _ b => fv_fterm a ++ fv_fterm b
  | FIfC _ a b t1 t2 _ =>
      fv_fterm a ++ (match b with Some b' => fv_fterm b' | None => [] end) ++ fv_fterm t1 ++ fv_fterm t2
  | FPrint _ a next _ => fv_fterm a ++ fv_fterm next
  | FLet v _ bound body _ => fv_fterm bound ++ remove_all [v] (fv_fterm body)
  | FCall _ args _ => go_terms args
  | FCtor _ args _ => go_terms args
  | FDtor scrut _ _ args _ => fv_fterm scrut ++ go_terms args
  | FCase scrut _ cls _ => fv_fterm scrut ++ go_cls cls
  | FNew cls _ => go_cls cls
  | FLabel l t' _ => remove_all [l] (fv_fterm t')
  | FGoto l t' _ => l :: fv_fterm t'
  | FExit a _ => fv_fterm a
  | FParen t' => fv_fterm t'
  end.

(* [shadowing_risk codata t S]: S = the user names free in the continuation with which t is
   translated.  True when the translation places that continuation under a binder (let variable or
   clause parameter) whose name is in S - exactly the situations in which `compile_with_cont`
   builds `mu~ x. [[body]]_cont` or `K(xs) => [[body]]_cont` around a continuation mentioning x.
   Compiler-generated names never count (they are fresh for all binders of the definition). *)
Definition inter_nonempty (a b : list string) : bool := existsb (fun x => mem x b) a.
Fixpoint shadowing_risk (codata : fty -> bool) (t : fterm) (S : list string) : bool :=
  let any_terms := fix go (l : list fterm) : bool :=
    match l with [] => false | y :: r => shadowing_risk codata y [] || go r end in
  match t with
  | FVar _ _ _ | FLit _ => false
  | FOp a _ b => shadowing_risk codata a [] || shadowing_risk codata b []
  | FIfC _ a b t1 t2 _ =>
      shadowing_risk codata a [] || (match b with Some b' => shadowing_risk codata b' [] | None => false end)
      || shadowing_risk codata t1 S || shadowing_risk codata t2 S
  | FPrint _ a next _ => shadowing_risk codata a [] || shadowing_risk codata next S
  | FLet v vty bound body _ =>
      mem v S || shadowing_risk codata body S
      || (if codata vty then shadowing_risk codata bound []
          else shadowing_risk codata bound (remove_all [v] (fv_fterm body ++ S)))
  | FCall _ args _ => any_terms args
  | FCtor _ args _ => any_terms args
  | FDtor scrut _ _ args _ =>
      any_terms args
      || shadowing_risk codata scrut
           ((fix go (l : list fterm) : list string := match l with [] => [] | y :: r => fv_fterm y ++ go r end) args ++ S)
  | FCase scrut _ cls _ =>
      (fix go (l : list fclause) : bool :=
         match l with
         | [] => false
         | FClause _ _ _ ctx body :: r => inter_nonempty (fvars ctx) S || shadowing_risk codata body S || go r
         end) cls
      || shadowing_risk codata scrut
           ((fix go (l : list fclause) : list string :=
               match l with
               | [] => []
               | FClause _ _ _ ctx body :: r => remove_all (fvars ctx) (fv_fterm body ++ S) ++ go r
               end) cls)
  | FNew cls _ =>
      (fix go (l : list fclause) : bool :=
         match l with
         | [] => false
         | FClause _ _ _ _ body :: r => shadowing_risk codata body [] || go r
         end) cls
  | FLabel l t' _ => shadowing_risk codata t' [l]
  | FGoto l t' _ => shadowing_risk codata t' [l]
  | FExit a _ => shadowing_risk codata a []
  | FParen t' => shadowing_risk codata t' S
  end.
Definition shadowing_risk_prog (p : fcprog) : bool :=
  existsb (fun d => shadowing_risk (f_is_codata p) (fdbody d) []) (fcpdefs p).

(* [barendregt d]: the binders of a definition (let variables, clause parameters, labels) are
   pairwise distinct and distinct from its parameters.  Implies ~ shadowing_risk. *)
Fixpoint nodup_str (l : list string) : bool :=
  match l with [] => true | x :: r => negb (mem x r) && nodup_str r end.
Definition barendregt_def (d : fdef) : bool := nodup_str (used_binders (fdbody d) (fvars (fdctx d))).
Definition barendregt (p : fcprog) : bool := forallb barendregt_def (fcpdefs p).

(* ---------- effect_sequenced: the precondition of C02 ----------
   A term is [pure] when evaluating it cannot print, exit, or jump to a label bound outside of it,
   and every definition it calls is pure; a destructor call is pure only if no `new` clause and no
   by-name (codata-typed) binding or argument in the whole program has an effect.  (Termination is
   not decided; runs that exhaust the fuel are not compared.)  [effect_sequenced p]: every argument
   of a call, constructor, destructor and operator and every codata-typed let-bound term is pure. *)
Section Purity.
  Variable impure_defs : list string.
  Variable dtor_impure : bool.
  Fixpoint impure (bound_labels : list string) (t : fterm) : bool :=
    let any := fix go (l : list fterm) : bool :=
      match l with [] => false | y :: r => impure bound_labels y || go r end in
    match t with
    | FVar _ _ _ | FLit _ => false
    | FOp a _ b => impure bound_labels a || impure bound_labels b
    | FIfC _ a b t1 t2 _ =>
        impure bound_labels a || (match b with Some b' => impure bound_labels b' | None => false end)
        || impure bound_labels t1 || impure bound_labels t2
    | FPrint _ _ _ _ => true
    | FLet _ _ bound body _ => impure bound_labels bound || impure bound_labels body
    | FCall f args _ => mem f impure_defs || any args
    | FCtor _ args _ => any args
    | FDtor scrut _ _ args _ => dtor_impure || impure bound_labels scrut || any args
    | FCase scrut _ cls _ =>
        impure bound_labels scrut
        || (fix go (l : list fclause) : bool :=
              match l with [] => false | FClause _ _ _ _ body :: r => impure bound_labels body || go r end) cls
    | FNew _ _ => false
    | FLabel l t' _ => impure (l :: bound_labels) t'
    | FGoto l t' _ => negb (mem l bound_labels) || impure bound_labels t'
    | FExit _ _ => true
    | FParen t' => impure bound_labels t'
    end.
End Purity.

(* bodies that run "later": new-clauses and by-name terms (codata-typed let-bound terms / arguments) *)
Fixpoint delayed_bodies (codata : fty -> bool) (t : fterm) : list fterm :=
  let go_terms := fix go (l : list fterm) : list fterm :=
    match l with
    | [] => []
    | y :: r => (if match fterm_type y with Some ty => codata ty | None => false end then [y] else [])
                ++ delayed_bodies codata y ++ go r
    end in
  let go_cls := fix go (l : list fclause) (is_new : bool) : list fterm :=
    match l with
    | [] => []
    | FClause _ _ _ _ body :: r => (if is_new then [body] else []) ++ delayed_bodies codata body ++ go r is_new
    end in
  match t with
  | FVar _ _ _ | FLit _ => []
  | FOp a _ b => delayed_bodies codata a ++ delayed_bodies codata b
  | FIfC _ a b t1 t2 _ =>
      delayed_bodies codata a ++ (match b with Some b' => delayed_bodies codata b' | None => [] end)
      ++ delayed_bodies codata t1 ++ delayed_bodies codata t2
  | FPrint _ a next _ => delayed_bodies codata a ++ delayed_bodies codata next
  | FLet _ vty bound body _ =>
      (if codata vty then [bound] else []) ++ delayed_bodies codata bound ++ delayed_bodies codata body
  | FCall _ args _ => go_terms args
  | FCtor _ args _ => go_terms args
  | FDtor scrut _ _ args _ => delayed_bodies codata scrut ++ go_terms args
  | FCase scrut _ cls _ => delayed_bodies codata scrut ++ go_cls cls false
  | FNew cls _ => go_cls cls true
  | FLabel _ t' _ => delayed_bodies codata t'
  | FGoto _ t' _ => delayed_bodies codata t'
  | FExit a _ => delayed_bodies codata a
  | FParen t' => delayed_bodies codata t'
  end.

Fixpoint impure_fix (fuel : nat) (p : fcprog) (dtor_impure : bool) (acc : list string) : list string :=
  match fuel with
  | O => acc
  | S fuel' =>
      let acc' := fold_left (fun acc d => if mem (fdname d) acc then acc
                                          else if impure acc dtor_impure [] (fdbody d) then fdname d :: acc else acc)
                            (fcpdefs p) acc in
      if Nat.eqb (List.length acc') (List.length acc) then acc else impure_fix fuel' p dtor_impure acc'
  end.

Section Sequenced.
  Variable codata : fty -> bool.
  Variable impure_defs : list string.
  Variable dtor_impure : bool.
  (* strict_let = true: the C02 precondition (codata-typed let-bound terms are pure); false: only the ARGUMENT positions
     must be pure - what C01 needs, whose source semantics fixes by-name evaluation of codata bindings *)
  Variable strict_let : bool.
  Let imp := impure impure_defs dtor_impure [].
  Fixpoint sequenced (t : fterm) : bool :=
    let args_ok := fix go (l : list fterm) : bool :=
      match l with [] => true | y :: r => negb (imp y) && sequenced y && go r end in
    let cls_ok := fix go (l : list fclause) : bool :=
      match l with [] => true | FClause _ _ _ _ body :: r => sequenced body && go r end in
    match t with
    | FVar _ _ _ | FLit _ => true
    | FOp a _ b => negb (imp a) && negb (imp b) && sequenced a && sequenced b
    | FIfC _ a b t1 t2 _ =>
        sequenced a && (match b with Some b' => sequenced b' | None => true end) && sequenced t1 && sequenced t2
    | FPrint _ a next _ => sequenced a && sequenced next
    | FLet _ vty bound body _ =>
        (if codata vty && strict_let then negb (imp bound) else true) && sequenced bound && sequenced body
    | FCall _ args _ => args_ok args
    | FCtor _ args _ => args_ok args
    | FDtor scrut _ _ args _ => sequenced scrut && args_ok args
    | FCase scrut _ cls _ => sequenced scrut && cls_ok cls
    | FNew cls _ => cls_ok cls
    | FLabel _ t' _ => sequenced t'
    | FGoto _ t' _ => sequenced t'
    | FExit a _ => sequenced a
    | FParen t' => sequenced t'
    end.
End Sequenced.

Definition effect_sequenced (p : fcprog) : bool :=
  let codata := f_is_codata p in
  let n := S (List.length (fcpdefs p)) in
  (* first pass: assume destructor calls pure and find the impure definitions; if under that
     assumption some delayed body is impure, destructor calls count as impure (otherwise the
     assumption is consistent: nothing a destructor can run has an effect) *)
  let imp0 := impure_fix n p false [] in
  let delayed := flat_map (fun d => delayed_bodies codata (fdbody d)) (fcpdefs p) in
  let dtor_impure := existsb (impure imp0 false []) delayed in
  let imp := if dtor_impure then impure_fix n p true [] else imp0 in
  forallb (fun d => sequenced codata imp dtor_impure true (fdbody d)) (fcpdefs p).
Definition args_effect_free (p : fcprog) : bool :=
  let codata := f_is_codata p in
  let n := S (List.length (fcpdefs p)) in
  let imp0 := impure_fix n p false [] in
  let delayed := flat_map (fun d => delayed_bodies codata (fdbody d)) (fcpdefs p) in
  let dtor_impure := existsb (impure imp0 false []) delayed in
  let imp := if dtor_impure then impure_fix n p true [] else imp0 in
  forallb (fun d => sequenced codata imp dtor_impure false (fdbody d)) (fcpdefs p).

(* ---------- goto_type_mismatch: the second defect class ----------
   The checker annotates `goto a (t)` with the type EXPECTED of the goto expression
   (fun/src/syntax/terms/goto.rs: `self.ty = Some(expected.clone())`), and fun2core uses that
   annotation as the type of the covariable occurrence `a`.  When it differs from the type with
   which `a` is bound (label, consumer parameter, clause parameter), `typed_free_vars` does not
   recognise the occurrence as bound (a binder removes only the identical binding), so a shared
   continuation containing the goto gets a spurious parameter `a` that may be unbound at the call.
   [goto_type_mismatch env t]: some goto in t targets a covariable whose binding type differs from
   the goto's annotation.  env: covariables in scope with their types (None = shadowed by a
   producer binder). *)
Fixpoint lookup_ty (env : list (string * option fty)) (x : string) : option (option fty) :=
  match env with
  | [] => None
  | (y, t) :: r => if String.eqb y x then Some t else lookup_ty r x
  end.
Definition env_of_ctx (c : fctx) (env : list (string * option fty)) : list (string * option fty) :=
  rev_append (map (fun b => (fbvar b, match fbchi b with FCns => Some (fbty b) | FPrd => None end)) c) env.
Fixpoint goto_type_mismatch (env : list (string * option fty)) (t : fterm) : bool :=
  let any := fix go (l : list fterm) : bool :=
    match l with [] => false | y :: r => goto_type_mismatch env y || go r end in
  let any_cls := fix go (l : list fclause) : bool :=
    match l with
    | [] => false
    | FClause _ _ _ ctx body :: r => goto_type_mismatch (env_of_ctx ctx env) body || go r
    end in
  match t with
  | FVar _ _ _ | FLit _ => false
  | FOp a _ b => goto_type_mismatch env a || goto_type_mismatch env b
  | FIfC _ a b t1 t2 _ =>
      goto_type_mismatch env a || (match b with Some b' => goto_type_mismatch env b' | None => false end)
      || goto_type_mismatch env t1 || goto_type_mismatch env t2
  | FPrint _ a next _ => goto_type_mismatch env a || goto_type_mismatch env next
  | FLet v _ bound body _ => goto_type_mismatch env bound || goto_type_mismatch ((v, None) :: env) body
  | FCall _ args _ => any args
  | FCtor _ args _ => any args
  | FDtor scrut _ _ args _ => goto_type_mismatch env scrut || any args
  | FCase scrut _ cls _ => goto_type_mismatch env scrut || any_cls cls
  | FNew cls _ => any_cls cls
  | FLabel l t' ty => goto_type_mismatch ((l, ty) :: env) t'
  | FGoto l t' ty =>
      (match lookup_ty env l, ty with
       | Some (Some lty), Some gty => negb (fty_eqb lty gty)
       | _, _ => false
       end) || goto_type_mismatch env t'
  | FExit a _ => goto_type_mismatch env a
  | FParen t' => goto_type_mismatch env t'
  end.
Definition goto_type_mismatch_prog (p : fcprog) : bool :=
  existsb (fun d => goto_type_mismatch (env_of_ctx (fdctx d) []) (fdbody d)) (fcpdefs p).

(* calls_main / calls_main_prog (the detector of the former finding call-to-main; since fix f929eb7 part of the
   translation itself): see the section program.rs above *)

(* the witness (corpus/fun/call_main_nontail.sc as the type checker annotates it; tied to the real
   CheckedProgram by modelrun like capture_witness) *)
Definition call_main_witness : fcprog :=
  mkfcprog [] []
    [mkfdef "main" [mkfb "n" FPrd FI64] FI64
       (FIfC FEq (FVar "n" (Some FI64) (Some FPrd)) None
          (FLit 7)
          (FPrint true (FVar "n" (Some FI64) (Some FPrd))
             (FLet "r" FI64 (FCall "main" [FLit 0] (Some FI64))
                (FPrint true (FOp (FVar "r" (Some FI64) (Some FPrd)) FSum (FLit 100))
                   (FOp (FVar "r" (Some FI64) (Some FPrd)) FSum (FLit 1)) (Some FI64))
                (Some FI64))
             (Some FI64))
          (Some FI64))].

(* ---------- the capture witness (corpus/fun/capture1.sc as the type checker annotates it).
   modelrun compares this value with the real CheckedProgram of that file on every run; the
   theorem fun2core_capture_refuted is about this value. ---------- *)
Definition ty_list_i64 : fty := FDecl "List" [FI64].
Definition v_prd (x : string) (t : fty) : fterm := FVar x (Some t) (Some FPrd).

Definition capture_witness : fcprog :=
  mkfcprog
    [mkfdata "List[i64]" []
       [mkfctor "Nil" []; mkfctor "Cons" [mkfb "x" FPrd FI64; mkfb "xs" FPrd ty_list_i64]]]
    []
    [mkfdef "f" [mkfb "x" FPrd FI64; mkfb "l" FPrd ty_list_i64] FI64
       (FLet "y" FI64
          (FCase (v_prd "l" ty_list_i64) [FI64]
             [FClause FData "Nil" [] [] (FLit 0);
              FClause FData "Cons" ["x"; "xs"] [mkfb "x" FPrd FI64; mkfb "xs" FPrd ty_list_i64] (v_prd "x" FI64)]
             (Some FI64))
          (FOp (v_prd "y" FI64) FSum (v_prd "x" FI64))
          (Some FI64));
     mkfdef "main" [] FI64
       (FPrint true
          (FCall "f" [FLit 5; FCtor "Cons" [FLit 7; FCtor "Nil" [] (Some ty_list_i64)] (Some ty_list_i64)] (Some FI64))
          (FLit 0) (Some FI64))].


(* ---------- the first-order integer fragment of the theorem fun2core_correct_partial ----------
   [iexp]: literals, i64 variables, operators, parentheses.  [islf]: non-codata `let` of an
   expression, print, exit, conditionals on expressions, parentheses, expressions. *)
Fixpoint iexp (t : fterm) : bool :=
  match t with
  | FLit _ => true
  | FVar _ (Some FI64) _ => true
  | FOp a _ b => iexp a && iexp b
  | FParen t' => iexp t'
  | _ => false
  end.
Fixpoint islf (t : fterm) : bool :=
  match t with
  | FLet _ FI64 bound body _ => iexp bound && islf body
  | FPrint _ a next _ => iexp a && islf next
  | FExit a (Some _) => iexp a
  | FIfC _ a b t1 t2 _ =>
      iexp a && (match b with Some b' => iexp b' | None => true end) && islf t1 && islf t2
  | FParen t' => islf t'
  | _ => iexp t
  end.

Definition main_in_fragment (p : fcprog) : bool :=
  match find (fun d => String.eqb (fdname d) "main") (fcpdefs p) with
  | Some d => islf (fdbody d) && nodup_str (map fdname (fcpdefs p))
  | None => false
  end.

(* ---------- the witness of the second defect class (corpus/fun/c02_unbound_covar.sc as the type
   checker annotates it; tied to the real CheckedProgram by modelrun like capture_witness) ---------- *)
Definition ty_box : fty := FDecl "Box" [].
Definition cl_data (x : string) (ctx : fctx) (body : fterm) : fclause := FClause FData x (fvars ctx) ctx body.
Definition goto_witness : fcprog :=
  mkfcprog
    [mkfdata "Box" [] [mkfctor "A" [mkfb "v" FPrd FI64]; mkfctor "E" [mkfb "k" FCns FI64]]]
    []
    [mkfdef "h" [mkfb "b" FPrd ty_box] ty_box
       (FCase
          (FParen
             (FCase (v_prd "b" ty_box) []
                [cl_data "A" [mkfb "v" FPrd FI64] (FCtor "A" [FOp (v_prd "v" FI64) FSum (FLit 1)] (Some ty_box));
                 cl_data "E" [mkfb "j" FCns FI64] (FCtor "A" [FLit 0] (Some ty_box))]
                (Some ty_box)))
          []
          [cl_data "A" [mkfb "v" FPrd FI64] (FCtor "A" [FOp (v_prd "v" FI64) FSum (FLit 2)] (Some ty_box));
           cl_data "E" [mkfb "k" FCns FI64] (FGoto "k" (FLit 3) (Some ty_box))]
          (Some ty_box));
     mkfdef "main" [] FI64
       (FPrint true
          (FCase (FCall "h" [FCtor "A" [FLit 1] (Some ty_box)] (Some ty_box)) []
             [cl_data "A" [mkfb "v" FPrd FI64] (v_prd "v" FI64);
              cl_data "E" [mkfb "k" FCns FI64] (FLit 0)]
             (Some FI64))
          (FLit 0) (Some FI64))].
