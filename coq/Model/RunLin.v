(* modelrun command "lin": Rust `Prog::linearize` against Model/Linearize.v, plus the executable form
   of C05 on the Rust output (lin_check; named machine on the input vs linear machine on the output).
   Case: (case k (in <src> <prog before> (<arg tuple> ...)) <prog after | (PANIC msg)>) *)
From Coq Require Import List ZArith NArith String Ascii Bool.
From SCC Require Import Base.Sexp Lang.AxSyn Sem.AxSem Model.Linearize Model.LinCheck Model.RunBase.
Import ListNotations.
Open Scope string_scope.

Fixpoint exists_stmt (P : stmt -> bool) (s : stmt) : bool :=
  let ex := fix go (cls : list (ident * ctx * stmt)) : bool :=
    match cls with [] => false | (_, _, b) :: r => exists_stmt P b || go r end in
  P s ||
  match s with
  | Substitute _ next | Let _ _ _ _ next | Literal _ _ next | Op _ _ _ _ next | PrintI64 _ _ next => exists_stmt P next
  | Switch _ _ cls => ex cls
  | Create _ _ _ cls next => ex cls || exists_stmt P next
  | IfC _ _ _ t e => exists_stmt P t || exists_stmt P e
  | Call _ _ | Invoke _ _ _ _ | Exit _ => false
  end.
(* some shape-sensitive statement (call, let, switch, create, invoke) was left without an explicit
   substitution in front of it: the "context is already right" branch of the pass was taken *)
Fixpoint exact_hit (after_subst : bool) (s : stmt) : bool :=
  let ex := fix go (cls : list (ident * ctx * stmt)) : bool :=
    match cls with [] => false | (_, _, b) :: r => exact_hit false b || go r end in
  match s with
  | Substitute _ next => exact_hit true next
  | Call _ _ | Invoke _ _ _ _ => negb after_subst
  | Let _ _ _ _ next => negb after_subst || exact_hit false next
  | Switch _ _ cls => negb after_subst || ex cls
  | Create _ _ _ cls next => negb after_subst || ex cls || exact_hit false next
  | Literal _ _ next | Op _ _ _ _ next | PrintI64 _ _ next => exact_hit false next
  | IfC _ _ _ t e => exact_hit false t || exact_hit false e
  | Exit _ => false
  end.
Definition is_create (s : stmt) := match s with Create _ _ _ _ _ => true | _ => false end.
Definition is_switch (s : stmt) := match s with Switch _ _ _ => true | _ => false end.
Definition is_subst (s : stmt) := match s with Substitute _ _ => true | _ => false end.
Definition prog_exists (P : stmt -> bool) (p : prog) : bool := existsb (fun d => exists_stmt P (dbody d)) (pdefs p).

(* longest context: parameters and explicit substitutions of the linearized program *)
Fixpoint max_ctx (s : stmt) : nat :=
  let mc := fix go (cls : list (ident * ctx * stmt)) : nat :=
    match cls with [] => O | (_, _, b) :: r => Nat.max (max_ctx b) (go r) end in
  match s with
  | Substitute re next => Nat.max (List.length re) (max_ctx next)
  | Let _ _ _ _ next | Literal _ _ next | Op _ _ _ _ next | PrintI64 _ _ next => max_ctx next
  | Switch _ _ cls => mc cls
  | Create _ _ _ cls next => Nat.max (mc cls) (max_ctx next)
  | IfC _ _ _ t e => Nat.max (max_ctx t) (max_ctx e)
  | Call _ _ | Invoke _ _ _ _ | Exit _ => O
  end.
Definition prog_max_ctx (p : prog) : nat :=
  fold_right (fun d acc => Nat.max (Nat.max (List.length (dctx d)) (max_ctx (dbody d))) acc) O (pdefs p).
Definition prog_size (p : prog) : nat := fold_right (fun d acc => (stmt_size (dbody d) + acc)%nat) O (pdefs p).

Definition bucket (bounds : list nat) (n : nat) : string :=
  n_to_string (N.of_nat (List.length (filter (fun b => Nat.leb b n) bounds))).

Definition lin_tags (src : string) (p out : prog) (runs : nat) (nofuel : bool) : string :=
  (if prog_exists is_subst out then "nt " else "plain ")
  ++ "src-" ++ src
  ++ " size" ++ bucket [10; 40; 150; 600]%nat (prog_size p)
  ++ (if prog_exists is_create p then " create" else " nocreate")
  ++ (if prog_exists is_switch p then " switch" else " noswitch")
  ++ " ctx" ++ bucket [5; 10; 20; 40]%nat (prog_max_ctx out)
  ++ (if existsb (fun d => exact_hit false (dbody d)) (pdefs out) then " exact" else " noexact")
  ++ " runs" ++ n_to_string (N.of_nat runs)
  ++ (if nofuel then " nofuel" else "").

(* disagreement messages: the text from the first differing character on, cut to a window (whole
   programs are hundreds of kilobytes) *)
Fixpoint skip_common (a b : string) (off : N) : string * string * N :=
  match a, b with
  | String x a', String y b' => if Ascii.eqb x y then skip_common a' b' (off + 1) else (a, b, off)
  | _, _ => (a, b, off)
  end.
Fixpoint take_str (n : nat) (s : string) : string :=
  match n, s with
  | S n', String c r => String c (take_str n' r)
  | _, _ => EmptyString
  end.
Definition diff_window (m r : string) : verdict :=
  let '(a, b, off) := skip_common m r 0 in
  VDiff ("@" ++ n_to_string off ++ ":" ++ take_str 500 a) ("@" ++ n_to_string off ++ ":" ++ take_str 500 b).

Definition named_fuel : nat := N.to_nat 20000%N.
Definition linear_fuel : nat := N.to_nat 40010%N.   (* at most one inserted substitute per statement *)

(* behaviour of the input on the named machine vs the given linearized program on the linear
   machine; Some msg on a disagreement; counts the compared runs *)
Fixpoint behaviour (p q : prog) (tuples : list (list Z)) (runs : nat) (nofuel : bool)
  : option string * nat * bool :=
  match tuples with
  | [] => (None, runs, nofuel)
  | a :: r =>
      let o1 := run_named named_fuel p a in
      match snd o1 with
      | OOutOfFuel => behaviour p q r runs true
      | OStuck _ => behaviour p q r runs nofuel   (* the source itself is not runnable: outside the property *)
      | _ =>
          let o2 := run_linear linear_fuel q a in
          if obs_eqb o1 o2 then behaviour p q r (S runs) nofuel
          else (Some ("args=" ++ show (sL sZ a) ++ " named=" ++ show (s_obs o1) ++ " linear=" ++ show (s_obs o2)), runs, nofuel)
      end
  end.

Definition lin_case (i r : sexp) : verdict :=
  match i with
  | L [A "in"; A src; pi; L tuples] =>
      match g_prog pi, omap (getL getZ) tuples with
      | Some p, Some tuples =>
          let model := linearize p in
          match r with
          | L (A "PANIC" :: _) =>
              if prog_has_subst p then VOk ("panic-on-substitute src-" ++ src)
              else diff_window (show (s_prog model)) (show r)
          | _ =>
              match g_prog r with
              | None => VBad "output"
              | Some q =>
                  let m := show (s_prog model) in
                  let rs := show (s_prog q) in
                  let same := String.eqb m rs in
                  if negb (prog_ok p) then
                    (* outside the hypotheses of C05: only the correspondence is judged *)
                    if same then VOk ("pre-fail src-" ++ src) else diff_window m rs
                  else if negb (lin_check_prog q) then
                    VViol ("class=not-linear in definition " ++ first_bad_def q ++ " of the implementation's output")
                  else
                    match behaviour p q tuples 0 false with
                    | (Some msg, _, _) => VViol ("class=behaviour-changed " ++ msg)
                    | (None, runs, nofuel) =>
                        if same then VOk (lin_tags src p q runs nofuel) else diff_window m rs
                    end
              end
          end
      | _, _ => VBad "input"
      end
  | _ => VBad "input-shape"
  end.
Definition run_lin : string -> string := run_cases lin_case.
