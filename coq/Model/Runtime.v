(* C20: the runtime contract.  Gallina models of
     - lang/driver/infrastructure/io.c            (print_i64, println_i64)
     - lang/driver/infrastructure/driver-template.c as instantiated by driver::generate_c_driver
     - libc atoll on the strings the property speaks about (glibc behaviour outside that domain)
     - move_arguments / setup of axcut2x86_64 and axcut2aarch64 (into_routine.rs)
   Bytes are numbers 0..255 (Z); machine integers are Z with the wrap-around written out.
   No proofs here (Proof/RuntimeProof.v). *)
From Coq Require Import List ZArith NArith String Ascii Bool DecimalString.
From SCC Require Import Generated.Constants.
Import ListNotations.
Open Scope Z_scope.

(* ------------------------------------------------------------------ *)
(* machine arithmetic                                                  *)
(* ------------------------------------------------------------------ *)
Definition u64 (x : Z) : Z := x mod 2 ^ 64.                       (* value of x as uint64_t *)
Definition i64_of_bits (x : Z) : Z := (x + 2 ^ 63) mod 2 ^ 64 - 2 ^ 63.  (* the 64 bits read as int64_t *)
Definition i32_of_bits (x : Z) : Z := (x + 2 ^ 31) mod 2 ^ 32 - 2 ^ 31.  (* low 32 bits read as C int *)
Definition char_of (x : Z) : Z := x mod 256.                      (* byte stored by `*p = x` *)
Definition in_i64 (v : Z) : Prop := - 2 ^ 63 <= v < 2 ^ 63.

(* ------------------------------------------------------------------ *)
(* a C array of bytes with bounds-checked stores                       *)
(* ------------------------------------------------------------------ *)
Record cbuf := { data : list Z; oob : bool }.    (* oob: a store fell outside the array (undefined behaviour) *)

Fixpoint upd (l : list Z) (i : nat) (c : Z) : list Z :=
  match l, i with
  | [], _ => []
  | _ :: r, O => c :: r
  | x :: r, S j => x :: upd r j c
  end.

Definition store (b : cbuf) (i : Z) (c : Z) : cbuf :=
  if (0 <=? i) && (i <? Z.of_nat (List.length (data b)))
  then {| data := upd (data b) (Z.to_nat i) c; oob := oob b |}
  else {| data := data b; oob := true |}.

(* write(fd, buf + from, count): the bytes handed to the kernel *)
Definition write_bytes (b : cbuf) (from count : Z) : list Z :=
  firstn (Z.to_nat count) (skipn (Z.to_nat from) (data b)).

(* ------------------------------------------------------------------ *)
(* io.c                                                                *)
(* ------------------------------------------------------------------ *)
(*  do { prev_value = magnitude; magnitude /= 10; start--;
         *start = '0' + (prev_value - magnitude * 10); } while (magnitude);
    all of it in uint64_t.  One unit of fuel per iteration; None = fuel exhausted. *)
Fixpoint digit_loop (fuel : nat) (magnitude : Z) (b : cbuf) (start : Z) : option (cbuf * Z) :=
  match fuel with
  | O => None
  | S f =>
      let prev_value := magnitude in
      let magnitude := magnitude / 10 in
      let start := start - 1 in
      let b := store b start (char_of (u64 (48 + u64 (prev_value - u64 (magnitude * 10))))) in
      if magnitude =? 0 then Some (b, start) else digit_loop f magnitude b start
  end.

Definition print_fuel : nat := 20.

Record pout := {
  bytes : list Z;        (* what write() receives *)
  final_start : Z;       (* index of `start` in buf at the time of the write *)
  overrun : bool;        (* some store was outside buf *)
  fuel_ok : bool         (* the loop ended within print_fuel iterations *)
}.

(* `line` = false: print_i64, buf[MAX_DIGITS_INT];  true: println_i64, buf[MAX_DIGITS_INT + 1] with
   buf[MAX_DIGITS_INT] = '\n'.  `init` is the (indeterminate) initial contents of buf. *)
Definition buf_size (line : bool) : Z := MAX_DIGITS_INT + (if line then 1 else 0).

Definition print_gen (line : bool) (init : list Z) (value : Z) : pout :=
  let b := {| data := init; oob := false |} in
  let start := MAX_DIGITS_INT in                       (* char *start = &buf[MAX_DIGITS_INT]; *)
  let b := if line then store b start 10 else b in     (* *start = '\n'; *)
  let negative := value <? 0 in
  let magnitude := u64 value in                        (* (uint64_t)value *)
  let magnitude := if negative then u64 (0 - magnitude) else magnitude in
  match digit_loop print_fuel magnitude b start with
  | None => {| bytes := []; final_start := start; overrun := oob b; fuel_ok := false |}
  | Some (b, start) =>
      let start' := if negative then start - 1 else start in
      let b := if negative then store b start' 45 else b in
      {| bytes := write_bytes b start' (MAX_DIGITS_INT - start' + (if line then 1 else 0));
         final_start := start'; overrun := oob b; fuel_ok := true |}
  end.

Definition zero_buf (line : bool) : list Z := repeat 0 (Z.to_nat (buf_size line)).
Definition print_i64 (v : Z) : pout := print_gen false (zero_buf false) v.
Definition println_i64 (v : Z) : pout := print_gen true (zero_buf true) v.

(* ------------------------------------------------------------------ *)
(* the specification side: decimal notation, taken from Coq's library  *)
(* ------------------------------------------------------------------ *)
Definition byte_of_ascii (a : ascii) : Z := Z.of_N (N_of_ascii a).
Fixpoint bytes_of_string (s : string) : list Z :=
  match s with EmptyString => [] | String a r => byte_of_ascii a :: bytes_of_string r end.
Definition ascii_of_byte (b : Z) : ascii := ascii_of_N (Z.to_N b).
Fixpoint string_of_bytes (l : list Z) : string :=
  match l with [] => EmptyString | b :: r => String (ascii_of_byte b) (string_of_bytes r) end.

(* sign, then most significant digit first, no leading zeros: Coq's own Z -> decimal string *)
Definition decimal (v : Z) : list Z := bytes_of_string (NilZero.string_of_int (Z.to_int v)).

(* ------------------------------------------------------------------ *)
(* atoll (glibc: strtoll(s, NULL, 10)): white space, optional sign, digits; saturating *)
(* ------------------------------------------------------------------ *)
Definition is_space (c : Z) : bool := (c =? 32) || ((9 <=? c) && (c <=? 13)).
Fixpoint skip_space (s : list Z) : list Z :=
  match s with c :: r => if is_space c then skip_space r else s | [] => [] end.
Fixpoint atoll_digits (s : list Z) (acc : Z) : Z :=
  match s with
  | c :: r => if (48 <=? c) && (c <=? 57) then atoll_digits r (acc * 10 + (c - 48)) else acc
  | [] => acc
  end.
Definition clamp_i64 (v : Z) : Z := Z.max (- 2 ^ 63) (Z.min (2 ^ 63 - 1) v).
Definition atoll (s : list Z) : Z :=
  match skip_space s with
  | 45 :: r => clamp_i64 (- atoll_digits r 0)
  | 43 :: r => clamp_i64 (atoll_digits r 0)
  | r => clamp_i64 (atoll_digits r 0)
  end.

(* ------------------------------------------------------------------ *)
(* driver-template.c instantiated for n parameters                     *)
(* ------------------------------------------------------------------ *)
(* ERROR_ARGUMENTS, written with sizeof(ERROR_ARGUMENTS): the terminating NUL is written too *)
Definition error_arguments : list Z := bytes_of_string "wrong number of arguments" ++ [10; 0].

Record dres := {
  d_output : list Z;           (* bytes on stdout *)
  d_calls : list (list Z);     (* argument lists asm_main was called with (heap pointer omitted) *)
  d_main_returns : Z;          (* value of `return` in main, a C int *)
  d_status : Z                 (* exit status seen by the parent: exit(r) reports r & 0377 *)
}.

(* asm_main: arguments -> (bytes it prints, 64-bit contents of the return register).
   argv includes argv[0]; argc = length argv. *)
Definition driver (n : nat) (asm_main : list Z -> list Z * Z) (argv : list (list Z)) : dres :=
  let argc := Z.of_nat (List.length argv) in
  if negb (argc =? 1 + Z.of_nat n) then
    {| d_output := error_arguments; d_calls := []; d_main_returns := 1; d_status := 1 mod 256 |}
  else
    let args := map atoll (firstn n (tl argv)) in       (* atoll(argv[1]) .. atoll(argv[n]) *)
    let '(out, rax) := asm_main args in
    let val := i32_of_bits rax in                       (* int val = asm_main(...), prototype returns int *)
    {| d_output := out; d_calls := [args]; d_main_returns := val; d_status := val mod 256 |}.

(* ------------------------------------------------------------------ *)
(* move_arguments / setup (into_routine.rs), registers as numbers      *)
(* ------------------------------------------------------------------ *)
Definition regfile := Z -> Z.
Definition rset (rf : regfile) (d v : Z) : regfile := fun r => if r =? d then v else rf r.

Fixpoint exec_moves (l : list (Z * Z)) (rf : regfile) : regfile :=
  match l with [] => rf | (d, s) :: r => exec_moves r (rset rf d (rf s)) end.

(* (d, Some s): d := s;  (d, None): d := some value we do not track (k-th instruction writes havoc k) *)
Fixpoint exec_effects (l : list (Z * option Z)) (havoc : nat -> Z) (k : nat) (rf : regfile) : regfile :=
  match l with
  | [] => rf
  | (d, Some s) :: r => exec_effects r havoc (S k) (rset rf d (rf s))
  | (d, None) :: r => exec_effects r havoc (S k) (rset rf d (havoc k))
  end.

Definition x86_arg (n : nat) : Z := nth n X86C.arg_regs (-1).       (* config.rs arg(n) *)

(* axcut2x86_64/src/into_routine.rs move_arguments, arm by arm; None = panic *)
Fixpoint x86_move_arguments (n : nat) : option (list (Z * Z)) :=
  match n with
  | O => Some []
  | S k =>
      let dst := match n with
                 | 1%nat => Some 5 | 2%nat => Some 7 | 3%nat => Some 9 | 4%nat => Some 11 | 5%nat => Some 13
                 | _ => None end in
      match dst, x86_move_arguments k with
      | Some d, Some rest => Some ((d, x86_arg n) :: rest)
      | _, _ => None
      end
  end.

(* axcut2aarch64/src/into_routine.rs move_arguments *)
Fixpoint a64_move_arguments (n : nat) : option (list (Z * Z)) :=
  match n with
  | O => Some []
  | S k =>
      let mv := match n with
                | 1%nat => Some (5, 1) | 2%nat => Some (7, 2) | 3%nat => Some (9, 3) | 4%nat => Some (11, 4)
                | 5%nat => Some (13, 5) | 6%nat => Some (15, 6) | 7%nat => Some (17, 7)
                | _ => None end in
      match mv, a64_move_arguments k with
      | Some m, Some rest => Some (m :: rest)
      | _, _ => None
      end
  end.

(* integer half of environment position i: RESERVED + 2 i + 1 (utils.rs temporary_from_position) *)
Definition x86_param_reg (i : nat) : Z := X86C.RESERVED + 2 * Z.of_nat i + 1.
Definition a64_param_reg (i : nat) : Z := A64C.RESERVED + 2 * Z.of_nat i + 1.

(* the calling conventions, by register name *)
Definition sysv_arg_names : list string := ["rdi"; "rsi"; "rdx"; "rcx"; "r8"; "r9"]%string.
Definition aapcs64_arg_names : list string := ["X0"; "X1"; "X2"; "X3"; "X4"; "X5"; "X6"; "X7"]%string.
