(* C11, backend-generic part of the `subst` command: what a back end has to provide (its `backend`
   instance, reader/printer of its Code, a state builder and a runner over its ISA semantics), and
   the executable form of the property "an explicit substitution is compiled as ONE simultaneous
   assignment + the reference-count updates, and changes nothing else", evaluated on the
   instructions the Rust code generator emitted. *)
From Coq Require Import List ZArith NArith String Bool.
From SCC Require Import Base.Sexp Lang.AxSyn Model.ParMoves Model.Backend Model.RunBase.
Import ListNotations.
Open Scope list_scope.
Open Scope string_scope.

Record sbackend := {
  sb_Code : Type;
  sb_Temp : Type;
  sb_State : Type;
  sb_B : backend sb_Code sb_Temp;
  sb_read : sexp -> option (list sb_Code);          (* Rust Debug shape, comments dropped *)
  sb_show : sb_Code -> sexp;
  sb_is_spill : sb_Temp -> bool;
  sb_block_size : Z;                                (* bytes of one heap block *)
  sb_heap_base : Z;
  (* initial ISA state: the given temporaries hold the given values, the given heap words are set,
     FREE holds the given address; every scratch location / other register holds a marker *)
  sb_init : list (sb_Temp * Z) -> list (Z * Z) -> Z -> sb_State;
  (* run the code from its first instruction until control reaches the given label (the target of
     the final jump); None = arrived there, Some why = fault / fuel / wrong exit *)
  sb_run : list sb_Code -> string -> sb_State -> option string * sb_State;
  sb_get : sb_State -> sb_Temp -> option Z;
  sb_heap : sb_State -> Z -> Z;
  sb_heap_dom : sb_State -> list Z;                 (* addresses with an explicit heap entry *)
  sb_free : sb_State -> option Z;
  (* everything that is neither a variable temporary, nor the heap, nor FREE, nor a documented
     scratch location: stack pointer, HEAP register, the stack outside the spill area, output *)
  sb_frame : sb_State -> sb_State -> option string;
}.

Section Check.
Variable SB : sbackend.
Notation B := (sb_B SB).
Notation Temp := (sb_Temp SB).

Definition tpos (n : tnum) (i : nat) : res Temp :=
  b_temporary_from_position B (2 * N.of_nat i + tnum_n n).

Definition is_obj (b : binding) : bool := match bchi b with Ext => false | _ => true end.

(* index of the source of every new variable *)
Definition sources (context : ctx) (re : list (binding * ident)) : option (list nat) :=
  omap (fun p : binding * ident => option_map N.to_nat (position_of context (idn (snd p)) 0)) re.

(* ---------- scenarios: what the object variables point to ---------- *)
(* the k-th object variable (in context order) points to block `fst`, or is null (None);
   block b lives at heap_base + block_size * (b + 1) and its header holds `hdr b` *)
Definition scenario := (nat -> option nat) * (nat -> Z) : Type.
Definition scenarios : list (string * scenario) :=
  [ ("unique", (fun k => Some k, fun _ => 0%Z));
    ("shared", (fun k => Some k, fun b => Z.of_nat (1 + Nat.modulo b 3)));
    ("nulls", (fun k => if Nat.even k then None else Some k, fun b => Z.of_nat (Nat.modulo (Nat.div b 2) 2)));
    ("alias", (fun k => Some (Nat.div k 2), fun b => Z.of_nat (1 + Nat.modulo b 2))) ].

Definition block_addr (b : nat) : Z := (sb_heap_base SB + sb_block_size SB * (Z.of_nat b + 1))%Z.
Definition free0 : Z := (sb_heap_base SB + sb_block_size SB * 4000)%Z.
Definition marker (n : tnum) (i : nat) : Z := (1000 + 2 * Z.of_nat i + Z.of_N (tnum_n n))%Z.

(* object variables numbered in context order: list of (context index, object number) *)
Fixpoint number_objs (c : ctx) (i k : nat) : list (nat * nat) :=
  match c with
  | [] => []
  | b :: r => if is_obj b then (i, k) :: number_objs r (S i) (S k) else number_objs r (S i) k
  end.

Definition obj_ptr (sc : scenario) (objs : list (nat * nat)) (i : nat) : option (option nat) :=
  (* Some (Some b) = points to block b; Some None = null; None = not an object *)
  match find (fun p => Nat.eqb (fst p) i) objs with
  | Some (_, k) => Some (fst sc k)
  | None => None
  end.

Definition fst_value (sc : scenario) (objs : list (nat * nat)) (i : nat) : Z :=
  match obj_ptr sc objs i with
  | Some (Some b) => block_addr b
  | Some None => 0%Z
  | None => marker Fst i
  end.

Fixpoint nat_seq (start len : nat) : list nat := match len with O => [] | S l => start :: nat_seq (S start) l end.
Definition dedup_nat (l : list nat) : list nat :=
  fold_left (fun acc x => if existsb (Nat.eqb x) acc then acc else (acc ++ [x])%list) l [].

Definition blocks_of (sc : scenario) (objs : list (nat * nat)) : list nat :=
  dedup_nat (flat_map (fun p : nat * nat => match fst sc (snd p) with Some b => [b] | None => [] end) objs).

Definition init_temps (sc : scenario) (context : ctx) (objs : list (nat * nat)) : res (list (Temp * Z)) :=
  rmap (fun (p : nat * tnum) =>
          dor t <- tpos (snd p) (fst p);
          Ok (t, match snd p with Fst => fst_value sc objs (fst p) | Snd => marker Snd (fst p) end))
       (flat_map (fun i => [(i, Fst); (i, Snd)]) (nat_seq 0 (List.length context))).

Definition init_heap (sc : scenario) (blocks : list nat) : list (Z * Z) :=
  flat_map (fun b =>
              (block_addr b, snd sc b)
              :: map (fun w => ((block_addr b + 8 * Z.of_nat w)%Z, (9000 + 10 * Z.of_nat b + Z.of_nat w)%Z))
                     (nat_seq 1 (Z.to_nat (sb_block_size SB / 8) - 1))) blocks.

Definition count_targets (srcs : list nat) (i : nat) : nat := List.length (filter (Nat.eqb i) srcs).

Definition opt_z_eqb (a : option Z) (b : Z) : bool := match a with Some x => Z.eqb x b | None => false end.
Definition show_oz (a : option Z) : string := match a with Some x => z_to_string x | None => "undef" end.

(* follow the deferred-free list from FREE until the old FREE: it must visit exactly `pushed` *)
Fixpoint chain (st : sb_State SB) (fuel : nat) (cur : Z) (seen : list Z) : option (list Z) :=
  if Z.eqb cur free0 then Some seen else
  match fuel with
  | O => None
  | S f => if existsb (Z.eqb cur) seen then None else chain st f (sb_heap SB st cur) (cur :: seen)
  end.

Definition first_some {X} (l : list X) (f : X -> option string) : option string :=
  fold_left (fun acc x => match acc with Some _ => acc | None => f x end) l None.

Definition check_scenario (context : ctx) (re : list (binding * ident)) (srcs : list nat)
           (cs : list (sb_Code SB)) (exit_label : string) (nsc : string * scenario) : res (option string) :=
  let '(name, sc) := nsc in
  let objs := number_objs context 0 0 in
  let blocks := blocks_of sc objs in
  dor temps <- init_temps sc context objs;
  let heap0 := init_heap sc blocks in
  let st0 := sb_init SB temps heap0 free0 in
  let '(fault, st1) := sb_run SB cs exit_label st0 in
  let pre := "scenario=" ++ name ++ " " in
  match fault with
  | Some why => Ok (Some ("class=subst-fault " ++ pre ++ why))
  | None =>
      (* 1. every new variable holds what its source held *)
      dor v1 <- (fix go (j : nat) (ss : list nat) : res (option string) :=
                   match ss with
                   | [] => Ok None
                   | s :: r =>
                       dor ts <- tpos Snd j;
                       dor tf <- tpos Fst j;
                       let obj := match nth_error context s with Some b => is_obj b | None => false end in
                       if negb (opt_z_eqb (sb_get SB st1 ts) (marker Snd s)) then
                         Ok (Some ("class=subst-wrong-value " ++ pre ++ "new variable " ++ n_to_string (N.of_nat j)
                                   ++ " (second temporary) holds " ++ show_oz (sb_get SB st1 ts) ++ ", its source "
                                   ++ n_to_string (N.of_nat s) ++ " held " ++ z_to_string (marker Snd s)))
                       else if obj && negb (opt_z_eqb (sb_get SB st1 tf) (fst_value sc objs s)) then
                         Ok (Some ("class=subst-wrong-value " ++ pre ++ "new variable " ++ n_to_string (N.of_nat j)
                                   ++ " (first temporary) holds " ++ show_oz (sb_get SB st1 tf) ++ ", its source "
                                   ++ n_to_string (N.of_nat s) ++ " held " ++ z_to_string (fst_value sc objs s)))
                       else go (S j) r
                   end) 0 srcs;
      match v1 with
      | Some w => Ok (Some w)
      | None =>
          (* 2. reference counts: per block, header + sum over its referencing variables of (targets - 1);
                -1 = released: on the deferred-free list exactly once *)
          let final (b : nat) : Z :=
            fold_left (fun acc (p : nat * nat) =>
                         match fst sc (snd p) with
                         | Some b' => if Nat.eqb b b' then (acc + Z.of_nat (count_targets srcs (fst p)) - 1)%Z else acc
                         | None => acc
                         end) objs (snd sc b) in
          let pushed := map block_addr (filter (fun b => Z.eqb (final b) (-1)) blocks) in
          let bad_count := first_some blocks (fun b =>
            if Z.ltb (final b) (-1) then Some ("class=subst-bad-scenario block " ++ n_to_string (N.of_nat b))
            else if Z.eqb (final b) (-1) then None
            else if Z.eqb (sb_heap SB st1 (block_addr b)) (final b) then None
            else Some ("class=subst-refcount " ++ pre ++ "block " ++ n_to_string (N.of_nat b) ++ " header "
                       ++ z_to_string (snd sc b) ++ " became " ++ z_to_string (sb_heap SB st1 (block_addr b))
                       ++ ", expected " ++ z_to_string (final b))) in
          match bad_count with
          | Some w => Ok (Some w)
          | None =>
              let chain_ok :=
                match sb_free SB st1 with
                | None => false
                | Some f =>
                    match chain st1 (S (List.length pushed)) f [] with
                    | Some seen => Nat.eqb (List.length seen) (List.length pushed)
                                   && forallb (fun a => existsb (Z.eqb a) seen) pushed
                    | None => false
                    end
                end in
              if negb chain_ok then
                Ok (Some ("class=subst-refcount " ++ pre ++ "deferred-free list from FREE=" ++ show_oz (sb_free SB st1)
                          ++ " does not consist of exactly the released blocks " ++ show (sL sZ pushed)))
              else
                (* 3. nothing else: other heap words, frame *)
                let headers := map block_addr blocks in
                let addrs := (map fst heap0 ++ sb_heap_dom SB st1)%list in
                match first_some addrs (fun a =>
                        if existsb (Z.eqb a) headers then None
                        else if Z.eqb (sb_heap SB st1 a) (sb_heap SB st0 a) then None
                        else Some ("class=subst-clobber " ++ pre ++ "heap word " ++ z_to_string a ++ " changed from "
                                   ++ z_to_string (sb_heap SB st0 a) ++ " to " ++ z_to_string (sb_heap SB st1 a))) with
                | Some w => Ok (Some w)
                | None =>
                    match sb_frame SB st0 st1 with
                    | Some w => Ok (Some ("class=subst-clobber " ++ pre ++ w))
                    | None => Ok None
                    end
                end
          end
      end
  end.

Definition check_all (context : ctx) (re : list (binding * ident)) (srcs : list nat)
           (cs : list (sb_Code SB)) (exit_label : string) : res (option string) :=
  fold_left (fun acc nsc =>
               match acc with
               | Ok None => check_scenario context re srcs cs exit_label nsc
               | _ => acc
               end) scenarios (Ok None).

(* ---------- tags ---------- *)
Fixpoint cycle_path (fuel : nat) (tr : tree Temp) : option (list Temp) :=
  match fuel with O => None | S f =>
    match tr with
    | BackEdge _ => Some []
    | Node _ t cs =>
        fold_left (fun acc c => match acc with Some _ => acc | None => option_map (cons t) (cycle_path f c) end) cs None
    end end.

Definition forest_of (context : ctx) (re : list (binding * ident)) : option (list (root Temp)) :=
  match connections B (transpose re context) context (map fst re) with
  | Ok am => spanning_forest Temp (teqb B) (List.length (all_targets Temp am) + 2) am
  | Err _ => None
  end.

Definition shape_tags (context : ctx) (re : list (binding * ident)) (srcs : list nat) : string :=
  let k := List.length (filter (fun b => N.leb (idn (bvar b)) 100) context) in
  let n := List.length context - k in
  let m := List.length re - k in
  let idxs := nat_seq 0 (List.length context) in
  let cnt i := count_targets srcs i in
  let objs := filter (fun i => match nth_error context i with Some b => is_obj b | None => false end) idxs in
  let forest := match forest_of context re with Some f => f | None => [] end in
  let cyc := existsb (fun r => match r with StartNode _ _ cs => existsb (refers_back Temp) cs end) forest in
  let spillcyc :=
    existsb (fun r => match r with StartNode _ t cs =>
               match cycle_path 1000 (Node Temp t cs) with
               | Some p => Nat.leb 2 (List.length (filter (sb_is_spill SB) p))
               | None => false
               end end) forest in
  (if cyc then " cycle" else "") ++ (if spillcyc then " spillcycle" else "")
  ++ (if existsb (fun i => Nat.leb 2 (cnt i)) idxs then " fanout" else "")
  ++ (if existsb (fun i => Nat.leb 3 (cnt i)) idxs then " fanout3" else "")
  ++ (if existsb (fun i => Nat.eqb (cnt i) 0) objs then " erase" else "")
  ++ (if existsb (fun i => Nat.leb 2 (cnt i)) objs then " share" else "")
  ++ " k" ++ n_to_string (N.of_nat k)
  ++ " m" ++ (if Nat.ltb 5 m then "6+" else n_to_string (N.of_nat m))
  ++ " n" ++ (if Nat.ltb 5 n then "6+" else n_to_string (N.of_nat n)).

Definition describe (context : ctx) (srcs : list nat) : string :=
  " substitution: kinds=" ++ String.concat "" (map (fun b => if is_obj b then "O" else "I") context)
  ++ " sources=" ++ show (sL sNat srcs).

(* ---------- one case ---------- *)
Definition subst_case (sem : bool) (context : ctx) (re : list (binding * ident)) (lc : N) (r : sexp) : verdict :=
  let exit := ("k", 0%N) in
  let m := code_statement B [] (Substitute re (Call exit [])) context lc in
  let s_codes (cs : list (sb_Code SB)) := L (map (sb_show SB) cs) in
  match r with
  | L [A "PANIC"; Q msg] =>
      match m with
      | Err _ => VOk "panic-agree"
      | Ok (mc, _) =>
          (* the model produces code (enough temporaries, all sources bound): a panic or a crash of
             the code generator on such a substitution violates the property outright *)
          match sources context re with
          | Some srcs => VViol ("class=subst-crash the code generator failed with " ++ show r ++ " where the model emits "
                                ++ n_to_string (N.of_nat (List.length mc)) ++ " instructions;" ++ describe context srcs)
          | None => VDiff (show (s_codes mc)) (show r)
          end
      end
  | _ =>
      match sb_read SB r, sources context re with
      | Some cs, Some srcs =>
          match (if sem then check_all context re srcs cs (show_ident exit ++ "_") else Ok None) with
          | Ok (Some why) => VViol (why ++ describe context srcs)
          | Err e => VSkip ("state builder: " ++ e)
          | Ok None =>
              match m with
              | Ok (mc, _) =>
                  match cmp_sexp (s_codes mc) (s_codes cs) with
                  | VOk _ => VOk ((if Nat.ltb 1 (List.length cs) then "nt" else "trivial") ++ shape_tags context re srcs)
                  | v => v
                  end
              | Err e => VDiff ("(PANIC " ++ e ++ ")") (show (s_codes cs))
              end
          end
      | None, _ => VBad "rust output unreadable"
      | _, None => VBad "source of a new variable not in the context"
      end
  end.
End Check.
