(* The single extraction root: command dispatch of modelrun. *)
From Coq Require Import List String.
From SCC Require Import Base.Sexp Model.RunBase Model.RunPM Model.RunX86.
From SCC Require Import Base.Sexp Model.RunBase Model.RunPM Model.RunStages.
From SCC Require Import Model.RunFun2Core.
From SCC Require Import Model.RunRT.
From SCC Require Import Model.RunLin.
From SCC Require Import Base.Sexp Model.RunBase Model.RunCheck.
Open Scope string_scope.

Definition dispatch (cmd : string) (input : string) : string :=
  match cmd with
  | "pm" => run_pm input
  | "relay" => run_relay input
  | "lin" => run_lin input
  | "codegen-x86" => run_codegen_x86 input
  | "heap-x86" => run_heap_x86 input
  | "wf-x86" => run_wf_x86 input
  | "show-x86" => run_show_x86 input
  | "c10-x86" => run_c10_x86 input
  | "stages" => run_stages input
  | "fun2core" => run_fun2core input
  | "rt" => run_rt input
  | "check" => run_check input
  | _ => "BAD - unknown command " ++ cmd ++ nl
  end.
