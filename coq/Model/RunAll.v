(* The single extraction root: command dispatch of modelrun. *)
From Coq Require Import List String.
From SCC Require Import Base.Sexp Model.RunBase Model.RunPM Model.RunX86.
From SCC Require Import Base.Sexp Model.RunBase Model.RunPM Model.RunStages.
From SCC Require Import Base.Sexp Model.RunBase Model.RunRV.
From SCC Require Import Model.RunA64.
From SCC Require Import Base.Sexp Model.RunBase Model.RunShrink.
From SCC Require Import Model.RunFocus.
From SCC Require Import Model.RunFun2Core.
From SCC Require Import Model.RunSubst.
From SCC Require Import Model.RunRT.
From SCC Require Import Model.RunLin.
From SCC Require Import Base.Sexp Model.RunBase Model.RunCheck.
From SCC Require Import Model.RunFmt.
From SCC Require Import Model.RunHeapOps.
From SCC Require Import Model.RunHeapFull.
From SCC Require Import Model.RunC01.
From SCC Require Import Model.RunRobust.
From SCC Require Import Model.RunWtStages.
From SCC Require Import Model.RunSizes.
From SCC Require Import Model.RunHeapA64.
From SCC Require Import Model.RunHeapRV.
From SCC Require Import Model.RunHeapLock.
Open Scope string_scope.

Definition dispatch (cmd : string) (input : string) : string :=
  match cmd with
  | "pm" => run_pm input
  | "c01" => run_c01 input
  | "wt-stages" => run_wtstages input
  | "relay" => run_relay input
  | "lin" => run_lin input
  | "codegen-x86" => run_codegen_x86 input
  | "heap-x86" => run_heap_x86 input
  | "wf-x86" => run_wf_x86 input
  | "wf-a64" => run_wf_a64 input
  | "wf-rv" => run_wf_rv input
  | "show-x86" => run_show_x86 input
  | "c10-x86" => run_c10_x86 input
  | "stages" => run_stages input
  | "codegen-rv" => run_codegen_rv input
  | "sem-rv" => run_sem_rv input
  | "codegen-a64" => run_codegen_a64 input
  | "shrink" => run_shrink input
  | "shrink-why" => run_shrink_why input
  | "focus" => run_focus input
  | "heap-a64" => run_heap_a64 input
  | "fun2core" => run_fun2core input
  | "subst" => run_subst input
  | "subst-corr" => run_subst_corr input
  | "rt" => run_rt input
  | "check" => run_check input
  | "robust-lit" => run_robust_lit input
  | "fmt" => run_fmt input
  | "heapops-x86" => run_heapops_x86 input
  | "heapfull-x86" => run_heapfull_x86 input
  | "sizes" => run_sizes input
  | "c10-a64" => run_c10_a64 input
  | "show-heap-a64" => run_show_heap_a64 input
  | "heap-rv" => run_heap_rv input
  | "c10-rv" => run_c10_rv input
  | "heaplock-x86" => run_heaplock_x86 input
  | _ => "BAD - unknown command " ++ cmd ++ nl
  end.
