(* The single extraction root: command dispatch of modelrun. *)
From Coq Require Import List String.
From SCC Require Import Base.Sexp Model.RunBase Model.RunPM Model.RunX86.
From SCC Require Import Base.Sexp Model.RunBase Model.RunPM Model.RunStages.
From SCC Require Import Model.RunFocus.
From SCC Require Import Model.RunFun2Core.
Open Scope string_scope.

Definition dispatch (cmd : string) (input : string) : string :=
  match cmd with
  | "pm" => run_pm input
  | "codegen-x86" => run_codegen_x86 input
  | "stages" => run_stages input
  | "focus" => run_focus input
  | "fun2core" => run_fun2core input
  | _ => "BAD - unknown command " ++ cmd ++ nl
  end.
