(* The single extraction root: command dispatch of modelrun. *)
From Coq Require Import List String.
From SCC Require Import Base.Sexp Model.RunBase Model.RunPM Model.RunX86.
From SCC Require Import Base.Sexp Model.RunBase Model.RunPM Model.RunStages.
From SCC Require Import Model.RunA64.
From SCC Require Import Model.RunFun2Core.
From SCC Require Import Model.RunRT.
Open Scope string_scope.

Definition dispatch (cmd : string) (input : string) : string :=
  match cmd with
  | "pm" => run_pm input
  | "codegen-x86" => run_codegen_x86 input
  | "stages" => run_stages input
  | "codegen-a64" => run_codegen_a64 input
  | "heap-a64" => run_heap_a64 input
  | "fun2core" => run_fun2core input
  | "rt" => run_rt input
  | _ => "BAD - unknown command " ++ cmd ++ nl
  end.
