(* The single extraction root: command dispatch of modelrun. *)
From Coq Require Import List String.
From SCC Require Import Base.Sexp Model.RunBase Model.RunPM Model.RunStages.
Open Scope string_scope.

Definition dispatch (cmd : string) (input : string) : string :=
  match cmd with
  | "pm" => run_pm input
  | "stages" => run_stages input
  | _ => "BAD - unknown command " ++ cmd ++ nl
  end.
