(* Abstract model of the allocator of lang/axcut2{x86_64,aarch64,rv64}/src/memory.rs (identical on the
   three back ends): block-granular memory (header + pointer slots), the two free lists and the
   bump frontier; with the invariant of C09 phrased by counting and its preservation by every
   operation proved so far.  (Ported from the design-time spike, DESIGN.md Appendix D.) *)
From Coq Require Import List ZArith Lia Bool Permutation.
Import ListNotations.
Open Scope Z_scope.

(* ---------- abstract heap: only headers and pointer slots matter ---------- *)
Record block := { hdr : Z; ps : list Z }.
Definition zero_block := {| hdr := 0; ps := [] |}.
Definition mem := Z -> block.
Record st := { m : mem; heap : Z; free : Z; frontier : Z }.

Definition upd (mm : mem) (a : Z) (b : block) : mem := fun x => if x =? a then b else mm x.
Definition set_hdr (mm : mem) (a h : Z) : mem := upd mm a {| hdr := h; ps := ps (mm a) |}.
Definition set_ps (mm : mem) (a : Z) (p : list Z) : mem := upd mm a {| hdr := hdr (mm a); ps := p |}.

Lemma upd_same mm a b : upd mm a b a = b.
Proof. unfold upd. now rewrite Z.eqb_refl. Qed.
Lemma upd_other mm a b x : x <> a -> upd mm a b x = mm x.
Proof. intros; unfold upd. destruct (Z.eqb_spec x a); congruence. Qed.

(* ---------- the operations of memory.rs, abstractly ---------- *)
Definition erase (p : Z) (s : st) : st :=
  if p =? 0 then s
  else if hdr (m s p) =? 0
       then {| m := set_hdr (m s) p (free s); heap := heap s; free := p; frontier := frontier s |}
       else {| m := set_hdr (m s) p (hdr (m s p) - 1); heap := heap s; free := free s; frontier := frontier s |}.

Definition share (p n : Z) (s : st) : st :=
  if p =? 0 then s
  else {| m := set_hdr (m s) p (hdr (m s p) + n); heap := heap s; free := free s; frontier := frontier s |}.

Definition release (b : Z) (s : st) : st :=
  {| m := set_hdr (m s) b (heap s); heap := b; free := free s; frontier := frontier s |}.

Definition BLOCK := 64.

(* returns the acquired block and the new state *)
Definition acquire (s : st) : Z * st :=
  let r := heap s in
  let h' := hdr (m s r) in
  if negb (h' =? 0) then
    (r, {| m := set_hdr (m s) r 0; heap := h'; free := free s; frontier := frontier s |})
  else
    let h2 := free s in
    let f' := hdr (m s h2) in
    if f' =? 0 then
      (r, {| m := m s; heap := h2; free := h2 + BLOCK; frontier := h2 + BLOCK |})
    else
      let s1 := {| m := set_hdr (m s) h2 0; heap := h2; free := f'; frontier := frontier s |} in
      (r, fold_left (fun s c => erase c s) (ps (m s h2)) s1).

(* ---------- chains ---------- *)
Inductive chain (mm : mem) (stop : Z) : Z -> list Z -> Prop :=
| chain_nil : chain mm stop stop []
| chain_cons a l : a <> stop -> chain mm stop (hdr (mm a)) l -> chain mm stop a (a :: l).

(* ---------- the invariant, by counting ---------- *)
Definition refs (mm : mem) (R cl fl : list Z) : list Z := R ++ flat_map (fun x => ps (mm x)) (cl ++ fl).
Definition cnt (l : list Z) (b : Z) : Z := Z.of_nat (count_occ Z.eq_dec l b).

Record Inv (s : st) (R hl fl cl : list Z) : Prop := {
  i_hl : chain (m s) 0 (heap s) hl;
  i_hl_ne : hl <> [];
  i_fl : chain (m s) (frontier s) (free s) fl;
  i_nodup : NoDup (hl ++ fl ++ cl);
  i_below : forall a, In a (hl ++ fl ++ cl) -> 0 < a < frontier s;
  i_fresh : forall a, frontier s <= a -> m s a = zero_block;
  i_front : 0 < frontier s;
  i_rc : forall b, In b cl -> hdr (m s b) + 1 = cnt (refs (m s) R cl fl) b;
  i_nr : forall b, b <> 0 -> ~ In b cl -> cnt (refs (m s) R cl fl) b = 0;
}.

(* ---------- small facts ---------- *)
Lemma cnt_app l1 l2 b : cnt (l1 ++ l2) b = cnt l1 b + cnt l2 b.
Proof. unfold cnt. rewrite count_occ_app. lia. Qed.
Lemma cnt_cons a l b : cnt (a :: l) b = (if Z.eq_dec a b then 1 else 0) + cnt l b.
Proof. unfold cnt. cbn. destruct (Z.eq_dec a b); lia. Qed.
Lemma cnt_nonneg l b : 0 <= cnt l b.
Proof. unfold cnt; lia. Qed.
Lemma cnt_perm l1 l2 b : Permutation l1 l2 -> cnt l1 b = cnt l2 b.
Proof. intros H. unfold cnt. f_equal. apply (proj1 (Permutation_count_occ Z.eq_dec l1 l2) H). Qed.
Lemma cnt_pos_in l b : 0 < cnt l b -> In b l.
Proof. unfold cnt. intros H. apply (count_occ_In Z.eq_dec). lia. Qed.

Lemma flat_map_ext_in {A B} (f g : A -> list B) l : (forall x, In x l -> f x = g x) -> flat_map f l = flat_map g l.
Proof. induction l as [|a l IH]; cbn; intros H; auto. rewrite H by (now left). rewrite IH; auto. Qed.

Lemma chain_frame mm mm' stop a l : chain mm stop a l -> (forall x, In x l -> hdr (mm' x) = hdr (mm x)) -> chain mm' stop a l.
Proof. induction 1; intros H'; constructor; auto. rewrite H' by now left. apply IHchain. intros; apply H'; now right. Qed.

(* the pointer slots of counted/deferred blocks do not change when only a header changes *)
Lemma refs_set_hdr mm a h R cl fl : refs (set_hdr mm a h) R cl fl = refs mm R cl fl.
Proof. unfold refs. f_equal. apply flat_map_ext_in. intros x _. unfold set_hdr, upd. destruct (x =? a) eqn:E; auto.
  apply Z.eqb_eq in E. subst. reflexivity. Qed.
Lemma hdr_set_hdr_same mm a h : hdr (set_hdr mm a h a) = h.
Proof. unfold set_hdr. now rewrite upd_same. Qed.
Lemma hdr_set_hdr_other mm a h x : x <> a -> hdr (set_hdr mm a h x) = hdr (mm x).
Proof. intros. unfold set_hdr. now rewrite upd_other. Qed.
Lemma set_hdr_other mm a h x : x <> a -> set_hdr mm a h x = mm x.
Proof. intros. unfold set_hdr. now rewrite upd_other. Qed.

Lemma NoDup_app_disj {A} (l1 l2 : list A) x : NoDup (l1 ++ l2) -> In x l1 -> In x l2 -> False.
Proof. induction l1; cbn; intros H H1 H2; [tauto|]. inversion H; subst. destruct H1 as [->|H1]; [apply H4; rewrite in_app_iff; tauto|eauto]. Qed.
Lemma NoDup_app_r {A} (l1 l2 : list A) : NoDup (l1 ++ l2) -> NoDup l2.
Proof. induction l1; cbn; intros H; [auto|]. inversion H; auto. Qed.
Lemma nodup3 {A} (hl fl cl : list A) x : NoDup (hl ++ fl ++ cl) ->
  (In x cl -> ~ In x hl /\ ~ In x fl) /\ (In x fl -> ~ In x hl /\ ~ In x cl) /\ (In x hl -> ~ In x fl /\ ~ In x cl).
Proof.
  intros H. assert (H2 : NoDup (fl ++ cl)) by (clear -H; induction hl; cbn in *; auto; inversion H; auto).
  split; [|split]; intros Hx; split; intros Hy.
  - eapply (NoDup_app_disj hl (fl ++ cl)); eauto. apply in_app_iff; now right.
  - eapply (NoDup_app_disj fl cl); eauto.
  - eapply (NoDup_app_disj hl (fl ++ cl)); eauto. apply in_app_iff; now left.
  - eapply (NoDup_app_disj fl cl); eauto.
  - eapply (NoDup_app_disj hl (fl ++ cl)); eauto. apply in_app_iff; now left.
  - eapply (NoDup_app_disj hl (fl ++ cl)); eauto. apply in_app_iff; now right.
Qed.

(* a root pointer is a counted block *)
Lemma root_counted s R hl fl cl p : Inv s R hl fl cl -> p <> 0 -> In p R -> In p cl.
Proof.
  intros I Hp0 HpR. destruct (in_dec Z.eq_dec p cl) as [?|Hn']; auto. exfalso.
  pose proof (i_nr _ _ _ _ _ I p Hp0 Hn') as H0. unfold refs in H0. rewrite cnt_app in H0.
  assert (0 < cnt R p) by (unfold cnt; pose proof (proj1 (count_occ_In Z.eq_dec R p) HpR); lia).
  pose proof (cnt_nonneg (flat_map (fun x => ps (m s x)) (cl ++ fl)) p). lia.
Qed.

(* ---------- share ---------- *)
Lemma share_inv s R hl fl cl p n :
  Inv s R hl fl cl -> 0 <= n -> (p = 0 \/ In p R) ->
  Inv (share p n s) (repeat p (Z.to_nat n) ++ R) hl fl cl \/ (p = 0 /\ share p n s = s).
Proof.
  intros I Hn Hp. unfold share. destruct (Z.eqb_spec p 0) as [->|Hp0]; [right; auto|left].
  destruct Hp as [?|HpR]; [contradiction|].
  assert (In p cl) as Hcl by (eapply root_counted; eauto).
  assert (Hnd := i_nodup _ _ _ _ _ I).
  destruct (proj1 (nodup3 hl fl cl p Hnd) Hcl) as [Hhl Hfl].
  constructor; cbn [m heap free frontier].
  - eapply chain_frame; [apply (i_hl _ _ _ _ _ I)|]. intros x Hx. apply hdr_set_hdr_other. congruence.
  - apply (i_hl_ne _ _ _ _ _ I).
  - eapply chain_frame; [apply (i_fl _ _ _ _ _ I)|]. intros x Hx. apply hdr_set_hdr_other. congruence.
  - exact Hnd.
  - apply (i_below _ _ _ _ _ I).
  - intros a Ha. rewrite set_hdr_other; [apply (i_fresh _ _ _ _ _ I); auto|].
    pose proof (i_below _ _ _ _ _ I p ltac:(rewrite !in_app_iff; auto)). lia.
  - apply (i_front _ _ _ _ _ I).
  - intros b Hb. rewrite refs_set_hdr. unfold refs. rewrite <- app_assoc, cnt_app.
    pose proof (i_rc _ _ _ _ _ I b Hb) as H0. unfold refs in H0.
    destruct (Z.eq_dec b p) as [->|Hne].
    + rewrite hdr_set_hdr_same.
      assert (cnt (repeat p (Z.to_nat n)) p = n).
      { unfold cnt. rewrite count_occ_repeat_eq by reflexivity. lia. }
      lia.
    + rewrite hdr_set_hdr_other by auto.
      assert (cnt (repeat p (Z.to_nat n)) b = 0).
      { unfold cnt. rewrite count_occ_repeat_neq by congruence. lia. }
      lia.
  - intros b Hb0 Hb. rewrite refs_set_hdr. unfold refs. rewrite <- app_assoc, cnt_app.
    pose proof (i_nr _ _ _ _ _ I b Hb0 Hb) as H0. unfold refs in H0.
    assert (b <> p) by congruence.
    assert (cnt (repeat p (Z.to_nat n)) b = 0).
    { unfold cnt. rewrite count_occ_repeat_neq by congruence. lia. }
    lia.
Qed.

(* ---------- counting helpers ---------- *)
Lemma flat_map_perm {A B} (f : A -> list B) l1 l2 : Permutation l1 l2 -> Permutation (flat_map f l1) (flat_map f l2).
Proof. induction 1; cbn; auto.
  - now apply Permutation_app_head.
  - rewrite !app_assoc. apply Permutation_app_tail. apply Permutation_app_comm.
  - eauto using Permutation_trans. Qed.

Lemma refs_perm mm R R' cl cl' fl fl' b :
  Permutation R R' -> Permutation (cl ++ fl) (cl' ++ fl') ->
  cnt (refs mm R cl fl) b = cnt (refs mm R' cl' fl') b.
Proof. intros H1 H2. unfold refs. rewrite !cnt_app. f_equal; apply cnt_perm; auto. now apply flat_map_perm. Qed.

Lemma rc_nonneg s R hl fl cl p : Inv s R hl fl cl -> In p cl -> In p R -> 0 <= hdr (m s p).
Proof.
  intros I Hcl HR. pose proof (i_rc _ _ _ _ _ I p Hcl) as H. unfold refs in H. rewrite cnt_app in H.
  assert (0 < cnt R p) by (unfold cnt; pose proof (proj1 (count_occ_In Z.eq_dec R p) HR); lia).
  pose proof (cnt_nonneg (flat_map (fun x => ps (m s x)) (cl ++ fl)) p). lia.
Qed.

(* ---------- erase ---------- *)
Lemma erase_inv s R R0 hl fl cl p :
  Inv s R hl fl cl -> p <> 0 -> Permutation R (p :: R0) ->
  exists fl' cl', Inv (erase p s) R0 hl fl' cl'.
Proof.
  intros I Hp0 HR.
  assert (In p R) as HpR by (eapply Permutation_in; [symmetry; eauto|now left]).
  assert (In p cl) as Hcl by (eapply root_counted; eauto).
  assert (Hnd := i_nodup _ _ _ _ _ I).
  destruct (proj1 (nodup3 hl fl cl p Hnd) Hcl) as [Hhl Hfl].
  assert (Hlt := i_below _ _ _ _ _ I p ltac:(rewrite !in_app_iff; auto)).
  assert (Hcnt : forall b, cnt (refs (m s) R cl fl) b = (if Z.eq_dec p b then 1 else 0) + cnt (refs (m s) R0 cl fl) b).
  { intros b. rewrite (refs_perm (m s) R (p :: R0) cl cl fl fl b HR (Permutation_refl _)).
    unfold refs. cbn [app]. now rewrite cnt_cons. }
  unfold erase. destruct (Z.eqb_spec p 0) as [|_]; [contradiction|].
  destruct (Z.eqb_spec (hdr (m s p)) 0) as [H0|Hn0].
  - (* last reference: p goes onto the deferred list, its slots stay counted *)
    apply in_split in Hcl as (c1 & c2 & ->).
    exists (p :: fl), (c1 ++ c2).
    assert (Permutation ((c1 ++ p :: c2) ++ fl) ((c1 ++ c2) ++ p :: fl)) as HP.
    { rewrite <- !app_assoc. apply Permutation_app_head. cbn. apply Permutation_middle. }
    assert (~ In p (c1 ++ c2)) as Hpc.
    { intro Hin. pose proof (NoDup_app_r _ _ (NoDup_app_r _ _ Hnd)) as Hnd'.
      apply NoDup_remove_2 in Hnd'. contradiction. }
    constructor; cbn [m heap free frontier].
    + eapply chain_frame; [apply (i_hl _ _ _ _ _ I)|]. intros x Hx. apply hdr_set_hdr_other. congruence.
    + apply (i_hl_ne _ _ _ _ _ I).
    + constructor; [lia|]. rewrite hdr_set_hdr_same.
      eapply chain_frame; [apply (i_fl _ _ _ _ _ I)|]. intros x Hx. apply hdr_set_hdr_other. congruence.
    + eapply Permutation_NoDup; [|exact Hnd].
      apply Permutation_app_head. symmetry. cbn [app].
      rewrite (app_assoc fl c1 c2), (app_assoc fl c1 (p :: c2)). apply Permutation_middle.
    + intros a Ha. apply (i_below _ _ _ _ _ I). rewrite !in_app_iff in *. cbn in Ha. cbn. intuition (subst; auto).
    + intros a Ha. rewrite set_hdr_other by lia. now apply (i_fresh _ _ _ _ _ I).
    + apply (i_front _ _ _ _ _ I).
    + intros b Hb. rewrite refs_set_hdr.
      assert (b <> p) by congruence. rewrite hdr_set_hdr_other by auto.
      rewrite <- (refs_perm (m s) R0 R0 (c1 ++ p :: c2) (c1 ++ c2) fl (p :: fl) b (Permutation_refl _) HP).
      pose proof (i_rc _ _ _ _ _ I b ltac:(rewrite in_app_iff in *; cbn; tauto)) as Hrc.
      rewrite Hcnt in Hrc. destruct (Z.eq_dec p b); [congruence|lia].
    + intros b Hb0 Hb. rewrite refs_set_hdr.
      rewrite <- (refs_perm (m s) R0 R0 (c1 ++ p :: c2) (c1 ++ c2) fl (p :: fl) b (Permutation_refl _) HP).
      destruct (Z.eq_dec p b) as [<-|Hne].
      * pose proof (i_rc _ _ _ _ _ I p ltac:(rewrite in_app_iff; cbn; tauto)) as Hrc.
        rewrite Hcnt in Hrc. destruct (Z.eq_dec p p); [lia|congruence].
      * pose proof (i_nr _ _ _ _ _ I b Hb0) as Hnr. rewrite Hcnt in Hnr.
        destruct (Z.eq_dec p b); [congruence|]. apply Hnr. rewrite in_app_iff in *. cbn. intuition congruence.
  - (* other references remain: decrement *)
    exists fl, cl. constructor; cbn [m heap free frontier].
    + eapply chain_frame; [apply (i_hl _ _ _ _ _ I)|]. intros x Hx. apply hdr_set_hdr_other. congruence.
    + apply (i_hl_ne _ _ _ _ _ I).
    + eapply chain_frame; [apply (i_fl _ _ _ _ _ I)|]. intros x Hx. apply hdr_set_hdr_other. congruence.
    + exact Hnd.
    + apply (i_below _ _ _ _ _ I).
    + intros a Ha. rewrite set_hdr_other by lia. now apply (i_fresh _ _ _ _ _ I).
    + apply (i_front _ _ _ _ _ I).
    + intros b Hb. rewrite refs_set_hdr. pose proof (i_rc _ _ _ _ _ I b Hb) as Hrc. rewrite Hcnt in Hrc.
      destruct (Z.eq_dec p b) as [<-|Hne].
      * rewrite hdr_set_hdr_same. lia.
      * rewrite hdr_set_hdr_other by congruence. lia.
    + intros b Hb0 Hb. rewrite refs_set_hdr. pose proof (i_nr _ _ _ _ _ I b Hb0 Hb) as Hnr. rewrite Hcnt in Hnr.
      destruct (Z.eq_dec p b); [congruence|lia].
Qed.

(* ---------- a list of erasures (children of a recycled block) ---------- *)
Definition nz (l : list Z) : list Z := filter (fun x => negb (x =? 0)) l.

Lemma erase_list_inv : forall l s R hl fl cl,
  Inv s (nz l ++ R) hl fl cl ->
  exists fl' cl', Inv (fold_left (fun s c => erase c s) l s) R hl fl' cl'.
Proof.
  induction l as [|c l IH]; intros s R hl fl cl I; cbn [fold_left nz filter app] in *; [eauto|].
  destruct (Z.eqb_spec c 0) as [->|Hc]; cbn [negb] in I.
  - change (erase 0 s) with s. fold (nz l) in I. eauto.
  - fold (nz l) in I. cbn [app] in I.
    destruct (erase_inv s (c :: nz l ++ R) (nz l ++ R) hl fl cl c I Hc (Permutation_refl _)) as (fl1 & cl1 & I1).
    eauto.
Qed.

(* writing the pointer slots of a block on the reuse list is invisible to the invariant *)
Lemma set_ps_hl_inv s R hl fl cl a p :
  Inv s R hl fl cl -> In a hl ->
  Inv {| m := set_ps (m s) a p; heap := heap s; free := free s; frontier := frontier s |} R hl fl cl.
Proof.
  intros I Ha. assert (Hnd := i_nodup _ _ _ _ _ I).
  destruct (proj2 (proj2 (nodup3 hl fl cl a Hnd)) Ha) as [Hfl Hcl].
  assert (Hh : forall x, hdr (set_ps (m s) a p x) = hdr (m s x)).
  { intros x. unfold set_ps, upd. destruct (Z.eqb_spec x a); subst; auto. }
  assert (Hr : refs (set_ps (m s) a p) R cl fl = refs (m s) R cl fl).
  { unfold refs. f_equal. apply flat_map_ext_in. intros x Hx. unfold set_ps. rewrite upd_other; auto.
    intros ->. apply in_app_iff in Hx. tauto. }
  assert (Hlt := i_below _ _ _ _ _ I a ltac:(rewrite !in_app_iff; auto)).
  constructor; cbn [m heap free frontier].
  - eapply chain_frame; [apply (i_hl _ _ _ _ _ I)|]. auto.
  - apply (i_hl_ne _ _ _ _ _ I).
  - eapply chain_frame; [apply (i_fl _ _ _ _ _ I)|]. auto.
  - exact Hnd.
  - apply (i_below _ _ _ _ _ I).
  - intros x Hx. unfold set_ps. rewrite upd_other by lia. now apply (i_fresh _ _ _ _ _ I).
  - apply (i_front _ _ _ _ _ I).
  - intros b Hb. rewrite Hh, Hr. now apply (i_rc _ _ _ _ _ I).
  - intros b Hb0 Hb. rewrite Hr. now apply (i_nr _ _ _ _ _ I).
Qed.

Lemma inv_perm_R s R R' hl fl cl : Permutation R R' -> Inv s R hl fl cl -> Inv s R' hl fl cl.
Proof.
  intros HP I. destruct I. constructor; auto.
  - intros b Hb. rewrite <- (refs_perm (m s) R R' cl cl fl fl b HP (Permutation_refl _)). auto.
  - intros b Hb0 Hb. rewrite <- (refs_perm (m s) R R' cl cl fl fl b HP (Permutation_refl _)). auto.
Qed.

Lemma cnt_nz l b : b <> 0 -> cnt (nz l) b = cnt l b.
Proof. intros Hb. unfold nz. induction l as [|a l IH]; cbn [filter]; auto. destruct (Z.eqb_spec a 0) as [->|Ha]; cbn [negb].
  - rewrite cnt_cons. destruct (Z.eq_dec 0 b); [congruence|lia].
  - rewrite !cnt_cons. lia. Qed.

Lemma chain_head mm stop a l : chain mm stop a l -> l <> [] -> exists l', l = a :: l' /\ a <> stop /\ chain mm stop (hdr (mm a)) l'.
Proof. destruct 1; [congruence|eauto]. Qed.
Lemma chain_stop_nil mm stop l : chain mm stop stop l -> l = [].
Proof. inversion 1; congruence. Qed.
Lemma chain_nonstop mm stop a l : chain mm stop a l -> a <> stop -> exists l', l = a :: l' /\ chain mm stop (hdr (mm a)) l'.
Proof. destruct 1; [congruence|eauto]. Qed.

Lemma acquire_inv s R R0 hl fl cl :
  Inv s R hl fl cl ->
  Permutation R (nz (ps (m s (heap s))) ++ R0) ->
  fst (acquire s) = heap s /\
  exists hl' fl' cl', Inv (snd (acquire s)) (heap s :: R0) hl' fl' cl'.
Proof.
  intros I HR. set (r := heap s) in *.
  destruct (chain_head _ _ _ _ (i_hl _ _ _ _ _ I) (i_hl_ne _ _ _ _ _ I)) as (hl1 & -> & Hr0 & Hch). fold r in Hch.
  assert (Hnd := i_nodup _ _ _ _ _ I).
  assert (Hrhl : In r (r :: hl1)) by now left.
  destruct (proj2 (proj2 (nodup3 (r :: hl1) fl cl r Hnd)) Hrhl) as [Hrfl Hrcl].
  assert (Hrlt := i_below _ _ _ _ _ I r ltac:(rewrite !in_app_iff; auto)).
  (* nothing refers to r *)
  assert (Hr_unref := i_nr _ _ _ _ _ I r Hr0 Hrcl).
  rewrite (refs_perm (m s) R _ cl cl fl fl r HR (Permutation_refl _)) in Hr_unref.
  unfold refs in Hr_unref. rewrite !cnt_app, cnt_nz in Hr_unref by auto.
  pose proof (cnt_nonneg (ps (m s r)) r). pose proof (cnt_nonneg R0 r).
  pose proof (cnt_nonneg (flat_map (fun x => ps (m s x)) (cl ++ fl)) r).
  (* old counts, with R split *)
  assert (Hold : forall b, b <> 0 -> cnt (refs (m s) R cl fl) b =
            cnt (ps (m s r)) b + cnt R0 b + cnt (flat_map (fun x => ps (m s x)) (cl ++ fl)) b).
  { intros b Hb. rewrite (refs_perm (m s) R _ cl cl fl fl b HR (Permutation_refl _)).
    unfold refs. rewrite !cnt_app, cnt_nz by auto. lia. }
  unfold acquire. fold r. split.
  { destruct (negb (hdr (m s r) =? 0)); [reflexivity|]. destruct (hdr (m s (free s)) =? 0); reflexivity. }
  destruct (Z.eqb_spec (hdr (m s r)) 0) as [Hh0|Hhn]; cbn [negb].
  2:{ (* case 1: the reuse list has another element *)
    cbn [snd].
    destruct (chain_nonstop _ _ _ _ Hch Hhn) as (hl2 & -> & Hch2).
    exists (hdr (m s r) :: hl2), fl, (r :: cl).
    assert (Hfr : forall x, x <> r -> hdr (set_hdr (m s) r 0 x) = hdr (m s x)) by (intros; now apply hdr_set_hdr_other).
    assert (Hrn : ~ In r (hdr (m s r) :: hl2)).
    { assert (NoDup (r :: ((hdr (m s r) :: hl2) ++ fl ++ cl))) as Hnd' by exact Hnd.
      apply NoDup_cons_iff in Hnd' as [Hn _]. intro Hin. apply Hn. apply in_app_iff. now left. }
    constructor; cbn [m heap free frontier].
    - eapply chain_frame; [constructor; eauto|]. intros x Hx. apply Hfr. intros ->. contradiction.
    - discriminate.
    - eapply chain_frame; [apply (i_fl _ _ _ _ _ I)|]. intros x Hx. apply Hfr. congruence.
    - eapply Permutation_NoDup; [|exact Hnd].
      apply (Permutation_trans (l' := r :: ((hdr (m s r) :: hl2) ++ fl) ++ cl)).
      { rewrite <- app_assoc. reflexivity. }
      etransitivity; [apply Permutation_middle|]. rewrite <- ?app_assoc. cbn [app]. reflexivity.
    - intros a Ha. apply (i_below _ _ _ _ _ I).
      clear -Ha. rewrite ?in_app_iff in *. cbn [In] in *. rewrite ?in_app_iff in *. cbn [In] in *. intuition (subst; auto).
    - intros a Ha. rewrite set_hdr_other by lia. now apply (i_fresh _ _ _ _ _ I).
    - apply (i_front _ _ _ _ _ I).
    - intros b Hb. rewrite refs_set_hdr. unfold refs. cbn [app flat_map]. rewrite cnt_cons, !cnt_app.
      destruct Hb as [<-|Hb].
      + rewrite hdr_set_hdr_same. destruct (Z.eq_dec r r); [|congruence]. lia.
      + assert (b <> r) by congruence. assert (b <> 0) by (intros ->; pose proof (i_below _ _ _ _ _ I 0 ltac:(rewrite !in_app_iff; auto)); lia).
        rewrite Hfr by auto. pose proof (i_rc _ _ _ _ _ I b Hb) as Hrc. rewrite Hold in Hrc by auto.
        destruct (Z.eq_dec r b); [congruence|]. lia.
    - intros b Hb0 Hb. rewrite refs_set_hdr. unfold refs. cbn [app flat_map]. rewrite cnt_cons, !cnt_app.
      assert (b <> r) by (intros ->; apply Hb; now left).
      pose proof (i_nr _ _ _ _ _ I b Hb0 ltac:(intro; apply Hb; now right)) as Hnr. rewrite Hold in Hnr by auto.
      destruct (Z.eq_dec r b); [congruence|]. lia. }
  (* the reuse list is exhausted: hl = [r] *)
  cbn [snd]. rewrite Hh0 in Hch. apply chain_stop_nil in Hch. subst hl1.
  set (h2 := free s) in *.
  assert (HF := i_front _ _ _ _ _ I).
  assert (Hcnt_new : forall (fl' : list Z) b, b <> 0 ->
     cnt (refs (m s) (r :: R0) (r :: cl) fl') b =
     (if Z.eq_dec r b then 1 else 0) + cnt R0 b + cnt (ps (m s r)) b + cnt (flat_map (fun x => ps (m s x)) (cl ++ fl')) b).
  { intros fl' b Hb. unfold refs. cbn [app flat_map]. rewrite cnt_cons, !cnt_app. lia. }
  destruct (Z.eqb_spec (hdr (m s h2)) 0) as [Hf0|Hfn].
  - (* case 3: bump *)
    cbn [snd].
    assert (h2 = frontier s /\ fl = []) as [Hh2 ->].
    { destruct (Z.eq_dec h2 (frontier s)) as [E|E].
      - split; auto. pose proof (i_fl _ _ _ _ _ I) as Hc. fold h2 in Hc. rewrite E in Hc. now apply chain_stop_nil in Hc.
      - exfalso. destruct (chain_nonstop _ _ _ _ (i_fl _ _ _ _ _ I) E) as (fl2 & -> & Hc2). fold h2 in Hc2.
        rewrite Hf0 in Hc2. assert (0 <> frontier s) by lia.
        destruct (chain_nonstop _ _ _ _ Hc2 H2) as (fl3 & -> & _).
        pose proof (i_below _ _ _ _ _ I 0 ltac:(rewrite !in_app_iff; cbn; auto)). lia. }
    exists [h2], [], (r :: cl). rewrite Hh2 in *. set (F := frontier s) in *.
    assert (HmF : m s F = zero_block) by (apply (i_fresh _ _ _ _ _ I); lia).
    constructor; cbn [m heap free frontier].
    + constructor; [lia|]. rewrite HmF. cbn. constructor.
    + discriminate.
    + constructor.
    + cbn [app]. constructor.
      * intros Hin. pose proof (i_below _ _ _ _ _ I F ltac:(cbn [app]; cbn; tauto)). lia.
      * exact Hnd.
    + intros a Ha. cbn [app] in Ha. destruct Ha as [<-|Ha]; [unfold BLOCK; lia|].
      pose proof (i_below _ _ _ _ _ I a Ha). unfold BLOCK. lia.
    + intros a Ha. apply (i_fresh _ _ _ _ _ I). unfold BLOCK in Ha. lia.
    + unfold BLOCK. lia.
    + intros b Hb.
      assert (b <> 0) by (intros ->; pose proof (i_below _ _ _ _ _ I 0 ltac:(cbn [app]; cbn; tauto)); lia).
      rewrite Hcnt_new by auto. destruct Hb as [<-|Hb].
      * destruct (Z.eq_dec r r); [|congruence]. lia.
      * pose proof (i_rc _ _ _ _ _ I b Hb) as Hrc. rewrite Hold in Hrc by auto.
        destruct (Z.eq_dec r b); [subst; contradiction|]. lia.
    + intros b Hb0 Hb. rewrite Hcnt_new by auto.
      assert (b <> r) by (intros ->; apply Hb; now left).
      pose proof (i_nr _ _ _ _ _ I b Hb0 ltac:(intro; apply Hb; now right)) as Hnr. rewrite Hold in Hnr by auto.
      destruct (Z.eq_dec r b); [congruence|]. lia.
  - (* case 2: recycle the first deferred block, erasing its children lazily *)
    cbn [snd].
    assert (h2 <> frontier s) as Hh2f.
    { intros E. rewrite E, (i_fresh _ _ _ _ _ I (frontier s)) in Hfn by lia. now cbn in Hfn. }
    destruct (chain_nonstop _ _ _ _ (i_fl _ _ _ _ _ I) Hh2f) as (fl2 & -> & Hc2). fold h2 in Hc2.
    assert (Hh2lt := i_below _ _ _ _ _ I h2 ltac:(rewrite !in_app_iff; cbn; auto)).
    assert (Hh2n : ~ In h2 fl2 /\ ~ In h2 cl /\ h2 <> r).
    { assert (NoDup (r :: h2 :: fl2 ++ cl)) as Hnd' by exact Hnd.
      apply NoDup_cons_iff in Hnd' as [Hr' Hnd']. apply NoDup_cons_iff in Hnd' as [Hh' _].
      rewrite in_app_iff in Hh'. repeat split; try tauto. intros ->. apply Hr'. now left. }
    destruct Hh2n as (Hh2fl & Hh2cl & Hh2r).
    set (s1 := {| m := set_hdr (m s) h2 0; heap := h2; free := hdr (m s h2); frontier := frontier s |}).
    assert (I1 : Inv s1 (nz (ps (m s h2)) ++ r :: R0) [h2] fl2 (r :: cl)).
    { assert (Hfr : forall x, x <> h2 -> hdr (set_hdr (m s) h2 0 x) = hdr (m s x)) by (intros; now apply hdr_set_hdr_other).
      constructor; unfold s1; cbn [m heap free frontier].
      - constructor; [lia|]. rewrite hdr_set_hdr_same. constructor.
      - discriminate.
      - eapply chain_frame; [exact Hc2|]. intros x Hx. apply Hfr. congruence.
      - eapply Permutation_NoDup; [|exact Hnd]. cbn [app].
        apply (Permutation_trans (l' := h2 :: r :: fl2 ++ cl)); [apply perm_swap|]. apply perm_skip.
        apply Permutation_middle.
      - intros a Ha. apply (i_below _ _ _ _ _ I).
        clear -Ha. rewrite ?in_app_iff in *. cbn [In] in *. rewrite ?in_app_iff in *. cbn [In] in *. intuition (subst; auto).
      - intros a Ha. rewrite set_hdr_other by lia. now apply (i_fresh _ _ _ _ _ I).
      - exact HF.
      - intros b Hb. rewrite refs_set_hdr.
        assert (b <> 0) by (intros ->; pose proof (i_below _ _ _ _ _ I 0 ltac:(clear -Hb; rewrite ?in_app_iff; cbn [In] in *; rewrite ?in_app_iff; cbn [In]; intuition auto)); lia).
        assert (b <> h2) by (destruct Hb as [<-|Hb]; congruence).
        rewrite Hfr by auto.
        unfold refs. rewrite <- app_assoc, !cnt_app, cnt_nz by auto. cbn [app flat_map]. rewrite cnt_cons, !cnt_app.
        rewrite flat_map_app, cnt_app.
        destruct Hb as [<-|Hb].
        + rewrite Hh0. destruct (Z.eq_dec r r); [|congruence].
          rewrite flat_map_app, cnt_app in Hr_unref, H1. cbn [flat_map] in Hr_unref. rewrite cnt_app in Hr_unref.
          pose proof (cnt_nonneg (ps (m s h2)) r). pose proof (cnt_nonneg (flat_map (fun x => ps (m s x)) fl2) r).
          pose proof (cnt_nonneg (flat_map (fun x => ps (m s x)) cl) r). unfold h2 in *. lia.
        + pose proof (i_rc _ _ _ _ _ I b Hb) as Hrc. rewrite Hold in Hrc by auto.
          rewrite flat_map_app, cnt_app in Hrc. cbn [flat_map] in Hrc. rewrite cnt_app in Hrc.
          destruct (Z.eq_dec r b); [subst; contradiction|]. unfold h2 in *. lia.
      - intros b Hb0 Hb. rewrite refs_set_hdr.
        unfold refs. rewrite <- app_assoc, !cnt_app, cnt_nz by auto. cbn [app flat_map]. rewrite cnt_cons, !cnt_app.
        rewrite flat_map_app, cnt_app.
        assert (b <> r) by (intros ->; apply Hb; now left).
        pose proof (i_nr _ _ _ _ _ I b Hb0 ltac:(intro; apply Hb; now right)) as Hnr. rewrite Hold in Hnr by auto.
        rewrite flat_map_app, cnt_app in Hnr. cbn [flat_map] in Hnr. rewrite cnt_app in Hnr.
        destruct (Z.eq_dec r b); [congruence|]. unfold h2 in *. lia. }
    destruct (erase_list_inv (ps (m s h2)) s1 (r :: R0) [h2] fl2 (r :: cl) I1) as (fl' & cl' & I2).
    exists [h2], fl', cl'. exact I2.
Qed.

(* ---------- allocation of a (single-block) object ---------- *)
Definition alloc (p : list Z) (s : st) : Z * st :=
  acquire {| m := set_ps (m s) (heap s) p; heap := heap s; free := free s; frontier := frontier s |}.

Lemma alloc_inv s R R0 hl fl cl p :
  Inv s R hl fl cl -> Permutation R (nz p ++ R0) ->
  fst (alloc p s) = heap s /\ exists hl' fl' cl', Inv (snd (alloc p s)) (heap s :: R0) hl' fl' cl'.
Proof.
  intros I HR. unfold alloc.
  assert (In (heap s) hl) as Hh.
  { destruct (chain_head _ _ _ _ (i_hl _ _ _ _ _ I) (i_hl_ne _ _ _ _ _ I)) as (l & -> & _). now left. }
  pose proof (set_ps_hl_inv s R hl fl cl (heap s) p I Hh) as I'.
  set (s' := {| m := set_ps (m s) (heap s) p; heap := heap s; free := free s; frontier := frontier s |}) in *.
  apply (acquire_inv s' R R0 hl fl cl I'). unfold s'; cbn [m heap]. unfold set_ps. now rewrite upd_same.
Qed.

(* ---------- loading an object: consuming the last reference ---------- *)
Lemma load_release_inv s R R0 hl fl cl p :
  Inv s R hl fl cl -> p <> 0 -> Permutation R (p :: R0) -> hdr (m s p) = 0 ->
  exists cl', Inv (release p s) (nz (ps (m s p)) ++ R0) (p :: hl) fl cl'.
Proof.
  intros I Hp0 HR H0.
  assert (In p R) as HpR by (eapply Permutation_in; [symmetry; eauto|now left]).
  assert (In p cl) as Hcl by (eapply root_counted; eauto).
  assert (Hnd := i_nodup _ _ _ _ _ I).
  destruct (proj1 (nodup3 hl fl cl p Hnd) Hcl) as [Hhl Hfl].
  assert (Hlt := i_below _ _ _ _ _ I p ltac:(rewrite !in_app_iff; auto)).
  apply in_split in Hcl as (c1 & c2 & ->). exists (c1 ++ c2).
  assert (~ In p (c1 ++ c2)) as Hpc.
  { intro Hin. pose proof (NoDup_app_r _ _ (NoDup_app_r _ _ Hnd)) as Hnd'. apply NoDup_remove_2 in Hnd'. contradiction. }
  assert (Hfr : forall x, x <> p -> hdr (set_hdr (m s) p (heap s) x) = hdr (m s x)) by (intros; now apply hdr_set_hdr_other).
  (* counts: old in terms of the pieces *)
  assert (Hold : forall b, b <> 0 -> cnt (refs (m s) R (c1 ++ p :: c2) fl) b =
     (if Z.eq_dec p b then 1 else 0) + cnt R0 b + cnt (ps (m s p)) b + cnt (flat_map (fun x => ps (m s x)) ((c1 ++ c2) ++ fl)) b).
  { intros b Hb. rewrite (refs_perm (m s) R (p :: R0) (c1 ++ p :: c2) (p :: c1 ++ c2) fl fl b HR).
    - unfold refs. cbn [app flat_map]. rewrite cnt_cons, !cnt_app. lia.
    - apply Permutation_app_tail. symmetry. apply Permutation_middle. }
  unfold release. constructor; cbn [m heap free frontier].
  - constructor; auto. rewrite hdr_set_hdr_same. eapply chain_frame; [apply (i_hl _ _ _ _ _ I)|]. intros x Hx. apply Hfr. congruence.
  - discriminate.
  - eapply chain_frame; [apply (i_fl _ _ _ _ _ I)|]. intros x Hx. apply Hfr. congruence.
  - eapply Permutation_NoDup; [|exact Hnd]. cbn [app].
    apply (Permutation_trans (l' := hl ++ p :: fl ++ c1 ++ c2)).
    + apply Permutation_app_head. rewrite (app_assoc fl c1 (p :: c2)), (app_assoc fl c1 c2). symmetry. apply Permutation_middle.
    + symmetry. apply Permutation_middle.
  - intros a Ha. apply (i_below _ _ _ _ _ I).
    clear -Ha. rewrite ?in_app_iff in *. cbn [In] in *. rewrite ?in_app_iff in *. cbn [In] in *. intuition (subst; auto).
  - intros a Ha. rewrite set_hdr_other by lia. now apply (i_fresh _ _ _ _ _ I).
  - apply (i_front _ _ _ _ _ I).
  - intros b Hb. rewrite refs_set_hdr. assert (b <> p) by congruence. rewrite Hfr by auto.
    assert (b <> 0) by (intros ->; pose proof (i_below _ _ _ _ _ I 0 ltac:(clear -Hb; rewrite ?in_app_iff in *; cbn [In]; intuition auto)); lia).
    pose proof (i_rc _ _ _ _ _ I b ltac:(clear -Hb; rewrite ?in_app_iff in *; cbn [In]; intuition auto)) as Hrc.
    rewrite Hold in Hrc by auto. unfold refs. rewrite !cnt_app, cnt_nz by auto.
    destruct (Z.eq_dec p b); [congruence|]. lia.
  - intros b Hb0 Hb. rewrite refs_set_hdr. unfold refs. rewrite !cnt_app, cnt_nz by auto.
    destruct (Z.eq_dec p b) as [<-|Hne].
    + pose proof (i_rc _ _ _ _ _ I p ltac:(rewrite in_app_iff; cbn; tauto)) as Hrc. rewrite Hold in Hrc by auto.
      destruct (Z.eq_dec p p); [|congruence]. lia.
    + pose proof (i_nr _ _ _ _ _ I b Hb0 ltac:(clear -Hb Hne; rewrite ?in_app_iff in *; cbn [In]; intuition auto)) as Hnr.
      rewrite Hold in Hnr by auto. destruct (Z.eq_dec p b); [congruence|]. lia.
Qed.

(* ---------- initial state ---------- *)
Definition init (base : Z) : st :=
  {| m := fun _ => zero_block; heap := base; free := base + BLOCK; frontier := base + BLOCK |}.
Lemma init_inv base : 0 < base -> Inv (init base) [] [base] [] [].
Proof.
  intros Hb. unfold init, BLOCK. constructor; cbn [m heap free frontier].
  - constructor; [lia|]. cbn. constructor.
  - discriminate.
  - constructor.
  - cbn. constructor; [tauto|constructor].
  - cbn. intros a [<-|[]]. lia.
  - reflexivity.
  - lia.
  - intros b [].
  - intros b _ _. reflexivity.
Qed.

(* ---------- C10: the frontier moves only when nothing can be reused ---------- *)
Lemma acquire_frontier s R hl fl cl :
  Inv s R hl fl cl ->
  frontier (snd (acquire s)) = frontier s \/
  (frontier (snd (acquire s)) = frontier s + BLOCK /\ hl = [heap s] /\ fl = []).
Proof.
  intros I. unfold acquire.
  destruct (Z.eqb_spec (hdr (m s (heap s))) 0) as [Hh0|Hhn]; cbn [negb]; [|left; reflexivity].
  destruct (Z.eqb_spec (hdr (m s (free s))) 0) as [Hf0|Hfn]; cbn [snd frontier].
  - right.
    destruct (chain_head _ _ _ _ (i_hl _ _ _ _ _ I) (i_hl_ne _ _ _ _ _ I)) as (hl1 & -> & Hr0 & Hch).
    rewrite Hh0 in Hch. apply chain_stop_nil in Hch. subst hl1.
    assert (HF := i_front _ _ _ _ _ I).
    destruct (Z.eq_dec (free s) (frontier s)) as [E|E].
    + rewrite E. repeat split; auto. pose proof (i_fl _ _ _ _ _ I) as Hc. rewrite E in Hc. now apply chain_stop_nil in Hc.
    + exfalso. destruct (chain_nonstop _ _ _ _ (i_fl _ _ _ _ _ I) E) as (fl2 & -> & Hc2).
      rewrite Hf0 in Hc2. assert (0 <> frontier s) by lia.
      destruct (chain_nonstop _ _ _ _ Hc2 H) as (fl3 & -> & _).
      pose proof (i_below _ _ _ _ _ I 0 ltac:(rewrite !in_app_iff; cbn; auto)). lia.
  - left. (* erasing children never moves the frontier *)
    generalize (ps (m s (free s))). intros l.
    set (s1 := {| m := _; heap := _; free := _; frontier := frontier s |}).
    change (frontier s) with (frontier s1). generalize s1. clear.
    induction l as [|c l IH]; intros s1; cbn [fold_left]; auto.
    rewrite IH. unfold erase. destruct (c =? 0); auto. destruct (hdr (m s1 c) =? 0); reflexivity.
Qed.



