(* Functional model of lang/core2axcut (shrinking: focused Core -> non-linearized AxCut), line by
   line, plus the parts of lang/core_lang and lang/axcut it calls:

     core_lang  syntax/names.rs        fresh_identifier, fresh_var, SubstVar for Identifier
                traits/substitution.rs SubstVar (subst_sim on the Fs* types; binders are NOT renamed,
                                       the key is the numeric id only, first match)
                traits/typed_free_vars TypedFreeVars on the Fs* types (one shared BTreeSet; binders are
                                       REMOVED from the shared set, not from a local one)
                syntax/declaration.rs  cont_int, lookup_type_declaration;  syntax/types.rs is_codata
     axcut      traits/substitution.rs Subst (subst_sim on statements; binders are not renamed)
     core2axcut names/types/context/declaration/def/program/shrinking/statements/*

   State (ShrinkingState): `max_id`, `lifted_statements` (a VecDeque used with push_front only: a
   list with cons) and `used_labels` (a HashSet<Identifier> that is only tested with `any` and
   extended: a list; it starts as the names of all definitions of the program and is threaded
   through ALL definitions).  `lift` draws `fresh_identifier(max_id, "lift_<current def>_")` in a loop
   until the PRINTED candidate (`name_id`) differs from the printed form of every used label, then
   inserts the label (fix fd7ddb1; skipped candidates consume ids).
   `data` (with `_Cont` already pushed), `codata`, `current_label` are the read-only part [senv].

   Order of side effects = Rust evaluation order (struct-literal fields are evaluated in the order
   they are WRITTEN in the source):
     Create / Switch        clauses in order, then `next`
     critical pair, i64     the consumer's body (clause of the continuation), then the producer's
     critical pair, Decl    expanded side (shrink or lift), then per xtor: one id per argument in
                            order, one id for the expanded variable; kept side LAST
     lift                   one id per free variable in BTreeSet order, the label id, the body;
                            the new definition is pushed to the FRONT after the body was shrunk
     IfC                    thenc, elsec

   Fuel of the label loop: at most one iteration per used label can fail (candidates have pairwise
   different printed forms), so `S (length used_labels)` iterations suffice
   (Proof/ShrinkProof.v: fresh_label_total).
   Fuel: `shrink_renaming`, `shrink_known_cuts` and `lift` call `shrink` on a SUBSTITUTED statement,
   so the recursion is not structural.  Measure: [fsz s], the number of statement/term/clause
   nodes; variable-for-variable substitution preserves it and every recursive call is on a proper
   sub-statement (possibly substituted) of the current one.  `shrink_stmt (fsz s) ...` never runs
   out of fuel (Proof/ShrinkProof.v: shrink_fuel_enough).

   Panics are [SErr msg]: "cannot happen" (final arm of FsCut::shrink), "Xtor .. not found in
   clauses" (shrink_known_cuts), "Type .. not found" (lookup_type_declaration), "_Cont cannot be
   used as a type name" (asserts of shrink_prog).

   The chirality type parameter of FsTerm<C> is a field here (see Lang/CoreSyn.v); the Rust
   patterns `prdcns: Prd` are irrefutable for the unit structs, so the model does not inspect the
   field: on values read from the Rust side [chi_ok_fsprog] holds by construction. *)
From Coq Require Import List ZArith NArith String Bool.
From SCC Require Import Base.Sexp Lang.SynUtil Lang.CoreSyn Lang.AxSyn.
Import ListNotations.
Open Scope string_scope.
Open Scope list_scope.

Inductive shres (X : Type) := SOk (x : X) | SErr (msg : string).
Arguments SOk {X} x.
Arguments SErr {X} msg.
Definition sbind {X Y} (r : shres X) (f : X -> shres Y) : shres Y :=
  match r with SOk x => f x | SErr m => SErr m end.
Notation "'dos' x <- e ; k" := (sbind e (fun x => k)) (at level 200, x pattern, e at level 100, k at level 200).

(* ---------- names.rs / types.rs: the identity on the shared representation ---------- *)
Definition shrink_identifier (x : cident) : ident := x.
Definition shrink_ty (t : cty) : ty :=
  match t with CI64 => I64 | CDecl n => Decl (shrink_identifier n) end.
Definition shrink_binop (o : cbinop) : binop :=
  match o with CDiv => Div | CProd => Prod | CRem => Rem | CSum => Sum | CSub => Sub end.
Definition shrink_ifsort (s : cifsort) : ifsort :=
  match s with CEq => Eq | CNe => Ne | CLt => Lt | CLe => Le | CGt => Gt | CGe => Ge end.

(* ---------- core_lang declaration.rs: cont_int, lookup_type_declaration; types.rs: is_codata ---------- *)
Definition cont_name : cident := ("_Cont", 0%N).
Definition ret_name : cident := ("Ret", 0%N).
Definition cont_int : ctydecl :=
  mkct CData cont_name [mkcx CData ret_name [mkcb ("x", 0%N) CPrd CI64]].
Definition lookup_type_declaration (n : cident) (types : list ctydecl) : option ctydecl :=
  find (fun d => cident_eqb (ctname d) n) types.
Definition is_codata (codata : list ctydecl) (t : cty) : bool :=
  match t with
  | CI64 => false
  | CDecl n => existsb (fun d => cident_eqb (ctname d) n) codata
  end.

(* ---------- context.rs: shrink_binding (the chirality collapse), shrink_context ---------- *)
Definition shrink_binding (codata : list ctydecl) (b : cbinding) : binding :=
  if cty_eqb (cbty b) CI64 then
    if cchi_eqb (cbchi b) CCns
    then mkb (shrink_identifier (cbvar b)) Cns (Decl (shrink_identifier cont_name))
    else mkb (shrink_identifier (cbvar b)) Ext I64
  else if (negb (is_codata codata (cbty b)) && cchi_eqb (cbchi b) CPrd)
          || (is_codata codata (cbty b) && cchi_eqb (cbchi b) CCns)
  then mkb (shrink_identifier (cbvar b)) Prd (shrink_ty (cbty b))
  else mkb (shrink_identifier (cbvar b)) Cns (shrink_ty (cbty b)).
Definition shrink_context (codata : list ctydecl) (c : cctx) : ctx := map (shrink_binding codata) c.

(* ---------- declaration.rs ---------- *)
Definition shrink_xtor (codata : list ctydecl) (x : cxtorsig) : xtorsig :=
  mkx (shrink_identifier (cxname x)) (shrink_context codata (cxargs x)).
Definition shrink_declaration (codata : list ctydecl) (d : ctydecl) : tydecl :=
  mkt (shrink_identifier (ctname d)) (map (shrink_xtor codata) (ctxtors d)).

(* ---------- SubstVar (core_lang): subst : &[(ID, Identifier)], first match on the id ---------- *)
Definition csubst := list (N * cident).
Fixpoint subst_ident (sub : csubst) (x : cident) : cident :=
  match sub with
  | [] => x
  | (old, new) :: r => if N.eqb old (cid_id x) then new else subst_ident r x
  end.
Definition subst_binding (sub : csubst) (b : cbinding) : cbinding :=
  mkcb (subst_ident sub (cbvar b)) (cbchi b) (cbty b).
Definition subst_ctx (sub : csubst) (c : cctx) : cctx := map (subst_binding sub) c.

Fixpoint subst_term (sub : csubst) (t : fsterm) : fsterm :=
  match t with
  | FsXVar c v ty => FsXVar c (subst_ident sub v) ty
  | FsLit n => FsLit n
  | FsOp a o b => FsOp (subst_ident sub a) o (subst_ident sub b)
  | FsMu c v s ty => FsMu c v (subst_stmt sub s) ty                     (* binder untouched *)
  | FsXtor c x args ty => FsXtor c x (subst_ctx sub args) ty
  | FsXCase c cls ty =>
      FsXCase c ((fix go (l : list fsclause) : list fsclause :=
                    match l with [] => [] | y :: r => subst_clause sub y :: go r end) cls) ty
  end
with subst_clause (sub : csubst) (cl : fsclause) : fsclause :=
  match cl with FsClause c x ctx body => FsClause c x ctx (subst_stmt sub body) end   (* context untouched *)
with subst_stmt (sub : csubst) (s : fsstmt) : fsstmt :=
  match s with
  | FsCut p ty k => FsCut (subst_term sub p) ty (subst_term sub k)
  | FsIfC so a b t e =>
      FsIfC so (subst_ident sub a) (option_map (subst_ident sub) b) (subst_stmt sub t) (subst_stmt sub e)
  | FsPrint nl a next => FsPrint nl (subst_ident sub a) (subst_stmt sub next)
  | FsCall f args => FsCall f (subst_ctx sub args)
  | FsExit v => FsExit (subst_ident sub v)
  end.
Definition subst_clauses (sub : csubst) (cls : list fsclause) : list fsclause := map (subst_clause sub) cls.

(* ---------- Subst (axcut): same key, binders (`var` of let/create/literal/op, clause contexts)
   untouched; the free-variable annotations are None at this stage ---------- *)
Definition asubst := list (N * ident).
Fixpoint ax_subst_ident (sub : asubst) (x : ident) : ident :=
  match sub with
  | [] => x
  | (old, new) :: r => if N.eqb old (idn x) then new else ax_subst_ident r x
  end.
Definition ax_subst_binding (sub : asubst) (b : binding) : binding :=
  mkb (ax_subst_ident sub (bvar b)) (bchi b) (bty b).
Definition ax_subst_ctx (sub : asubst) (c : ctx) : ctx := map (ax_subst_binding sub) c.
Fixpoint ax_subst (sub : asubst) (s : stmt) : stmt :=
  let go_cls := fix go (l : list (ident * ctx * stmt)) : list (ident * ctx * stmt) :=
    match l with
    | [] => []
    | (x, c, b) :: r => (x, c, ax_subst sub b) :: go r
    end in
  match s with
  | Substitute re next =>
      Substitute (map (fun p => (ax_subst_binding sub (fst p), ax_subst_ident sub (snd p))) re) (ax_subst sub next)
  | Call l args => Call l (ax_subst_ctx sub args)
  | Let v t tag args next => Let v t tag (ax_subst_ctx sub args) (ax_subst sub next)
  | Switch v t cls => Switch (ax_subst_ident sub v) t (go_cls cls)
  | Create v t env cls next => Create v t (option_map (ax_subst_ctx sub) env) (go_cls cls) (ax_subst sub next)
  | Invoke v tag t args => Invoke (ax_subst_ident sub v) tag t (ax_subst_ctx sub args)
  | Literal n v next => Literal n v (ax_subst sub next)
  | Op a o b v next => Op (ax_subst_ident sub a) o (ax_subst_ident sub b) v (ax_subst sub next)
  | PrintI64 nl v next => PrintI64 nl (ax_subst_ident sub v) (ax_subst sub next)
  | IfC so a b t e =>
      IfC so (ax_subst_ident sub a) (option_map (ax_subst_ident sub) b) (ax_subst sub t) (ax_subst sub e)
  | Exit v => Exit (ax_subst_ident sub v)
  end.

(* ---------- BTreeSet<ContextBinding>: derived Ord = (var.name bytes, var.id, Prd < Cns, I64 < Decl name) ---------- *)
Definition cident_compare (a b : cident) : comparison :=
  match String.compare (fst a) (fst b) with
  | Datatypes.Eq => N.compare (snd a) (snd b)
  | c => c
  end.
Definition cchi_compare (a b : cchi) : comparison :=
  match a, b with
  | CPrd, CPrd | CCns, CCns => Datatypes.Eq
  | CPrd, CCns => Datatypes.Lt
  | CCns, CPrd => Datatypes.Gt
  end.
Definition cty_compare (a b : cty) : comparison :=
  match a, b with
  | CI64, CI64 => Datatypes.Eq
  | CI64, CDecl _ => Datatypes.Lt
  | CDecl _, CI64 => Datatypes.Gt
  | CDecl x, CDecl y => cident_compare x y
  end.
Definition cbinding_compare (a b : cbinding) : comparison :=
  match cident_compare (cbvar a) (cbvar b) with
  | Datatypes.Eq =>
      match cchi_compare (cbchi a) (cbchi b) with
      | Datatypes.Eq => cty_compare (cbty a) (cbty b)
      | c => c
      end
  | c => c
  end.
(* the set is its sorted duplicate-free list of elements (= iteration order) *)
Definition bset := list cbinding.
Fixpoint bs_insert (b : cbinding) (l : bset) : bset :=
  match l with
  | [] => [b]
  | x :: r =>
      match cbinding_compare b x with
      | Datatypes.Lt => b :: l
      | Datatypes.Eq => l
      | Datatypes.Gt => x :: bs_insert b r
      end
  end.
Fixpoint bs_remove (b : cbinding) (l : bset) : bset :=
  match l with
  | [] => []
  | x :: r =>
      match cbinding_compare b x with
      | Datatypes.Lt => l
      | Datatypes.Eq => r
      | Datatypes.Gt => x :: bs_remove b r
      end
  end.
Definition bs_extend (bs : list cbinding) (l : bset) : bset := fold_left (fun acc b => bs_insert b acc) bs l.
Definition bs_remove_all (bs : list cbinding) (l : bset) : bset := fold_left (fun acc b => bs_remove b acc) bs l.

(* ---------- TypedFreeVars on the Fs* types (accumulator = the shared &mut BTreeSet) ---------- *)
Definition i64_prd (v : cident) : cbinding := mkcb v CPrd CI64.
Fixpoint tfv_term (t : fsterm) (vars : bset) : bset :=
  match t with
  | FsXVar c v ty => bs_insert (mkcb v c ty) vars
  | FsLit _ => vars
  | FsOp a _ b => bs_insert (i64_prd b) (bs_insert (i64_prd a) vars)
  | FsMu c v s ty =>
      (* a mu (prdcns = Prd) binds a covariable and vice versa *)
      bs_remove (mkcb v (match c with CPrd => CCns | CCns => CPrd end) ty) (tfv_stmt s vars)
  | FsXtor _ _ args _ => bs_extend args vars
  | FsXCase _ cls _ =>
      (fix go (l : list fsclause) (vars : bset) : bset :=
         match l with [] => vars | y :: r => go r (tfv_clause y vars) end) cls vars
  end
with tfv_clause (cl : fsclause) (vars : bset) : bset :=
  match cl with FsClause _ _ ctx body => bs_remove_all ctx (tfv_stmt body vars) end
with tfv_stmt (s : fsstmt) (vars : bset) : bset :=
  match s with
  | FsCut p _ k => tfv_term k (tfv_term p vars)
  | FsIfC _ a b t e =>
      let vars := bs_insert (i64_prd a) vars in
      let vars := match b with Some b' => bs_insert (i64_prd b') vars | None => vars end in
      tfv_stmt e (tfv_stmt t vars)
  | FsPrint _ a next => tfv_stmt next (bs_insert (i64_prd a) vars)
  | FsCall _ args => bs_extend args vars
  | FsExit v => bs_insert (i64_prd v) vars
  end.
Definition typed_free_vars (s : fsstmt) : bset := tfv_stmt s [].

(* ---------- measure ---------- *)
Fixpoint fsz_term (t : fsterm) : nat :=
  match t with
  | FsXVar _ _ _ | FsLit _ | FsOp _ _ _ | FsXtor _ _ _ _ => 1
  | FsMu _ _ s _ => S (fsz s)
  | FsXCase _ cls _ =>
      S ((fix go (l : list fsclause) : nat := match l with [] => 0 | y :: r => fsz_clause y + go r end) cls)
  end
with fsz_clause (cl : fsclause) : nat :=
  match cl with FsClause _ _ _ body => S (fsz body) end
with fsz (s : fsstmt) : nat :=
  match s with
  | FsCut p _ k => S (fsz_term p + fsz_term k)
  | FsIfC _ _ _ t e => S (fsz t + fsz e)
  | FsPrint _ _ next => S (fsz next)
  | FsCall _ _ | FsExit _ => 1
  end.

(* ---------- shrinking.rs: the state ---------- *)
Record sst := mksst { s_max : N; s_lifted : list def; s_used : list cident }.
Record senv := mksenv { e_data : list ctydecl; e_codata : list ctydecl; e_label : string }.

(* names.rs: fresh_identifier(max_id, base) *)
Definition fresh_identifier (st : sst) (base : string) : cident * sst :=
  let m := N.succ (s_max st) in ((base, m), mksst m (s_lifted st) (s_used st)).
Definition fresh_var (st : sst) : cident * sst := fresh_identifier st "x".

(* the continuation xtor application  `var.Ret(x)`  used by the integer cases *)
Definition cont_ty : ty := Decl (shrink_identifier cont_name).
Definition invoke_ret (var : cident) (x : cident) : stmt :=
  Invoke (shrink_identifier var) (shrink_identifier ret_name) cont_ty [mkb (shrink_identifier x) Ext I64].

(* `shrink_context(args).bindings.map(|b| ContextBinding { var: fresh_identifier(max_id, &b.var.name), ..b })` *)
Fixpoint fresh_env (bs : ctx) (st : sst) : ctx * sst :=
  match bs with
  | [] => ([], st)
  | b :: r =>
      let '(v, st1) := fresh_identifier st (fst (bvar b)) in
      let '(r', st2) := fresh_env r st1 in
      (mkb (shrink_identifier v) (bchi b) (bty b) :: r', st2)
  end.

(* the xtors of the type that is eta-expanded, and which side is kept / expanded *)
Definition xtors_of (E : senv) (ty : cty) (name : cident) : shres (list (cident * cctx)) :=
  match lookup_type_declaration name (if is_codata (e_codata E) ty then e_codata E else e_data E) with
  | Some d => SOk (map (fun x => (cxname x, cxargs x)) (ctxtors d))
  | None => SErr ("Type " ++ fst name ++ " not found")
  end.

(* ---------- cut.rs: shrink_unknown_cuts ---------- *)
(* the clauses of the eta-expansion: per xtor fresh parameters, the body invokes the xtor on the
   expanded (co)variable *)
Fixpoint unknown_clauses (codata : list ctydecl) (var_expand : cident) (translated_ty : ty)
         (xs : list (cident * cctx)) (st : sst) : list clause * sst :=
  match xs with
  | [] => ([], st)
  | (xtor, args) :: r =>
      let '(env, st1) := fresh_env (shrink_context codata args) st in
      let '(r', st2) := unknown_clauses codata var_expand translated_ty r st1 in
      ((shrink_identifier xtor, env,
        Invoke (shrink_identifier var_expand) (shrink_identifier xtor) translated_ty env) :: r', st2)
  end.
Definition shrink_unknown_cuts (E : senv) (var_prd var_cns : cident) (ty : cty) (st : sst) : shres (stmt * sst) :=
  match ty with
  | CI64 => SOk (invoke_ret var_cns var_prd, st)
  | CDecl name =>
      dos xtors <- xtors_of E ty name;
      let '(var_keep, var_expand) := if is_codata (e_codata E) ty then (var_cns, var_prd) else (var_prd, var_cns) in
      let translated_ty := shrink_ty ty in
      let '(clauses, st') := unknown_clauses (e_codata E) var_expand translated_ty xtors st in
      SOk (Switch (shrink_identifier var_keep) translated_ty clauses, st')
  end.

(* the clauses of the eta-expansion of a critical pair: per xtor fresh parameters, then a fresh
   variable for the expanded binder; the body binds the xtor and continues with (a copy of) the
   shrunk expanded side in which the expanded binder is renamed to the fresh variable *)
Fixpoint critical_clauses (codata : list ctydecl) (var_expand : cident) (translated_ty : ty)
         (shrunk_statement_expand : stmt) (xs : list (cident * cctx)) (st : sst) : list clause * sst :=
  match xs with
  | [] => ([], st)
  | (xtor, args) :: r =>
      let '(env, sta) := fresh_env (shrink_context codata args) st in
      let '(var, stb) := fresh_identifier sta (fst var_expand) in
      let next := ax_subst [(cid_id var_expand, shrink_identifier var)] shrunk_statement_expand in
      let '(r', stc) := critical_clauses codata var_expand translated_ty shrunk_statement_expand r stb in
      ((shrink_identifier xtor, env,
        Let (shrink_identifier var) translated_ty (shrink_identifier xtor) env next) :: r', stc)
  end.

(* the label loop of `lift`: candidates until the printed form (Identifier::print: `name_id`) is not
   the printed form of a used label *)
Fixpoint fresh_label (fuel : nat) (used : list cident) (base : string) (st : sst) : option (cident * sst) :=
  match fuel with
  | O => None
  | S fuel =>
      let '(candidate, st1) := fresh_identifier st base in
      if existsb (fun u => String.eqb (show_cident u) (show_cident candidate)) used
      then fresh_label fuel used base st1
      else Some (candidate, st1)
  end.

Section Open.
(* the recursive call `.shrink(state)` on statements (open recursion; closed by fuel below) *)
Variable rec : fsstmt -> sst -> shres (stmt * sst).
Variable E : senv.

(* impl Shrinking for Vec<Clause>: in order *)
Fixpoint shrink_clauses (cls : list fsclause) (st : sst) : shres (list clause * sst) :=
  match cls with
  | [] => SOk ([], st)
  | FsClause _ x ctx body :: r =>
      dos (b, st1) <- rec body st;
      dos (r', st2) <- shrink_clauses r st1;
      SOk ((shrink_identifier x, shrink_context (e_codata E) ctx, b) :: r', st2)
  end.

(* shrink_renaming *)
Definition shrink_renaming (var : cident) (var_mu : N) (statement : fsstmt) (st : sst) : shres (stmt * sst) :=
  rec (subst_stmt [(var_mu, var)] statement) st.

(* shrink_known_cuts *)
Definition clause_xtor (c : fsclause) : cident := match c with FsClause _ x _ _ => x end.
Definition clause_ctx (c : fsclause) : cctx := match c with FsClause _ _ ctx _ => ctx end.
Definition clause_body (c : fsclause) : fsstmt := match c with FsClause _ _ _ b => b end.
Definition shrink_known_cuts (xtor : cident) (args : list cident) (clauses : list fsclause) (st : sst)
  : shres (stmt * sst) :=
  match find (fun c => cident_eqb (clause_xtor c) xtor) clauses with
  | None => SErr ("Xtor " ++ fst xtor ++ " not found in clauses")
  | Some c =>
      let sub := combine (cids (clause_ctx c)) args in       (* vec_ids().zip(args) *)
      rec (subst_stmt sub (clause_body c)) st
  end.

(* lift *)
Fixpoint lift_params (fvs : list cbinding) (st : sst) : (cctx * csubst) * sst :=
  match fvs with
  | [] => (([], []), st)
  | b :: r =>
      let '(v, st1) := fresh_identifier st (fst (cbvar b)) in
      let '((cx, sub), st2) := lift_params r st1 in
      ((mkcb v (cbchi b) (cbty b) :: cx, (cid_id (cbvar b), v) :: sub), st2)
  end.
Definition lift (statement : fsstmt) (st : sst) : shres (stmt * sst) :=
  let fvs := typed_free_vars statement in
  let '((context, sub), st1) := lift_params fvs st in
  match fresh_label (S (List.length (s_used st1))) (s_used st1) ("lift_" ++ e_label E ++ "_") st1 with
  | None => SErr "label loop: out of fuel"
  | Some (label, st2) =>
      let st2 := mksst (s_max st2) (s_lifted st2) (label :: s_used st2) in          (* used_labels.insert(label) *)
      let context := shrink_context (e_codata E) context in
      dos (body, st3) <- rec (subst_stmt sub statement) st2;
      let st4 := mksst (s_max st3) (mkd (shrink_identifier label) context body :: s_lifted st3) (s_used st3) in
      SOk (Call (shrink_identifier label) (shrink_context (e_codata E) fvs), st4)
  end.

(* the sharing condition of shrink_critical_pairs: true = shrink in place, false = lift *)
Definition is_leaf_statement (s : fsstmt) : bool :=
  match s with
  | FsExit _ | FsCall _ _ => true
  | FsCut (FsXVar _ _ _) _ (FsXtor _ _ _ _) => true
  | FsCut (FsXtor _ _ _ _) _ (FsXVar _ _ _) => true
  | _ => false
  end.

(* shrink_critical_pairs *)
Definition shrink_critical_pairs (var_prd : cident) (statement_prd : fsstmt) (var_cns : cident)
           (statement_cns : fsstmt) (ty : cty) (st : sst) : shres (stmt * sst) :=
  match ty with
  | CI64 =>
      dos (body, st1) <- rec statement_cns st;
      dos (next, st2) <- rec statement_prd st1;
      SOk (Create (shrink_identifier var_prd) cont_ty None
                  [(shrink_identifier ret_name, [mkb (shrink_identifier var_cns) Ext I64], body)] next, st2)
  | CDecl name =>
      dos xtors <- xtors_of E ty name;
      let '(var_keep, statement_keep, var_expand, statement_expand) :=
        if is_codata (e_codata E) ty
        then (var_cns, statement_cns, var_prd, statement_prd)
        else (var_prd, statement_prd, var_cns, statement_cns) in
      let translated_ty := shrink_ty ty in
      dos (shrunk_statement_expand, st1) <-
        (if Nat.leb (List.length xtors) 1 || is_leaf_statement statement_expand
         then rec statement_expand st
         else lift statement_expand st);
      let '(clauses, st2) :=
        critical_clauses (e_codata E) var_expand translated_ty shrunk_statement_expand xtors st1 in
      dos (next, st3) <- rec statement_keep st2;
      SOk (Create (shrink_identifier var_keep) (Decl (shrink_identifier name)) None clauses next, st3)
  end.

(* impl Shrinking for FsCut *)
Definition shrink_cut (p : fsterm) (ty : cty) (c : fsterm) (st : sst) : shres (stmt * sst) :=
  match p, c with
  (* renaming *)
  | FsMu _ variable statement _, FsXVar _ var _
  | FsXVar _ var _, FsMu _ variable statement _ => shrink_renaming var (cid_id variable) statement st
  (* known cuts *)
  | FsXtor _ name args _, FsXCase _ clauses _
  | FsXCase _ clauses _, FsXtor _ name args _ => shrink_known_cuts name (cvars args) clauses st
  (* unknown cuts *)
  | FsXVar _ var_prd _, FsXVar _ var_cns _ => shrink_unknown_cuts E var_prd var_cns ty st
  (* critical pairs *)
  | FsMu _ var_prd statement_prd _, FsMu _ var_cns statement_cns _ =>
      shrink_critical_pairs var_prd statement_prd var_cns statement_cns ty st
  (* literal / op against mu~ and against a covariable *)
  | FsLit lit, FsMu _ variable statement _ =>
      dos (next, st1) <- rec statement st;
      SOk (Literal lit (shrink_identifier variable) next, st1)
  | FsLit lit, FsXVar _ var _ =>
      let '(x, st1) := fresh_var st in
      SOk (Literal lit (shrink_identifier x) (invoke_ret var x), st1)
  | FsOp a o b, FsMu _ variable statement _ =>
      dos (next, st1) <- rec statement st;
      SOk (Op (shrink_identifier a) (shrink_binop o) (shrink_identifier b) (shrink_identifier variable) next, st1)
  | FsOp a o b, FsXVar _ var _ =>
      let '(x, st1) := fresh_var st in
      SOk (Op (shrink_identifier a) (shrink_binop o) (shrink_identifier b) (shrink_identifier x) (invoke_ret var x), st1)
  (* Let *)
  | FsXtor _ name args _, FsMu _ variable statement _
  | FsMu _ variable statement _, FsXtor _ name args _ =>
      dos (next, st1) <- rec statement st;
      SOk (Let (shrink_identifier variable) (shrink_ty ty) (shrink_identifier name)
               (shrink_context (e_codata E) args) next, st1)
  (* Invoke *)
  | FsXtor _ name args _, FsXVar _ var _
  | FsXVar _ var _, FsXtor _ name args _ =>
      SOk (Invoke (shrink_identifier var) (shrink_identifier name) (shrink_ty ty)
                  (shrink_context (e_codata E) args), st)
  (* Switch *)
  | FsXVar _ var _, FsXCase _ clauses _
  | FsXCase _ clauses _, FsXVar _ var _ =>
      dos (cls, st1) <- shrink_clauses clauses st;
      SOk (Switch (shrink_identifier var) (shrink_ty ty) cls, st1)
  (* Create *)
  | FsMu _ variable statement _, FsXCase _ clauses _
  | FsXCase _ clauses _, FsMu _ variable statement _ =>
      dos (cls, st1) <- shrink_clauses clauses st;
      dos (next, st2) <- rec statement st1;
      SOk (Create (shrink_identifier variable) (shrink_ty ty) None cls next, st2)
  (* all other cases are impossible by typing *)
  | _, _ => SErr "cannot happen"
  end.

(* impl Shrinking for FsStatement (statements/{mod,ifc,print,call,exit}.rs) *)
Definition shrink_step (s : fsstmt) (st : sst) : shres (stmt * sst) :=
  match s with
  | FsCut p ty c => shrink_cut p ty c st
  | FsIfC so a b t e =>
      dos (t', st1) <- rec t st;
      dos (e', st2) <- rec e st1;
      SOk (IfC (shrink_ifsort so) (shrink_identifier a) (option_map shrink_identifier b) t' e', st2)
  | FsPrint nl a next =>
      dos (n', st1) <- rec next st;
      SOk (PrintI64 nl (shrink_identifier a) n', st1)
  | FsCall f args => SOk (Call (shrink_identifier f) (shrink_context (e_codata E) args), st)
  | FsExit v => SOk (Exit (shrink_identifier v), st)
  end.
End Open.

Fixpoint shrink_stmt (fuel : nat) (E : senv) (s : fsstmt) (st : sst) {struct fuel} : shres (stmt * sst) :=
  match fuel with
  | O => SErr "out of fuel"
  | S fuel => shrink_step (shrink_stmt fuel E) E s st
  end.

(* ---------- def.rs: shrink_def: the definition followed by its lifted statements, most recent first ---------- *)
Definition shrink_def (d : fsdef) (data codata : list ctydecl) (used : list cident) (max_id : N)
  : shres (list def * list cident * N) :=
  let E := mksenv data codata (fst (fsdname d)) in
  dos (body, st) <- shrink_stmt (fsz (fsdbody d)) E (fsdbody d) (mksst max_id [] used);
  SOk (mkd (shrink_identifier (fsdname d)) (shrink_context codata (fsdctx d)) body :: s_lifted st, s_used st, s_max st).

(* ---------- program.rs: shrink_prog ---------- *)
Fixpoint shrink_defs (ds : list fsdef) (data codata : list ctydecl) (used : list cident) (max_id : N) (acc : list def)
  : shres (list def * N) :=
  match ds with
  | [] => SOk (frev acc, max_id)
  | d :: r =>
      dos (out, used', m) <- shrink_def d data codata used max_id;
      shrink_defs r data codata used' m (rev_append out acc)
  end.
Definition shrink_prog (p : fsprog) : shres prog :=
  if existsb (fun t => cident_eqb (ctname t) cont_name) (fspdata p)
     || existsb (fun t => cident_eqb (ctname t) cont_name) (fspcodata p)
  then SErr "_Cont cannot be used as a type name"
  else
    let data := fspdata p ++ [cont_int] in
    let codata := fspcodata p in
    let used_labels := map fsdname (fspdefs p) in
    dos (defs, m) <- shrink_defs (fspdefs p) data codata used_labels (fspmax p) [];
    SOk (mkp defs (map (shrink_declaration codata) data ++ map (shrink_declaration codata) codata) m).
