(* Model/WtDefs.v (property C12): small definitions shared by modelrun `wt-stages` and the theorems
   of Proof/AxToLin.v / Proof/WtPreserve.v.  No proofs here.
   - [pre_linear]: what shrinking emits and linearization expects: no explicit substitution, no
     annotated closure environment;
   - [binders_ok]: the part of LinCheck.prog_ok that Sem/AxCheck.v does not look at (binders globally
     distinct per definition, ids <= max_id);
   - the typing witness of the fun2core capture defect (corpus/fun/c12_capture_illtyped.sc): its
     source form and the form the checker annotates (modelrun compares the latter with the real
     CheckedProgram of that file on every run). *)
From Coq Require Import List ZArith NArith String Bool.
From SCC Require Import Base.Sexp Lang.AxSyn Lang.FunSyn Model.Linearize Model.LinCheck Model.Fun2Core.
Import ListNotations.
Open Scope string_scope.

Fixpoint pre_linear (s : stmt) : bool :=
  let go := fix go (cls : list (ident * ctx * stmt)) : bool :=
    match cls with [] => true | (_, _, b) :: r => pre_linear b && go r end in
  match s with
  | Substitute _ _ => false
  | Call _ _ | Invoke _ _ _ _ | Exit _ => true
  | Let _ _ _ _ next | Literal _ _ next | Op _ _ _ _ next | PrintI64 _ _ next => pre_linear next
  | Switch _ _ cls => go cls
  | Create _ _ env cls next => match env with None => true | Some _ => false end && go cls && pre_linear next
  | IfC _ _ _ t e => pre_linear t && pre_linear e
  end.
Definition pre_linear_prog (p : prog) : bool := forallb (fun d => pre_linear (dbody d)) (pdefs p).
Definition binders_ok (p : prog) : bool :=
  forallb (fun d => nodupb (ids (dctx d) ++ binders (dbody d))
                    && forallb (fun x => N.leb x (pmax p)) (ids (dctx d) ++ binders (dbody d))) (pdefs p).

(* def h(n: i64): i64 { label a { let a: i64 = n + 1; a * 2 } }   def main(): i64 { println_i64(h(4)); 0 } *)
Definition capture_typing_source : fprog :=
  mkfprog
    [FDDef (mkfdef "h" [mkfb "n" FPrd FI64] FI64
       (FLabel "a" (FLet "a" FI64 (FOp (FVar "n" None None) FSum (FLit 1)) (FOp (FVar "a" None None) FProd (FLit 2)) None) None));
     FDDef (mkfdef "main" [] FI64 (FPrint true (FCall "h" [FLit 4] None) (FLit 0) None))].
Definition capture_typing_witness : fcprog :=
  mkfcprog [] []
    [mkfdef "h" [mkfb "n" FPrd FI64] FI64
       (FLabel "a" (FLet "a" FI64 (FOp (v_prd "n" FI64) FSum (FLit 1)) (FOp (v_prd "a" FI64) FProd (FLit 2)) (Some FI64)) (Some FI64));
     mkfdef "main" [] FI64 (FPrint true (FCall "h" [FLit 4] (Some FI64)) (FLit 0) (Some FI64))].

(* corpus/fun/call_main_tail.sc as the type checker annotates it (former finding call-to-main, repaired in /repo by
   f929eb7; here main is called in tail position only).  modelrun wt-stages compares this value with the real
   CheckedProgram of that file on every run; the non-vacuity statements of Proof/WtExamples3.v are about it. *)
Definition call_main_tail_witness : fcprog :=
  mkfcprog [] []
    [mkfdef "main" [mkfb "n" FPrd FI64] FI64
       (FIfC FEq (FVar "n" (Some FI64) (Some FPrd)) None
          (FLit 0)
          (FPrint true (FVar "n" (Some FI64) (Some FPrd))
             (FCall "main" [FLit 0] (Some FI64))
             (Some FI64))
          (Some FI64))].
