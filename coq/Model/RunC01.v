(* modelrun command "c01": native execution of the whole x86-64 path against the source semantics.
   case: (case k ("name" <checked Fun program> nargs) RES) where RES is (asm-ok RUN ...) with
   RUN = ((args) "stdout" OUTCOME), OUTCOME = (status n) or (signal n) or timeout; or ((asm-error "msg")) *)
From Coq Require Import List ZArith NArith String Bool.
From SCC Require Import Model.PipelineGuards.
From SCC Require Import Base.Sexp Lang.SynUtil Lang.FunSyn Sem.AxSem Sem.CoreSem Sem.FunSem Sem.LabelGuard Model.Fun2Core Model.RunBase Model.RunFun2Core.
Import ListNotations.
Open Scope list_scope.
Open Scope string_scope.

Definition c01_fuel : nat := N.iter 2000000 S O.

Inductive native_outcome := NStatus (n : Z) | NSignal (n : Z) | NTimeout.
Definition g_native (x : sexp) : option (list Z * string * native_outcome) :=
  match x with
  | L [args; Q out; o] =>
      do args <- getL getZ args;
      do o <- match o with
              | L [A "status"; n] => do n <- getZ n; Some (NStatus n)
              | L [A "signal"; n] => do n <- getZ n; Some (NSignal n)
              | A "timeout" => Some NTimeout
              | _ => None
              end;
      Some (args, out, o)
  | _ => None
  end.
Definition show_native (o : native_outcome) : string :=
  match o with NStatus n => "status " ++ z_to_string n | NSignal n => "signal " ++ z_to_string n | NTimeout => "timeout" end.

(* Some why = mismatch; None = agrees or no verdict; the bool says whether a comparison was made *)
Definition c01_one (p : fcprog) (r : list Z * string * native_outcome) : option string * bool :=
  let '(args, out, o) := r in
  let ref := run_fun c01_fuel p args in
  match snd ref with
  | OExit z =>
      let exp_out := render_prints (fst ref) in
      let exp_status := Z.modulo z 256 in
      match o with
      | NStatus n =>
          if String.eqb out exp_out && Z.eqb n exp_status then (None, true)
          else (Some ("args=" ++ show (sL sZ args) ++ " expected stdout=" ++ show (Q exp_out) ++ " status " ++ z_to_string exp_status
                      ++ " got stdout=" ++ show (Q out) ++ " " ++ show_native o), true)
      | _ => (Some ("args=" ++ show (sL sZ args) ++ " expected stdout=" ++ show (Q exp_out) ++ " status " ++ z_to_string exp_status
                    ++ " got " ++ show_native o), true)
      end
  | _ => (None, false)
  end.

(* known finding C14 label-collision-name-digits seen from the source program: a declared type name with
   `_<digit>` AND a constructor / destructor name with `_<digit>` or a leading digit make the label
   texts <Type>_<k>[_<Xtor>] ambiguous; the assembler then reports a symbol defined twice *)
Fixpoint contains (sub s : string) : bool :=
  String.prefix sub s || match s with EmptyString => false | String _ r => contains sub r end.
Fixpoint one_line (s : string) : string :=
  match s with
  | EmptyString => EmptyString
  | String c r => String (if Nat.eqb (Ascii.nat_of_ascii c) 10 then Ascii.ascii_of_nat 32 else c) (one_line r)
  end.
Definition fun_name_digits (p : fcprog) : bool :=
  existsb has_usd (map fdaname (fcpdata p) ++ map fcoaname (fcpcodata p))
  && existsb (fun x => has_usd x || hd_dig x)
       (flat_map (fun d => map fctname (fdactors d)) (fcpdata p) ++ flat_map (fun c => map fdtname (fcodtors c)) (fcpcodata p)).

Definition c01_case (i r : sexp) : verdict :=
  match i with
  | L [Q name; p; _] =>
      match g_fcprog p with
      | None => VBad "input unreadable"
      | Some p =>
          match r with
          | L [L [A "asm-error"; Q e]] =>
              if contains "already defined" e && fun_name_digits p
              then VViol ("class=label-collision-name-digits-e2e " ++ name ++ ": " ++ one_line (trunc 600 e))
              else VViol ("class=assembler-rejects " ++ name ++ ": " ++ one_line (trunc 600 e))
          | L (A "asm-ok" :: runs) =>
              match omap g_native runs with
              | None => VBad "native runs unreadable"
              | Some runs =>
                  let res := map (c01_one p) runs in
                  let compared := List.length (filter (fun x => snd x) res) in
                  match find (fun x => match fst x with Some _ => true | None => false end) res with
                  | Some (Some why, _) =>
                      (* former finding call-to-main-e2e (repaired in /repo by f929eb7; no known_findings entry matches it
                         any more: a plain violation, the tag only describes it) *)
                      if calls_main_prog p then VViol ("class=call-to-main-e2e " ++ name ++ " " ++ why)
                      else if negb (args_effect_free p) then VSkip ("mismatch in a program whose effects are not sequenced (argument evaluation order unspecified): " ++ name)
                      (* former finding capture-under-binder-e2e (repaired in /repo by d5d4151; no known_findings entry
                         matches it any more: a plain violation, the tag only describes it) *)
                      else if shadowing_risk_prog p then VViol ("class=capture-under-binder " ++ name ++ " " ++ why)
                      else VViol ("class=end-to-end-mismatch " ++ name ++ " " ++ why)
                  | _ =>
                      VOk ((if Nat.eqb compared 0 then "nocompare" else "nt") ++ " runs" ++ n_to_string (N.of_nat compared)
                           ++ (if shadowing_risk_prog p then " shadowing" else " no-shadow")
                           ++ (if effect_sequenced p then " sequenced" else if args_effect_free p then " byname-effects" else " unsequenced")
                           ++ (if in_composed_theorem p then " thm-middle" else " outside-thm"))
                  end
              end
          | _ => VBad "native result shape"
          end
      end
  | _ => VBad "input shape"
  end.
Definition run_c01 : string -> string := run_cases c01_case.
