(* modelrun command "focus" (property C03): the models of uniquify and focus against the Rust code,
   and the executable form of the property on the RUST output.

   Case file written by `harness focus`:
     (case k ("<name>" <Prog> ((<int>…)…)) (<uniquified Prog | (PANIC m)> <focused FsProg | (PANIC m)>))

   Per case
     1. property on the Rust output, when the input satisfies the precondition of the theorems
        (FocusCheck.pre_check && focus_wf):
          - no panic                                   else VIOL class=panic-on-wf-input
          (a fun2core output - case name file:… or gen:… without mutation - outside the precondition
           is itself a violation: class=translation-output-outside-precondition)
          - uniquified_check / unique_check            else VIOL class=non-unique-binder
          - "focused": the output reads as FsProg (the fs types admit only variables in argument
            positions, so a successful read IS the check)
          - semantic equality before/after on the argument tuples: [sem_hook] below (Sem/CoreSem.v)
                                                       else VIOL class=order-of-effects | class=semantic-mismatch
     2. model = Rust for both stages (panic messages included)      else DIFF
   Tags after OK: nt (some fresh binder was created), the origin of the case (hand/file/gen and the
   mutation), pre / nopre, panic, size bucket of the output; for inputs inside the precondition the
   coverage of the round-2 preservation theorems (Model/FocusGuard.v):
     thm-static  cs_prog and (the static guard sg_prog (bn=false or kr=false) or the type checker tc_prog):
                 C03_uniquify_focus_preserves_fragment / _typed applies
     thm-run     cs_prog and no kind clash on the runs compared: C03_uniquify_focus_preserves_partial applies
     thm-none    neither (nocs: an occurrence of the wrong chirality; clash: a kind clash on a run). *)
From Coq Require Import List ZArith NArith String Ascii Bool.
From SCC Require Import Base.Sexp Lang.SynUtil Lang.CoreSyn Sem.AxSem Sem.CoreSem Model.Backend Model.Uniquify Model.Focus
     Model.FocusCheck Model.FocusGuard Model.RunBase Model.RunStages.
Import ListNotations.
Open Scope string_scope.

(* ---------- (c) semantic comparison on the Core abstract machine (Sem/CoreSem.v) ----------
   For each argument tuple:  run_core src_fuel p args  vs  run_fs tgt_fuel q args.
   The focused program takes more machine transitions than the original (every lifted argument
   costs a cut and a binding), hence the larger target fuel.  Verdict only when the source run
   ends defined (OExit / OUndef) within the fuel:
     equal observations                                  -> tag sem
     same outcome, same prints as a multiset, other order -> class=order-of-effects
     anything else                                       -> class=semantic-mismatch
   Source stuck (ill-typed hand-built input) or out of fuel on either side: tags sem-stuck /
   sem-oof, no verdict. *)
Definition src_fuel : nat := N.iter 20000 S O.
Definition tgt_fuel : nat := N.iter 400000 S O.

Fixpoint remove_print (x : bool * Z) (l : prints) : option prints :=
  match l with
  | [] => None
  | y :: r => if Bool.eqb (fst x) (fst y) && Z.eqb (snd x) (snd y) then Some r
              else match remove_print x r with Some r' => Some (y :: r') | None => None end
  end.
Fixpoint prints_perm (a b : prints) : bool :=
  match a with
  | [] => match b with [] => true | _ => false end
  | x :: a' => match remove_print x b with Some b' => prints_perm a' b' | None => false end
  end.

Definition sem_one (p : cprog) (q : fsprog) (a : list Z) : option string * string :=
  let o1 := run_core src_fuel p a in
  match snd o1 with
  | OOutOfFuel => (None, "sem-oof")
  | OStuck _ => (None, "sem-stuck")
  | _ =>
      let o2 := run_fs tgt_fuel q a in
      match snd o2 with
      | OOutOfFuel => (None, "sem-oof-target")
      | _ =>
          if obs_eqb o1 o2 then (None, "sem")
          else
            let what := " before=" ++ trunc 200 (show (s_obs o1)) ++ " after=" ++ trunc 200 (show (s_obs o2)) in
            if outcome_eqb (snd o1) (snd o2) && prints_perm (fst o1) (fst o2)
            then (Some ("class=order-of-effects" ++ what), "")
            else (Some ("class=semantic-mismatch" ++ what), "")
      end
  end.

Definition sem_hook (p : cprog) (q : fsprog) (args : sexp) : option string * string :=
  match getL (getL getZ) args with
  | None => (None, "sem-noargs")
  | Some tuples =>
      fold_left (fun acc a =>
                   match acc with
                   | (Some v, t) => (Some v, t)
                   | (None, t) => match sem_one p q a with
                                  | (Some v, _) => (Some v, t)
                                  | (None, t') => (None, if String.eqb t "" then t' else if String.eqb t t' then t else t ++ " " ++ t')
                                  end
                   end) tuples (None, "")
  end.

(* which preservation theorem covers the case *)
Definition thm_tags (p : cprog) (args : sexp) : string :=
  let cs := cs_prog p in
  let guard := sg_prog false true p || sg_prog true false p in
  let cf := match getL (getL getZ) args with
            | Some tuples => forallb (fun a => clash_free_prog src_fuel p a) tuples
            | None => true
            end in
  (if cs && (guard || (tc_prog p && tc_entry p)) then " thm-static" else if cs && cf then " thm-run" else " thm-none")
  ++ (if cs then "" else " nocs") ++ (if cf then "" else " clash") ++ (if tc_prog p && tc_entry p then " typed" else " untyped").

Definition s_res {X} (f : X -> sexp) (r : res X) : sexp :=
  match r with Ok x => f x | Err m => L [A "PANIC"; Q m] end.

Definition is_panic (x : sexp) : bool := match x with L [A "PANIC"; Q _] => true | _ => false end.

Definition diff_at (stage : string) (model rust : sexp) : verdict :=
  match first_diff model rust with
  | None => VOk ""
  | Some (path, m, r) =>
      VDiff (stage ++ "@" ++ show_path path ++ ":" ++ trunc 300 (show m)) (trunc 300 (show r))
  end.

(* "hand:x+eta+partial" -> "hand" , "eta+partial" *)
Fixpoint before (c : ascii) (s : string) : string :=
  match s with
  | EmptyString => EmptyString
  | String a r => if Ascii.eqb a c then EmptyString else String a (before c r)
  end.
Fixpoint after (c : ascii) (s : string) : string :=
  match s with
  | EmptyString => EmptyString
  | String a r => if Ascii.eqb a c then r else after c r
  end.
Definition origin_tags (name : string) : string :=
  let m := after "+"%char name in
  before ":"%char name ++ (if String.eqb m "" then " base" else " " ++ m).

Definition focus_case (i r : sexp) : verdict :=
  match i, r with
  | L [Q name; ps; args], L [ru; rf] =>
      match g_cprog ps with
      | None => VBad "input unreadable"
      | Some p =>
          let pre := pre_check p && focus_wf p in
          let mu := uniquify_prog p in
          let mf := focus_prog p in
          let tags := origin_tags name ++ (if pre then " pre" else " nopre") in
          (* 1. the property on the Rust output *)
          let is_translation :=
            String.eqb (after "+"%char name) "" &&
            (String.eqb (before ":"%char name) "file" || String.eqb (before ":"%char name) "gen") in
          let prop : option string * string :=
            if is_translation && negb pre then
              (* every fun2core output must lie inside the precondition of the C03 theorems *)
              (Some "class=translation-output-outside-precondition", "")
            else if is_panic ru || is_panic rf then
              ((if pre then Some ("class=panic-on-wf-input " ++ trunc 200 (show rf)) else None), " panic")
            else
              match g_cprog ru, g_fsprog rf with
              | Some qu, Some qf =>
                  let nt := if N.ltb (cpmax p) (fspmax qf) then "nt " else "" in
                  let sz := " size" ++ bucket (size_fsprog qf) in
                  let uq := uniquified_check p qu && unique_check p qf in
                  if pre then
                    if negb (uniquified_check p qu) then (Some "class=non-unique-binder stage=uniquify", "")
                    else if negb (unique_check p qf) then (Some "class=non-unique-binder stage=focus", "")
                    else
                      match sem_hook p qf args with
                      | (Some v, _) => (Some v, "")
                      | (None, t) => (None, nt ++ tags ++ sz ++ " " ++ t ++ thm_tags p args)
                      end
                  else (None, nt ++ tags ++ sz ++ (if uq then " unique-anyway" else " nonunique-outside-pre"))
              | None, _ => (Some "class=unfocused-output uniquified program unreadable", "")
              | _, None => (Some "class=unfocused-output focused program does not read as FsProg", "")
              end in
          match prop with
          | (Some v, _) => VViol v
          | (None, t) =>
              (* 2. correspondence *)
              match diff_at "uniquify" (s_res s_cprog mu) ru with
              | VOk _ =>
                  match diff_at "focus" (s_res s_fsprog mf) rf with
                  | VOk _ => VOk (if is_panic rf then tags ++ t else t)
                  | v => v
                  end
              | v => v
              end
          end
      end
  | _, _ => VBad "case shape"
  end.
Definition run_focus : string -> string := run_cases focus_case.
