(* modelrun command "heapfull-x86": the known finding `heap-exhaustion-unchecked` of C09 on the REAL allocation code.

   A case (harness/src/cmd_heapfull.rs) is a short sequence of object allocations - the code of `Memory::store` for F
   integer fields (one to four chained blocks) emitted by the trait methods of axcut2x86_64::Backend - and a number
   `room`.  The codes are run one after the other on the ISA model (Sem/X86Sem.v) from the state in which the HEAP
   register holds the block  HEAP_BASE + HEAP_SIZE - 64 * room,  the FREE register the next one (the frontier), and the
   heap is zeroed (reuse list, deferred list empty): exactly `room` blocks lie between the HEAP register and the end
   of the region.  Acquiring a block inspects the header of the block in FREE (the frontier), so room - 1
   acquisitions stay inside the region and the one after them touches  HEAP_BASE + HEAP_SIZE.
     - a run that FAULTS with an out-of-bounds access when the allocations need at least `room` blocks is the defect:
       the generated code never compares the frontier with the end of the heap
           VIOL class=heap-exhaustion-unchecked ...
     - a fault although the allocations need fewer blocks, or any other stop:  VIOL class=heapfull-unexpected ...
     - controls (fewer blocks needed): every code runs to its end, the HEAP / FREE registers advance by one block per
       acquisition, the result temporary holds a block of the region, nothing is written at or above the frontier: OK. *)
From Coq Require Import List ZArith NArith String Ascii Bool FMapPositive.
From SCC Require Import Base.Sexp Lang.AxSyn Sem.AxSem Model.Backend Model.X86 Sem.X86Sem Model.X86Io Model.RunBase Model.RunHeapOps.
From SCC Require Model.Heap.
Import ListNotations.
Open Scope string_scope.
Open Scope Z_scope.

Definition HF_LIMIT : Z := HEAP_BASE + HEAP_SIZE.
Definition hf_blocks (f : nat) : Z := Z.of_nat (Heap.nlinks f) + 1.

(* the start state: `room` blocks from the HEAP register to the end of the region *)
Definition hf_init (room : Z) : xstate :=
  rset (rset (rset (init_state []) 0%N (Some ho_sp)) HEAP (Some (HF_LIMIT - 64 * room))) FREE (Some (HF_LIMIT - 64 * room + 64)).

Definition g_alloc (x : sexp) : option (nat * xtemp) :=
  match x with
  | L [A "alloc"; f; t] => do f <- getN f; do t <- g_temp t; Some (N.to_nat f, t)
  | _ => None
  end.
Definition g_room (x : sexp) : option Z :=
  match x with L [A "room"; r] => do r <- getN r; Some (Z.of_N r) | _ => None end.

(* one allocation; `used`: blocks acquired so far *)
Inductive hf_res := HFNext (s : xstate) (used : Z) | HFExhausted (why : string) | HFUnexpected (why : string).

Definition hf_step (room : Z) (s : xstate) (used : Z) (i : N) (f : nat) (res : xtemp) (cs : list xcode) : hf_res :=
  let need := used + hf_blocks f in
  let at_op := "allocation " ++ n_to_string i ++ " (" ++ n_to_string (N.of_nat f) ++ " fields, " ++ z_to_string (hf_blocks f)
               ++ " block(s)) with " ++ z_to_string (room - used) ++ " block(s) left before the end of the heap region: " in
  let '(ob, s') := run 50%nat 2000%nat (mk_image cs) 1%positive s in
  match snd ob with
  | OStuck "fell-off-the-end" =>
      if room <=? need then HFUnexpected (at_op ++ "ran to its end although it needs the block at the end of the region")
      else
        match rget s' HEAP, rget s' FREE, rd_temp s' res with
        | Some h, Some fr, Some b =>
            if negb ((h =? HF_LIMIT - 64 * room + 64 * need) && (fr =? h + 64))
            then HFUnexpected (at_op ++ "HEAP / FREE registers " ++ z_to_string h ++ " / " ++ z_to_string fr ++ " after the allocation")
            else if negb ((HF_LIMIT - 64 * room <=? b) && (b <? h) && ((b - HEAP_BASE) mod 64 =? 0))
            then HFUnexpected (at_op ++ "result pointer " ++ z_to_string b ++ " is not a block acquired so far")
            else if negb (hw s' <? fr)
            then HFUnexpected (at_op ++ "written at " ++ z_to_string (hw s') ++ ", at or above the frontier " ++ z_to_string fr)
            else HFNext s' need
        | _, _, _ => HFUnexpected (at_op ++ "HEAP, FREE or the result temporary undefined after the allocation")
        end
  | OStuck "out-of-bounds-load" | OStuck "out-of-bounds-store" =>
      let why := match snd ob with OStuck w => w | _ => "" end in
      if room <=? need
      then HFExhausted (at_op ++ "the REAL code of store/acquire_block faults with " ++ why
                        ++ " (no comparison of the frontier with HEAP_BASE + HEAP_SIZE = " ++ z_to_string HF_LIMIT
                        ++ " is emitted; HEAP register " ++ match rget s' HEAP with Some h => z_to_string h | None => "undefined" end
                        ++ ", FREE register " ++ match rget s' FREE with Some h => z_to_string h | None => "undefined" end ++ " at the fault)")
      else HFUnexpected (at_op ++ "fault " ++ why ++ " although the blocks needed lie inside the region")
  | _ => HFUnexpected (at_op ++ "the code did not run to its end: " ++ show (s_obs ob))
  end.

Fixpoint hf_run (room : Z) (s : xstate) (used : Z) (i : N) (ops : list (nat * xtemp)) (codes : list (list xcode)) : verdict :=
  match ops, codes with
  | [], [] => VOk ("nt control room" ++ z_to_string room ++ " blocks" ++ z_to_string used
                   ++ (if room =? used + 1 then " boundary" else ""))
  | (f, res) :: ops', cs :: codes' =>
      match hf_step room s used i f res cs with
      | HFNext s' used' => hf_run room s' used' (i + 1)%N ops' codes'
      | HFExhausted why => VViol ("class=heap-exhaustion-unchecked " ++ why)
      | HFUnexpected why => VViol ("class=heapfull-unexpected " ++ why)
      end
  | _, _ => VBad "allocation and code lists differ in length"
  end.

Definition heapfull_case (i r : sexp) : verdict :=
  match i, r with
  | L (room :: ops), L codes =>
      match g_room room, omap g_alloc ops, omap g_xcodes codes with
      | Some room, Some ops, Some codes =>
          if room <? 2 then VBad "room below two blocks" else hf_run room (hf_init room) 0 0%N ops codes
      | _, _, _ => VBad "case unreadable"
      end
  | _, _ => VBad "case shape"
  end.
Definition run_heapfull_x86 : string -> string := run_cases heapfull_case.
