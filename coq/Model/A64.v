(* Functional model of lang/axcut2aarch64: config.rs, utils.rs, code.rs (impl Instructions),
   memory.rs (impl Memory), parallel_moves.rs (impl ParallelMoves), into_routine.rs.
   Constants come from Generated/Constants.v (module A64C, regenerated from the compiled crate on
   every run).  COMMENT instructions are not produced (the correspondence drops them from the Rust
   output).  Register numbers are the INTERNAL ones (`Register::X(n)`); the printer shows X(n) as
   `X{n}` for n < 18 and `X{n+1}` otherwise (X18 is skipped), see [printed_number]. *)
From Coq Require Import List ZArith NArith String Ascii Bool.
From SCC Require Import Base.Sexp Lang.AxSyn Model.ParMoves Model.Backend Generated.Constants.
Import ListNotations.
Open Scope string_scope.
Open Scope list_scope.

Inductive areg := X (n : N) | SP | XZR.
Inductive atemp := AR (r : areg) | AS (p : N).

Inductive acode :=
| ADD (d a b : areg) | ADDI (d a : areg) (i : Z)
| SUB (d a b : areg) | SUBI (d a : areg) (i : Z)
| MUL (d a b : areg) | SDIV (d a b : areg) | MSUB (d a b c : areg)
| B (l : string) | BR (r : areg) | BL (l : string) | ADR (r : areg) (l : string)
| MOVR (d s : areg)
| MOVZ (d : areg) (i s : Z) | MOVN (d : areg) (i s : Z) | MOVK (d : areg) (i s : Z)
| LDR (d b : areg) (i : Z) | LDP_POST_INDEX (d1 d2 b : areg) (i : Z)
| STR (s b : areg) (i : Z) | STP_PRE_INDEX (s1 s2 b : areg) (i : Z)
| CMPR (a b : areg) | CMPI (a : areg) (i : Z)
| BEQ (l : string) | BNE (l : string) | BLT (l : string) | BLE (l : string) | BGT (l : string) | BGE (l : string)
| RET | LAB (l : string) | TEXT | GLOBAL (l : string).

(* Register::print *)
Definition printed_number (n : N) : N := if N.ltb n 18 then n else (n + 1)%N.

(* ---------- constants ---------- *)
Definition cN (z : Z) : N := Z.to_N z.
Definition REGISTER_NUM := cN A64C.REGISTER_NUM.
Definition RESERVED := cN A64C.RESERVED.
Definition SPILL_NUM := cN A64C.SPILL_NUM.
Definition RESERVED_SPILLS := cN A64C.RESERVED_SPILLS.
Definition FIELDS_PER_BLOCK := cN A64C.FIELDS_PER_BLOCK.
Definition TEMP : areg := X (cN A64C.TEMP).
Definition TEMP2 : areg := X (cN A64C.TEMP2).
Definition HEAP : areg := X (cN A64C.HEAP).
Definition FREE : areg := X (cN A64C.FREE).
Definition RETURN1 : areg := X (cN A64C.RETURN1).
Definition RETURN2 : areg := X (cN A64C.RETURN2).
Definition SPILL_TEMP : N := cN A64C.SPILL_TEMP.
Definition TEMPORARY_TEMP : areg := X (cN A64C.TEMPORARY_TEMP).
Definition CALLER_SAVE_FIRST := cN A64C.CALLER_SAVE_FIRST.
Definition CALLER_SAVE_LAST := cN A64C.CALLER_SAVE_LAST.
Definition SPILL_SPACE : Z := A64C.SPILL_SPACE.
Definition REFERENCE_COUNT_OFFSET : Z := A64C.REFERENCE_COUNT_OFFSET.
Definition NEXT_ELEMENT_OFFSET : Z := A64C.NEXT_ELEMENT_OFFSET.
Definition address (n : Z) : Z := A64C.address1 * n.

(* the shape of these three functions is read off config.rs; their values on samples are
   regenerated from the crate (A64C.*_samples) and compared in Proof/A64Sel.v *)
Definition stack_offset (p : N) : Z := SPILL_SPACE - 8 * (Z.of_N p + 1).
Definition field_offset (n : tnum) (i : N) : Z := address (2 + 2 * Z.of_N i + Z.of_N (tnum_n n)).
Definition jump_length (n : N) : Z := 4 * Z.of_N n.

(* ---------- utils.rs ---------- *)
Definition temporary_from_position (position : N) : res atemp :=
  let register_number := (position + RESERVED)%N in
  if N.ltb register_number REGISTER_NUM then Ok (AR (X register_number))
  else let spill_number := (register_number - REGISTER_NUM + RESERVED_SPILLS)%N in
       if N.ltb spill_number SPILL_NUM then Ok (AS spill_number) else Err "Out of temporaries".

(* derived Ord: X(n) < SP < XZR; Register(_) < Spill(_) *)
Definition areg_compare (a b : areg) : comparison :=
  match a, b with
  | X x, X y => N.compare x y
  | X _, _ => Datatypes.Lt
  | SP, X _ => Datatypes.Gt
  | SP, SP => Datatypes.Eq
  | SP, XZR => Datatypes.Lt
  | XZR, XZR => Datatypes.Eq
  | XZR, _ => Datatypes.Gt
  end.
Definition atemp_compare (a b : atemp) : comparison :=
  match a, b with
  | AR x, AR y => areg_compare x y
  | AR _, AS _ => Datatypes.Lt
  | AS _, AR _ => Datatypes.Gt
  | AS x, AS y => N.compare x y
  end.
Definition areg_eqb (a b : areg) : bool :=
  match a, b with X x, X y => N.eqb x y | SP, SP => true | XZR, XZR => true | _, _ => false end.

(* ---------- code.rs ---------- *)
Definition move_from_register (t : atemp) (r : areg) : list acode :=
  match t with AR tr => [MOVR tr r] | AS p => [STR r SP (stack_offset p)] end.
Definition move_to_register (r : areg) (t : atemp) : list acode :=
  match t with AR s => [MOVR r s] | AS p => [LDR r SP (stack_offset p)] end.

Definition r_add (t s1 s2 : areg) : list acode := [ADD t s1 s2].
Definition r_sub (t s1 s2 : areg) : list acode := [SUB t s1 s2].
Definition r_mul (t s1 s2 : areg) : list acode := [MUL t s1 s2].
Definition r_div (t s1 s2 : areg) : list acode := [SDIV t s1 s2].
Definition r_rem (t s1 s2 : areg) : list acode :=
  if areg_eqb s2 TEMP2 then
    if areg_eqb t TEMP then
      [STR TEMPORARY_TEMP SP (stack_offset SPILL_TEMP); MOVR TEMPORARY_TEMP s2;
       SDIV TEMP2 s1 TEMPORARY_TEMP; MSUB t TEMP2 TEMPORARY_TEMP s1;
       LDR TEMPORARY_TEMP SP (stack_offset SPILL_TEMP)]
    else [SDIV t s1 s2; MSUB t t s2 s1]
  else [SDIV TEMP2 s1 s2; MSUB t TEMP2 s2 s1].

(* the first source may be the scratch register itself (jump-table dispatch adds the tag to TEMP) *)
Definition scratch_for (source_register_1 : areg) : areg :=
  if areg_eqb source_register_1 TEMP then TEMP2 else TEMP.
Definition a_op (f : areg -> areg -> areg -> list acode) (t s1 s2 : atemp) : list acode :=
  match t with
  | AR tr =>
      match s1, s2 with
      | AR r1, AR r2 => f tr r1 r2
      | AR r1, AS p2 => let scratch := scratch_for r1 in [LDR scratch SP (stack_offset p2)] ++ f tr r1 scratch
      | AS p1, AR r2 => [LDR TEMP SP (stack_offset p1)] ++ f tr TEMP r2
      | AS p1, AS p2 => [LDR TEMP SP (stack_offset p1); LDR TEMP2 SP (stack_offset p2)] ++ f tr TEMP TEMP2
      end
  | AS tp =>
      match s1, s2 with
      | AR r1, AR r2 => f TEMP r1 r2
      | AR r1, AS p2 => let scratch := scratch_for r1 in [LDR scratch SP (stack_offset p2)] ++ f TEMP r1 scratch
      | AS p1, AR r2 => [LDR TEMP SP (stack_offset p1)] ++ f TEMP TEMP r2
      | AS p1, AS p2 => [LDR TEMP SP (stack_offset p1); LDR TEMP2 SP (stack_offset p2)] ++ f TEMP TEMP TEMP2
      end ++ [STR TEMP SP (stack_offset tp)]
  end.

Definition compare (a b : atemp) : list acode :=
  match a, b with
  | AR x, AR y => [CMPR x y]
  | AR x, AS q => [LDR TEMP SP (stack_offset q); CMPR x TEMP]
  | AS p, AR y => [LDR TEMP SP (stack_offset p); CMPR TEMP y]
  | AS p, AS q => [LDR TEMP SP (stack_offset p); LDR TEMP2 SP (stack_offset q); CMPR TEMP TEMP2]
  end.
Definition compare_immediate (t : atemp) (i : Z) : list acode :=
  match t with AR r => [CMPI r i] | AS p => [LDR TEMP SP (stack_offset p); CMPI TEMP i] end.

Definition bcc (s : ifsort) (l : string) : acode :=
  match s with Eq => BEQ l | Ne => BNE l | Lt => BLT l | Le => BLE l | Gt => BGT l | Ge => BGE l end.

Definition a_arith (o : binop) (t s1 s2 : atemp) : list acode :=
  match o with
  | Sum => a_op r_add t s1 s2
  | Prod => a_op r_mul t s1 s2
  | Sub => a_op r_sub t s1 s2
  | Div => a_op r_div t s1 s2
  | Rem => a_op r_rem t s1 s2
  end.
Definition a_mov (t s : atemp) : list acode :=
  match s, t with
  | AR sr, _ => move_from_register t sr
  | _, AR tr => move_to_register tr s
  | _, _ => move_to_register TEMP2 s ++ move_from_register t TEMP2
  end.
Definition a_jump (t : atemp) : list acode :=
  match t with AR r => [BR r] | AS p => [LDR TEMP SP (stack_offset p); BR TEMP] end.

(* load_immediate: the 64-bit value is taken as its four half-words (two's complement) *)
Definition halfword (v : Z) (i : N) : Z := (v / 2 ^ (16 * Z.of_N i)) mod 65536.
Definition count_halfwords (v : Z) (h : Z) : nat :=
  List.length (filter (fun i => Z.eqb (halfword v i) h) [0; 1; 2; 3]%N).
Fixpoint imm_pieces (r : areg) (v : Z) (invert : bool) (ignored : Z) (first_done : bool) (is : list N) : list acode :=
  match is with
  | [] => []
  | i :: rest =>
      let h := halfword v i in
      let shift := (16 * Z.of_N i)%Z in
      if Z.eqb h ignored then imm_pieces r v invert ignored first_done rest
      else if first_done then MOVK r h shift :: imm_pieces r v invert ignored true rest
           else (if invert then MOVN r (65535 - h) shift else MOVZ r h shift) :: imm_pieces r v invert ignored true rest
  end.
Definition imm_code (r : areg) (v : Z) : list acode :=
  if Z.eqb v 0 then [MOVZ r 0 0]
  else if Z.eqb v (-1) then [MOVN r 0 0]
  else (* number_unset_halfwords(imm) < number_unset_halfwords(!imm) *)
       let invert := Nat.ltb (count_halfwords v 0) (count_halfwords v 65535) in
       imm_pieces r v invert (if invert then 65535 else 0)%Z false [0; 1; 2; 3]%N.
Definition a_load_immediate (t : atemp) (v : Z) : list acode :=
  match t with
  | AR r => imm_code r v
  | AS p => imm_code TEMP v ++ [STR TEMP SP (stack_offset p)]
  end.
Definition a_load_label (t : atemp) (l : string) : list acode :=
  match t with AR r => [ADR r l] | AS p => [ADR TEMP l; STR TEMP SP (stack_offset p)] end.
(* add_and_jump (repaired, fix of the finding "tag dispatch immediate", docs/C14.md): the immediate of ADD has 12 bits; a
   larger offset (a type with more than 1024 xtors) is first loaded into the second scratch register *)
Definition add_imm_fits (i : Z) : bool := ((0 <=? i) && (i <=? 4095))%Z.
Definition add_offset (r : areg) (i : Z) : list acode :=
  if add_imm_fits i then [ADDI r r i] else imm_code TEMP2 i ++ [ADD r r TEMP2].
Definition a_add_and_jump (t : atemp) (i : Z) : list acode :=
  match t with
  | AR r => add_offset r i ++ [BR r]
  | AS p => [LDR TEMP SP (stack_offset p)] ++ add_offset TEMP i ++ [BR TEMP]
  end.
(* the code before the repair (regression lemmas of C14: the immediate is not encodable beyond 1023 xtors) *)
Definition old_a_add_and_jump (t : atemp) (i : Z) : list acode :=
  match t with
  | AR r => [ADDI r r i; BR r]
  | AS p => [LDR TEMP SP (stack_offset p); ADDI TEMP TEMP i; BR TEMP]
  end.

(* print_i64 and the caller-save logic *)
Definition nseq (start len : N) : list N := map N.of_nat (seq (N.to_nat start) (N.to_nat len)).
Definition caller_save_registers_info (context : ctx) : N * list N :=
  let first_free_register := (2 * N.of_nat (List.length context) + RESERVED)%N in
  let first_backup_register := N.max first_free_register (CALLER_SAVE_LAST + 1) in
  let caller_save_count := (CALLER_SAVE_LAST + 1 - CALLER_SAVE_FIRST)%N in
  let taken := firstn (N.to_nat (caller_save_count / 2)) context in
  let regs := flat_map (fun ob : N * binding =>
                          let '(offset, b) := ob in
                          match bchi b with
                          | Ext => [CALLER_SAVE_FIRST + 2 * offset + 1]
                          | _ => [CALLER_SAVE_FIRST + 2 * offset; CALLER_SAVE_FIRST + 2 * offset + 1]
                          end)%N
                       (combine (nseq 0 (N.of_nat (List.length taken))) taken) in
  (first_backup_register,
   [0; 1]%N ++ (if N.leb REGISTER_NUM first_free_register then [REGISTER_NUM - 1]%N else []) ++ regs).
Definition backup_used (first_backup_register : N) (regs : list N) : nat :=
  Nat.min (List.length regs) (N.to_nat ((REGISTER_NUM - 1) - first_backup_register)).
Definition push_count (fb : N) (regs : list N) : nat :=
  let c := (List.length regs - backup_used fb regs)%nat in
  if Nat.even c then c else S c.
Definition save_caller_save_registers (fb : N) (regs : list N) : list acode :=
  let used := backup_used fb regs in
  let pc := push_count fb regs in
  map (fun or_ : N * N => MOVR (X (fb + fst or_)) (X (snd or_))) (combine (nseq 0 (N.of_nat used)) (firstn used regs))
  ++ (if Nat.eqb (List.length regs - used) 0 then []
      else [SUBI SP SP (address (Z.of_nat pc))]
           ++ map (fun or_ : N * N => STR (X (snd or_)) SP (address (Z.of_nat pc - 1 - Z.of_N (fst or_))))
                  (combine (nseq 0 (N.of_nat (List.length regs - used))) (skipn used regs))).
Definition restore_caller_save_registers (fb : N) (regs : list N) : list acode :=
  let used := backup_used fb regs in
  let pc := push_count fb regs in
  map (fun or_ : N * N => MOVR (X (snd or_)) (X (fb + fst or_))) (combine (nseq 0 (N.of_nat used)) (firstn used regs))
  ++ (if Nat.eqb (List.length regs - used) 0 then []
      else map (fun or_ : N * N => LDR (X (snd or_)) SP (address (Z.of_nat pc - 1 - Z.of_N (fst or_))))
               (rev (combine (nseq 0 (N.of_nat (List.length regs - used))) (skipn used regs)))
           ++ [ADDI SP SP (address (Z.of_nat pc))]).
Definition a_print (newline : bool) (s : atemp) (context : ctx) : list acode :=
  let '(fb, regs) := caller_save_registers_info context in
  (match s with AS _ => move_to_register TEMP s | AR _ => [] end)
  ++ save_caller_save_registers fb regs
  ++ [match s with AR r => MOVR (X 0) r | AS _ => MOVR (X 0) TEMP end]
  ++ [BL (if newline then "println_i64" else "print_i64")]
  ++ restore_caller_save_registers fb regs.

(* ---------- parallel_moves.rs ---------- *)
Definition a_contains_spill_edge (r : root atemp) : bool := false.
Definition a_store_temporary (t : atemp) (f : bool) : list acode :=
  match t with AR r => [MOVR TEMP r] | AS p => [LDR TEMP SP (stack_offset p)] end.
Definition a_restore_temporary (t : atemp) (f : bool) : list acode :=
  match t with AR r => [MOVR r TEMP] | AS p => [STR TEMP SP (stack_offset p)] end.

(* ---------- memory.rs ---------- *)
Definition lab (n : N) : string := "lab" +++ n_to_string n.

Definition skip_if_zero (condition : areg) (to_skip : list acode) (lc : N) : list acode * N :=
  let l := lab (lc + 1) in
  ([CMPI condition 0; BEQ l] ++ to_skip ++ [LAB l], (lc + 1)%N).

(* the branches are generated BEFORE the labels are drawn, so their own labels are smaller *)
Definition if_zero_then_else (condition : areg) (then_branch else_branch : list acode) (lc : N)
  : list acode * N :=
  let l_then := lab (lc + 1) in
  let l_else := lab (lc + 2) in
  ([CMPI condition 0; BEQ l_then] ++ else_branch ++ [B l_else; LAB l_then] ++ then_branch ++ [LAB l_else],
   (lc + 2)%N).

Definition erase_valid_object (to_erase : areg) (lc : N) : list acode * N :=
  if_zero_then_else TEMP2
    [STR FREE to_erase NEXT_ELEMENT_OFFSET; MOVR FREE to_erase]
    [SUBI TEMP2 TEMP2 1; STR TEMP2 to_erase REFERENCE_COUNT_OFFSET] lc.

Definition a_erase_block (t : atemp) (lc : N) : list acode * N :=
  match t with
  | AR r =>
      let '(c, lc1) := erase_valid_object r lc in
      skip_if_zero r ([LDR TEMP2 r REFERENCE_COUNT_OFFSET] ++ c) lc1
  | AS p =>
      let '(c, lc1) := erase_valid_object TEMP lc in
      let '(c2, lc2) := skip_if_zero TEMP ([LDR TEMP2 TEMP REFERENCE_COUNT_OFFSET] ++ c) lc1 in
      ([LDR TEMP SP (stack_offset p)] ++ c2, lc2)
  end.

Definition share_code (r : areg) (n : N) : list acode :=
  [LDR TEMP2 r REFERENCE_COUNT_OFFSET; ADDI TEMP2 TEMP2 (Z.of_N n); STR TEMP2 r REFERENCE_COUNT_OFFSET].
Definition a_share_block_n (t : atemp) (n : N) (lc : N) : list acode * N :=
  match t with
  | AR r => skip_if_zero r (share_code r n) lc
  | AS p =>
      let '(c, lc1) := skip_if_zero TEMP (share_code TEMP n) lc in
      ([LDR TEMP SP (stack_offset p)] ++ c, lc1)
  end.

Definition erase_fields (to_erase : areg) (lc : N) : list acode * N :=
  fold_left (fun (acc : list acode * N) (offset : N) =>
               let '(c, lc) := acc in
               let '(c1, lc1) := a_erase_block (AR TEMP) lc in
               (c ++ [LDR TEMP to_erase (field_offset Fst offset)] ++ c1, lc1))
            (nseq 0 FIELDS_PER_BLOCK) ([], lc).

Definition acquire_block (new_block : atemp) (lc : N) : list acode * N :=
  let c0 := match new_block with
            | AR r => [MOVR r HEAP]
            | AS p => [MOVR TEMP HEAP; STR HEAP SP (stack_offset p)]
            end ++ [LDR HEAP HEAP NEXT_ELEMENT_OFFSET] in
  let then_branch_free := [ADDI FREE HEAP (field_offset Fst FIELDS_PER_BLOCK)] in
  let '(ef, lc1) := erase_fields HEAP lc in
  let else_branch_free := [STR XZR HEAP NEXT_ELEMENT_OFFSET] ++ ef in
  let '(inner, lc2) := if_zero_then_else FREE then_branch_free else_branch_free lc1 in
  let then_branch := [MOVR HEAP FREE; LDR FREE FREE NEXT_ELEMENT_OFFSET] ++ inner in
  let else_branch := match new_block with
                     | AR r => [STR XZR r REFERENCE_COUNT_OFFSET]
                     | AS _ => [STR XZR TEMP REFERENCE_COUNT_OFFSET]
                     end in
  let '(outer, lc3) := if_zero_then_else HEAP then_branch else_branch lc2 in
  (c0 ++ outer, lc3).

Definition release_block (r : areg) : list acode :=
  [STR HEAP r NEXT_ELEMENT_OFFSET; MOVR HEAP r].
Definition store_zero (block : areg) (offset : N) : list acode := [STR XZR block (field_offset Fst offset)].
Definition store_zeros (free_fields : N) (block : areg) : list acode :=
  flat_map (store_zero block) (nseq 0 free_fields).

Definition a_fresh (n : tnum) (c : ctx) : res atemp :=
  temporary_from_position (2 * N.of_nat (List.length c) + tnum_n n).

Definition store_field (n : tnum) (c : ctx) (block : areg) (offset : N) : res (list acode) :=
  dor t <- a_fresh n c;
  Ok match t with
     | AR r => [STR r block (field_offset n offset)]
     | AS p => [LDR TEMP SP (stack_offset p); STR TEMP block (field_offset n offset)]
     end.
Definition load_field (n : tnum) (c : ctx) (block : areg) (offset : N) : res (list acode) :=
  dor t <- a_fresh n c;
  Ok match t with
     | AR r => [LDR r block (field_offset n offset)]
     | AS p => [LDR TEMP block (field_offset n offset); STR TEMP SP (stack_offset p)]
     end.
Definition store_value (b : binding) (remaining : ctx) (block : areg) (offset : N) : res (list acode) :=
  dor c1 <- store_field Snd remaining block offset;
  match bchi b with
  | Ext => Ok (c1 ++ store_zero block offset)
  | _ => dor c2 <- store_field Fst remaining block offset; Ok (c1 ++ c2)
  end.

Inductive load_mode := Release | Share.

Definition load_value (b : binding) (existing : ctx) (block : areg) (offset : N) (m : load_mode) (lc : N)
  : res (list acode * N) :=
  dor c1 <- load_field Snd existing block offset;
  match bchi b with
  | Ext => Ok (c1, lc)
  | _ =>
      dor c2 <- load_field Fst existing block offset;
      dor t <- a_fresh Fst existing;
      let r := match t with AR r => r | AS _ => TEMP end in
      match m with
      | Share => let '(c3, lc1) := a_share_block_n (AR r) 1 lc in Ok (c1 ++ c2 ++ c3, lc1)
      | Release => Ok (c1 ++ c2, lc)
      end
  end.

(* while let Some(binding) = to_store.pop(): last binding first, into field free_fields-1 downwards *)
Fixpoint store_values (to_store_rev : list binding) (remaining : ctx) (block : areg) (free_fields : N) : res (list acode) :=
  match to_store_rev with
  | [] => Ok (store_zeros free_fields block)
  | b :: rest_rev =>
      dor c1 <- store_value b (remaining ++ rev rest_rev) block (free_fields - 1);
      dor c2 <- store_values rest_rev remaining block (free_fields - 1);
      Ok (c1 ++ c2)
  end.
Fixpoint load_values (to_load_rev : list binding) (existing : ctx) (block : areg) (free_fields : N) (m : load_mode) (lc : N)
  : res (list acode * N) :=
  match to_load_rev with
  | [] => Ok ([], lc)
  | b :: rest_rev =>
      dor r1 <- load_value b (existing ++ rev rest_rev) block (free_fields - 1) m lc;
      let '(c1, lc1) := r1 in
      dor r2 <- load_values rest_rev existing block (free_fields - 1) m lc1;
      let '(c2, lc2) := r2 in
      Ok (c1 ++ c2, lc2)
  end.

Inductive block_position := Last | Other.
Definition bp_n (b : block_position) : N := match b with Last => 0 | Other => 1 end.

Fixpoint store_fields (fuel : nat) (to_store remaining : ctx) (bp : block_position) (lc : N) : res (list acode * N) :=
  match fuel with
  | O => Err "store_fields: out of fuel"
  | S fuel' =>
      match to_store with
      | [] =>
          match bp with
          | Last => dor t <- a_fresh Fst remaining; Ok (a_load_immediate t 0, lc)
          | Other => Ok ([], lc)
          end
      | _ =>
          let remaining_plus_to_store := remaining ++ to_store in
          dor c0 <- match bp with
                    | Other => store_field Fst remaining_plus_to_store HEAP (FIELDS_PER_BLOCK - 1)
                    | Last => Ok []
                    end;
          let cap := (FIELDS_PER_BLOCK - bp_n bp)%N in
          let len := N.of_nat (List.length to_store) in
          let rest_length := if N.leb len cap then 0%N else (len - cap)%N in
          let rest := firstn (N.to_nat rest_length) to_store in
          let to_store_next := skipn (N.to_nat rest_length) to_store in
          let remaining_plus_rest := remaining ++ rest in
          dor c1 <- store_values (rev to_store_next) remaining_plus_rest HEAP cap;
          dor t <- a_fresh Fst remaining_plus_rest;
          let '(c2, lc2) := acquire_block t lc in
          dor r3 <- store_fields fuel' rest remaining Other lc2;
          let '(c3, lc3) := r3 in
          Ok (c0 ++ c1 ++ c2 ++ c3, lc3)
      end
  end.

(* register_freed is threaded as in the Rust code (a &mut bool) *)
Fixpoint load_fields (fuel : nat) (to_load existing : ctx) (bp : block_position) (m : load_mode)
         (register_freed : bool) (lc : N) : res (list acode * bool * N) :=
  match fuel with
  | O => Err "load_fields: out of fuel"
  | S fuel' =>
      match to_load with
      | [] => Ok ([], register_freed, lc)
      | _ =>
          let existing_plus_to_load := existing ++ to_load in
          let cap := (FIELDS_PER_BLOCK - bp_n bp)%N in
          let len := N.of_nat (List.length to_load) in
          let rest_length := if N.leb len cap then 0%N else (len - cap)%N in
          let rest := firstn (N.to_nat rest_length) to_load in
          let to_load_next := skipn (N.to_nat rest_length) to_load in
          let existing_plus_rest := existing ++ rest in
          dor r0 <- load_fields fuel' rest existing Other m register_freed lc;
          let '(c0, freed0, lc0) := r0 in
          dor memory_block <- a_fresh Fst existing_plus_rest;
          match memory_block with
          | AR mr =>
              let c1 := match m with Release => release_block mr | Share => [] end in
              dor c2 <- match bp with
                        | Other => load_field Fst existing_plus_to_load mr (FIELDS_PER_BLOCK - 1)
                        | Last => Ok []
                        end;
              dor r3 <- load_values (rev to_load_next) existing_plus_rest mr cap m lc0;
              let '(c3, lc3) := r3 in
              Ok (c0 ++ c1 ++ c2 ++ c3, freed0, lc3)
          | AS mp =>
              let ce := if freed0 then [] else [STR TEMPORARY_TEMP SP (stack_offset SPILL_TEMP)] in
              let cl := [LDR TEMPORARY_TEMP SP (stack_offset mp)] in
              let c1 := match m with Release => release_block TEMPORARY_TEMP | Share => [] end in
              dor c2 <- match bp with
                        | Other => load_field Fst existing_plus_to_load TEMPORARY_TEMP (FIELDS_PER_BLOCK - 1)
                        | Last => Ok []
                        end;
              dor r3 <- load_values (rev to_load_next) existing_plus_rest TEMPORARY_TEMP cap m lc0;
              let '(c3, lc3) := r3 in
              let c4 := match bp with
                        | Last => [LDR TEMPORARY_TEMP SP (stack_offset SPILL_TEMP)]
                        | Other => []
                        end in
              Ok (c0 ++ ce ++ cl ++ c1 ++ c2 ++ c3 ++ c4, true, lc3)
          end
      end
  end.

Definition a_store (to_store remaining : ctx) (lc : N) : res (list acode * N) :=
  store_fields (S (List.length to_store)) to_store remaining Last lc.

Definition load_register (block : areg) (to_load existing : ctx) (lc : N) : res (list acode * N) :=
  dor r1 <- load_fields (S (List.length to_load)) to_load existing Last Release false lc;
  let '(then_branch, _, lc1) := r1 in
  dor r2 <- load_fields (S (List.length to_load)) to_load existing Last Share false lc1;
  let '(else_body, _, lc2) := r2 in
  let else_branch := [SUBI TEMP2 TEMP2 1; STR TEMP2 block REFERENCE_COUNT_OFFSET] ++ else_body in
  Ok (if_zero_then_else TEMP2 then_branch else_branch lc2).

Definition a_load (to_load existing : ctx) (lc : N) : res (list acode * N) :=
  match to_load with
  | [] => Ok ([], lc)
  | _ =>
      dor memory_block <- a_fresh Fst existing;
      match memory_block with
      | AR r =>
          dor c <- load_register r to_load existing lc;
          Ok ([LDR TEMP2 r REFERENCE_COUNT_OFFSET] ++ fst c, snd c)
      | AS p =>
          dor c <- load_register TEMP to_load existing lc;
          Ok ([LDR TEMP SP (stack_offset p); LDR TEMP2 TEMP REFERENCE_COUNT_OFFSET] ++ fst c, snd c)
      end
  end.

(* statement-boundary marks (Backend.b_mark): none in the real back end; the marked instance emits a
   label "#m<kinds>" per statement, one character per environment position (e = integer, p = object) *)
Definition kinds_string (c : ctx) : string :=
  fold_right (fun b acc => String (match bchi b with Ext => "e"%char | _ => "p"%char end) acc) "" c.
Definition a64_mark (c : ctx) : list acode := [LAB ("#m" +++ kinds_string c)].
Definition is_mark (c : acode) : bool :=
  match c with LAB (String "#"%char (String "m"%char _)) => true | _ => false end.

Definition a64_backend_with (mark : ctx -> list acode) : backend acode atemp := {|
  b_label := LAB;
  b_mark := mark;
  b_jump := a_jump;
  b_jump_label := fun l => [B l];
  b_jump_label_fixed := fun l => [B l];
  b_jcc2 := fun s a b l => compare a b ++ [bcc s l];
  b_jcc1 := fun s a l => compare_immediate a 0 ++ [bcc s l];
  b_load_immediate := a_load_immediate;
  b_load_label := a_load_label;
  b_add_and_jump := a_add_and_jump;
  b_arith := a_arith;
  b_mov := a_mov;
  b_print := a_print;
  b_erase := a_erase_block;
  b_share_n := a_share_block_n;
  b_store := a_store;
  b_load := a_load;
  b_contains_spill_edge := a_contains_spill_edge;
  b_store_temporary := a_store_temporary;
  b_restore_temporary := a_restore_temporary;
  b_temp := AR TEMP;
  b_return1 := AR RETURN1;
  b_jump_length := jump_length;
  b_temporary_from_position := temporary_from_position;
  b_tcompare := atemp_compare;
|}.
Definition a64_backend : backend acode atemp := a64_backend_with (fun _ => []).

(* ---------- into_routine.rs ---------- *)
(* the Rust code spells the seven cases out: argument n (in X(n)) goes to X(2n+3), highest first *)
Fixpoint move_arguments (n : nat) : res (list acode) :=
  match n with
  | 0 => Ok []
  | S m =>
      if Nat.ltb 7 n then Err "too many arguments for main" else
      dor r <- move_arguments m;
      Ok ([MOVR (X (2 * N.of_nat n + 3)) (X (N.of_nat n))] ++ r)
  end.
Definition setup (n : nat) : res (list acode) :=
  dor ma <- move_arguments n;
  Ok ([STP_PRE_INDEX (X 18) (X 19) SP (-16); STP_PRE_INDEX (X 20) (X 21) SP (-16);
       STP_PRE_INDEX (X 22) (X 23) SP (-16); STP_PRE_INDEX (X 24) (X 25) SP (-16);
       STP_PRE_INDEX (X 26) (X 27) SP (-16); STP_PRE_INDEX (X 28) (X 29) SP (-16);
       SUBI SP SP SPILL_SPACE] ++ ma
      ++ [MOVR FREE HEAP; ADDI FREE FREE (field_offset Fst FIELDS_PER_BLOCK)])%N.
Definition cleanup : list acode :=
  [LAB "cleanup"; ADDI SP SP SPILL_SPACE;
   LDP_POST_INDEX (X 28) (X 29) SP 16; LDP_POST_INDEX (X 26) (X 27) SP 16;
   LDP_POST_INDEX (X 24) (X 25) SP 16; LDP_POST_INDEX (X 22) (X 23) SP 16;
   LDP_POST_INDEX (X 20) (X 21) SP 16; LDP_POST_INDEX (X 18) (X 19) SP 16; RET]%N.
Definition preamble : list acode := [TEXT; GLOBAL "asm_main"; LAB "asm_main"].

Definition into_aarch64_routine (instructions : list acode) (n : nat) : res (list acode) :=
  dor s <- setup n;
  Ok (preamble ++ s ++ instructions ++ cleanup).

Definition a64_compile_with (mark : ctx -> list acode) (p : prog) (lc : N) : res (list acode * nat * N) :=
  dor c <- compile (a64_backend_with mark) p lc;
  let '(is, n, lc') := c in
  dor r <- into_aarch64_routine is n;
  Ok (r, n, lc').
Definition a64_compile := a64_compile_with (fun _ => []).
Definition a64_compile_marked := a64_compile_with a64_mark.
