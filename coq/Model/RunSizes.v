(* modelrun command "sizes" (property C19: output size is polynomial, continuations are shared).
   Case file written by `harness sizes` (harness/src/cmd_sizes.rs):

   (case j (family <F> ((k <G parsed>)...)) ((k <G core> <G focused> <G shrunk> <G linearized> <x86> <a64> <rv|panic>)...))
       growth sequences of one scalable family, k = 1..kmax; G = atoms + lists of the Debug-shaped value.
       Verdict, per stage: s(16) <= 6 * s(8) and s(12) <= 6 * s(6)   [VIOL class=exponential-growth:<stage>]
                           s(16) - s(8) <= 6 * (s(8) - s(4))          [VIOL class=superquadratic-growth:<stage>]
       A stage whose output exceeds 100 x the source text is reported by the harness as (OVER k stage 100)
       instead of the rows                                             [VIOL class=exponential-growth:<stage>]
       (a polynomial of degree d doubles its argument into a factor 2^d: quadratic 4, cubic 8).
       Tags: <stage>:deg<d> with d = floor(10 * log2(s(16)/s(8))) (the fitted exponent, in tenths) and
             <stage>:ddeg<d> the same for the differences (insensitive to the constant part: declarations).

   (case j (prog <label> <k> (<G parsed> <G checked> <G core> <G focused> <G shrunk> <G linearized>) (<x86> <a64> <rv|panic>))
           (<checked> <core> <focused> <shrunk> <linearized>))
       the stage outputs of one program.  Checks:
       - the measure G recomputed here from the five values equals the harness's numbers  [BAD measure]
       - every value is read by the Coq reader of its type                                  [BAD unreadable]
       - tie of the two measures: size <= G <= 64 * (size + D) for the Coq node counts size_fcprog,
         size_cprog, fs_wprog, ax_size_prog; D = weight of the type declarations (in G, not in the sizes)  [BAD tie]
         (random programs: only size <= G for the CHECKED Fun program, whose nodes carry type annotations with
          arbitrarily deep type arguments, e.g. Pair[Pair[i64, i64], Pair[..]])
       - PROVED bounds (Props/C19.v), evaluated on the REAL outputs:
           C19_fun2core_size   size_cprog core <= size_fcprog checked * (10 + 2 * fun_occ checked)   [VIOL class=proved-bound:fun2core]
                               c_wprog core    <= f_wprog checked * (12 + 3 * fun_occ checked)       [VIOL class=proved-bound:fun2core-weighted]
           C19_focus_size      fs_wprog focused <= 4 * c_wprog core                                  [VIOL class=proved-bound:focus]
           C19_shrink_size     ax_size shr <= w * ((2 + X*(2+A)) + 2*(1+X)*w), w = fs_wprog focused   [VIOL class=proved-bound:shrink]
           C19_linearize_size  ax_size lin <= 2 * ax_size shr + 3 * stmts shr * (1 + width shr)     [VIOL class=proved-bound:linearize]
           C19_pipeline_ax_size  ax_size lin <= pipeline_ax_bound checked   (composition; very loose)  [VIOL class=proved-bound:pipeline]
           C19_x86_compile_size  x86 instructions without COMMENT pseudo-instructions (4th code entry)
                               <= 30 + x86_K * cg_bound_defs lin, when sub_wf_prog lin                 [VIOL class=proved-bound:x86]
           C19_a64_compile_size, C19_rv_compile_size  likewise (5th / 6th code entry):
                               <= 28 + a64_K * cg_bound_defs lin, <= rv_K * cg_bound_defs lin          [VIOL class=proved-bound:a64 / rv]
                               (sub_wf_prog lin = false: the precondition, which the linear discipline guarantees, fails
                                on a real output                                                      [VIOL class=codegen-precondition:sub_wf])
       - PROVED shape of the code-generation bound with the calibrated (not proved) unit cost K = 16 (AArch64; x86-64 incl. comments):
           instructions <= 16 * cg_bound_defs lin   for x86-64 and AArch64                  [VIOL class=codegen-bound:<arch>]
       - stated (unproved or partly proved) polynomial bounds with calibrated constants:
           size core    <= 12 * size checked * (1 + vars)                                   [VIOL class=size-ratio:fun2core]
           size shrunk  <= 8 * (1 + xtors) * size focused * (1 + width)                      [VIOL class=size-ratio:shrink]
         where vars = largest number of parameters + binders of a source definition, xtors = largest
         number of xtors of a declared type, width = ax_width_prog of the shrunk program.
       Tags: nt, the label, ratio buckets. *)
From Coq Require Import List ZArith NArith String Bool.
From SCC Require Import Base.Sexp Lang.SynUtil Lang.FunSyn Lang.CoreSyn Lang.AxSyn Lang.AxSize Lang.FsSize Lang.CoreSize
     Model.RunBase Model.Fun2Core Model.SizeDefs Model.SizeFun Model.SizeWf.
Import ListNotations.
Open Scope string_scope.
Open Scope N_scope.

Fixpoint sexp_nodes (x : sexp) : N :=
  match x with
  | L l => 1 + (fix go (l : list sexp) : N := match l with [] => 0 | y :: r => sexp_nodes y + go r end) l
  | _ => 1
  end.

(* ---------- family cases ---------- *)
Definition row := (N * list (option N))%type.
Definition g_cell (x : sexp) : option N := getN x.
Definition g_row (x : sexp) : option row :=
  match x with
  | L (k :: cells) => match getN k with Some k => Some (k, map g_cell cells) | None => None end
  | _ => None
  end.
Definition lookup_row (rows : list row) (k : N) (col : nat) : option N :=
  match find (fun r => N.eqb (fst r) k) rows with
  | Some r => match nth_error (snd r) col with Some c => c | None => None end
  | None => None
  end.

Definition stage_names : list string := ["src"; "core"; "focused"; "shrunk"; "linearized"; "x86"; "a64"; "rv"].

(* floor(10 * log2 (a / b)) for a >= b > 0 *)
Definition deg10 (a b : N) : N :=
  if (b =? 0) || (a <? b) then 0 else N.log2 (N.pow a 10 / N.pow b 10).
Definition show_seq (rows : list row) (col : nat) : string :=
  String.concat "," (map (fun r => match nth_error (snd r) col with Some (Some n) => n_to_string n | _ => "-" end) rows).

Definition check_col (fam : string) (rows : list row) (col : nat) (name : string) : option string * string :=
  let at_ k := lookup_row rows k col in
  let viol cls := Some ("class=" ++ cls ++ ":" ++ name ++ " family=" ++ fam ++ " sizes=" ++ show_seq rows col) in
  let tag :=
    match at_ 16, at_ 8, at_ 4 with
    | Some a, Some b, Some c =>
        " " ++ name ++ ":deg" ++ n_to_string (deg10 a b) ++ " " ++ name ++ ":ddeg" ++ n_to_string (deg10 (a - b) (b - c))
    | Some a, Some b, None => " " ++ name ++ ":deg" ++ n_to_string (deg10 a b)
    | _, _, _ => ""
    end in
  let v :=
    match at_ 16, at_ 8 with
    | Some a, Some b => if 6 * b <? a then viol "exponential-growth" else None
    | _, _ => None
    end in
  let v := match v with Some _ => v | None =>
    match at_ 12, at_ 6 with
    | Some a, Some b => if 6 * b <? a then viol "exponential-growth" else None
    | _, _ => None
    end end in
  let v := match v with Some _ => v | None =>
    match at_ 16, at_ 8, at_ 4 with
    | Some a, Some b, Some c => if 6 * (b - c) <? (a - b) then viol "superquadratic-growth" else None
    | _, _, _ => None
    end end in
  (v, tag).

Definition head_is (h : string) (x : sexp) : bool :=
  match x with L (A s :: _) => String.eqb s h | _ => false end.
Definition atom_is (h : string) (x : sexp) : bool :=
  match x with A s => String.eqb s h | _ => false end.

Definition family_case (fam : string) (srcs out : sexp) : verdict :=
  if head_is "OVER" out then
    match out with
    | L [_; A k; A stage; A f] =>
        VViol ("class=exponential-growth:" ++ stage ++ " family=" ++ fam ++ " sizes=over-" ++ f ++ "-times-the-source-at-k=" ++ k)
    | _ => VBad "over"
    end
  else if head_is "ERR" out then VBad ("family " ++ fam ++ " rejected by the real pipeline: " ++ trunc 200 (show out))
  else
  match getL g_row srcs, getL g_row out with
  | Some srows, Some orows =>
      (* one table: column 0 = source, columns 1.. = the stages *)
      let rows := map (fun r => (fst r, lookup_row srows (fst r) 0 :: snd r)) orows in
      let res := map (fun cn => check_col fam rows (fst cn) (snd cn)) (combine (seq 0 8) stage_names) in
      match find (fun r => match fst r with Some _ => true | None => false end) res with
      | Some (Some w, _) => VViol w
      | _ => VOk ("nt family " ++ fam ++ String.concat "" (map snd res))
      end
  | _, _ => VBad "family rows"
  end.

(* ---------- program cases ---------- *)
Definition fun_vars (p : fcprog) : N :=
  fold_right N.max 0 (map (fun d => len (used_binders (fdbody d) (fvars (fdctx d)))) (fcpdefs p)).
Definition core_xtors (p : fsprog) : N := N.max (decl_xtors (fspdata p)) (decl_xtors (fspcodata p)).

Definition bucket (n : N) : string := n_to_string (N.log2 n).
Definition ratio_tag (name : string) (a b : N) : string :=   (* a / b in tenths, rounded down to a multiple of 0.5 *)
  " " ++ name ++ "x" ++ n_to_string (if b =? 0 then 0 else ((10 * a) / b) / 5 * 5).

(* the type declarations are part of G but not of the Coq sizes: D = their weight, measured on the shrunk program
   (data types, codata types and _Cont; the other stages carry the same declarations) *)
Definition decl_weight (ts : list tydecl) : N :=
  fold_right (fun t acc => 1 + fold_right (fun x a => 1 + len (xargs x) + a) 0 (txtors t) + acc) 0 ts.
Definition tie_ok (d g size : N) : bool := (size <=? g) && (g <=? 64 * (size + d)).

Definition prog_case (label : string) (k : N) (gs codes vals : list sexp) : verdict :=
  match omap getN gs, vals with
  | Some [g_parsed; g_checked; g_core; g_foc; g_shr; g_lin], [v_checked; v_core; v_foc; v_shr; v_lin] =>
      if negb ((sexp_nodes v_checked =? g_checked) && (sexp_nodes v_core =? g_core) && (sexp_nodes v_foc =? g_foc)
               && (sexp_nodes v_shr =? g_shr) && (sexp_nodes v_lin =? g_lin))
      then VBad "measure: the harness's node counts are not atoms + lists of the values"
      else
      match g_fcprog v_checked, g_cprog v_core, g_fsprog v_foc, g_prog v_shr, g_prog v_lin with
      | Some pf, Some pc, Some pfs, Some ps, Some pl =>
          let s_f := size_fcprog pf in let s_c := size_cprog pc in let s_fs := fs_wprog pfs in
          let s_s := ax_size_prog ps in let s_l := ax_size_prog pl in
          let dw := decl_weight (ptypes ps) in
          let tie_src := if String.eqb label "random" then s_f <=? g_checked else tie_ok dw g_checked s_f in
          if negb (tie_src && tie_ok dw g_core s_c && tie_ok dw g_foc s_fs && tie_ok dw g_shr s_s && tie_ok dw g_lin s_l)
          then VBad ("tie: G not within [size, 64 * (size + declarations)]: " ++ String.concat " " (map n_to_string [g_checked; s_f; g_core; s_c; g_foc; s_fs; g_shr; s_s; g_lin; s_l]))
          else
          let vars := fun_vars pf in
          let width := ax_width_prog ps in
          let xt := core_xtors pfs in
          let lin_bound := 2 * s_s + 3 * ax_nstmts_prog ps * (1 + width) in
          let cgb := cg_bound_defs (pdefs pl) in
          let code_viol (arch : string) (c : sexp) : option string :=
            match getN c with
            | Some n => if 16 * cgb <? n then Some ("class=codegen-bound:" ++ arch ++ " instructions=" ++ n_to_string n ++ " cg_bound=" ++ n_to_string cgb) else None
            | None => None
            end in
          let info := " " ++ label ++ " k" ++ n_to_string k in
          let shr_bound := s_fs * ((2 + prog_X pfs * (2 + prog_A pfs)) + 2 * (1 + prog_X pfs) * s_fs) in
          let f2c_n := f2c_bound_nodes pf in
          let f2c_w := f2c_bound_weighted pf in
          if f2c_n <? s_c then VViol ("class=proved-bound:fun2core core=" ++ n_to_string s_c ++ " bound=" ++ n_to_string f2c_n ++ " occ=" ++ n_to_string (fun_occ pf) ++ info)
          else if f2c_w <? c_wprog pc then VViol ("class=proved-bound:fun2core-weighted core=" ++ n_to_string (c_wprog pc) ++ " bound=" ++ n_to_string f2c_w ++ info)
          else if pipeline_ax_bound pf <? s_l then VViol ("class=proved-bound:pipeline linearized=" ++ n_to_string s_l ++ info)
          else if shr_bound <? s_s then VViol ("class=proved-bound:shrink size=" ++ n_to_string s_s ++ " bound=" ++ n_to_string shr_bound ++ info)
          else if lin_bound <? s_l then VViol ("class=proved-bound:linearize size=" ++ n_to_string s_l ++ " bound=" ++ n_to_string lin_bound ++ info)
          else if 12 * s_f * (1 + vars) <? s_c then VViol ("class=size-ratio:fun2core source=" ++ n_to_string s_f ++ " vars=" ++ n_to_string vars ++ " core=" ++ n_to_string s_c ++ info)
          else if 4 * c_wprog pc <? s_fs then VViol ("class=proved-bound:focus core=" ++ n_to_string (c_wprog pc) ++ " focused=" ++ n_to_string s_fs ++ info)
          else if 8 * (1 + xt) * s_fs * (1 + width) <? s_s then VViol ("class=size-ratio:shrink focused=" ++ n_to_string s_fs ++ " shrunk=" ++ n_to_string s_s ++ info)
          else
          match codes with
          | cx :: ca :: cr :: more =>
              let proved (arch : string) (bound : N) (c : option sexp) : option string :=
                match c with
                | Some cxn =>
                    match getN cxn with
                    | Some n =>
                        if negb (sub_wf_prog pl) then Some "class=codegen-precondition:sub_wf the linearized program has a Substitute with repeated ids"
                        else if bound <? n then Some ("class=proved-bound:" ++ arch ++ " instructions=" ++ n_to_string n ++ " bound=" ++ n_to_string bound)
                        else None
                    | None => None
                    end
                | None => None
                end in
              let x86_proved : option string :=
                match proved "x86" (x86_bound pl) (nth_error more 0) with
                | Some w => Some w
                | None => match proved "a64" (a64_bound pl) (nth_error more 1) with
                          | Some w => Some w
                          | None => proved "rv" (rv_bound pl) (nth_error more 2)
                          end
                end in
              match x86_proved, code_viol "x86" cx, code_viol "a64" ca with
              | Some w, _, _ | None, Some w, _ | None, None, Some w => VViol (w ++ info)
              | None, None, None =>
                  VOk ("nt prog " ++ label ++ " size" ++ bucket s_f ++ " vars" ++ bucket (1 + vars)
                       ++ (if occ_scoped pf then " scoped" else " UNSCOPED")
                       ++ ratio_tag "core" s_c s_f ++ " occ" ++ bucket (1 + fun_occ pf) ++ ratio_tag "f2cb" f2c_n (1 + s_c) ++ ratio_tag "foc" s_fs s_c ++ ratio_tag "shr" s_s s_fs ++ ratio_tag "lin" s_l s_s
                       ++ match getN cx with Some n => ratio_tag "x86cg" n cgb | None => " x86panic" end
                       ++ match more with cxn :: _ => match getN cxn with Some n => ratio_tag "x86nc" n cgb | None => "" end | [] => "" end
                       ++ match getN ca with Some n => ratio_tag "a64cg" n cgb | None => " a64panic" end
                       ++ match getN cr with Some _ => "" | None => " rvpanic" end)
              end
          | _ => VBad "codes"
          end
      | None, _, _, _, _ => VBad "checked unreadable"
      | _, None, _, _, _ => VBad "core unreadable"
      | _, _, None, _, _ => VBad "focused unreadable"
      | _, _, _, None, _ => VBad "shrunk unreadable"
      | _, _, _, _, None => VBad "linearized unreadable"
      end
  | _, _ => VBad "prog case shape"
  end.

Definition sizes_case (i r : sexp) : verdict :=
  match i with
  | L [kind; A fam; srcs] =>
      if atom_is "family" kind then family_case fam srcs r else VBad "input"
  | L [kind; A label; k; L gs; L codes] =>
      if negb (atom_is "prog" kind) then VBad "input"
      else if head_is "ERR" r then
        (if String.eqb label "random" then VSkip ("random program: a stage failed " ++ trunc 120 (show r))
         else VBad ("family program failed " ++ trunc 120 (show r)))
      else match r with
           | L vals => prog_case label (match getN k with Some n => n | None => 0 end) gs codes vals
           | _ => VBad "prog output"
           end
  | _ => VBad "input"
  end.
Definition run_sizes : string -> string := run_cases sizes_case.
