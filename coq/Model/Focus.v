(* Functional model of the focusing transformation of /repo/lang/core_lang:
     traits/focus.rs (Focusing, Bind, bind_many), the `impl Focusing` / `impl Bind` blocks of
     syntax/terms/{mod,xvar,literal,op,mu,xtor,xcase,clause}.rs, syntax/arguments.rs,
     syntax/statements/{mod,cut,ifc,print,call,exit}.rs, syntax/def.rs (Def::focus) and
     syntax/program.rs (Prog::focus = uniquify, then focus every definition).

   - Meta-level continuations `Box<dyn FnOnce(ContextBinding, &mut ID) -> FsStatement>` are Gallina
     functions [kont]; the counter `max_id` is threaded ([m] in, new value out).
   - The numbering of the fresh (co)variables is decided by the order in which Rust evaluates
     `fresh_var(max_id)`, `self.focus(max_id)` and `k(binding, max_id)` (arguments of a call are
     evaluated left to right, `let` statements in order).  Each case below names that order.
   - [c : cchi] is the Rust type parameter of Term<C> (chirality of the position), see
     Model/Uniquify.v; a panic is [Err msg].
   - All functions are structurally recursive (the recursive calls under the continuations are on
     sub-terms), so no fuel.  [bind_many_with] is `bind_many` with `Argument::bind` as a parameter,
     in the form the termination checker accepts for the nested `list carg`.
   No proofs in this file (Proof/FocusProof.v). *)
From Coq Require Import List ZArith NArith String Bool.
From SCC Require Import Base.Sexp Lang.CoreSyn Model.Backend Model.Uniquify.
Import ListNotations.
Open Scope string_scope.

Definition fres := res (fsstmt * N).
Definition kont := cbinding -> N -> fres.            (* Continuation *)
Definition kontv := list cbinding -> N -> fres.      (* ContinuationVec (VecDeque<ContextBinding>) *)

Definition msg_focus_cannot_happen : string := "Cannot happen".
Definition msg_focus_xtor : string := "Constructors and destructors should always be focused in cuts directly".
Definition msg_focus_op : string := "Arithmetic operators should always be focused in cuts directly".

(* focus.rs bind_many: pop_front; None => k(empty); Some(arg) => arg.bind(|binding| bind_many(rest,
   |bindings| { bindings.push_front(binding); k(bindings) })) *)
Definition bind_many_with (ba : carg -> kont -> N -> fres) : list carg -> kontv -> N -> fres :=
  fix go (l : list carg) (k : kontv) (m : N) : fres :=
    match l with
    | [] => k [] m
    | a :: r => ba a (fun b m1 => go r (fun bs m2 => k (b :: bs) m2) m1) m
    end.

Fixpoint focus_term (c : cchi) (t : cterm) (m : N) {struct t} : res (fsterm * N) :=
  match t with
  | CXVar c' v ty => Ok (FsXVar c' v ty, m)
  | CLit n => match c with CPrd => Ok (FsLit n, m) | CCns => Err msg_focus_cannot_happen end
  | COp _ _ _ => match c with CPrd => Err msg_focus_op | CCns => Err msg_focus_cannot_happen end
  | CMu c' v s ty => dor (s', m1) <- focus_stmt s m; Ok (FsMu c' v s' ty, m1)
  | CXtor _ _ _ _ => Err msg_focus_xtor
  | CXCase c' cls ty => dor (cls', m1) <- maprs focus_clause cls m; Ok (FsXCase c' cls' ty, m1)
  end

with focus_clause (cl : cclause) (m : N) {struct cl} : res (fsclause * N) :=
  match cl with
  | CClause c' x ctx body => dor (b', m1) <- focus_stmt body m; Ok (FsClause c' x ctx b', m1)
  end

(* trait Bind for Term<Prd> / Term<Cns> *)
with bind_term (c : cchi) (t : cterm) (k : kont) (m : N) {struct t} : fres :=
  match t with
  | CXVar _ v ty =>
      (* xvar.rs: chi from the type parameter; no fresh name *)
      k (mkcb v c ty) m
  | CLit n =>
      match c with
      | CPrd =>
          (* literal.rs: fresh_var, then k *)
          let '(x, m1) := fresh_var m in
          dor (s, m2) <- k (mkcb x CPrd CI64) m1;
          Ok (FsCut (FsLit n) CI64 (FsMu CCns x s CI64), m2)
      | CCns => Err msg_focus_cannot_happen
      end
  | COp a o b =>
      match c with
      | CPrd =>
          (* op.rs: bind fst, then snd, then fresh_var, then k *)
          bind_term CPrd a (fun b1 ma =>
            bind_term CPrd b (fun b2 mb =>
              let '(x, m1) := fresh_var mb in
              dor (s, m2) <- k (mkcb x CPrd CI64) m1;
              Ok (FsCut (FsOp (cbvar b1) o (cbvar b2)) CI64 (FsMu CCns x s CI64), m2)) ma) m
      | CCns => Err msg_focus_cannot_happen
      end
  | CMu c' v s ty =>
      match c with
      | CPrd =>
          (* mu.rs Mu<Prd>: fresh_var; self.focus(max_id); k(new_binding, max_id) *)
          let '(x, m1) := fresh_var m in
          dor (s', m2) <- focus_stmt s m1;
          dor (sk, m3) <- k (mkcb x CPrd ty) m2;
          Ok (FsCut (FsMu c' v s' ty) ty (FsMu CCns x sk ty), m3)
      | CCns =>
          (* mu.rs Mu<Cns>: fresh_covar; k(new_binding, max_id); self.focus(max_id) *)
          let '(a, m1) := fresh_covar m in
          dor (sk, m2) <- k (mkcb a CCns ty) m1;
          dor (s', m3) <- focus_stmt s m2;
          Ok (FsCut (FsMu CPrd a sk ty) ty (FsMu c' v s' ty), m3)
      end
  | CXtor c' x args ty =>
      match c with
      | CPrd =>
          (* xtor.rs Xtor<Prd>: bind_many(args, |bindings| { fresh_var; <Xtor(bindings) | mutilde x. k(x)> }) *)
          bind_many_with bind_arg args (fun bs mb =>
            let '(nv, m1) := fresh_var mb in
            dor (sk, m2) <- k (mkcb nv CPrd ty) m1;
            Ok (FsCut (FsXtor c' x bs ty) ty (FsMu CCns nv sk ty), m2)) m
      | CCns =>
          (* xtor.rs Xtor<Cns>: bind_many(args, |bindings| { fresh_covar; <mu a. k(a) | Xtor(bindings)> }) *)
          bind_many_with bind_arg args (fun bs mb =>
            let '(na, m1) := fresh_covar mb in
            dor (sk, m2) <- k (mkcb na CCns ty) m1;
            Ok (FsCut (FsMu CPrd na sk ty) ty (FsXtor c' x bs ty), m2)) m
      end
  | CXCase c' cls ty =>
      match c with
      | CPrd =>
          (* xcase.rs XCase<Prd>: fresh_var; let cns = mutilde x. k(x); then self.focus *)
          let '(x, m1) := fresh_var m in
          dor (sk, m2) <- k (mkcb x CPrd ty) m1;
          dor (cls', m3) <- maprs focus_clause cls m2;
          Ok (FsCut (FsXCase c' cls' ty) ty (FsMu CCns x sk ty), m3)
      | CCns =>
          (* xcase.rs XCase<Cns>: fresh_covar; let prd = mu a. k(a); then self.focus *)
          let '(a, m1) := fresh_covar m in
          dor (sk, m2) <- k (mkcb a CCns ty) m1;
          dor (cls', m3) <- maprs focus_clause cls m2;
          Ok (FsCut (FsMu CPrd a sk ty) ty (FsXCase c' cls' ty), m3)
      end
  end

(* arguments.rs: Bind for Argument *)
with bind_arg (a : carg) (k : kont) (m : N) {struct a} : fres :=
  match a with
  | CProducer p => bind_term CPrd p k m
  | CConsumer q => bind_term CCns q k m
  end

with focus_stmt (s : cstmt) (m : N) {struct s} : fres :=
  match s with
  | CCut p ty q =>
      (* cut.rs: match (producer, consumer) with the four arms in this order *)
      match p with
      | CXtor pc px pargs _ =>
          (* (Xtor(constructor), consumer): the focused xtor gets the type OF THE CUT *)
          bind_many_with bind_arg pargs (fun bs mb =>
            dor (q', m1) <- focus_term CCns q mb;
            Ok (FsCut (FsXtor pc px bs ty) ty q', m1)) m
      | _ =>
          match q with
          | CXtor qc qx qargs _ =>
              (* (producer, Xtor(destructor)) *)
              bind_many_with bind_arg qargs (fun bs mb =>
                dor (p', m1) <- focus_term CPrd p mb;
                Ok (FsCut p' ty (FsXtor qc qx bs ty), m1)) m
          | _ =>
              match p with
              | COp a o b =>
                  (* (Op(op), consumer) *)
                  bind_term CPrd a (fun b1 ma =>
                    bind_term CPrd b (fun b2 mb =>
                      dor (q', m1) <- focus_term CCns q mb;
                      Ok (FsCut (FsOp (cbvar b1) o (cbvar b2)) ty q', m1)) ma) m
              | _ =>
                  (* (producer, consumer): producer first *)
                  dor (p', m1) <- focus_term CPrd p m;
                  dor (q', m2) <- focus_term CCns q m1;
                  Ok (FsCut p' ty q', m2)
              end
          end
      end
  | CIfC so a b t e =>
      (* ifc.rs: bind fst, (bind snd,) then thenc.focus, elsec.focus *)
      bind_term CPrd a (fun b1 ma =>
        match b with
        | None =>
            dor (t', m1) <- focus_stmt t ma;
            dor (e', m2) <- focus_stmt e m1;
            Ok (FsIfC so (cbvar b1) None t' e', m2)
        | Some b0 =>
            bind_term CPrd b0 (fun b2 mb =>
              dor (t', m1) <- focus_stmt t mb;
              dor (e', m2) <- focus_stmt e m1;
              Ok (FsIfC so (cbvar b1) (Some (cbvar b2)) t' e', m2)) ma
        end) m
  | CPrint nl a next =>
      bind_term CPrd a (fun b1 ma =>
        dor (n', m1) <- focus_stmt next ma; Ok (FsPrint nl (cbvar b1) n', m1)) m
  | CCall f args _ =>
      bind_many_with bind_arg args (fun bs mb => Ok (FsCall f bs, mb)) m
  | CExit a _ =>
      bind_term CPrd a (fun b1 ma => Ok (FsExit (cbvar b1), ma)) m
  end.

(* def.rs Def::focus *)
Definition focus_def (d : cdef) (m : N) : res (fsdef * N) :=
  dor (b, m1) <- focus_stmt (cdbody d) m; Ok (mkfsd (cdname d) (cdctx d) b, m1).

(* program.rs Prog::focus *)
Definition focus_prog (p : cprog) : res fsprog :=
  dor p1 <- uniquify_prog p;
  dor (ds, m) <- maprs focus_def (cpdefs p1) (cpmax p1);
  Ok (mkfsp ds (cpdata p1) (cpcodata p1) m).
