(* C16: token-level model of the Fun pretty printer.

   Source: `impl Print` in /repo/lang/fun/src/syntax/**/*.rs, /repo/lang/printer/src/{types,util,theme,tokens}.rs.
   Every `Print` impl is transliterated into a *document* of a small algebra that mirrors the
   combinators of the `pretty` crate the code uses:

     alloc.text(s)/keyword/ctor/dtor/typ   DText (atom)         (annotations do not reach print_io's output)
     alloc.space()                         DSpace               (= text " ")
     alloc.line()                          DLine                (FlatAlt(Hardline, " "): space or newline)
     alloc.line_()                         DLine_               (FlatAlt(Hardline, Nil): nothing or newline)
     alloc.hardline()                      DHardline
     alloc.nil()                           DNil
     a.append(b)                           a <+ b               (left associative like the method chains)
     d.nest(i) / d.group() / d.align()     DNest i d / DGroup d / DAlign d
     d.parens()/brackets()/braces_anno()   enclose: l <+ d <+ r
     alloc.intersperse(ds, sep)            intersperse

   A text is always one lexical unit of fun.lalrpop ("atom"): a word (keyword, identifier, type or
   xtor name), an unsigned number, or a symbol.  The one exception in the Rust code is
   `format!("{}", lit)` for a negative literal, which is a single text "-5"; the model writes it as
   the two atoms `-` `5` appended without separator (identical rendering: no break opportunity, same
   width).

   From a document:  [flat]  the sequence of atoms and separators (layout independent),
                     [atoms] the atoms, [separators] the separator class between adjacent atoms,
                     [tokens] = [glue (atoms d)]: the token stream of fun.lalrpop's lexer, whose
                     regex terminals `==\s*0`, `0\s*==`, ... and `:\s*cns` merge adjacent atoms
                     across any amount of whitespace - this is where the `-0` defect lived.

   The zero-literal defect of C16 (a literal 0 of an operand printed next to the comparison operator
   of an `if`) is REPAIRED in /repo (fix commit c039e57): [d_term] models the repaired `impl Print for
   IfC`; [old_d_term] / [old_d_prog] keep the printer as it was, for the regression lemmas of
   Props/C16.v.  The repaired printer emits one comment (`//` + hardline, [DComment]) where nothing
   else keeps a `0` and the operator apart.
   No proofs here (Proof/FmtProof.v). *)
From Coq Require Import List ZArith NArith String Ascii Bool.
From SCC Require Import Base.Sexp Lang.SynUtil Lang.FunSyn.
Import ListNotations.
Open Scope string_scope.

(* ---------- atoms (what the printer emits) and tokens (the terminals of fun.lalrpop) ---------- *)
Inductive sym :=
| SLPar | SRPar | SLBrace | SRBrace | SLBrack | SRBrack | SSemi | SArrow | SComma | SColon | SDot | SAssign
| SCmp (c : fifsort)              (* "==" "!=" "<" "<=" ">" ">=" *)
| SPlus | SStar | SMinus | SSlash | SPercent.

Inductive atom :=
| AWord (s : string)              (* keyword / lower-case name / upper-case name; classified by the lexer *)
| ANum (n : N)                    (* r"0|[1-9][0-9]*" *)
| ASym (y : sym)
| AComment.                        (* the empty line comment "//" together with the newline that ends it; no token *)

Inductive kw := KLabel | KGoto | KExit | KIf | KElse | KPrint | KPrintln | KLet | KCase | KNew
              | KDef | KData | KCodata | KI64.

Inductive token :=
| TSym (y : sym)
| TColonCns                       (* r":\s*cns" *)
| TCmpZ (c : fifsort)             (* r"==\s*0" r"!=\s*0" r"<\s*0" r"<=\s*0" r">\s*0" r">=\s*0" *)
| TZCmp (c : fifsort)             (* r"0\s*==" r"0\s*!=" r"0\s*<" r"0\s*<=" r"0\s*>" r"0\s*>=" *)
| TLower (s : string)             (* r"[a-z][a-zA-Z0-9_]*" that is no keyword *)
| TUpper (s : string)             (* r"[A-Z][a-zA-Z0-9_]*" *)
| TNum (n : N)
| TKw (k : kw).

Definition cmp_text (c : fifsort) : string :=
  match c with FEq => "==" | FNe => "!=" | FLt => "<" | FLe => "<=" | FGt => ">" | FGe => ">=" end.
Definition sym_text (y : sym) : string :=
  match y with
  | SLPar => "(" | SRPar => ")" | SLBrace => "{" | SRBrace => "}" | SLBrack => "[" | SRBrack => "]"
  | SSemi => ";" | SArrow => "=>" | SComma => "," | SColon => ":" | SDot => "." | SAssign => "="
  | SCmp c => cmp_text c
  | SPlus => "+" | SStar => "*" | SMinus => "-" | SSlash => "/" | SPercent => "%"
  end.
Definition comment_text : string := String "/" (String "/" (String "010" "")).
Definition atom_text (a : atom) : string :=
  match a with AWord s => s | ANum n => n_to_string n | ASym y => sym_text y | AComment => comment_text end.

Definition kw_text (k : kw) : string :=
  match k with
  | KLabel => "label" | KGoto => "goto" | KExit => "exit" | KIf => "if" | KElse => "else"
  | KPrint => "print_i64" | KPrintln => "println_i64" | KLet => "let" | KCase => "case" | KNew => "new"
  | KDef => "def" | KData => "data" | KCodata => "codata" | KI64 => "i64"
  end.
Definition all_kw : list kw :=
  [KLabel; KGoto; KExit; KIf; KElse; KPrint; KPrintln; KLet; KCase; KNew; KDef; KData; KCodata; KI64].
(* literal terminals win over the name regexes on a match of equal length *)
Definition kw_of_string (s : string) : option kw :=
  find (fun k => String.eqb (kw_text k) s) all_kw.

Definition is_lower (c : ascii) : bool := let n := nat_of_ascii c in (97 <=? n)%nat && (n <=? 122)%nat.
Definition is_upper (c : ascii) : bool := let n := nat_of_ascii c in (65 <=? n)%nat && (n <=? 90)%nat.
Definition is_digit (c : ascii) : bool := let n := nat_of_ascii c in (48 <=? n)%nat && (n <=? 57)%nat.
Definition is_wordc (c : ascii) : bool := is_lower c || is_upper c || is_digit c || Ascii.eqb c "_"%char.

(* the token a word lexes to (words handed to this function start with a letter) *)
Definition word_token (s : string) : token :=
  match kw_of_string s with
  | Some k => TKw k
  | None => match s with
            | String c _ => if is_upper c then TUpper s else TLower s
            | EmptyString => TLower s
            end
  end.
(* the tokens of one atom standing alone: one, or none for a comment *)
Definition atom_tokens (a : atom) : list token :=
  match a with AWord s => [word_token s] | ANum n => [TNum n] | ASym y => [TSym y] | AComment => [] end.

(* What the longest-match lexer makes of a sequence of atoms separated by whitespace: the regex
   terminals with an embedded `\s*` swallow the neighbouring atom, scanning left to right. *)
Fixpoint glue (l : list atom) : list token :=
  match l with
  | [] => []
  | a :: l' =>
      match a, l' with
      | ASym (SCmp c), ANum 0 :: r => TCmpZ c :: glue r
      | ANum 0, ASym (SCmp c) :: r => TZCmp c :: glue r
      | ASym SColon, AWord s :: r => if String.eqb s "cns" then TColonCns :: glue r else TSym SColon :: glue l'
      | _, _ => atom_tokens a ++ glue l'
      end
  end.

(* ---------- documents ---------- *)
Inductive doc :=
| DNil | DText (a : atom) | DSpace | DLine | DLine_ | DHardline
| DComment                        (* alloc.comment("//").append(alloc.hardline()): one unit, the newline belongs to the comment *)
| DAppend (a b : doc) | DNest (i : Z) (d : doc) | DGroup (d : doc) | DAlign (d : doc).
Declare Scope doc_scope.
Delimit Scope doc_scope with doc.
Bind Scope doc_scope with doc.
Notation "a <+ b" := (DAppend a b) (at level 61, left associativity) : doc_scope.
Local Open Scope doc_scope.

Definition word (s : string) : doc := DText (AWord s).
Definition dsym (y : sym) : doc := DText (ASym y).
Definition enclose (l r : sym) (d : doc) : doc := dsym l <+ d <+ dsym r.      (* before.append(self).append(after) *)
Definition parens := enclose SLPar SRPar.
Definition brackets := enclose SLBrack SRBrack.
Definition braces := enclose SLBrace SRBrace.                                (* braces_anno *)
(* DocAllocator::intersperse: nil.append(first).append(sep).append(d2)... *)
Fixpoint intersperse_from (acc : doc) (l : list doc) (sep : doc) : doc :=
  match l with [] => acc | d :: r => intersperse_from (acc <+ sep <+ d) r sep end.
Definition intersperse (l : list doc) (sep : doc) : doc :=
  match l with [] => DNil | d :: r => intersperse_from (DNil <+ d) r sep end.

(* ---------- where a literal 0 would touch the comparison operator of an `if` (ifc.rs) ---------- *)
(* starts_with_zero / ends_with_zero: the first / last token of the printed term is the literal 0 *)
Fixpoint starts_zero (t : fterm) : bool :=
  match t with
  | FLit 0%Z => true
  | FOp a _ _ => starts_zero a
  | FDtor s _ _ _ _ => starts_zero s
  | FCase s _ _ _ => starts_zero s
  | _ => false
  end.
Fixpoint ends_zero (t : fterm) : bool :=
  match t with
  | FLit 0%Z => true
  | FOp _ _ b => ends_zero b
  | FPrint _ _ next _ => ends_zero next
  | FLet _ _ _ body _ => ends_zero body
  | FExit a _ => ends_zero a
  | _ => false
  end.
(* IfSort::mirrored_symbol; also the actions of the grammar's IfZRight .. IfGEZRight: `0 > t` is stored as Less *)
Definition flip (c : fifsort) : fifsort :=
  match c with FEq => FEq | FNe => FNe | FLt => FGt | FLe => FGe | FGt => FLt | FGe => FLe end.

(* PrintCfg { width, allow_linebreaks, latex (irrelevant for Fun), omit_decl_sep, indent } *)
Record pcfg := mkpcfg { pwidth : N; plinebreaks : bool; pomit_sep : bool; pindent : Z }.

Section WithCfg.
Variable c : pcfg.
Let ind := pindent c.
(* `let sep = if cfg.allow_linebreaks { alloc.line_() } else { alloc.nil() }` *)
Definition sep_ : doc := if plinebreaks c then DLine_ else DNil.

(* printer/src/types.rs print_comma_separated: elements grouped, separated by "," line (or "," space) *)
Definition comma_sep (l : list doc) : doc :=
  let sep := if plinebreaks c then dsym SComma <+ DLine else dsym SComma <+ DSpace in
  intersperse (map DGroup l) sep.

(* types.rs *)
Fixpoint d_ty (t : fty) : doc :=
  match t with
  | FI64 => word "i64"
  | FDecl n targs =>
      word n <+ (match targs with
                 | [] => DNil
                 | _ => DGroup (brackets (DNest ind (sep_ <+ comma_sep (map d_ty targs)) <+ sep_))
                 end)
  end.
Definition d_tyargs (targs : list fty) : doc :=
  match targs with
  | [] => DNil
  | _ => DGroup (brackets (DNest ind (sep_ <+ comma_sep (map d_ty targs)) <+ sep_))
  end.

(* context.rs *)
Definition d_chi (x : fchi) : doc := match x with FPrd => DNil | FCns => DSpace <+ word "cns" end.
Definition d_binding (b : fbinding) : doc :=
  word (fbvar b) <+ dsym SColon <+ d_chi (fbchi b) <+ DSpace <+ d_ty (fbty b).
Definition d_ctx (g : fctx) : doc :=                                         (* TypingContext: no parentheses of its own *)
  match g with [] => DNil | _ => DNest ind (sep_ <+ comma_sep (map d_binding g)) <+ sep_ end.
Definition d_namectx (l : fnamectx) : doc :=                                 (* NameContext *)
  match l with [] => DNil | _ => DGroup (parens (DNest ind (sep_ <+ comma_sep (map word l)) <+ sep_)) end.
Definition d_typectx (l : fnamectx) : doc :=                                 (* TypeContext *)
  match l with [] => DNil | _ => DGroup (brackets (DNest ind (sep_ <+ comma_sep (map word l)) <+ sep_)) end.

Definition d_binop (o : fbinop) : doc :=
  dsym (match o with FDiv => SSlash | FProd => SStar | FRem => SPercent | FSum => SPlus | FSub => SMinus end).

(* literal.rs: format!("{}", lit) *)
Definition d_lit (z : Z) : doc :=
  if (z <? 0)%Z then dsym SMinus <+ DText (ANum (Z.to_N (- z))) else DText (ANum (Z.to_N z)).

(* Destructor: the scrutinee is a variable or a call without arguments whose one-line rendering is
   no longer than the indentation (`.len() <= cfg.indent.cast_unsigned()`) *)
Definition short_scrutinee (t : fterm) : bool :=
  match t with
  | FVar v _ _ => (ind <? 0)%Z || (Z.of_nat (String.length v) <=? ind)%Z
  | FCall f [] _ => (ind <? 0)%Z || (Z.of_nat (String.length f) + 2 <=? ind)%Z
  | _ => false
  end.
Definition is_dtor (t : fterm) : bool := match t with FDtor _ _ _ _ _ => true | _ => false end.

(* clause.rs print_clauses, given the printed clauses *)
Definition d_clauses (cls : list doc) : doc :=
  match cls with
  | [] => DGroup (braces DSpace)
  | [cl] => DGroup (braces (DNest ind (DLine <+ DGroup cl) <+ DLine))
  | _ => braces (DNest ind (DHardline <+ intersperse (map DGroup cls) (dsym SComma <+ DHardline)) <+ DHardline)
  end.
(* `{ line  body.group()  nest  line }` of if / label *)
Definition block (body : doc) : doc := braces (DNest ind (DLine <+ DGroup body) <+ DLine).
(* `( line_  t.group()  nest  line_ )` of paren / goto / print *)
Definition pblock (body : doc) : doc := parens (DNest ind (DLine_ <+ DGroup body) <+ DLine_).
(* arguments.rs *)
Definition d_args (l : list doc) : doc :=
  match l with [] => DNil | _ => DNest ind (sep_ <+ comma_sep l) <+ sep_ end.
Definition d_optargs (l : list doc) : doc :=                                 (* constructor.rs / destructor.rs *)
  match l with [] => DNil | _ => parens (d_args l) end.

Fixpoint d_term (t : fterm) : doc :=
  match t with
  | FVar v _ _ => word v
  | FLit n => d_lit n
  | FOp a o b => DGroup (d_term a) <+ DSpace <+ d_binop o <+ DSpace <+ DGroup (d_term b)
  | FIfC s a b t e _ =>
      let head := word "if" <+ DSpace in
      let head :=
        match b with
        | None =>
            if ends_zero a
            then head <+ DText (ANum 0) <+ DSpace <+ dsym (SCmp (flip s)) <+ DSpace <+ d_term a      (* the zero on the left *)
            else head <+ d_term a <+ DSpace <+ dsym (SCmp s) <+ DSpace <+ DText (ANum 0)
        | Some b' =>
            (* `.append(sep)` / `.append(sign)`: appending `nil` is the identity in `pretty` (DocBuilder::append) *)
            let head := head <+ d_term a <+ DSpace in
            let head := if ends_zero a then head <+ DComment else head in
            let head := head <+ dsym (SCmp s) <+ DSpace in
            let head := if starts_zero b' then head <+ dsym SMinus else head in
            head <+ d_term b'
        end in
      head <+ DSpace <+ block (d_term t) <+ DSpace <+ word "else" <+ DSpace <+ block (d_term e)
  | FPrint nl a next _ =>
      word (if nl then "println_i64" else "print_i64") <+ DGroup (pblock (d_term a))
        <+ dsym SSemi <+ DHardline <+ DGroup (d_term next)
  | FLet v vty bound body _ =>
      word "let" <+ DSpace <+ word v <+ dsym SColon <+ DSpace <+ d_ty vty <+ DSpace <+ dsym SAssign <+ DSpace
        <+ DGroup (d_term bound) <+ dsym SSemi <+ DHardline <+ DGroup (d_term body)
  | FCall f args _ => word f <+ DGroup (parens (d_args (map d_term args)))
  | FCtor x args _ => word x <+ DGroup (d_optargs (map d_term args))
  | FDtor scrut x targs args _ =>
      let args' := DGroup (d_optargs (map d_term args)) in
      if short_scrutinee scrut
      then d_term scrut <+ dsym SDot <+ word x <+ d_tyargs targs <+ args'
      else DAlign (DNest ind (d_term scrut <+ DLine_ <+ dsym SDot <+ word x <+ d_tyargs targs <+ args'))
  | FCase scrut targs cls _ =>
      if is_dtor scrut
      then DAlign (DNest ind (d_term scrut <+ DLine_ <+ dsym SDot <+ word "case" <+ d_tyargs targs <+ DSpace
                               <+ d_clauses (map d_clause cls)))
      else d_term scrut <+ dsym SDot <+ word "case" <+ d_tyargs targs <+ DSpace <+ d_clauses (map d_clause cls)
  | FNew cls _ => word "new" <+ DSpace <+ d_clauses (map d_clause cls)
  | FLabel l t _ => word "label" <+ DSpace <+ word l <+ DSpace <+ DGroup (block (d_term t))
  | FGoto l t _ => word "goto" <+ DSpace <+ word l <+ DSpace <+ DGroup (pblock (d_term t))
  | FExit a _ => word "exit" <+ DSpace <+ d_term a
  | FParen t => pblock (d_term t)
  end
with d_clause (cl : fclause) : doc :=
  match cl with
  | FClause _ x names _ body =>
      DNest ind (DAlign (word x <+ d_namectx names <+ DSpace <+ dsym SArrow) <+ DLine <+ DGroup (d_term body))
  end.

(* declarations *)
Definition d_sigargs (g : fctx) : doc :=
  DGroup (match g with [] => d_ctx g | _ => parens (d_ctx g) end).
Definition d_ctorsig (s : fctorsig) : doc := word (fctname s) <+ d_sigargs (fctargs s).
Definition d_dtorsig (s : fdtorsig) : doc :=
  word (fdtname s) <+ d_sigargs (fdtargs s) <+ dsym SColon <+ DSpace <+ d_ty (fdtcont s).
Definition d_decl_body (sigs : list doc) : doc :=
  DGroup (braces (match sigs with
                  | [] => DSpace
                  | _ => DNest ind (DLine <+ intersperse sigs (dsym SComma <+ DLine)) <+ DLine
                  end)).
Definition d_data (d : fdata) : doc :=
  (word "data" <+ DSpace <+ word (fdaname d) <+ d_typectx (fdaparams d) <+ DSpace)
    <+ d_decl_body (map d_ctorsig (fdactors d)).
Definition d_codata (d : fcodata) : doc :=
  (word "codata" <+ DSpace <+ word (fcoaname d) <+ d_typectx (fcoparams d) <+ DSpace)
    <+ d_decl_body (map d_dtorsig (fcodtors d)).
Definition d_def (d : fdef) : doc :=
  DGroup (word "def" <+ DSpace <+ word (fdname d) <+ parens (d_ctx (fdctx d)) <+ dsym SColon <+ DSpace
            <+ d_ty (fdret d) <+ DSpace)
    <+ braces (DNest ind (DHardline <+ DGroup (d_term (fdbody d))) <+ DHardline).
Definition d_decl (d : fdecl) : doc :=
  match d with FDData d => d_data d | FDCodata d => d_codata d | FDDef d => d_def d end.
Definition d_prog (p : fprog) : doc :=
  intersperse (map d_decl (fpdecls p)) (if pomit_sep c then DLine else DLine <+ DLine).

(* ---------- the printer BEFORE the repair of the zero-literal defect (regression lemmas only) ----------
   `impl Print for IfC` printed `if fst cmp snd` / `if fst cmp 0` whatever the operands were. *)
Fixpoint old_d_term (t : fterm) : doc :=
  match t with
  | FVar v _ _ => word v
  | FLit n => d_lit n
  | FOp a o b => DGroup (old_d_term a) <+ DSpace <+ d_binop o <+ DSpace <+ DGroup (old_d_term b)
  | FIfC s a b t e _ =>
      let snd := match b with None => DText (ANum 0) | Some b' => old_d_term b' end in
      word "if" <+ DSpace <+ old_d_term a <+ DSpace <+ dsym (SCmp s) <+ DSpace <+ snd <+ DSpace
        <+ block (old_d_term t) <+ DSpace <+ word "else" <+ DSpace <+ block (old_d_term e)
  | FPrint nl a next _ =>
      word (if nl then "println_i64" else "print_i64") <+ DGroup (pblock (old_d_term a))
        <+ dsym SSemi <+ DHardline <+ DGroup (old_d_term next)
  | FLet v vty bound body _ =>
      word "let" <+ DSpace <+ word v <+ dsym SColon <+ DSpace <+ d_ty vty <+ DSpace <+ dsym SAssign <+ DSpace
        <+ DGroup (old_d_term bound) <+ dsym SSemi <+ DHardline <+ DGroup (old_d_term body)
  | FCall f args _ => word f <+ DGroup (parens (d_args (map old_d_term args)))
  | FCtor x args _ => word x <+ DGroup (d_optargs (map old_d_term args))
  | FDtor scrut x targs args _ =>
      let args' := DGroup (d_optargs (map old_d_term args)) in
      if short_scrutinee scrut
      then old_d_term scrut <+ dsym SDot <+ word x <+ d_tyargs targs <+ args'
      else DAlign (DNest ind (old_d_term scrut <+ DLine_ <+ dsym SDot <+ word x <+ d_tyargs targs <+ args'))
  | FCase scrut targs cls _ =>
      if is_dtor scrut
      then DAlign (DNest ind (old_d_term scrut <+ DLine_ <+ dsym SDot <+ word "case" <+ d_tyargs targs <+ DSpace
                               <+ d_clauses (map old_d_clause cls)))
      else old_d_term scrut <+ dsym SDot <+ word "case" <+ d_tyargs targs <+ DSpace <+ d_clauses (map old_d_clause cls)
  | FNew cls _ => word "new" <+ DSpace <+ d_clauses (map old_d_clause cls)
  | FLabel l t _ => word "label" <+ DSpace <+ word l <+ DSpace <+ DGroup (block (old_d_term t))
  | FGoto l t _ => word "goto" <+ DSpace <+ word l <+ DSpace <+ DGroup (pblock (old_d_term t))
  | FExit a _ => word "exit" <+ DSpace <+ old_d_term a
  | FParen t => pblock (old_d_term t)
  end
with old_d_clause (cl : fclause) : doc :=
  match cl with
  | FClause _ x names _ body =>
      DNest ind (DAlign (word x <+ d_namectx names <+ DSpace <+ dsym SArrow) <+ DLine <+ DGroup (old_d_term body))
  end.

Definition old_d_def (d : fdef) : doc :=
  DGroup (word "def" <+ DSpace <+ word (fdname d) <+ parens (d_ctx (fdctx d)) <+ dsym SColon <+ DSpace
            <+ d_ty (fdret d) <+ DSpace)
    <+ braces (DNest ind (DHardline <+ DGroup (old_d_term (fdbody d))) <+ DHardline).
Definition old_d_decl (d : fdecl) : doc :=
  match d with FDData d => d_data d | FDCodata d => d_codata d | FDDef d => old_d_def d end.
Definition old_d_prog (p : fprog) : doc :=
  intersperse (map old_d_decl (fpdecls p)) (if pomit_sep c then DLine else DLine <+ DLine).
End WithCfg.

(* ---------- layout-independent content of a document ---------- *)
Inductive sepk := KMaybe | KSome.          (* line_: nothing or newline;  space / line / hardline: at least one blank *)
Inductive item := IAtom (a : atom) | ISep (k : sepk).

Fixpoint flat_acc (d : doc) (acc : list item) : list item :=
  match d with
  | DNil => acc
  | DText a => IAtom a :: acc
  | DSpace | DLine | DHardline => ISep KSome :: acc
  | DLine_ => ISep KMaybe :: acc
  | DComment => IAtom AComment :: ISep KMaybe :: acc      (* "//\n", then the indentation of the next line *)
  | DAppend a b => flat_acc a (flat_acc b acc)
  | DNest _ d | DGroup d | DAlign d => flat_acc d acc
  end.
Definition flat (d : doc) : list item := flat_acc d [].

Fixpoint atoms_of (l : list item) : list atom :=
  match l with [] => [] | IAtom a :: r => a :: atoms_of r | ISep _ :: r => atoms_of r end.
Definition atoms (d : doc) : list atom := atoms_of (flat d).
Definition tokens (d : doc) : list token := glue (atoms d).

(* separator class between adjacent atoms: None = juxtaposed *)
Definition sep_join (a : option sepk) (k : sepk) : option sepk :=
  match a, k with
  | Some KSome, _ | _, KSome => Some KSome
  | _, KMaybe => Some KMaybe
  end.
(* [seps_from cur l]: cur = separator accumulated since the last atom *)
Fixpoint seps_from (seen : bool) (cur : option sepk) (l : list item) : list (option sepk) :=
  match l with
  | [] => []
  | ISep k :: r => seps_from seen (sep_join cur k) r
  | IAtom _ :: r => (if seen then [cur] else []) ++ seps_from true None r
  end.
Definition separators (d : doc) : list (option sepk) := seps_from false None (flat d).

(* ---------- which juxtapositions would change the token stream ---------- *)
Definition wordy (a : atom) : bool := match a with AWord _ | ANum _ => true | ASym _ | AComment => false end.
(* symbols whose text ends / starts with a character that also occurs inside a longer terminal
   ("==" "=>" "!=" "<=" ">=") or the comment opener "//" *)
Definition op_end (a : atom) : bool :=
  match a with ASym (SAssign | SArrow | SCmp _ | SSlash) => true | _ => false end.
Definition op_start (a : atom) : bool :=
  match a with ASym (SAssign | SArrow | SCmp _ | SSlash) | AComment => true | _ => false end.
Definition sticky (a b : atom) : bool := (wordy a && wordy b) || (op_end a && op_start b).
(* `:` directly or after blanks followed by a word that merely starts with "cns": the terminal
   r":\s*cns" would split the word; no separator helps *)
Definition prefix_cns (s : string) : bool :=
  match s with String "c" (String "n" (String "s" (String _ _))) => true | _ => false end.
Definition cns_clash (a b : atom) : bool :=
  match a, b with ASym SColon, AWord s => prefix_cns s | _, _ => false end.

(* [safe_from last cur l]: every two adjacent atoms that are sticky are separated by KSome *)
Fixpoint safe_from (last : option atom) (cur : option sepk) (l : list item) : bool :=
  match l with
  | [] => true
  | ISep k :: r => safe_from last (sep_join cur k) r
  | IAtom b :: r =>
      match last with
      | None => true
      | Some a =>
          negb (cns_clash a b) &&
          (negb (sticky a b) || match cur with Some KSome => true | _ => false end)
      end && safe_from (Some b) None r
  end.
Definition safe_items (l : list item) : bool := safe_from None None l.
Definition safe_doc (d : doc) : bool := safe_items (flat d).
