(* Case-file processing shared by all modelrun commands.  A case file has one line per case:
   (case <k> <input> <rust-output>).  A command maps it to one verdict line per case. *)
From Coq Require Import List ZArith NArith String Ascii Bool.
From SCC Require Import Base.Sexp.
Import ListNotations.
Open Scope string_scope.

Inductive verdict :=
| VOk (info : string)                 (* model and implementation agree; property predicate holds *)
| VDiff (model rust : string)         (* correspondence broken *)
| VViol (what : string)               (* executable property fails on the implementation's output *)
| VSkip (why : string)                (* case outside the modelled domain (counted, not compared) *)
| VBad (why : string).                (* unreadable case *)

Definition show_verdict (k : string) (v : verdict) : string :=
  match v with
  | VOk i => "OK " ++ k ++ " " ++ i
  | VDiff m r => "DIFF " ++ k ++ " model=" ++ m ++ " rust=" ++ r
  | VViol w => "VIOL " ++ k ++ " " ++ w
  | VSkip w => "SKIP " ++ k ++ " " ++ w
  | VBad w => "BAD " ++ k ++ " " ++ w
  end.

Definition run_cases (f : sexp -> sexp -> verdict) (input : string) : string :=
  match read_all input with
  | None => "BAD - unreadable file" ++ nl
  | Some cases =>
      unlines (map (fun c =>
        match c with
        | L [A "case"; A k; i; r] => show_verdict k (f i r)
        | _ => "BAD - not a case"
        end) cases)
  end.

(* a disagreement is reported as a 600-character window starting at the first differing character
   (whole programs as messages overflow the native stack and are unreadable anyway) *)
Fixpoint skip_common_b (a b : string) (off : N) : string * string * N :=
  match a, b with
  | String x a', String y b' => if Ascii.eqb x y then skip_common_b a' b' (off + 1)%N else (a, b, off)
  | _, _ => (a, b, off)
  end.
Fixpoint take_str_b (n : nat) (s : string) : string :=
  match n, s with
  | S m, String c r => String c (take_str_b m r)
  | _, _ => EmptyString
  end.
Definition diff_window_b (m r : string) : verdict :=
  let '(a, b, off) := skip_common_b m r 0%N in
  VDiff ("@" ++ n_to_string off ++ ":" ++ take_str_b 600 a) ("@" ++ n_to_string off ++ ":" ++ take_str_b 600 b).
Definition cmp_sexp (model rust : sexp) : verdict :=
  let m := show model in let r := show rust in
  if String.eqb m r then VOk "" else diff_window_b m r.

(* relay of verdicts computed on the harness side (process-level observations the model cannot make:
   fresh processes, native execution, crashes): (ok tag…) | (viol "what") | (skip "why") *)
Definition relay_case (_ r : sexp) : verdict :=
  match r with
  | L (A "ok" :: tags) => VOk (String.concat " " (map (fun t => match t with A s => s | Q s => s | _ => "" end) tags))
  | L [A "viol"; Q w] => VViol w
  | L [A "skip"; Q w] => VSkip w
  | _ => VBad "not a relayed verdict"
  end.
Definition run_relay : string -> string := run_cases relay_case.
