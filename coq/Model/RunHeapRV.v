(* modelrun commands "heap-rv" and "c10-rv": C09 / C10 decided on the REAL RISC-V instruction list
   (output of `harness heapgen-rv` / `c10-rv`, same shape as `codegen-rv`), run on Sem/RVSem.v in
   lockstep with the AxCut linear machine (Sem/RVHeap.v), the counting invariant inv_check evaluated
   at every statement comment of the implementation.  This back end has no print and no spill
   slots: the harness hands in print-free programs (results returned), and programs with more than
   14 live variables make the code generator panic (SKIP). *)
From Coq Require Import List ZArith NArith String Bool.
From SCC Require Import Base.Sexp Lang.AxSyn Sem.AxSem Sem.RVSem Sem.HeapCheck Sem.HeapLock Sem.RVHeap
                        Model.Backend Model.RV Model.RVIo Model.RunBase Model.RunRV Model.RunHeapGen.
Import ListNotations.
Open Scope string_scope.

Definition rv_runner (cs : list rcode) : runner :=
  fun args tr => let '(ob, s, st) := run_rv_heap_tr isa_outer isa_inner cs args tr in (ob, st, hw s).

Definition heap_rv_case (i r : sexp) : verdict :=
  let '(r, _, _) := split_all r in
  match i with
  | L [Q _; p; lc; argss] =>
      match g_prog p, getL (getL getZ) argss with
      | Some p, Some argss =>
          if prog_has_print p then VSkip "print" else
          match r with
          | L [A "PANIC"; _] => VSkip "implementation panicked (capacity)"
          | L [cs; _; Q _] =>
              match g_ritems cs with
              | Some items =>
                  let live := max_live p in
                  heap_verdict HEAP_BASE p (rv_runner (codes_of_s items)) (fun _ => None) argss "reuse"
                    (" live" ++ n_to_string (N.of_nat (live / 4 * 4)) ++ (if Nat.leb 12 live then " live>=12" else ""))
              | None => VBad "rust output unreadable"
              end
          | _ => VBad "rust output shape"
          end
      | _, _ => VBad "input unreadable"
      end
  | _ => VBad "input shape"
  end.
Definition run_heap_rv : string -> string := run_cases heap_rv_case.

Definition c10_rv_case (i r : sexp) : verdict :=
  match i with
  | L [Q _; p; lc; argss] =>
      match g_prog p, getL (getL getZ) argss, r with
      | Some p, Some argss, L [cs; _; Q _] =>
          if prog_has_print p then VSkip "print" else
          match g_ritems cs with
          | Some items => c10_verdict HEAP_BASE p (rv_runner (codes_of_s items)) argss
          | None => VBad "rust output unreadable"
          end
      | Some _, Some _, L [A "PANIC"; _] => VSkip "implementation panicked (capacity or print)"
      | _, _, _ => VBad "input unreadable"
      end
  | _ => VBad "input shape"
  end.
Definition run_c10_rv : string -> string := run_cases c10_rv_case.
