(* C16: the defect class of the formatter round trip that was REPAIRED in /repo (fix commit c039e57),
   in closed form; kept for the regression lemmas and to name a recurrence in the correspondence run.

   Before the repair a literal 0 that ends the first operand or starts the second operand of an `if`
   was printed next to the comparison operator, and fun.lalrpop's lexer fuses `0 ==`, `== 0`, ...
   into the terminals of the zero-comparison productions.
   [old_renorm p]  what formatting + reparsing with the OLD printer (Printer.old_d_prog) made of a
                parser-shaped program: Some p' (p' = p outside the class) or None (the output did not
                parse).  RunFmt.v uses it to label a failure `..:minus-zero-comparison` /
                `..:zero-literal-comparison` (a recurrence; a violation like any other).
   [zsafe p]    the guard the round-trip theorem needed before the repair: no `if` has a zero literal
                next to its operator.  zsafe p -> old_renorm p = Some p  (FmtProof.zsafe_renorm). *)
From Coq Require Import List ZArith NArith String Ascii Bool.
From SCC Require Import Base.Sexp Lang.SynUtil Lang.FunSyn Model.Printer Model.Parser.
Import ListNotations.
Open Scope string_scope.

Definition is_lit0 (t : fterm) : bool := match t with FLit 0%Z => true | _ => false end.
(* [starts_zero] / [ends_zero] (the first / last atom of the printed term is the literal 0): Model/Printer.v *)

Definition omap_t (f : fterm -> option fterm) : list fterm -> option (list fterm) :=
  fix go (l : list fterm) : option (list fterm) :=
    match l with [] => Some [] | x :: r => do y <- f x; do ys <- go r; Some (y :: ys) end.

(* What formatting with the OLD printer + reparsing made of a parser-shaped term: None = the output did not parse. *)
Fixpoint old_renorm_t (t : fterm) : option fterm :=
  match t with
  | FVar _ _ _ | FLit _ => Some t
  | FOp a o b => do a' <- old_renorm_t a; do b' <- old_renorm_t b; Some (FOp a' o b')
  | FIfC s a b th el ty =>
      do a' <- old_renorm_t a; do th' <- old_renorm_t th; do el' <- old_renorm_t el;
      match b with
      | None =>
          if is_lit0 a then Some (FIfC (flip s) (FLit 0) None th' el' ty)          (* if 0 s 0 *)
          else if ends_zero a then None
          else Some (FIfC s a' None th' el' ty)
      | Some b0 =>
          do b' <- old_renorm_t b0;
          if is_lit0 a then Some (FIfC (flip s) b' None th' el' ty)                (* if 0 s b: the flipped production *)
          else if ends_zero a then None                                            (* .. 0 s: terminal r"0\s*s" inside the term *)
          else if is_lit0 b0 then Some (FIfC s a' None th' el' ty)                 (* if a s 0: the zero production *)
          else if starts_zero b0 then None                                         (* r"s\s*0" then the rest of b *)
          else Some (FIfC s a' (Some b') th' el' ty)
      end
  | FPrint nl a next ty => do a' <- old_renorm_t a; do n' <- old_renorm_t next; Some (FPrint nl a' n' ty)
  | FLet v vty bound body ty => do b' <- old_renorm_t bound; do t' <- old_renorm_t body; Some (FLet v vty b' t' ty)
  | FCall f args ret => do args' <- omap_t old_renorm_t args; Some (FCall f args' ret)
  | FCtor x args ty => do args' <- omap_t old_renorm_t args; Some (FCtor x args' ty)
  | FDtor s x targs args ty => do s' <- old_renorm_t s; do args' <- omap_t old_renorm_t args; Some (FDtor s' x targs args' ty)
  | FCase s targs cls ty =>
      do s' <- old_renorm_t s;
      do cls' <- (fix go (l : list fclause) : option (list fclause) :=
                    match l with
                    | [] => Some []
                    | FClause p x ns g body :: r => do b' <- old_renorm_t body; do r' <- go r; Some (FClause p x ns g b' :: r')
                    end) cls;
      Some (FCase s' targs cls' ty)
  | FNew cls ty =>
      do cls' <- (fix go (l : list fclause) : option (list fclause) :=
                    match l with
                    | [] => Some []
                    | FClause p x ns g body :: r => do b' <- old_renorm_t body; do r' <- go r; Some (FClause p x ns g b' :: r')
                    end) cls;
      Some (FNew cls' ty)
  | FLabel l t ty => do t' <- old_renorm_t t; Some (FLabel l t' ty)
  | FGoto l t ty => do t' <- old_renorm_t t; Some (FGoto l t' ty)
  | FExit a ty => do a' <- old_renorm_t a; Some (FExit a' ty)
  | FParen t => do t' <- old_renorm_t t; Some (FParen t')
  end.
Definition old_renorm_decl (d : fdecl) : option fdecl :=
  match d with
  | FDDef d => do b <- old_renorm_t (fdbody d); Some (FDDef (mkfdef (fdname d) (fdctx d) (fdret d) b))
  | _ => Some d
  end.
Definition old_renorm (p : fprog) : option fprog := do ds <- omap old_renorm_decl (fpdecls p); Some (mkfprog ds).


(* ---------- the guard (needed before the repair) ---------- *)
Fixpoint zsafe (t : fterm) : bool :=
  match t with
  | FVar _ _ _ | FLit _ => true
  | FOp a _ b => zsafe a && zsafe b
  | FIfC _ a b th el _ =>
      zsafe a && negb (ends_zero a)
      && match b with Some b' => zsafe b' && negb (starts_zero b') | None => true end
      && zsafe th && zsafe el
  | FPrint _ a n _ => zsafe a && zsafe n
  | FLet _ _ b t _ => zsafe b && zsafe t
  | FCall _ args _ | FCtor _ args _ => forallb zsafe args
  | FDtor s _ _ args _ => zsafe s && forallb zsafe args
  | FCase s _ cls _ => zsafe s && forallb zsafe_clause cls
  | FNew cls _ => forallb zsafe_clause cls
  | FLabel _ t _ | FGoto _ t _ => zsafe t
  | FExit a _ => zsafe a
  | FParen t => zsafe t
  end
with zsafe_clause (c : fclause) : bool := match c with FClause _ _ _ _ body => zsafe body end.
Definition zsafe_decl (d : fdecl) : bool := match d with FDDef d => zsafe (fdbody d) | _ => true end.
Definition zsafe_prog (p : fprog) : bool := forallb zsafe_decl (fpdecls p).

