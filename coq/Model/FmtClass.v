(* C16: the one known defect class of the formatter round trip, in closed form.

   A literal 0 that ends the first operand or starts the second operand of an `if` is printed next
   to the comparison operator, and fun.lalrpop's lexer fuses `0 ==`, `== 0`, ... into the terminals
   of the zero-comparison productions.
   [renorm p]   what formatting + reparsing makes of a parser-shaped program: Some p' (p' = p outside
                the class) or None (the output does not parse).  Compared with the implementation on
                every case of the correspondence run (RunFmt.v).
   [zsafe p]    the guard of the round-trip theorem: no `if` has a zero literal next to its operator.
                zsafe p -> renorm p = Some p  (FmtProof.zsafe_renorm). *)
From Coq Require Import List ZArith NArith String Ascii Bool.
From SCC Require Import Base.Sexp Lang.SynUtil Lang.FunSyn Model.Printer Model.Parser.
Import ListNotations.
Open Scope string_scope.

Definition is_lit0 (t : fterm) : bool := match t with FLit 0%Z => true | _ => false end.
(* the first / last atom of the printed term is the literal 0 *)
Fixpoint starts_zero (t : fterm) : bool :=
  match t with
  | FLit 0%Z => true
  | FOp a _ _ => starts_zero a
  | FDtor s _ _ _ _ => starts_zero s
  | FCase s _ _ _ => starts_zero s
  | _ => false
  end.
Fixpoint ends_zero (t : fterm) : bool :=
  match t with
  | FLit 0%Z => true
  | FOp _ _ b => ends_zero b
  | FPrint _ _ next _ => ends_zero next
  | FLet _ _ _ body _ => ends_zero body
  | FExit a _ => ends_zero a
  | _ => false
  end.

Definition omap_t (f : fterm -> option fterm) : list fterm -> option (list fterm) :=
  fix go (l : list fterm) : option (list fterm) :=
    match l with [] => Some [] | x :: r => do y <- f x; do ys <- go r; Some (y :: ys) end.

(* What formatting + reparsing makes of a parser-shaped term: None = the output does not parse. *)
Fixpoint renorm_t (t : fterm) : option fterm :=
  match t with
  | FVar _ _ _ | FLit _ => Some t
  | FOp a o b => do a' <- renorm_t a; do b' <- renorm_t b; Some (FOp a' o b')
  | FIfC s a b th el ty =>
      do a' <- renorm_t a; do th' <- renorm_t th; do el' <- renorm_t el;
      match b with
      | None =>
          if is_lit0 a then Some (FIfC (flip s) (FLit 0) None th' el' ty)          (* if 0 s 0 *)
          else if ends_zero a then None
          else Some (FIfC s a' None th' el' ty)
      | Some b0 =>
          do b' <- renorm_t b0;
          if is_lit0 a then Some (FIfC (flip s) b' None th' el' ty)                (* if 0 s b: the flipped production *)
          else if ends_zero a then None                                            (* .. 0 s: terminal r"0\s*s" inside the term *)
          else if is_lit0 b0 then Some (FIfC s a' None th' el' ty)                 (* if a s 0: the zero production *)
          else if starts_zero b0 then None                                         (* r"s\s*0" then the rest of b *)
          else Some (FIfC s a' (Some b') th' el' ty)
      end
  | FPrint nl a next ty => do a' <- renorm_t a; do n' <- renorm_t next; Some (FPrint nl a' n' ty)
  | FLet v vty bound body ty => do b' <- renorm_t bound; do t' <- renorm_t body; Some (FLet v vty b' t' ty)
  | FCall f args ret => do args' <- omap_t renorm_t args; Some (FCall f args' ret)
  | FCtor x args ty => do args' <- omap_t renorm_t args; Some (FCtor x args' ty)
  | FDtor s x targs args ty => do s' <- renorm_t s; do args' <- omap_t renorm_t args; Some (FDtor s' x targs args' ty)
  | FCase s targs cls ty =>
      do s' <- renorm_t s;
      do cls' <- (fix go (l : list fclause) : option (list fclause) :=
                    match l with
                    | [] => Some []
                    | FClause p x ns g body :: r => do b' <- renorm_t body; do r' <- go r; Some (FClause p x ns g b' :: r')
                    end) cls;
      Some (FCase s' targs cls' ty)
  | FNew cls ty =>
      do cls' <- (fix go (l : list fclause) : option (list fclause) :=
                    match l with
                    | [] => Some []
                    | FClause p x ns g body :: r => do b' <- renorm_t body; do r' <- go r; Some (FClause p x ns g b' :: r')
                    end) cls;
      Some (FNew cls' ty)
  | FLabel l t ty => do t' <- renorm_t t; Some (FLabel l t' ty)
  | FGoto l t ty => do t' <- renorm_t t; Some (FGoto l t' ty)
  | FExit a ty => do a' <- renorm_t a; Some (FExit a' ty)
  | FParen t => do t' <- renorm_t t; Some (FParen t')
  end.
Definition renorm_decl (d : fdecl) : option fdecl :=
  match d with
  | FDDef d => do b <- renorm_t (fdbody d); Some (FDDef (mkfdef (fdname d) (fdctx d) (fdret d) b))
  | _ => Some d
  end.
Definition renorm (p : fprog) : option fprog := do ds <- omap renorm_decl (fpdecls p); Some (mkfprog ds).


(* ---------- the guard ---------- *)
Fixpoint zsafe (t : fterm) : bool :=
  match t with
  | FVar _ _ _ | FLit _ => true
  | FOp a _ b => zsafe a && zsafe b
  | FIfC _ a b th el _ =>
      zsafe a && negb (ends_zero a)
      && match b with Some b' => zsafe b' && negb (starts_zero b') | None => true end
      && zsafe th && zsafe el
  | FPrint _ a n _ => zsafe a && zsafe n
  | FLet _ _ b t _ => zsafe b && zsafe t
  | FCall _ args _ | FCtor _ args _ => forallb zsafe args
  | FDtor s _ _ args _ => zsafe s && forallb zsafe args
  | FCase s _ cls _ => zsafe s && forallb zsafe_clause cls
  | FNew cls _ => forallb zsafe_clause cls
  | FLabel _ t _ | FGoto _ t _ => zsafe t
  | FExit a _ => zsafe a
  | FParen t => zsafe t
  end
with zsafe_clause (c : fclause) : bool := match c with FClause _ _ _ _ body => zsafe body end.
Definition zsafe_decl (d : fdecl) : bool := match d with FDDef d => zsafe (fdbody d) | _ => true end.
Definition zsafe_prog (p : fprog) : bool := forallb zsafe_decl (fpdecls p).

