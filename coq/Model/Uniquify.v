(* Functional model of `uniquify` and of the shadow-aware simultaneous substitution `subst_sim`
   (trait Subst) of /repo/lang/core_lang:
     traits/substitution.rs, traits/uniquify.rs, syntax/names.rs (fresh_identifier),
     syntax/terms/{mod,xvar,literal,op,mu,xtor,xcase,clause}.rs, syntax/arguments.rs,
     syntax/statements/{mod,cut,ifc,print,call,exit}.rs, syntax/def.rs, syntax/program.rs.

   Conventions
   - The Rust type parameter C of Term<C> (Prd / Cns) is the explicit argument [c : cchi] of the
     functions whose Rust impls differ between Term<Prd> and Term<Cns> (subst_sim: the XVar lookup
     list and the `panic!("cannot happen")` for Literal/Op in Term<Cns>).  It is the chirality of the
     POSITION the term stands in (producer of a cut, `Producer` argument, operand … = Prd; consumer
     of a cut, `Consumer` argument = Cns) and equals the term's own prdcns field on every value
     that exists in Rust (the chi_ok predicates of CoreSyn).  `Uniquify` is generic in C and inspects
     `self.prdcns.is_prd()` only for Mu: the model reads the field there.
   - `max_id: &mut ID` is threaded as an argument/result [m : N] (usize overflow is not modelled).
   - A Rust panic is [Err msg]; errors propagate like unwinding does.
   - Identifier equality (`==`, `contains`, `find`) is [cident_eqb]: name AND id.
   No proofs in this file (Proof/FocusProof.v). *)
From Coq Require Import List ZArith NArith String Bool.
From SCC Require Import Base.Sexp Lang.CoreSyn Model.Backend.
Import ListNotations.
Open Scope string_scope.

(* ---------- helpers ---------- *)
(* Vec<T>::into_iter().map(f).collect() for a fallible f: left to right, first panic wins *)
Definition mapr {X Y} (f : X -> res Y) : list X -> res (list Y) :=
  fix go (l : list X) : res (list Y) :=
    match l with
    | [] => Ok []
    | x :: r => dor y <- f x; dor r' <- go r; Ok (y :: r')
    end.
(* the same with the counter threaded *)
Definition maprs {X Y} (f : X -> N -> res (Y * N)) : list X -> N -> res (list Y * N) :=
  fix go (l : list X) (m : N) : res (list Y * N) :=
    match l with
    | [] => Ok ([], m)
    | x :: r => dor (y, m1) <- f x m; dor (r', m2) <- go r m1; Ok (y :: r', m2)
    end.

(* names.rs *)
Definition fresh_identifier (m : N) (base : string) : cident * N := ((base, m + 1)%N, (m + 1)%N).
Definition fresh_var (m : N) : cident * N := fresh_identifier m "x".
Definition fresh_covar (m : N) : cident * N := fresh_identifier m "a".

(* ---------- subst_sim (trait Subst) ---------- *)
Definition csubst := list (cident * cterm).       (* &[(Identifier, Term<_>)] *)

(* slice.iter().find(|(v, _)| *v == x): first match *)
Fixpoint subst_find (x : cident) (s : csubst) : option cterm :=
  match s with
  | [] => None
  | (v, t) :: r => if cident_eqb v x then Some t else subst_find x r
  end.
(* Mu: keep the pairs whose key differs from the bound variable (order kept) *)
Definition subst_remove (x : cident) (s : csubst) : csubst :=
  filter (fun p => negb (cident_eqb (fst p) x)) s.
(* Clause: keep the pairs whose key is not among context.vars() *)
Definition subst_remove_ctx (ctx : cctx) (s : csubst) : csubst :=
  filter (fun p => negb (existsb (cident_eqb (fst p)) (cvars ctx))) s.

Definition msg_cannot_happen : string := "cannot happen".

Fixpoint subst_term (c : cchi) (t : cterm) (ps cs : csubst) {struct t} : res cterm :=
  match t with
  | CXVar c' v ty =>
      (* XVar<Prd>: prod_subst only; XVar<Cns>: cons_subst only *)
      match subst_find v (match c with CPrd => ps | CCns => cs end) with
      | None => Ok t
      | Some p => Ok p
      end
  | CLit _ => match c with CPrd => Ok t | CCns => Err msg_cannot_happen end
  | COp a o b =>
      match c with
      | CPrd => dor a' <- subst_term CPrd a ps cs; dor b' <- subst_term CPrd b ps cs; Ok (COp a' o b')
      | CCns => Err msg_cannot_happen
      end
  | CMu c' v s ty =>
      (* the bound variable shadows: both lists lose the pairs keyed by exactly this (name, id),
         whatever the chirality of the binder *)
      dor s' <- subst_stmt s (subst_remove v ps) (subst_remove v cs); Ok (CMu c' v s' ty)
  | CXtor c' x args ty =>
      dor args' <- mapr (fun a => subst_arg a ps cs) args; Ok (CXtor c' x args' ty)
  | CXCase c' cls ty =>
      dor cls' <- mapr (fun cl => subst_clause cl ps cs) cls; Ok (CXCase c' cls' ty)
  end
with subst_arg (a : carg) (ps cs : csubst) {struct a} : res carg :=
  match a with
  | CProducer p => dor p' <- subst_term CPrd p ps cs; Ok (CProducer p')
  | CConsumer k => dor k' <- subst_term CCns k ps cs; Ok (CConsumer k')
  end
with subst_clause (cl : cclause) (ps cs : csubst) {struct cl} : res cclause :=
  match cl with
  | CClause c' x ctx body =>
      dor body' <- subst_stmt body (subst_remove_ctx ctx ps) (subst_remove_ctx ctx cs);
      Ok (CClause c' x ctx body')
  end
with subst_stmt (s : cstmt) (ps cs : csubst) {struct s} : res cstmt :=
  match s with
  | CCut p ty k =>
      dor p' <- subst_term CPrd p ps cs; dor k' <- subst_term CCns k ps cs; Ok (CCut p' ty k')
  | CIfC so a b t e =>
      dor a' <- subst_term CPrd a ps cs;
      dor b' <- match b with
                | None => Ok None
                | Some b0 => dor b1 <- subst_term CPrd b0 ps cs; Ok (Some b1)
                end;
      dor t' <- subst_stmt t ps cs; dor e' <- subst_stmt e ps cs; Ok (CIfC so a' b' t' e')
  | CPrint nl a next =>
      dor a' <- subst_term CPrd a ps cs; dor n' <- subst_stmt next ps cs; Ok (CPrint nl a' n')
  | CCall f args ty =>
      dor args' <- mapr (fun a => subst_arg a ps cs) args; Ok (CCall f args' ty)
  | CExit a ty => dor a' <- subst_term CPrd a ps cs; Ok (CExit a' ty)
  end.

(* subst_var / subst_covar *)
Definition subst_var_stmt (s : cstmt) (v : cident) (p : cterm) : res cstmt := subst_stmt s [(v, p)] [].
Definition subst_covar_stmt (s : cstmt) (v : cident) (k : cterm) : res cstmt := subst_stmt s [] [(v, k)].

(* ---------- uniquify ---------- *)
(* The Rust recursion `body.subst_sim(..).uniquify(max_id)` is not structural (it recurses into
   the substituted body), hence fuel.  Measure: the nesting depth [depth_*] (one unit per
   term/statement/clause node on the deepest path); the substitutions performed by uniquify
   replace variables by variables and keep the depth.  Out of fuel is [Err msg_fuel]. *)
Definition msg_fuel : string := "OUT OF FUEL".

Fixpoint depth_term (t : cterm) : nat :=
  match t with
  | CXVar _ _ _ => 1
  | CLit _ => 1
  | COp a _ b => S (Nat.max (depth_term a) (depth_term b))
  | CMu _ _ s _ => S (depth_stmt s)
  | CXtor _ _ args _ =>
      S ((fix go (l : list carg) : nat := match l with [] => 0 | y :: r => Nat.max (depth_arg y) (go r) end) args)
  | CXCase _ cls _ =>
      S ((fix go (l : list cclause) : nat := match l with [] => 0 | y :: r => Nat.max (depth_clause y) (go r) end) cls)
  end
with depth_arg (a : carg) : nat :=
  match a with CProducer p => depth_term p | CConsumer k => depth_term k end
with depth_clause (c : cclause) : nat :=
  match c with CClause _ _ _ body => S (depth_stmt body) end
with depth_stmt (s : cstmt) : nat :=
  match s with
  | CCut p _ k => S (Nat.max (depth_term p) (depth_term k))
  | CIfC _ a b t e =>
      S (Nat.max (Nat.max (depth_term a) (match b with Some b' => depth_term b' | None => 0 end))
                 (Nat.max (depth_stmt t) (depth_stmt e)))
  | CPrint _ a next => S (Nat.max (depth_term a) (depth_stmt next))
  | CCall _ args _ =>
      S ((fix go (l : list carg) : nat := match l with [] => 0 | y :: r => Nat.max (depth_arg y) (go r) end) args)
  | CExit a _ => S (depth_term a)
  end.
Definition depth_args (l : list carg) : nat := fold_right (fun y acc => Nat.max (depth_arg y) acc) 0%nat l.
Definition depth_clauses (l : list cclause) : nat := fold_right (fun y acc => Nat.max (depth_clause y) acc) 0%nat l.

(* the loop over a parameter / clause context (def.rs and clause.rs have the same text):
   result = (new_context, var_subst, covar_subst, max_id) with the vectors in push order *)
Fixpoint uq_context (bs : list cbinding) (m : N) (ctx_acc : list cbinding) (vs cs : csubst)
  : cctx * csubst * csubst * N :=
  match bs with
  | [] => (frev ctx_acc, frev vs, frev cs, m)
  | b :: r =>
      if N.eqb (cid_id (cbvar b)) 0 then
        let '(nv, m1) := fresh_identifier m (cid_name (cbvar b)) in
        let nb := mkcb nv (cbchi b) (cbty b) in
        match cbchi b with
        | CPrd => uq_context r m1 (nb :: ctx_acc) ((cbvar b, CXVar CPrd nv (cbty b)) :: vs) cs
        | CCns => uq_context r m1 (nb :: ctx_acc) vs ((cbvar b, CXVar CCns nv (cbty b)) :: cs)
        end
      else uq_context r m (b :: ctx_acc) vs cs
  end.

Definition is_nil {X} (l : list X) : bool := match l with [] => true | _ => false end.

(* arguments.rs: Uniquify for Argument (a wrapper, not a node: no fuel of its own) *)
Definition uq_arg_with (ut : cterm -> N -> res (cterm * N)) (a : carg) (m : N) : res (carg * N) :=
  match a with
  | CProducer p => dor (p', m1) <- ut p m; Ok (CProducer p', m1)
  | CConsumer k => dor (k', m1) <- ut k m; Ok (CConsumer k', m1)
  end.

Fixpoint uq_term (fuel : nat) (t : cterm) (m : N) {struct fuel} : res (cterm * N) :=
  match fuel with
  | O => Err msg_fuel
  | S f =>
      match t with
      | COp a o b =>
          dor (a', m1) <- uq_term f a m; dor (b', m2) <- uq_term f b m1; Ok (COp a' o b', m2)
      | CMu c v s ty =>
          if N.eqb (cid_id v) 0 then
            let '(nv, m1) := fresh_identifier m (cid_name v) in
            dor s1 <- match c with
                      | CPrd => subst_covar_stmt s v (CXVar CCns nv ty)
                      | CCns => subst_var_stmt s v (CXVar CPrd nv ty)
                      end;
            dor (s2, m2) <- uq_stmt f s1 m1;
            Ok (CMu c nv s2 ty, m2)
          else
            dor (s', m1) <- uq_stmt f s m; Ok (CMu c v s' ty, m1)
      | CXtor c x args ty =>
          dor (args', m1) <- maprs (uq_arg_with (uq_term f)) args m; Ok (CXtor c x args' ty, m1)
      | CXCase c cls ty =>
          dor (cls', m1) <- maprs (uq_clause f) cls m; Ok (CXCase c cls' ty, m1)
      | _ => Ok (t, m)
      end
  end
with uq_clause (fuel : nat) (cl : cclause) (m : N) {struct fuel} : res (cclause * N) :=
  match fuel with
  | O => Err msg_fuel
  | S f =>
      match cl with
      | CClause c x ctx body =>
          let '(ctx', vs, cs, m1) := uq_context ctx m [] [] [] in
          dor body1 <- (if is_nil vs && is_nil cs then Ok body else subst_stmt body vs cs);
          dor (body2, m2) <- uq_stmt f body1 m1;
          Ok (CClause c x ctx' body2, m2)
      end
  end
with uq_stmt (fuel : nat) (s : cstmt) (m : N) {struct fuel} : res (cstmt * N) :=
  match fuel with
  | O => Err msg_fuel
  | S f =>
      match s with
      | CCut p ty k =>
          dor (p', m1) <- uq_term f p m; dor (k', m2) <- uq_term f k m1; Ok (CCut p' ty k', m2)
      | CIfC so a b t e =>
          dor (a', m1) <- uq_term f a m;
          dor (b', m2) <- match b with
                          | None => Ok (None, m1)
                          | Some b0 => dor (b1, m2) <- uq_term f b0 m1; Ok (Some b1, m2)
                          end;
          dor (t', m3) <- uq_stmt f t m2;
          dor (e', m4) <- uq_stmt f e m3;
          Ok (CIfC so a' b' t' e', m4)
      | CPrint nl a next =>
          dor (a', m1) <- uq_term f a m; dor (n', m2) <- uq_stmt f next m1; Ok (CPrint nl a' n', m2)
      | CCall g args ty =>
          dor (args', m1) <- maprs (uq_arg_with (uq_term f)) args m; Ok (CCall g args' ty, m1)
      | CExit a ty => dor (a', m1) <- uq_term f a m; Ok (CExit a' ty, m1)
      end
  end.

(* fuel that suffices: one unit per node on the deepest path *)
Definition uq_fuel (s : cstmt) : nat := depth_stmt s.

(* def.rs Def::uniquify *)
Definition uq_def (d : cdef) (m : N) : res (cdef * N) :=
  let '(ctx', vs, cs, m1) := uq_context (cdctx d) m [] [] [] in
  dor body1 <- (if is_nil vs && is_nil cs then Ok (cdbody d) else subst_stmt (cdbody d) vs cs);
  dor (body2, m2) <- uq_stmt (uq_fuel body1) body1 m1;
  Ok (mkcd (cdname d) ctx' body2, m2).

(* program.rs Prog::uniquify: the definitions in order, counter = self.max_id *)
Definition uniquify_prog (p : cprog) : res cprog :=
  dor (ds, m) <- maprs uq_def (cpdefs p) (cpmax p);
  Ok (mkcp ds (cpdata p) (cpcodata p) m).
