(* ISA-independent part of the modelrun commands heap-a64, heap-rv, c10-a64, c10-rv (C09 / C10 at the
   level of the REAL emitted code; the x86-64 originals are in Model/RunX86.v).  The ISA-specific
   files (RunHeapA64.v, RunHeapRV.v) read the implementation's instruction list, keeping its
   statement comments as marks, and hand in a runner  args -> trace -> (observation, statistics). *)
From Coq Require Import List ZArith NArith String Bool.
From SCC Require Import Base.Sexp Lang.AxSyn Sem.AxSem Sem.AxTrace Sem.HeapCheck Sem.HeapLock Model.RunBase.
Import ListNotations.
Open Scope string_scope.

Definition lin_fuel : nat := 50000.
Definition isa_outer : nat := 2000.
Definition isa_inner : nat := 2000.

(* a runner also returns the highest heap address written during the run (Sem/*Sem hw) *)
Definition runner := list Z -> list string -> obs * hstats * Z.
Definition touched_blocks (base high : Z) : Z := if Z.ltb high base then 0%Z else ((high - base) / 64 + 1)%Z.

Definition entry_is_integer (p : prog) : bool :=
  match pdefs p with d :: _ => forallb (fun b => match bchi b with Ext => true | _ => false end) (dctx d) | [] => false end.

(* one argument tuple: None = no verdict (reference run undefined, or the two runs are not in lockstep
   and no marked model code is available / agrees) *)
Record res1 := { r_viol : option string; r_bounds : N; r_peak : Z; r_front : Z; r_events : N; r_deferred : bool;
                 r_marked : bool (* judged on the marked model code, not through the statement comments *) }.
Definition one := option res1.
(* run_m: the runner on the marked model code, computed on demand only (model compilation is the most
   expensive part of a case and the lockstep through the statement comments rarely fails) *)
Definition heap_one (base : Z) (p : prog) (run_s : runner) (run_m : unit -> option runner) (args : list Z) : one :=
  let ref := run_linear lin_fuel p args in
  match snd ref with
  | OExit _ =>
      let pack (marked : bool) (st : hstats) : one :=
        let '(w, b, pk, fr) := judge base args st in
        Some {| r_viol := w; r_bounds := b; r_peak := pk; r_front := fr; r_events := events st; r_deferred := deferred st; r_marked := marked |} in
      let tr := trace_linear lin_fuel p args in
      let '(ob1, st1, _) := run_s args tr in
      if obs_eqb ref ob1 && in_lockstep st1 then pack false st1
      else match first_violation st1 with
           | Some _ =>
               (* a violation seen while the marks were still in step (a wrecked heap usually wrecks the rest
                  of the run too): reported, since every earlier boundary agreed with the machine *)
               if negb (underrun st1) then pack false st1 else None
           | None =>
               match run_m tt with
               | Some run_m => let '(ob2, st2, _) := run_m args [] in if obs_eqb ref ob2 then pack true st2 else None
               | None => None
               end
           end
  | _ => None
  end.

Definition first_viol (results : list one) : option string :=
  match find (fun x => match x with Some r => match r_viol r with Some _ => true | None => false end | None => false end) results with
  | Some (Some r) => r_viol r
  | _ => None
  end.

(* tags: nt/noruns, boundaries (log2), peak (log2), allocates, verdicts = tuples with a verdict,
   slack = max (frontier blocks - peak), <hard_tag> = the ISA's hard allocator path was executed,
   deferred = the deferred list was non-empty at a boundary, marked<n> = n verdicts come from the
   marked model code (the run through the statement comments was not in lockstep) *)
Definition heap_summary (results : list one) (hard_tag : string) : string :=
  let rs := flat_map (fun x : one => match x with Some r => [r] | None => [] end) results in
  let nb := fold_left (fun a r => (a + r_bounds r)%N) rs 0%N in
  let peak := fold_left (fun a r => Z.max a (r_peak r)) rs 0%Z in
  let fr := fold_left (fun a r => Z.max a (r_front r)) rs 0%Z in
  let ev := fold_left (fun a r => (a + r_events r)%N) rs 0%N in
  let df := existsb r_deferred rs in
  let mk := List.length (filter r_marked rs) in
  let slack := fold_left (fun a r => Z.max a (r_front r - r_peak r)) rs 0%Z in
  (if N.eqb nb 0 then "noruns" else "nt") ++ " boundaries" ++ n_to_string (N.log2 (nb + 1))
  ++ " peak" ++ z_to_string (Z.log2 (peak + 1)) ++ (if Z.gtb fr 1 then " allocates" else " noalloc")
  ++ " verdicts" ++ n_to_string (N.of_nat (List.length rs)) ++ " slack" ++ z_to_string slack
  ++ (if N.eqb ev 0 then "" else " " ++ hard_tag) ++ (if df then " deferred" else "")
  ++ (match mk with O => "" | _ => " marked" ++ n_to_string (N.of_nat mk) end).

Definition heap_verdict (base : Z) (p : prog) (run_s : runner) (run_m : unit -> option runner) (argss : list (list Z))
           (hard_tag extra_tags : string) : verdict :=
  if negb (entry_is_integer p) then VSkip "first definition is not an entry point (non-integer parameters)" else
  let results := map (heap_one base p run_s run_m) argss in
  match first_viol results with
  | Some why => VViol why
  | None => VOk (heap_summary results hard_tag ++ extra_tags)
  end.

(* ---------- C10: space independent of the number of repetitions (as Model/RunX86.c10_x86_case) ----------
   `main(n)` repeats a round n times.  Compared for n = 8 and n = 32: the allocation frontier (first
   never-used block, from inv_check at the last boundary) and, independently of the invariant, the
   number of blocks ever written (high-water mark of the ISA model): a leak shows up as growth of the
   latter even though every result is right.  A violation of the invariant at a boundary reached in
   lockstep is reported as well (class=heap-invariant, property C09). *)
Definition run4 := (list Z * obs * obs * hstats * Z)%type.
Definition c10_verdict (base : Z) (p : prog) (run_s : runner) (argss : list (list Z)) : verdict :=
  let runs : list run4 :=
    map (fun args =>
           let ref := run_linear lin_fuel p args in
           let tr := trace_linear lin_fuel p args in
           let '(ob, st, high) := run_s args tr in
           (args, ref, ob, st, high)) argss in
  let inv : option string :=
    match find (fun x : run4 => let '(_, _, _, st, _) := x in match first_violation st with Some _ => negb (underrun st) | None => false end) runs with
    | Some (args, _, _, st, _) =>
        Some ("class=heap-invariant args=" ++ show (sL sZ args) ++ " at boundary " ++ n_to_string (boundaries st) ++ ": "
              ++ match first_violation st with Some w => w | None => "" end)
    | None => None
    end in
  match find (fun x : run4 => let '(_, ref, ob, _, _) := x in negb (obs_eqb ref ob && defined ref)) runs with
  | Some (args, ref, ob, _, _) =>
      match inv with
      | Some w => VViol w
      | None => VSkip ("runs not comparable for args " ++ show (sL sZ args) ++ ": " ++ show (s_obs ref) ++ " vs " ++ show (s_obs ob))
      end
  | None =>
      let touched := map (fun x : run4 => let '(_, _, _, _, high) := x in touched_blocks base high) runs in
      let fronts := map (fun x : run4 => let '(_, _, _, st, _) := x in ((last_frontier st - base) / 64)%Z) runs in
      let ev := fold_left (fun a (x : run4) => let '(_, _, _, st, _) := x in (a + events st)%N) runs 0%N in
      let steady := forallb (fun x : run4 => let '(_, _, _, st, _) := x in in_lockstep st) runs in
      match touched, fronts with
      | [t2; t8; t32], [f2; f8; f32] =>
          if negb (Z.eqb t8 t32) then
            VViol ("class=heap-footprint-grows blocks written after 2/8/32 iterations: " ++ z_to_string t2 ++ "/" ++ z_to_string t8 ++ "/" ++ z_to_string t32
                   ++ match inv with Some w => "; " ++ w | None => "" end)
          else match inv with
               | Some w => VViol w
               | None =>
                   if negb steady then VSkip "statement marks and machine trace not in lockstep"
                   else if Z.eqb f8 f32 then VOk ("nt frontier" ++ z_to_string f32 ++ " first" ++ z_to_string f2 ++ " written" ++ z_to_string t32 ++ (if N.eqb ev 0 then "" else " hard"))
                   else VViol ("class=heap-footprint-grows frontier after 2/8/32 iterations: " ++ z_to_string f2 ++ "/" ++ z_to_string f8 ++ "/" ++ z_to_string f32 ++ " blocks")
               end
      | _, _ => VBad "expected three iteration counts"
      end
  end.
