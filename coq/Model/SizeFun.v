(* Measures of Fun programs for the size theorem of fun2core (property C19); shared by the proofs
   (Proof/SizeFun2Core*.v) and the modelrun command `sizes` (Model/RunSizes.v).  Not a model of Rust code.

   fz k      = one per term / clause node (size_fterm) + k per entry of a clause context;
               a definition counts 1 + k * #parameters + its body.   fz 0 = size_fcprog.
   f_wprog   = fz 1: the WEIGHTED source size (binders of clauses and definitions count).
   tocc t    = the typed variable occurrences of t as Core bindings (name, chirality, translated type):
               what the translation of t can mention freely.  A covariable occurrence that is an argument
               of a call / constructor / destructor is a consumer, every other variable occurrence a
               producer (as the translation treats them); a `goto l (t)` counts l at the type of t.
   fun_occ p = the largest number of DISTINCT typed occurrences in a definition of p.  For a program
               accepted by the type checker every occurrence refers to a parameter or binder of the
               definition, at its declared type. *)
From Coq Require Import List NArith String Bool.
From SCC Require Import Base.Sexp Lang.FunSyn Lang.FunTy Lang.CoreSyn Lang.AxSize Lang.FsSize Model.Fun2Core Model.Shrink.
Import ListNotations.
Open Scope N_scope.

Definition nsum {X} (f : X -> N) : list X -> N :=
  fix go (l : list X) : N := match l with [] => 0 | x :: r => f x + go r end.

Fixpoint fz (k : N) (t : fterm) {struct t} : N :=
  match t with
  | FVar _ _ _ => 1
  | FLit _ => 1
  | FOp a _ b => 1 + fz k a + fz k b
  | FIfC _ a b t e _ => 1 + fz k a + match b with Some b' => fz k b' | None => 0 end + fz k t + fz k e
  | FPrint _ a next _ => 1 + fz k a + fz k next
  | FLet _ _ bound body _ => 1 + fz k bound + fz k body
  | FCall _ args _ => 1 + nsum (fz k) args
  | FCtor _ args _ => 1 + nsum (fz k) args
  | FDtor scrut _ _ args _ => 1 + fz k scrut + nsum (fz k) args
  | FCase scrut _ cls _ =>
      1 + fz k scrut + nsum (fun c => match c with FClause _ _ _ ctx body => 1 + k * len ctx + fz k body end) cls
  | FNew cls _ => 1 + nsum (fun c => match c with FClause _ _ _ ctx body => 1 + k * len ctx + fz k body end) cls
  | FLabel _ t _ => 1 + fz k t
  | FGoto _ t _ => 1 + fz k t
  | FExit a _ => 1 + fz k a
  | FParen t => 1 + fz k t
  end.
Definition fz_clause (k : N) (c : fclause) : N :=
  match c with FClause _ _ _ ctx body => 1 + k * len ctx + fz k body end.
Definition fz_def (k : N) (d : fdef) : N := 1 + k * len (fdctx d) + fz k (fdbody d).
Definition fz_prog (k : N) (p : fcprog) : N := nsum (fz_def k) (fcpdefs p).
Definition f_wprog (p : fcprog) : N := fz_prog 1 p.

(* typed occurrences *)
Definition occ_prd (v : string) (ty : option fty) : list cbinding :=
  match ty with Some ty0 => [mkcb (new_id v) CPrd (compile_ty ty0)] | None => [] end.
Definition occ_cns (v : string) (ty : option fty) : list cbinding :=
  match ty with Some ty0 => [mkcb (new_id v) CCns (compile_ty ty0)] | None => [] end.
Definition occ_goto (l : string) (tty : option fty) : list cbinding := occ_cns l tty.
(* an argument of a call / constructor / destructor that is a covariable occurrence is a Consumer
   (arguments.rs compile_subst); everywhere else a variable occurrence is translated as a producer *)
Definition occ_arg_with (f : fterm -> list cbinding) (y : fterm) : list cbinding :=
  match y with FVar v ty (Some FCns) => occ_cns v ty | _ => f y end.
Fixpoint tocc (t : fterm) : list cbinding :=
  match t with
  | FVar v ty _ => occ_prd v ty
  | FLit _ => []
  | FOp a _ b => tocc a ++ tocc b
  | FIfC _ a b t1 t2 _ => tocc a ++ (match b with Some b' => tocc b' | None => [] end) ++ tocc t1 ++ tocc t2
  | FPrint _ a next _ => tocc a ++ tocc next
  | FLet _ _ bound body _ => tocc bound ++ tocc body
  | FCall _ args _ => flat_map (occ_arg_with tocc) args
  | FCtor _ args _ => flat_map (occ_arg_with tocc) args
  | FDtor scrut _ _ args _ => tocc scrut ++ flat_map (occ_arg_with tocc) args
  | FCase scrut _ cls _ => tocc scrut ++ flat_map (fun c => match c with FClause _ _ _ _ body => tocc body end) cls
  | FNew cls _ => flat_map (fun c => match c with FClause _ _ _ _ body => tocc body end) cls
  | FLabel _ t' _ => tocc t'
  | FGoto l t' _ => occ_goto l (fterm_type t') ++ tocc t'
  | FExit a _ => tocc a
  | FParen t' => tocc t'
  end.
Definition occ_arg : fterm -> list cbinding := occ_arg_with tocc.
Definition cl_occ (c : fclause) : list cbinding := match c with FClause _ _ _ _ body => tocc body end.

(* the distinct elements (first occurrences dropped) *)
Fixpoint bdedup (l : list cbinding) : list cbinding :=
  match l with
  | [] => []
  | x :: r => if existsb (cbinding_eqb x) r then bdedup r else x :: bdedup r
  end.
Definition fun_occ_def (d : fdef) : N := len (bdedup (tocc (fdbody d))).
Definition fun_occ (p : fcprog) : N := fold_right N.max 0 (map fun_occ_def (fcpdefs p)).

(* the proved bounds, as evaluated by modelrun (k = 0: node counts; k = 1: weighted sizes) *)
Definition f2c_factor (k V : N) : N := 6 + (2 + k) * (V + 2).
(* since fix f929eb7 of /repo: when some call targets main the output starts with the entry point
   def main<n>(params) { main(params, mu~x. exit x) }  of 5 + #params nodes (one per definition named main); the
   parameters of a definition are not nodes of the source, so the node bound has them as an additive term
   (the weighted size counts them: the weighted bound needs no such term) *)
Definition main_params (d : fdef) : N := if String.eqb (fdname d) "main" then len (fdctx d) else 0.
Definition entry_params (p : fcprog) : N := if calls_main_prog p then nsum main_params (fcpdefs p) else 0.
Definition f2c_bound_nodes (p : fcprog) : N := size_fcprog p * f2c_factor 0 (fun_occ p) + entry_params p.
Definition f2c_bound_weighted (p : fcprog) : N := f_wprog p * f2c_factor 1 (fun_occ p).

(* what the type declarations of the source contribute to the bound of shrinking: the largest number of
   xtors of a declared type (the continuation type _Cont { Ret(x) } included) and the largest xtor arity
   (a destructor has one more argument in Core: its continuation); = prog_X / prog_A of the focused
   program (Model/SizeDefs.v) *)
Definition fun_X (p : fcprog) : N :=
  N.max (decl_xtors (map compile_data (fcpdata p) ++ [cont_int])) (decl_xtors (map compile_codata (fcpcodata p))).
Definition fun_A (p : fcprog) : N :=
  N.max (decl_arity (map compile_data (fcpdata p) ++ [cont_int])) (decl_arity (map compile_codata (fcpcodata p))).

(* the composed bounds of the pipeline Fun -> Core -> focused -> AxCut -> linearized (Proof/SizePipeline.v) *)
Definition b_focused (W V : N) : N := 4 * (W * (12 + 3 * V)).
Definition b_shrunk (w X A : N) : N := w * ((2 + X * (2 + A)) + 2 * (1 + X) * w).
Definition b_linearized (S : N) : N := S * (5 + 3 * S).
Definition b_cg (L : N) : N := L * (5 + 2 * L).
Definition pipeline_shrunk_bound (p : fcprog) : N := b_shrunk (b_focused (f_wprog p) (fun_occ p)) (fun_X p) (fun_A p).
Definition pipeline_ax_bound (p : fcprog) : N := b_linearized (pipeline_shrunk_bound p).
(* units of the back end's cost constant: size(linearized) x (5 + 4 size(shrunk)), Proof/SizeLinWidth.v *)
Definition pipeline_cg_bound (p : fcprog) : N := pipeline_ax_bound p * (5 + 4 * pipeline_shrunk_bound p).

(* ---------- typed binders: what the occurrences of a checked program refer to ----------
   def_tb d = the parameters of d and the binders of its body (let variables, clause parameters, labels) as
   Core bindings at their declared types.  occ_scoped p: every typed occurrence of every definition is one of
   its typed binders (a purely syntactic containment check; true of what the type checker accepts, where every
   variable occurrence is annotated with the type of its binder).  Then fun_occ p <= fun_tb p. *)
Fixpoint tbinders (t : fterm) : list cbinding :=
  match t with
  | FVar _ _ _ | FLit _ => []
  | FOp a _ b => tbinders a ++ tbinders b
  | FIfC _ a b t1 t2 _ => tbinders a ++ (match b with Some b' => tbinders b' | None => [] end) ++ tbinders t1 ++ tbinders t2
  | FPrint _ a next _ => tbinders a ++ tbinders next
  | FLet v vty bound body _ => mkcb (new_id v) CPrd (compile_ty vty) :: tbinders bound ++ tbinders body
  | FCall _ args _ => flat_map tbinders args
  | FCtor _ args _ => flat_map tbinders args
  | FDtor scrut _ _ args _ => tbinders scrut ++ flat_map tbinders args
  | FCase scrut _ cls _ =>
      tbinders scrut ++ flat_map (fun c => match c with FClause _ _ _ ctx body => compile_ctx ctx ++ tbinders body end) cls
  | FNew cls _ => flat_map (fun c => match c with FClause _ _ _ ctx body => compile_ctx ctx ++ tbinders body end) cls
  | FLabel l t' ty => (match ty with Some ty0 => [mkcb (new_id l) CCns (compile_ty ty0)] | None => [] end) ++ tbinders t'
  | FGoto _ t' _ => tbinders t'
  | FExit a _ => tbinders a
  | FParen t' => tbinders t'
  end.
Definition def_tb (d : fdef) : list cbinding := compile_ctx (fdctx d) ++ tbinders (fdbody d).
Definition occ_scoped_def (d : fdef) : bool :=
  forallb (fun b => existsb (cbinding_eqb b) (def_tb d)) (tocc (fdbody d)).
Definition occ_scoped (p : fcprog) : bool := forallb occ_scoped_def (fcpdefs p).
Definition fun_tb (p : fcprog) : N := fold_right N.max 0 (map (fun d => len (def_tb d)) (fcpdefs p)).
