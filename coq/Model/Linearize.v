(* Model of `Prog::linearize` (lang/axcut/src/syntax/{program,def,context}.rs and the
   `impl Linearizing / FreeVars / Subst` of lang/axcut/src/syntax/statements/*.rs).
   Transliteration notes (what the Rust code does, quirks included):
   - `HashSet<ID>` are keyed by the numeric id only and only ever tested for membership, so sets
     are lists of N with `mem`.
   - `free_vars` (the annotation pass run by `Def::linearize`): every statement impl assumes the set it
     is handed is empty; `Vec<Clause>` and the else-branch of `IfC` get a fresh set each and are
     merged with `extend`; a clause removes its binders from its own set.  The annotation stored in
     `free_vars_next` / `free_vars_clauses` is therefore `fv next` / `fv_clauses cls` below; `Create`'s
     `free_vars_next` still contains the closure variable itself.  `Subst` renames the annotations
     along with the statement (`HashSet<ID>::subst_sim`), which for the injective renamings with
     fresh targets that `Create` performs is the same set as the free variables of the renamed
     statement; the model recomputes `fv` on the renamed statement (Lang/AxSyn.v carries no
     annotations).
   - `filter_by_set` = `fbs`, the functional form of the swap_remove loop: a binding that is not
     kept is replaced by the LAST kept binding of the remaining suffix, trailing unkept bindings
     are popped.
   - `freshen` keeps the first occurrence of an id and gives later ones (and ids in `clashes`) the
     same name with id `max_id+1`, `max_id+2`, ...
   - `Call`/`Invoke` lose their argument lists (`mem::take`) in every branch.
   - `Switch`/`Create` linearize the clauses (in order) before the comparison and before any
     fresh name is drawn; `Create` then renames `next` and recurses on the renamed statement,
     which is why `lin` takes fuel (`stmt_size` suffices, Proof/LinearizeProof.v).
   - a `Substitute` in the input makes the Rust code panic; the model returns the statement
     unchanged and `has_subst` tells the caller.
   No proofs in this file. *)
From Coq Require Import List ZArith NArith String Bool.
From SCC Require Import Base.Sexp Lang.AxSyn.
Import ListNotations.
Open Scope string_scope.
Open Scope list_scope.
Open Scope N_scope.

(* ---------- sets of ids as lists ---------- *)
Definition mem (x : N) (l : list N) : bool := existsb (N.eqb x) l.
Definition add (x : N) (l : list N) : list N := if mem x l then l else x :: l.
Definition union (a b : list N) : list N := fold_right add b a.
Definition remove (x : N) (l : list N) : list N := filter (fun y => negb (N.eqb y x)) l.
Definition remove_all (xs : list N) (l : list N) : list N := fold_right remove l xs.

(* ---------- free variables (FreeVars impls) ---------- *)
Fixpoint fv (s : stmt) : list N :=
  let fvc := fix go (cls : list (ident * ctx * stmt)) : list N :=
    match cls with
    | [] => []
    | (_, cc, b) :: r => union (remove_all (ids cc) (fv b)) (go r)
    end in
  match s with
  | Substitute re next =>
      fold_left (fun vs p => remove (idn (bvar (fst p))) (add (idn (snd p)) vs)) re (fv next)
  | Call _ args => union (ids args) []
  | Let v _ _ args next => union (ids args) (remove (idn v) (fv next))
  | Switch v _ cls => add (idn v) (fvc cls)
  | Create v _ _ cls next => union (fvc cls) (remove (idn v) (fv next))
  | Invoke v _ _ args => add (idn v) (union (ids args) [])
  | Literal _ v next => remove (idn v) (fv next)
  | Op a _ b v next => add (idn b) (add (idn a) (remove (idn v) (fv next)))
  | PrintI64 _ v next => add (idn v) (fv next)
  | IfC _ a b t e =>
      match b with
      | Some b => add (idn b) (add (idn a) (union (fv e) (fv t)))
      | None => add (idn a) (union (fv e) (fv t))
      end
  | Exit v => [idn v]
  end.
Fixpoint fv_clauses (cls : list (ident * ctx * stmt)) : list N :=
  match cls with
  | [] => []
  | (_, cc, b) :: r => union (remove_all (ids cc) (fv b)) (fv_clauses r)
  end.

(* ---------- substitution of variables (Subst impls); the first matching pair wins ---------- *)
Definition sub_id (su : list (N * ident)) (x : ident) : ident :=
  match find (fun p => N.eqb (fst p) (idn x)) su with Some p => snd p | None => x end.
Definition sub_b (su : list (N * ident)) (b : binding) : binding :=
  mkb (sub_id su (bvar b)) (bchi b) (bty b).
Fixpoint sub_s (su : list (N * ident)) (s : stmt) : stmt :=
  let sub_cls := fix go (cls : list (ident * ctx * stmt)) : list (ident * ctx * stmt) :=
    match cls with
    | [] => []
    | (x, cc, b) :: r => (x, cc, sub_s su b) :: go r
    end in
  match s with
  | Substitute re next =>
      Substitute (map (fun p => (sub_b su (fst p), sub_id su (snd p))) re) (sub_s su next)
  | Call l args => Call l (map (sub_b su) args)
  | Let v t tag args next => Let v t tag (map (sub_b su) args) (sub_s su next)
  | Switch v t cls => Switch (sub_id su v) t (sub_cls cls)
  | Create v t env cls next =>
      Create v t (option_map (map (sub_b su)) env) (sub_cls cls) (sub_s su next)
  | Invoke v tag t args => Invoke (sub_id su v) tag t (map (sub_b su) args)
  | Literal n v next => Literal n v (sub_s su next)
  | Op a o b v next => Op (sub_id su a) o (sub_id su b) v (sub_s su next)
  | PrintI64 nl v next => PrintI64 nl (sub_id su v) (sub_s su next)
  | IfC so a b t e => IfC so (sub_id su a) (option_map (sub_id su) b) (sub_s su t) (sub_s su e)
  | Exit v => Exit (sub_id su v)
  end.

(* ---------- TypingContext::filter_by_set ---------- *)
Section Fbs.
  Context {X : Type} (keep : X -> bool).
  (* drop trailing elements that are not kept *)
  Fixpoint strip (l : list X) : list X :=
    match l with
    | [] => []
    | x :: r => match strip r with
                | [] => if keep x then [x] else []
                | r' => x :: r'
                end
    end.
  Fixpoint unsnoc (l : list X) : option (list X * X) :=
    match l with
    | [] => None
    | x :: r => match unsnoc r with
                | Some (m, y) => Some (x :: m, y)
                | None => Some ([], x)
                end
    end.
  Fixpoint fbs (fuel : nat) (l : list X) : list X :=
    match fuel with
    | O => []
    | S f =>
        match l with
        | [] => []
        | x :: rest =>
            if keep x then x :: fbs f rest
            else match unsnoc (strip rest) with
                 | None => []                          (* nothing kept beyond: pop and stop *)
                 | Some (mid, y) => y :: fbs f mid     (* swap_remove: last kept fills the hole *)
                 end
        end
    end.
End Fbs.
Definition keep_in (s : list N) (b : binding) : bool := mem (idn (bvar b)) s.
Definition filter_by_set (c : ctx) (s : list N) : ctx := fbs (keep_in s) (List.length c) c.

(* ---------- TypingContext::freshen ---------- *)
Fixpoint freshen (c : ctx) (clashes : list N) (max_id : N) : ctx * N :=
  match c with
  | [] => ([], max_id)
  | b :: r =>
      if mem (idn (bvar b)) clashes
      then let b' := mkb (fst (bvar b), max_id + 1) (bchi b) (bty b) in
           let '(r', m') := freshen r clashes (max_id + 1) in (b' :: r', m')
      else let '(r', m') := freshen r (idn (bvar b) :: clashes) max_id in (b :: r', m')
  end.

(* ---------- size (fuel for lin) ---------- *)
Fixpoint stmt_size (s : stmt) : nat :=
  let sz := fix go (cls : list (ident * ctx * stmt)) : nat :=
    match cls with [] => O | (_, _, b) :: r => (stmt_size b + go r)%nat end in
  match s with
  | Substitute _ next => S (stmt_size next)
  | Call _ _ => 1%nat
  | Let _ _ _ _ next => S (stmt_size next)
  | Switch _ _ cls => S (sz cls)
  | Create _ _ _ cls next => S (sz cls + stmt_size next)
  | Invoke _ _ _ _ => 1%nat
  | Literal _ _ next => S (stmt_size next)
  | Op _ _ _ _ next => S (stmt_size next)
  | PrintI64 _ _ next => S (stmt_size next)
  | IfC _ _ _ t e => S (stmt_size t + stmt_size e)
  | Exit _ => 1%nat
  end.
Fixpoint has_subst (s : stmt) : bool :=
  let hs := fix go (cls : list (ident * ctx * stmt)) : bool :=
    match cls with [] => false | (_, _, b) :: r => has_subst b || go r end in
  match s with
  | Substitute _ _ => true
  | Call _ _ | Invoke _ _ _ _ | Exit _ => false
  | Let _ _ _ _ next | Literal _ _ next | Op _ _ _ _ next | PrintI64 _ _ next => has_subst next
  | Switch _ _ cls => hs cls
  | Create _ _ _ cls next => hs cls || has_subst next
  | IfC _ _ _ t e => has_subst t || has_subst e
  end.

(* the identity rearrangement of Literal/Op/PrintI64 *)
Definition self_re (c : ctx) : list (binding * ident) := combine c (vars c).
Definition out_of_fuel : stmt := Exit ("OUT_OF_FUEL", 0).

(* ---------- the nine Linearizing impls ---------- *)
(* the `.map(|clause| ...)` over the clauses of Switch / Create: bodies are linearized in order,
   threading max_id; `mk` builds the context of a body from the clause's own context *)
Fixpoint lin_cls (L : stmt -> ctx -> N -> stmt * N) (mk : ctx -> ctx)
                 (cs : list (ident * ctx * stmt)) (m : N) : list (ident * ctx * stmt) * N :=
  match cs with
  | [] => ([], m)
  | (x, cc, body) :: r =>
      let '(b', m') := L body (mk cc) m in
      let '(r', m'') := lin_cls L mk r m' in ((x, cc, b') :: r', m'')
  end.

Fixpoint lin (fuel : nat) (s : stmt) (context : ctx) (max_id : N) {struct fuel} : stmt * N :=
  match fuel with
  | O => (out_of_fuel, max_id)
  | S fuel' =>
  let lin := lin fuel' in
  match s with
  | Substitute _ _ => (s, max_id)   (* panic in Rust *)
  | Call l args =>
      if ctx_eqb context args then (Call l [], max_id)
      else let '(fr, m1) := freshen args [] max_id in
           (Substitute (combine fr (vars args)) (Call l []), m1)
  | Let v t tag args next =>
      let new_context := filter_by_set context (fv next) in
      let context_rearrange := new_context ++ args in
      let new_binding := mkb v Prd t in
      if ctx_eqb context context_rearrange then
        let '(n', m1) := lin next (new_context ++ [new_binding]) max_id in
        (Let v t tag args n', m1)
      else
        let '(args', m1) := freshen args (ids new_context) max_id in
        let '(n', m2) := lin next (new_context ++ [new_binding]) m1 in
        (Substitute (combine (new_context ++ args') (vars context_rearrange)) (Let v t tag args' n'), m2)
  | Switch v t cls =>
      let new_context := filter_by_set context (fv_clauses cls) in
      let context_rearrange := new_context ++ [mkb v Prd t] in
      let '(cls', m1) := lin_cls lin (fun cc => new_context ++ cc) cls max_id in
      if ctx_eqb context context_rearrange then (Switch v t cls', m1)
      else
        let '(v', m2) := if mem (idn v) (ids new_context) then ((fst v, m1 + 1), m1 + 1) else (v, m1) in
        (Substitute (combine (new_context ++ [mkb v' Prd t]) (vars context_rearrange)) (Switch v' t cls'), m2)
  | Create v t _ cls next =>
      let fvc := fv_clauses cls in
      let fvn := fv next in
      let context_next := filter_by_set context fvn in
      let k := List.length context_next in
      let context_reordered := skipn k context ++ firstn k context in
      let context_clauses := filter_by_set context_reordered fvc in
      let '(cls', m1) := lin_cls lin (fun cc => cc ++ context_clauses) cls max_id in
      let context_rearrange := context_next ++ context_clauses in
      let new_binding := mkb v Cns t in
      if ctx_eqb context context_rearrange then
        let '(n', m2) := lin next (context_next ++ [new_binding]) m1 in
        (Create v t (Some context_clauses) cls' n', m2)
      else
        let '(cnf, m2) := freshen context_next (ids context_clauses) m1 in
        let rearrange := combine (cnf ++ context_clauses) (vars context_rearrange) in
        let su := combine (ids context_next) (vars cnf) in
        let '(n', m3) := lin (sub_s su next) (cnf ++ [new_binding]) m2 in
        (Substitute rearrange (Create v t (Some context_clauses) cls' n'), m3)
  | Invoke v tag t args =>
      let closure_binding := mkb v Cns t in
      let context_rearrange := args ++ [closure_binding] in
      if ctx_eqb context context_rearrange then (Invoke v tag t [], max_id)
      else let '(fr, m1) := freshen args [idn v] max_id in
           (Substitute (combine (fr ++ [closure_binding]) (vars context_rearrange)) (Invoke v tag t []), m1)
  | Literal n v next =>
      let new_context := filter_by_set context (fv next) in
      let '(n', m1) := lin next (new_context ++ [mkb v Ext I64]) max_id in
      if ctx_eqb context new_context then (Literal n v n', m1)
      else (Substitute (self_re new_context) (Literal n v n'), m1)
  | Op a o b v next =>
      let new_context := filter_by_set context (add (idn b) (add (idn a) (fv next))) in
      let '(n', m1) := lin next (new_context ++ [mkb v Ext I64]) max_id in
      if ctx_eqb context new_context then (Op a o b v n', m1)
      else (Substitute (self_re new_context) (Op a o b v n'), m1)
  | PrintI64 nl v next =>
      let new_context := filter_by_set context (add (idn v) (fv next)) in
      let '(n', m1) := lin next new_context max_id in
      if ctx_eqb context new_context then (PrintI64 nl v n', m1)
      else (Substitute (self_re new_context) (PrintI64 nl v n'), m1)
  | IfC so a b t e =>
      let '(t', m1) := lin t context max_id in
      let '(e', m2) := lin e context m1 in
      (IfC so a b t' e', m2)
  | Exit v => (s, max_id)
  end end.

(* ---------- Def::linearize, Prog::linearize ---------- *)
Definition lin_def (d : def) (max_id : N) : def * N :=
  let '(b, m) := lin (stmt_size (dbody d)) (dbody d) (dctx d) max_id in
  (mkd (dname d) (dctx d) b, m).

Fixpoint lin_defs (ds : list def) (max_id : N) : list def * N :=
  match ds with
  | [] => ([], max_id)
  | d :: r => let '(d', m) := lin_def d max_id in
              let '(r', m') := lin_defs r m in (d' :: r', m')
  end.

Definition linearize (p : prog) : prog :=
  let '(ds, m) := lin_defs (pdefs p) (pmax p) in mkp ds (ptypes p) m.

Definition prog_has_subst (p : prog) : bool := existsb (fun d => has_subst (dbody d)) (pdefs p).
