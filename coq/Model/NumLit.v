(* C18: the semantic action of the grammar's only value-computing terminal,

     Num: i64 = { <s: r"0|[1-9][0-9]*"> =>? i64::from_str(s).map_err(|_| ParseError::User { error: "integer literal out of range" }) }

   (fun.lalrpop, after the repair 57bde9f; before it the action was `i64::from_str(s).unwrap()`, a panic).
   In the parser model the conversion is split over the lexer ([scan]: TNum (n_of_string digits)) and the
   parser ([p_term1]: `if lit_ok k`).  [num_of_digits] is the composition, [dec_value] the textbook value of a
   digit string it is specified against (Proof/Total.v).  No proofs here. *)
From Coq Require Import List ZArith NArith String Ascii Bool.
From SCC Require Import Base.Sexp Lang.SynUtil Lang.FunSyn Model.Printer Model.Parser.
Import ListNotations.
Open Scope string_scope.

Definition digit_val (c : ascii) : N := (N.of_nat (nat_of_ascii c) - 48)%N.
Fixpoint dec_value_acc (acc : N) (s : string) : N :=
  match s with
  | EmptyString => acc
  | String c r => dec_value_acc (10 * acc + digit_val c)%N r
  end.
(* the decimal value of a digit string, most significant digit first *)
Definition dec_value (s : string) : N := dec_value_acc 0%N s.

Fixpoint all_digits (s : string) : bool :=
  match s with
  | EmptyString => true
  | String c r => is_digit c && all_digits r
  end.
(* the terminal r"0|[1-9][0-9]*" *)
Definition num_terminal (s : string) : bool :=
  match s with
  | EmptyString => false
  | String c r => if Ascii.eqb c "0" then match r with EmptyString => true | _ => false end else is_digit c && all_digits r
  end.

Inductive num_result :=
| NumOk (z : Z)        (* Ok(n): the literal's value *)
| NumRange.            (* Err(ParseError::User { "integer literal out of range" }), reported as P-005 *)

Definition num_of_digits (s : string) : num_result :=
  match n_of_string s with
  | Some k => if lit_ok k then NumOk (Z.of_N k) else NumRange
  | None => NumRange
  end.
