(* Property C19, code generation: the precondition of the proved instruction bound and the cost
   constants of the concrete back ends; shared by Proof/SizeCodegenWf.v, Proof/SizeX86.v and the
   modelrun command `sizes`.  Not a model of Rust code.

   sub_wf c s: along the contexts that Backend.code_statement builds (here: lists of ids), every
   Substitute has pairwise distinct ids in its old and in its new context.  Implied by the linear
   discipline lin_check (Model/LinCheck.v), hence true of linearize's output for checked programs
   (C05_linearize_exact).  Without it the parallel-move algorithm may unfold a DAG. *)
From Coq Require Import List ZArith NArith String Bool.
From SCC Require Import Base.Sexp Lang.AxSyn Lang.AxSize Model.Linearize Model.LinCheck Model.Backend Model.X86.
From SCC Require Model.A64 Model.RV.
Import ListNotations.
Open Scope list_scope.

Definition new_ids_of (re : list (binding * ident)) : list N := map (fun p => idn (bvar (fst p))) re.

Fixpoint sub_wf (c : list N) (s : stmt) : bool :=
  match s with
  | Substitute re next => nodupb c && nodupb (new_ids_of re) && sub_wf (new_ids_of re) next
  | Call _ _ | Invoke _ _ _ _ | Exit _ => true
  | Let v _ _ args next => sub_wf (firstn (List.length c - List.length args) c ++ [idn v]) next
  | Switch _ _ cls =>
      (fix go (l : list (ident * ctx * stmt)) : bool :=
         match l with [] => true | (_, cx, b) :: r => sub_wf (removelast c ++ ids cx) b && go r end) cls
  | Create v _ env cls next =>
      match env with
      | None => true
      | Some env =>
          let n := List.length env in
          (fix go (l : list (ident * ctx * stmt)) : bool :=
             match l with [] => true | (_, cx, b) :: r => sub_wf (ids cx ++ skipn (List.length c - n) c) b && go r end) cls
          && sub_wf (firstn (List.length c - n) c ++ [idn v]) next
      end
  | Literal _ v next | Op _ _ _ v next => sub_wf (c ++ [idn v]) next
  | PrintI64 _ _ next => sub_wf c next
  | IfC _ _ _ t e => sub_wf c t && sub_wf c e
  end.
Fixpoint sub_wf_sw (c : list N) (l : list (ident * ctx * stmt)) : bool :=
  match l with [] => true | (_, cx, b) :: r => sub_wf (removelast c ++ ids cx) b && sub_wf_sw c r end.
Fixpoint sub_wf_cr (ce : list N) (l : list (ident * ctx * stmt)) : bool :=
  match l with [] => true | (_, cx, b) :: r => sub_wf (ids cx ++ ce) b && sub_wf_cr ce r end.
Definition sub_wf_defs (ds : list def) : bool := forallb (fun d => sub_wf (ids (dctx d)) (dbody d)) ds.
Definition sub_wf_prog (p : prog) : bool := sub_wf_defs (pdefs p).

(* the unit cost of the x86-64 back end (Proof/SizeX86.v): every back-end method emits at most
   x86_K * its argument measure; the dominating term is acquire_block (erase_fields over a block) *)
Open Scope N_scope.
Definition x86_K : N := 40 + 13 * FIELDS_PER_BLOCK.
(* preamble 6 + setup 10 + at most 5 argument moves + cleanup 9 *)
Definition x86_routine_overhead : N := 30.
Definition x86_bound (p : prog) : N := x86_routine_overhead + x86_K * cg_bound_defs (pdefs p).

(* AArch64 (Proof/SizeA64.v): preamble 3 + setup 9 + at most 7 argument moves + cleanup 9 *)
Definition a64_K : N := 40 + 15 * A64.FIELDS_PER_BLOCK.
Definition a64_routine_overhead : N := 28.
Definition a64_bound (p : prog) : N := a64_routine_overhead + a64_K * cg_bound_defs (pdefs p).
(* RISC-V (Proof/SizeRV.v): the instruction list of `compile` (no routine wrapper in the list) *)
Definition rv_K : N := 20 + 13 * RV.FIELDS_PER_BLOCK.
Definition rv_bound (p : prog) : N := rv_K * cg_bound_defs (pdefs p).
