(* Reader/printer between RISC-V `Code` values (Rust Debug shape) and Model/RV.rcode.
   Debug shape of the crate's types: `Register(5)` -> (Register 5); an Immediate is a bare i64;
   labels are quoted strings; `ADD(Register(5), Register(7), Register(9))` -> (ADD (Register 5) ..). *)
From Coq Require Import List ZArith NArith String Bool.
From SCC Require Import Base.Sexp Model.RV Sem.HeapLock.
Import ListNotations.
Open Scope string_scope.

Inductive operand := OReg (r : N) | OImm (z : Z) | OLbl (s : string).

Definition g_operand (x : sexp) : option operand :=
  match x with
  | L [A "Register"; n] => do n <- getN n; Some (OReg n)
  | A s => do z <- z_of_string s; Some (OImm z)
  | Q s => Some (OLbl s)
  | _ => None
  end.
Definition s_operand (o : operand) : sexp :=
  match o with
  | OReg n => L [A "Register"; sN n]
  | OImm z => sZ z
  | OLbl s => Q s
  end.

Definition to_gen (c : rcode) : string * list operand :=
  match c with
  | ADD x y z => ("ADD", [OReg x; OReg y; OReg z]) | ADDI x y c => ("ADDI", [OReg x; OReg y; OImm c])
  | SUB x y z => ("SUB", [OReg x; OReg y; OReg z]) | MUL x y z => ("MUL", [OReg x; OReg y; OReg z])
  | DIV x y z => ("DIV", [OReg x; OReg y; OReg z]) | REM x y z => ("REM", [OReg x; OReg y; OReg z])
  | JAL x l => ("JAL", [OReg x; OLbl l]) | JALR x y c => ("JALR", [OReg x; OReg y; OImm c])
  | LA x l => ("LA", [OReg x; OLbl l]) | LI x c => ("LI", [OReg x; OImm c]) | MV x y => ("MV", [OReg x; OReg y])
  | LW x y c => ("LW", [OReg x; OReg y; OImm c]) | SW x y c => ("SW", [OReg x; OReg y; OImm c])
  | BEQ x y l => ("BEQ", [OReg x; OReg y; OLbl l]) | BNE x y l => ("BNE", [OReg x; OReg y; OLbl l])
  | BLT x y l => ("BLT", [OReg x; OReg y; OLbl l]) | BLE x y l => ("BLE", [OReg x; OReg y; OLbl l])
  | BGT x y l => ("BGT", [OReg x; OReg y; OLbl l]) | BGE x y l => ("BGE", [OReg x; OReg y; OLbl l])
  | LAB l => ("LAB", [OLbl l])
  end.

Definition of_gen (name : string) (ops : list operand) : option rcode :=
  match name, ops with
  | "ADD", [OReg x; OReg y; OReg z] => Some (ADD x y z) | "ADDI", [OReg x; OReg y; OImm c] => Some (ADDI x y c)
  | "SUB", [OReg x; OReg y; OReg z] => Some (SUB x y z) | "MUL", [OReg x; OReg y; OReg z] => Some (MUL x y z)
  | "DIV", [OReg x; OReg y; OReg z] => Some (DIV x y z) | "REM", [OReg x; OReg y; OReg z] => Some (REM x y z)
  | "JAL", [OReg x; OLbl l] => Some (JAL x l) | "JALR", [OReg x; OReg y; OImm c] => Some (JALR x y c)
  | "LA", [OReg x; OLbl l] => Some (LA x l) | "LI", [OReg x; OImm c] => Some (LI x c)
  | "MV", [OReg x; OReg y] => Some (MV x y)
  | "LW", [OReg x; OReg y; OImm c] => Some (LW x y c) | "SW", [OReg x; OReg y; OImm c] => Some (SW x y c)
  | "BEQ", [OReg x; OReg y; OLbl l] => Some (BEQ x y l) | "BNE", [OReg x; OReg y; OLbl l] => Some (BNE x y l)
  | "BLT", [OReg x; OReg y; OLbl l] => Some (BLT x y l) | "BLE", [OReg x; OReg y; OLbl l] => Some (BLE x y l)
  | "BGT", [OReg x; OReg y; OLbl l] => Some (BGT x y l) | "BGE", [OReg x; OReg y; OLbl l] => Some (BGE x y l)
  | "LAB", [OLbl l] => Some (LAB l)
  | _, _ => None
  end.

Definition s_rcode (c : rcode) : sexp :=
  let '(n, ops) := to_gen c in
  match ops with [] => A n | _ => L (A n :: map s_operand ops) end.

(* comments are kept by the reader (the text rendering needs them) *)
Definition g_ritem (x : sexp) : option ritem :=
  match x with
  | L [A "COMMENT"; Q msg] => Some (RC msg)
  | A n => do c <- of_gen n []; Some (RI c)
  | L (A n :: ops) => do ops <- omap g_operand ops; do c <- of_gen n ops; Some (RI c)
  | _ => None
  end.
Definition g_ritems (x : sexp) : option (list ritem) :=
  match x with L l => omap g_ritem l | _ => None end.
Fixpoint codes_of (l : list ritem) : list rcode :=
  match l with [] => [] | RI c :: r => c :: codes_of r | RC _ :: r => codes_of r end.

(* the implementation's own statement markers (Sem/HeapLock.is_statement_comment) kept as the
   pseudo-labels "#s<comment>"; every other comment is dropped; used by heap-rv / c10-rv *)
Fixpoint codes_of_s (l : list ritem) : list rcode :=
  match l with
  | [] => []
  | RI c :: r => c :: codes_of_s r
  | RC msg :: r => if is_statement_comment msg then LAB ("#s" ++ msg) :: codes_of_s r else codes_of_s r
  end.
