(* Functional model of lang/axcut2backend (generic code generator): statements/*.rs, substitution.rs,
   utils.rs, coder.rs, parameterised by a record of the five back-end traits.  Comments are not
   modelled (the correspondence compares modulo COMMENT instructions).  The process-global label
   counter of fresh_labels.rs is threaded explicitly (lc = current value of COUNTER). *)
From Coq Require Import List ZArith NArith String Ascii Bool.
From SCC Require Import Base.Sexp Lang.AxSyn Model.ParMoves.
Import ListNotations.
Open Scope string_scope.
Open Scope list_scope.
Notation "a +++ b" := (String.append a b) (right associativity, at level 60).

Inductive res (X : Type) := Ok (x : X) | Err (msg : string).
Arguments Ok {X} x.
Arguments Err {X} msg.
Definition rbind {X Y} (r : res X) (f : X -> res Y) : res Y :=
  match r with Ok x => f x | Err m => Err m end.
Notation "'dor' x <- e ; k" := (rbind e (fun x => k)) (at level 200, x pattern, e at level 100, k at level 200).

Inductive tnum := Fst | Snd.
Definition tnum_n (t : tnum) : N := match t with Fst => 0 | Snd => 1 end.

(* the five traits: Config, Utils, Instructions, Memory, ParallelMoves *)
Set Implicit Arguments.
Record backend (Code Temp : Type) := {
  b_label : string -> Code;
  b_mark : ctx -> list Code;      (* statement-boundary marker (empty for the real back ends) *)
  b_jump : Temp -> list Code;
  b_jump_label : string -> list Code;
  b_jump_label_fixed : string -> list Code;
  b_jcc2 : ifsort -> Temp -> Temp -> string -> list Code;
  b_jcc1 : ifsort -> Temp -> string -> list Code;
  b_load_immediate : Temp -> Z -> list Code;
  b_load_label : Temp -> string -> list Code;
  b_add_and_jump : Temp -> Z -> list Code;
  b_arith : binop -> Temp -> Temp -> Temp -> list Code;
  b_mov : Temp -> Temp -> list Code;
  b_print : bool -> Temp -> ctx -> list Code;
  b_erase : Temp -> N -> list Code * N;
  b_share_n : Temp -> N -> N -> list Code * N;
  b_store : ctx -> ctx -> N -> res (list Code * N);
  b_load : ctx -> ctx -> N -> res (list Code * N);
  b_contains_spill_edge : root Temp -> bool;
  b_store_temporary : Temp -> bool -> list Code;
  b_restore_temporary : Temp -> bool -> list Code;
  b_temp : Temp;
  b_return1 : Temp;
  b_jump_length : N -> Z;
  b_temporary_from_position : N -> res Temp;
  b_tcompare : Temp -> Temp -> comparison;
}.
Unset Implicit Arguments.

(* ---------- orders used by the BTreeMaps ---------- *)
Definition ident_compare (a b : ident) : comparison :=
  match String.compare (fst a) (fst b) with Datatypes.Eq => N.compare (snd a) (snd b) | c => c end.
Definition chi_rank (c : chi) : N := match c with Prd => 0 | Cns => 1 | Ext => 2 end.
Definition ty_compare (a b : ty) : comparison :=
  match a, b with
  | I64, I64 => Datatypes.Eq
  | I64, Decl _ => Datatypes.Lt
  | Decl _, I64 => Datatypes.Gt
  | Decl x, Decl y => ident_compare x y
  end.
Definition binding_compare (a b : binding) : comparison :=
  match ident_compare (bvar a) (bvar b) with
  | Datatypes.Eq =>
      match N.compare (chi_rank (bchi a)) (chi_rank (bchi b)) with
      | Datatypes.Eq => ty_compare (bty a) (bty b)
      | c => c
      end
  | c => c
  end.

(* BTreeMap::insert on an association list kept in key order (a later insert of an equal key
   replaces the value) *)
Fixpoint map_insert {K V} (cmp : K -> K -> comparison) (k : K) (v : V) (m : list (K * V)) : list (K * V) :=
  match m with
  | [] => [(k, v)]
  | (k', v') :: r =>
      match cmp k k' with
      | Datatypes.Lt => (k, v) :: m
      | Datatypes.Eq => (k, v) :: r
      | Datatypes.Gt => (k', v') :: map_insert cmp k v r
      end
  end.
(* BTreeSet from an iterator *)
Fixpoint set_insert {K} (cmp : K -> K -> comparison) (k : K) (s : list K) : list K :=
  match s with
  | [] => [k]
  | k' :: r =>
      match cmp k k' with
      | Datatypes.Lt => k :: s
      | Datatypes.Eq => s
      | Datatypes.Gt => k' :: set_insert cmp k r
      end
  end.
Definition set_of_list {K} (cmp : K -> K -> comparison) (l : list K) : list K :=
  fold_left (fun s k => set_insert cmp k s) l [].

(* ---------- small string functions ---------- *)
(* ty.print_to_string(None).replace('[', "_").replace(", ", "_").replace(']', "") *)
Fixpoint label_of_type_name (s : string) : string :=
  match s with
  | EmptyString => ""
  | String c r =>
      match c with
      | "["%char => String "_"%char (label_of_type_name r)
      | "]"%char => label_of_type_name r
      | ","%char =>
          match r with
          | String " "%char r' => String "_"%char (label_of_type_name r')
          | _ => String c (label_of_type_name r)
          end
      | _ => String c (label_of_type_name r)
      end
  end.

Section Gen.
Context {Code Temp : Type} (B : backend Code Temp).

Fixpoint position_of (c : ctx) (id : N) (i : N) : option N :=
  match c with
  | [] => None
  | b :: r => if N.eqb (idn (bvar b)) id then Some i else position_of r id (i + 1)
  end.

Definition variable_temporary (n : tnum) (c : ctx) (id : N) : res Temp :=
  match position_of c id 0 with
  | None => Err "variable not found in context"
  | Some p => b_temporary_from_position B (2 * p + tnum_n n)
  end.
Definition fresh_temporary (n : tnum) (c : ctx) : res Temp :=
  b_temporary_from_position B (2 * N.of_nat (List.length c) + tnum_n n).

Fixpoint rmap {X Y} (f : X -> res Y) (l : list X) : res (list Y) :=
  match l with
  | [] => Ok []
  | x :: r => dor y <- f x; dor ys <- rmap f r; Ok (y :: ys)
  end.

(* substitution.rs *)
Definition transpose (re : list (binding * ident)) (context : ctx) : list (binding * list N) :=
  fold_left (fun m b =>
    map_insert binding_compare b
      (map (fun p => idn (bvar (fst p))) (filter (fun p => N.eqb (idn (bvar b)) (idn (snd p))) re)) m)
    context [].

Definition update_reference_count (v : ident) (context : ctx) (new_count : nat) (lc : N) : res (list Code * N) :=
  dor t <- variable_temporary Fst context (idn v);
  match new_count with
  | O => Ok (b_erase B t lc)
  | S O => Ok ([], lc)
  | S (S n) => Ok (b_share_n B t (N.of_nat (S n)) lc)
  end.

Fixpoint code_weakening_contraction (tm : list (binding * list N)) (context : ctx) (lc : N) : res (list Code * N) :=
  match tm with
  | [] => Ok ([], lc)
  | (b, targets) :: r =>
      match bchi b with
      | Ext => code_weakening_contraction r context lc
      | _ =>
          dor cl <- update_reference_count (bvar b) context (List.length targets) lc;
          let '(c1, lc1) := cl in
          dor cl2 <- code_weakening_contraction r context lc1;
          let '(c2, lc2) := cl2 in
          Ok (c1 ++ c2, lc2)
      end
  end.

Definition connections (tm : list (binding * list N)) (context new_context : ctx) : res (list (Temp * list Temp)) :=
  let ins (n : tnum) (b : binding) (targets : list N) (m : list (Temp * list Temp)) :=
    dor k <- variable_temporary n context (idn (bvar b));
    dor ts <- rmap (fun t => variable_temporary n new_context t) targets;
    Ok (map_insert (b_tcompare B) k (set_of_list (b_tcompare B) ts) m) in
  fold_left (fun rm bt =>
    dor m <- rm;
    let '(b, targets) := bt in
    match bchi b with
    | Ext => ins Snd b targets m
    | _ => dor m1 <- ins Fst b targets m; ins Snd b targets m1
    end) tm (Ok []).

Definition emit_pinstr (flag : bool) (i : pinstr Temp) : list Code :=
  match i with
  | Mov _ d s => b_mov B d s
  | Save _ t => b_store_temporary B t flag
  | Restore _ t => b_restore_temporary B t flag
  end.
Definition emit_root (r : root Temp) : list Code :=
  flat_map (emit_pinstr (b_contains_spill_edge B r)) (root_moves Temp r).

Definition teqb (a b : Temp) : bool := match b_tcompare B a b with Datatypes.Eq => true | _ => false end.

Definition parallel_moves_code (am : amap Temp) : res (list Code) :=
  match spanning_forest Temp teqb (List.length (all_targets Temp am) + 2) am with
  | None => Err "parallel moves: out of fuel"
  | Some forest => Ok (flat_map emit_root forest)
  end.

Definition code_exchange (tm : list (binding * list N)) (context new_context : ctx) : res (list Code) :=
  dor am <- connections tm context new_context;
  parallel_moves_code am.

Definition lookup_type (types : list tydecl) (t : ty) : res tydecl :=
  match t with
  | I64 => Err "User-defined type cannot be i64"
  | Decl n =>
      match find (fun d => ident_eqb (tname d) n) types with
      | Some d => Ok d
      | None => Err "Type not found"
      end
  end.
Fixpoint xtor_position (xs : list xtorsig) (tag : ident) (i : N) : res N :=
  match xs with
  | [] => Err "Xtor not found in type declaration"
  | x :: r => if ident_eqb (xname x) tag then Ok i else xtor_position r tag (i + 1)
  end.

Definition split_last (n : nat) (c : ctx) : res (ctx * ctx) :=
  if Nat.leb n (List.length c)
  then Ok (firstn (List.length c - n) c, skipn (List.length c - n) c)
  else Err "split_off: underflow".

Definition type_label (t : ty) (lc : N) : string :=
  label_of_type_name (show_ty t) +++ "_" +++ n_to_string lc.

Definition code_table (cls : list clause) (base : string) : list Code :=
  flat_map (fun c => b_jump_label_fixed B (base +++ "_" +++ show_ident (cl_xtor c))) cls.

Fixpoint code_statement (types : list tydecl) (s : stmt) (context : ctx) (lc : N) {struct s} : res (list Code * N) :=
  dor body <-
  match s with
  | Substitute re next =>
      let tm := transpose re context in
      let new_context := map fst re in
      dor wc <- code_weakening_contraction tm context lc;
      let '(c1, lc1) := wc in
      dor c2 <- code_exchange tm context new_context;
      dor nx <- code_statement types next new_context lc1;
      let '(c3, lc3) := nx in
      Ok (c1 ++ c2 ++ c3, lc3)
  | Call l _ => Ok (b_jump_label B (show_ident l +++ "_"), lc)
  | Let v t tag args next =>
      dor d <- lookup_type types t;
      dor tag_position <- xtor_position (txtors d) tag 0;
      dor sp <- split_last (List.length args) context;
      let '(rest, arguments) := sp in
      dor st <- b_store B arguments rest lc;
      let '(c1, lc1) := st in
      let context' := rest ++ [mkb v Prd t] in
      dor tmpv <- variable_temporary Snd context' (idn v);
      let c2 := b_load_immediate B tmpv (b_jump_length B tag_position) in
      dor nx <- code_statement types next context' lc1;
      let '(c3, lc3) := nx in
      Ok (c1 ++ c2 ++ c3, lc3)
  | Switch v t cls =>
      let lc1 := (lc + 1)%N in
      let fresh := type_label t lc1 in
      let n := List.length cls in
      dor c1 <-
        (if Nat.leb n 1 then Ok []
         else dor tmpv <- variable_temporary Snd context (idn v);
              Ok (b_load_label B (b_temp B) fresh ++ b_arith B Sum (b_temp B) (b_temp B) tmpv ++ b_jump B (b_temp B)));
      let c2 := [b_label B fresh] ++ (if Nat.leb n 1 then [] else code_table cls fresh) in
      let context' := removelast context in
      dor cc <-
        (fix go (l : list clause) (lc : N) : res (list Code * N) :=
           match l with
           | [] => Ok ([], lc)
           | (x, cx, body) :: r =>
               dor ld <- b_load B cx context' lc;
               let '(cl, lc1) := ld in
               dor bd <- code_statement types body (context' ++ cx) lc1;
               let '(cb, lc2) := bd in
               dor rs <- go r lc2;
               let '(cr, lc3) := rs in
               Ok ([b_label B (fresh +++ "_" +++ show_ident x)] ++ cl ++ cb ++ cr, lc3)
           end) cls lc1;
      let '(c3, lc3) := cc in
      Ok (c1 ++ c2 ++ c3, lc3)
  | Create v t env cls next =>
      match env with
      | None => Err "Closure environment must be annotated"
      | Some env =>
          dor sp <- split_last (List.length env) context;
          let '(rest, closure_environment) := sp in
          dor st <- b_store B closure_environment rest lc;
          let '(c1, lc1) := st in
          let lc2 := (lc1 + 1)%N in
          let fresh := type_label t lc2 in
          let context' := rest ++ [mkb v Cns t] in
          dor tmpv <- variable_temporary Snd context' (idn v);
          let c2 := b_load_label B tmpv fresh in
          dor nx <- code_statement types next context' lc2;
          let '(c3, lc3) := nx in
          let n := List.length cls in
          let c4 := [b_label B fresh] ++ (if Nat.leb n 1 then [] else code_table cls fresh) in
          dor cc <-
            (fix go (l : list clause) (lc : N) : res (list Code * N) :=
               match l with
               | [] => Ok ([], lc)
               | (x, cx, body) :: r =>
                   dor ld <- b_load B closure_environment cx lc;
                   let '(cl, lc1) := ld in
                   dor bd <- code_statement types body (cx ++ closure_environment) lc1;
                   let '(cb, lc2) := bd in
                   dor rs <- go r lc2;
                   let '(cr, lc3) := rs in
                   Ok ([b_label B (fresh +++ "_" +++ show_ident x)] ++ cl ++ cb ++ cr, lc3)
               end) cls lc3;
          let '(c5, lc5) := cc in
          Ok (c1 ++ c2 ++ c3 ++ c4 ++ c5, lc5)
      end
  | Invoke v tag t _ =>
      dor tmpv <- variable_temporary Snd context (idn v);
      dor d <- lookup_type types t;
      if Nat.leb (List.length (txtors d)) 1 then Ok (b_jump B tmpv, lc)
      else dor tag_position <- xtor_position (txtors d) tag 0;
           Ok (b_add_and_jump B tmpv (b_jump_length B tag_position), lc)
  | Literal n v next =>
      let context' := context ++ [mkb v Ext I64] in
      dor tmpv <- variable_temporary Snd context' (idn v);
      dor nx <- code_statement types next context' lc;
      let '(c2, lc2) := nx in
      Ok (b_load_immediate B tmpv n ++ c2, lc2)
  | Op a o b v next =>
      let context' := context ++ [mkb v Ext I64] in
      dor tmpv <- variable_temporary Snd context' (idn v);
      dor ta <- variable_temporary Snd context' (idn a);
      dor tb <- variable_temporary Snd context' (idn b);
      dor nx <- code_statement types next context' lc;
      let '(c2, lc2) := nx in
      Ok (b_arith B o tmpv ta tb ++ c2, lc2)
  | PrintI64 nl v next =>
      dor tv <- variable_temporary Snd context (idn v);
      dor nx <- code_statement types next context lc;
      let '(c2, lc2) := nx in
      Ok (b_print B nl tv context ++ c2, lc2)
  | IfC so a b thenc elsec =>
      let lc1 := (lc + 1)%N in
      let fresh := "lab" +++ n_to_string lc1 in
      dor ta <- variable_temporary Snd context (idn a);
      dor c1 <-
        match b with
        | None => Ok (b_jcc1 B so ta fresh)
        | Some b => dor tb <- variable_temporary Snd context (idn b); Ok (b_jcc2 B so ta tb fresh)
        end;
      dor el <- code_statement types elsec context lc1;
      let '(c2, lc2) := el in
      dor th <- code_statement types thenc context lc2;
      let '(c3, lc3) := th in
      Ok (c1 ++ c2 ++ [b_label B fresh] ++ c3, lc3)
  | Exit v =>
      dor tv <- variable_temporary Snd context (idn v);
      Ok (b_mov B (b_return1 B) tv ++ b_jump_label B "cleanup", lc)
  end;
  Ok (b_mark B context ++ fst body, snd body).

(* coder.rs: translate + assemble + number_of_arguments *)
Fixpoint translate (types : list tydecl) (defs : list def) (lc : N) : res (list Code * N) :=
  match defs with
  | [] => Ok ([], lc)
  | d :: r =>
      dor cd <- code_statement types (dbody d) (dctx d) lc;
      let '(c1, lc1) := cd in
      dor cr <- translate types r lc1;
      let '(c2, lc2) := cr in
      Ok ([b_label B (show_ident (dname d) +++ "_")] ++ c1 ++ c2, lc2)
  end.

Definition compile (p : prog) (lc : N) : res (list Code * nat * N) :=
  match pdefs p with
  | [] => Err "index out of bounds: no definitions"
  | d0 :: _ =>
      dor c <- translate (ptypes p) (pdefs p) lc;
      Ok (fst c, List.length (dctx d0), snd c)
  end.
End Gen.
