(* Reader/printer between AArch64 `Code` values (Rust Debug shape) and Model/A64.acode.
   Debug shape: `ADD(X(4), SP, XZR)` -> (ADD (X 4) SP XZR); `Immediate { val: 5 }` -> (Immediate 5);
   strings are quoted atoms; unit variants (RET, TEXT) are bare atoms. *)
From Coq Require Import List ZArith NArith String Bool.
From SCC Require Import Base.Sexp Model.A64 Sem.HeapLock.
Import ListNotations.
Open Scope string_scope.

Inductive operand := OReg (r : areg) | OImm (z : Z) | OLbl (s : string).

Definition g_operand (x : sexp) : option operand :=
  match x with
  | L [A "X"; n] => do n <- getN n; Some (OReg (X n))
  | A "SP" => Some (OReg SP)
  | A "XZR" => Some (OReg XZR)
  | L [A "Immediate"; z] => do z <- getZ z; Some (OImm z)
  | Q s => Some (OLbl s)
  | _ => None
  end.
Definition s_operand (o : operand) : sexp :=
  match o with
  | OReg (X n) => L [A "X"; sN n]
  | OReg SP => A "SP"
  | OReg XZR => A "XZR"
  | OImm z => L [A "Immediate"; sZ z]
  | OLbl s => Q s
  end.

Definition to_gen (c : acode) : string * list operand :=
  match c with
  | ADD d a b => ("ADD", [OReg d; OReg a; OReg b]) | ADDI d a i => ("ADDI", [OReg d; OReg a; OImm i])
  | SUB d a b => ("SUB", [OReg d; OReg a; OReg b]) | SUBI d a i => ("SUBI", [OReg d; OReg a; OImm i])
  | MUL d a b => ("MUL", [OReg d; OReg a; OReg b]) | SDIV d a b => ("SDIV", [OReg d; OReg a; OReg b])
  | MSUB d a b c => ("MSUB", [OReg d; OReg a; OReg b; OReg c])
  | B l => ("B", [OLbl l]) | BR r => ("BR", [OReg r]) | BL l => ("BL", [OLbl l])
  | ADR r l => ("ADR", [OReg r; OLbl l])
  | MOVR d s => ("MOVR", [OReg d; OReg s])
  | MOVZ d i s => ("MOVZ", [OReg d; OImm i; OImm s]) | MOVN d i s => ("MOVN", [OReg d; OImm i; OImm s])
  | MOVK d i s => ("MOVK", [OReg d; OImm i; OImm s])
  | LDR d b i => ("LDR", [OReg d; OReg b; OImm i])
  | LDP_POST_INDEX d1 d2 b i => ("LDP_POST_INDEX", [OReg d1; OReg d2; OReg b; OImm i])
  | STR s b i => ("STR", [OReg s; OReg b; OImm i])
  | STP_PRE_INDEX s1 s2 b i => ("STP_PRE_INDEX", [OReg s1; OReg s2; OReg b; OImm i])
  | CMPR a b => ("CMPR", [OReg a; OReg b]) | CMPI a i => ("CMPI", [OReg a; OImm i])
  | BEQ l => ("BEQ", [OLbl l]) | BNE l => ("BNE", [OLbl l]) | BLT l => ("BLT", [OLbl l])
  | BLE l => ("BLE", [OLbl l]) | BGT l => ("BGT", [OLbl l]) | BGE l => ("BGE", [OLbl l])
  | RET => ("RET", []) | LAB l => ("LAB", [OLbl l]) | TEXT => ("TEXT", []) | GLOBAL l => ("GLOBAL", [OLbl l])
  end.

Definition of_gen (name : string) (ops : list operand) : option acode :=
  match name, ops with
  | "ADD", [OReg d; OReg a; OReg b] => Some (ADD d a b) | "ADDI", [OReg d; OReg a; OImm i] => Some (ADDI d a i)
  | "SUB", [OReg d; OReg a; OReg b] => Some (SUB d a b) | "SUBI", [OReg d; OReg a; OImm i] => Some (SUBI d a i)
  | "MUL", [OReg d; OReg a; OReg b] => Some (MUL d a b) | "SDIV", [OReg d; OReg a; OReg b] => Some (SDIV d a b)
  | "MSUB", [OReg d; OReg a; OReg b; OReg c] => Some (MSUB d a b c)
  | "B", [OLbl l] => Some (B l) | "BR", [OReg r] => Some (BR r) | "BL", [OLbl l] => Some (BL l)
  | "ADR", [OReg r; OLbl l] => Some (ADR r l)
  | "MOVR", [OReg d; OReg s] => Some (MOVR d s)
  | "MOVZ", [OReg d; OImm i; OImm s] => Some (MOVZ d i s) | "MOVN", [OReg d; OImm i; OImm s] => Some (MOVN d i s)
  | "MOVK", [OReg d; OImm i; OImm s] => Some (MOVK d i s)
  | "LDR", [OReg d; OReg b; OImm i] => Some (LDR d b i)
  | "LDP_POST_INDEX", [OReg d1; OReg d2; OReg b; OImm i] => Some (LDP_POST_INDEX d1 d2 b i)
  | "STR", [OReg s; OReg b; OImm i] => Some (STR s b i)
  | "STP_PRE_INDEX", [OReg s1; OReg s2; OReg b; OImm i] => Some (STP_PRE_INDEX s1 s2 b i)
  | "CMPR", [OReg a; OReg b] => Some (CMPR a b) | "CMPI", [OReg a; OImm i] => Some (CMPI a i)
  | "BEQ", [OLbl l] => Some (BEQ l) | "BNE", [OLbl l] => Some (BNE l) | "BLT", [OLbl l] => Some (BLT l)
  | "BLE", [OLbl l] => Some (BLE l) | "BGT", [OLbl l] => Some (BGT l) | "BGE", [OLbl l] => Some (BGE l)
  | "RET", [] => Some RET | "LAB", [OLbl l] => Some (LAB l) | "TEXT", [] => Some TEXT
  | "GLOBAL", [OLbl l] => Some (GLOBAL l)
  | _, _ => None
  end.

Definition s_acode (c : acode) : sexp :=
  let '(n, ops) := to_gen c in
  match ops with [] => A n | _ => L (A n :: map s_operand ops) end.

(* None = unreadable; Some None = a COMMENT (dropped) *)
Definition g_acode (x : sexp) : option (option acode) :=
  match x with
  | L [A "COMMENT"; _] => Some None
  | A n => do c <- of_gen n []; Some (Some c)
  | L (A n :: ops) => do ops <- omap g_operand ops; do c <- of_gen n ops; Some (Some c)
  | _ => None
  end.
Fixpoint somes {X} (l : list (option X)) : list X :=
  match l with [] => [] | Some x :: r => x :: somes r | None :: r => somes r end.
Definition g_acodes (x : sexp) : option (list acode) :=
  match x with L l => do cs <- omap g_acode l; Some (somes cs) | _ => None end.

(* the implementation's own statement markers (Sem/HeapLock.is_statement_comment): such a COMMENT is
   kept as the pseudo-label "#s<comment>" (labels are no-ops of size 0); used by heap-a64 / c10-a64 *)
Definition g_acode_s (x : sexp) : option (option acode) :=
  match x with
  | L [A "COMMENT"; Q c] => Some (if is_statement_comment c then Some (LAB ("#s" ++ c)) else None)
  | _ => g_acode x
  end.
Definition g_acodes_s (x : sexp) : option (list acode) :=
  match x with L l => do cs <- omap g_acode_s l; Some (somes cs) | _ => None end.

(* the assembly text of one instruction, as code.rs prints it (used in reports) *)
Definition show_reg (r : areg) : string :=
  match r with X n => "X" ++ n_to_string (printed_number n) | SP => "SP" | XZR => "XZR" end.
