(* modelrun command "subst" (C11): one explicit substitution per case, compiled by the REAL
   Substitute::code_statement of the chosen back end.
     input  = (<backend> <context> <rearrange> <label counter>)     output = <instructions> | (PANIC msg)
   (a) ALWAYS: the executable form of the property on the Rust instructions (Model/SubstGen.v);
   (b) the model  code_statement B [] (Substitute re (Call k [])) context lc  = the Rust
       instructions modulo comments.
   Back ends are plugged in through Model/SubstGen.sbackend. *)
From Coq Require Import List ZArith NArith String Bool.
From SCC Require Import Base.Sexp Lang.AxSyn Model.Backend Model.RunBase Model.SubstGen Model.SubstX86 Model.SubstA64 Model.SubstRV.
Import ListNotations.
Open Scope string_scope.

Definition sbackend_of (name : string) : option sbackend :=
  match name with
  | "x86" => Some x86_sbackend
  | "a64" => Some a64_sbackend
  | "rv" => Some rv_sbackend
  | _ => None
  end.

Definition g_rearrange (x : sexp) : option (list (binding * ident)) :=
  getL (fun p => match p with
                 | L [b; i] => do b <- g_binding b; do i <- g_ident i; Some (b, i)
                 | _ => None end) x.

Definition subst_case_any (sem : bool) (i r : sexp) : verdict :=
  match i with
  | L [A bk; c; re; lc] =>
      match sbackend_of bk with
      | None => VSkip ("no ISA model plugged in for backend " ++ bk)
      | Some sb =>
          match g_ctx c, g_rearrange re, getN lc with
          | Some c, Some re, Some lc => subst_case sb sem c re lc r
          | _, _, _ => VBad "input unreadable"
          end
      end
  | _ => VBad "input shape"
  end.
Definition run_subst : string -> string := run_cases (subst_case_any true).
(* correspondence only (used by the mutation test to tell which of the two parts fires) *)
Definition run_subst_corr : string -> string := run_cases (subst_case_any false).
