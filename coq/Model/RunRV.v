(* modelrun commands for the RISC-V back end (property C08):
   "codegen-rv"  the model of axcut2rv64 against the real crate: instruction list (modulo comments),
                 printed routine text (verbatim, comments included), capacity/print panics;
   "sem-rv"      executable form of C08 on the implementation's output: the emitted code run on
                 Sem/RVSem against the AxCut linear machine, and against the x86-64 and AArch64 code
                 of the same program run on Sem/X86Sem and Sem/A64Sem (three_backends_agree).
   Both accept the case shape of `harness codegen-rv` (rust output = rv result) and of
   `harness codegen-all` (rust output = (all <rv> <x86> <a64>)). *)
From Coq Require Import List ZArith NArith String Bool.
From SCC Require Model.X86 Model.X86Io Sem.X86Sem Model.A64 Model.A64Io Sem.A64Sem.
From SCC Require Model.LinCheck.
From SCC Require Import Sem.LabelText.
From SCC Require Import Base.Sexp Lang.AxSyn Sem.AxSem Model.Backend Model.RV Model.RVIo Sem.RVSem Model.RunBase.
Import ListNotations.
Open Scope string_scope.

Definition s_res_rcodes (r : res (list rcode * nat * N)) : sexp :=
  match r with
  | Ok (cs, n, _) => L [L (map s_rcode cs); sNat n]
  | Err m => L [A "PANIC"; Q m]
  end.

(* (rv, x86, a64) parts of the implementation's output *)
Definition split_all (r : sexp) : sexp * option sexp * option sexp :=
  match r with
  | L [A "all"; rv; x86; a64] => (rv, Some x86, Some a64)
  | _ => (r, None, None)
  end.

(* the longest context `code_statement` threads through the program (number of simultaneously
   live variables): the same context computation as Model/Backend.code_statement *)
Fixpoint max_ctx (s : stmt) (c : ctx) : nat :=
  let here := List.length c in
  let over := fix go (l : list clause) (mk : ctx -> ctx) : nat :=
    match l with [] => 0 | (_, cx, b) :: r => Nat.max (max_ctx b (mk cx)) (go r mk) end in
  match s with
  | Substitute re next => Nat.max here (max_ctx next (map fst re))
  | Call _ _ => here
  | Let v t _ args next =>
      Nat.max here (max_ctx next (firstn (List.length c - List.length args) c ++ [mkb v Prd t])%list)
  | Switch _ _ cls => Nat.max here (over cls (fun cx => (removelast c ++ cx)%list))
  | Create v t (Some env) cls next =>
      let rest := firstn (List.length c - List.length env) c in
      let cenv := skipn (List.length c - List.length env) c in
      Nat.max here (Nat.max (max_ctx next (rest ++ [mkb v Cns t])%list) (over cls (fun cx => (cx ++ cenv)%list)))
  | Create _ _ None _ _ => here
  | Invoke _ _ _ _ => here
  | Literal _ v next => max_ctx next (c ++ [mkb v Ext I64])%list
  | Op _ _ _ v next => max_ctx next (c ++ [mkb v Ext I64])%list
  | PrintI64 _ _ next => max_ctx next c
  | IfC _ _ _ t e => Nat.max here (Nat.max (max_ctx t c) (max_ctx e c))
  | Exit _ => here
  end.
Definition max_live (p : prog) : nat :=
  fold_left (fun m d => Nat.max m (max_ctx (dbody d) (dctx d))) (pdefs p) 0.
Definition RV_CAPACITY : nat := 14.

Definition has (f : rcode -> bool) (cs : list rcode) : bool := existsb f cs.
Definition rv_tags (cs : list rcode) : string :=
  let mem := has (fun c => match c with SW _ _ _ => true | _ => false end) cs in
  let tables := has (fun c => match c with LA _ _ => true | _ => false end) cs in
  let bump := has (fun c => match c with ADDI 3%N 2%N _ => true | _ => false end) cs in
  "nt" ++ (if mem then " mem" else " nomem") ++ (if tables then " table" else "") ++ (if bump then " alloc" else "")
  ++ " len" ++ n_to_string (N.of_nat (Nat.log2 (List.length cs))).

(* ---------- correspondence ---------- *)
Definition codegen_rv_case (i r : sexp) : verdict :=
  let '(r, _, _) := split_all r in
  match i with
  | L [Q _; p; lc; argss] =>
      match g_prog p, getN lc with
      | Some p, Some lc =>
          let m := rv_compile p lc in
          match r with
          | L [A "PANIC"; Q msg] =>
              match m with
              | Err _ => VOk ("panic-agree " ++ (if prog_has_print p then "print" else "capacity"))
              | Ok _ => diff_window_b (show (s_res_rcodes m)) (show r)
              end
          | L [cs; n; Q text] =>
              match g_ritems cs, getN n with
              | Some items, Some n =>
                  let cs := codes_of items in
                  let r' := L [L (map s_rcode cs); sN n] in
                  if negb (String.eqb (into_rv64_routine items) text)
                  then diff_window_b (show (Q (into_rv64_routine items))) (show (Q text))
                  else
                  match m with
                  | Ok (mc, _, _) =>
                      match cmp_sexp (s_res_rcodes m) r' with
                      | VOk _ => VOk (rv_tags mc ++ " live" ++ n_to_string (N.of_nat (max_live p)))
                      | v => v
                      end
                  | Err _ => diff_window_b (show (s_res_rcodes m)) (show r')
                  end
              | _, _ => VBad "rust output unreadable"
              end
          | _ => VBad "rust output shape"
          end
      | _, _ => VBad "input unreadable"
      end
  | _ => VBad "input shape"
  end.
Definition run_codegen_rv : string -> string := run_cases codegen_rv_case.

(* ---------- semantics ---------- *)
Definition lin_fuel : nat := 50000.
Definition isa_outer : nat := 2000.
Definition isa_inner : nat := 2000.

Definition comparable (o : obs) : bool :=
  match snd o with OExit _ | OUndef _ => true | _ => false end.

(* C08 on one argument tuple.  First half: AxCut linear machine vs. the emitted RISC-V code.
   Runs of the reference machine that end in OExit or in a source-level undefined operation
   (OUndef) are compared; stuck / out-of-fuel reference runs are outside the property.
   Second half (three_backends_agree): the RISC-V run agrees with the run of the x86-64 code and of
   the AArch64 code of the same program on their ISA models (when that code exists and the
   argument count fits the back end's calling convention: 5 resp. 7 integer arguments). *)
Definition other_backend := (string * nat * (list Z -> obs))%type.

Definition check_tuple (p : prog) (cs : list rcode) (others : list other_backend) (args : list Z) : option string * Z :=
  let ref := run_linear lin_fuel p args in
  if comparable ref && LinCheck.lin_check_prog p then
    let '(got, st) := run_rv isa_outer isa_inner cs args in
    let hw := heap_high_water st in
    if negb (obs_eqb ref got)
    then (Some ("class=rv-semantic-mismatch args=" ++ show (sL sZ args) ++ " expected=" ++ show (s_obs ref) ++ " got=" ++ show (s_obs got)), hw)
    else
      (fold_left (fun (acc : option string) (o : other_backend) =>
         match acc with
         | Some _ => acc
         | None =>
             let '(name, maxargs, runner) := o in
             if Nat.ltb maxargs (List.length args) then None else
             let x := runner args in
             if obs_eqb got x then None
             else Some ("class=rv-" ++ name ++ "-disagree args=" ++ show (sL sZ args) ++ " rv=" ++ show (s_obs got) ++ " " ++ name ++ "=" ++ show (s_obs x))
         end) others None, hw)
  else (None, 0%Z).

Definition sem_check_rv (p : prog) (cs : list rcode) (others : list other_backend) (argss : list (list Z)) : option string * Z :=
  fold_left (fun (acc : option string * Z) args =>
    match fst acc with
    | Some _ => acc
    | None => let '(r, hw) := check_tuple p cs others args in (r, Z.max (snd acc) hw)
    end) argss (None, 0%Z).

Definition count_runs (p : prog) (argss : list (list Z)) (f : outcome -> bool) : nat :=
  List.length (filter (fun args => f (snd (run_linear lin_fuel p args))) argss).

Definition sem_rv_case (i r : sexp) : verdict :=
  let '(r, x86, a64) := split_all r in
  match i with
  | L [Q _; p; lc; argss] =>
      match g_prog p, getL (getL getZ) argss with
      | Some p, Some argss =>
          if prog_has_print p then VSkip "print"
          else
          let live := max_live p in
          match r with
          | L [A "PANIC"; Q msg] =>
              if Nat.leb live RV_CAPACITY
              then VViol ("class=rv-capacity-panic live=" ++ n_to_string (N.of_nat live) ++ " msg=" ++ msg)
              else VSkip ("capacity live" ++ n_to_string (N.of_nat live))
          | L [cs; n; Q _] =>
              match g_ritems cs with
              | Some items =>
                  let cs := codes_of items in
                  let '(xo, xt) :=
                    match x86 with
                    | Some (L [xs; _]) =>
                        match X86Io.g_xcodes xs with
                        | Some xs => ([("x86", 5%nat, fun args => fst (X86Sem.run_x86 isa_outer isa_inner xs args))], " x86")
                        | None => ([], " x86-unreadable")
                        end
                    | Some _ => ([], " x86-panic")
                    | None => ([], "")
                    end in
                  let '(ao, at_) :=
                    match a64 with
                    | Some (L [xs; _]) =>
                        match A64Io.g_acodes xs with
                        | Some xs => ([("a64", 7%nat, fun args => fst (A64Sem.run_a64 isa_outer isa_inner xs args))], " a64")
                        | None => ([], " a64-unreadable")
                        end
                    | Some _ => ([], " a64-panic")
                    | None => ([], "")
                    end in
                  match sem_check_rv p cs (xo ++ ao)%list argss with
                  | (Some why, _) => VViol why
                  | (None, hw) =>
                      VOk (rv_tags cs ++ xt ++ at_
                           ++ " exit" ++ n_to_string (N.of_nat (count_runs p argss (fun o => match o with OExit _ => true | _ => false end)))
                           ++ " undef" ++ n_to_string (N.of_nat (count_runs p argss (fun o => match o with OUndef _ => true | _ => false end)))
                           ++ (if Nat.ltb RV_CAPACITY live then " beyond14" else "")
                           ++ " blocks" ++ (if Z.ltb hw HEAP_BASE then "0" else n_to_string (N.log2 (Z.to_N ((hw - HEAP_BASE) / 64 + 1)) + 1)))
                  end
              | None => VBad "rust output unreadable"
              end
          | _ => VBad "rust output shape"
          end
      | _, _ => VBad "input unreadable"
      end
  | _ => VBad "input shape"
  end.
Definition run_sem_rv : string -> string := run_cases sem_rv_case.

(* ---------- C14: well-formedness of the implementation's output ---------- *)
From SCC Require Import Sem.RVWf Sem.LabelGuard.
From SCC Require Sem.WfGuard Sem.WfGuard64.
Open Scope string_scope.
(* is the program inside ALL hypotheses of the theorem Props/C14.v C14_rv_compile_asm_wf (Sem/WfGuard64.v)?  Tag
   `thm` / `out:<first hypothesis that fails>`; `small-thm` when inside C14_rv_compile_code_small.  A program inside the
   hypotheses whose REAL output fails asm_wf (resp. the size bound) contradicts the theorem: the model and the code
   disagree - VIOL class=asm-wf-theorem-contradicted. *)
Definition thm_tag_rv (pp : option prog) : string :=
  match pp with
  | Some pp => (if WfGuard64.wf_guard_rv pp then " thm" else " out:" ++ WfGuard64.guards_failed (WfGuard64.wf_guards_rv pp))
               ++ (if LinCheck.lin_check_prog pp && WfGuard.size_guard pp then " small-thm" else "")
  | None => ""
  end.
Definition code_small_rv (cs : list rcode) : bool :=
  Z.ltb (CODE_BASE + fold_right (fun c a => isize c + a)%Z 0%Z cs + 32)%Z 4611686018427387904%Z.
Definition guard_tag (p : sexp) : string :=
  match g_prog p with
  | Some pp => (if labels_guard pp then " guard" else if name_digits pp then " name-digits" else " noguard")
               ++ (if calls_guard pp then "" else " open-calls")
  | None => ""
  end.
Definition wf_rv_case (i r : sexp) : verdict :=
  let '(r, _, _) := split_all r in
  match i, r with
  | L [Q _; p; lc; _], L [cs; n; Q text] =>
      match g_ritems cs with
      | Some items =>
          let cs := codes_of items in
          match bad_label (defined_labels cs ++ flat_map referenced cs) with
          | Some l => VViol ("class=asm-ill-formed-rv label is not an identifier: " ++ l)
          | None =>
          let pp := g_prog p in
          let inside := match pp with Some q => WfGuard64.wf_guard_rv q | None => false end in
          let inside_small := match pp with Some q => LinCheck.lin_check_prog q && WfGuard.size_guard q | None => false end in
          match asm_wf cs with
          | Some why =>
              if inside then VViol ("class=asm-wf-theorem-contradicted " ++ why) else
              match first_dup ("cleanup" :: defined_labels cs), pp with
              | Some l, Some pp => if name_digits pp then VViol ("class=label-collision-name-digits " ++ why)
                                   else VViol ("class=asm-ill-formed-rv " ++ why)
              | _, _ => VViol ("class=asm-ill-formed-rv " ++ why)
              end
          | None =>
              if inside_small && negb (code_small_rv cs) then VViol "class=asm-wf-theorem-contradicted code not small" else
              (* a conditional branch beyond +-4 KiB / JAL beyond +-1 MiB even with the smallest encodings:
                 reported as a tag pending a ruling (GNU as relaxes such branches, other assemblers reject them);
                 to count it as a violation answer VViol ("class=rv-branch-out-of-range ..." ) here *)
              let far := match branches_in_range cs with Some _ => true | None => false end in
              match tt with
              | tt =>
                  let nlab := List.length (defined_labels cs) in
                  let tag (b : bool) (s : string) := if b then " " ++ s else "" in
                  VOk ("nt labels" ++ n_to_string (N.log2 (N.of_nat nlab + 1)) ++ tag far "far-branch"
                       ++ tag (has (fun c => match c with LA _ _ => true | _ => false end) cs) "table"
                       ++ tag (has (fun c => match c with SW _ _ _ => true | _ => false end) cs) "mem"
                       ++ " kb" ++ z_to_string (code_bytes cs / 1024) ++ guard_tag p ++ thm_tag_rv pp)
              end
          end
          end
      | None => VBad "rust output unreadable"
      end
  | _, L [A "PANIC"; _] => VSkip "implementation panicked (capacity or print)"
  | _, _ => VBad "case shape"
  end.
Definition run_wf_rv : string -> string := run_cases wf_rv_case.
