(* modelrun command "codegen-rv": the model of the RISC-V code generator against the real one. *)
From Coq Require Import List ZArith NArith String Bool.
From SCC Require Import Base.Sexp Lang.AxSyn Sem.AxSem Model.Backend Model.RV Model.RVIo Model.RunBase.
Import ListNotations.
Open Scope string_scope.

Definition s_res_rcodes (r : res (list rcode * nat * N)) : sexp :=
  match r with
  | Ok (cs, n, _) => L [L (map s_rcode cs); sNat n]
  | Err m => L [A "PANIC"; Q m]
  end.

Definition codegen_rv_case (i r : sexp) : verdict :=
  match i with
  | L [Q _; p; lc; argss] =>
      match g_prog p, getN lc, getL (getL getZ) argss with
      | Some p, Some lc, Some argss =>
          let m := rv_compile p lc in
          match r with
          | L [A "PANIC"; Q msg] =>
              match m with
              | Err _ => VOk ("panic-agree " ++ (if prog_has_print p then "print" else "capacity"))
              | Ok _ => VDiff (show (s_res_rcodes m)) (show r)
              end
          | L [cs; n; Q text] =>
              match g_ritems cs, getN n with
              | Some items, Some n =>
                  let cs := codes_of items in
                  let r' := L [L (map s_rcode cs); sN n] in
                  if negb (String.eqb (into_rv64_routine items) text)
                  then VDiff (show (Q (into_rv64_routine items))) (show (Q text))
                  else
                  match m with
                  | Ok (mc, _, _) =>
                      match cmp_sexp (s_res_rcodes m) r' with
                      | VOk _ => VOk "nt"
                      | v => v
                      end
                  | Err _ => VDiff (show (s_res_rcodes m)) (show r')
                  end
              | _, _ => VBad "rust output unreadable"
              end
          | _ => VBad "rust output shape"
          end
      | _, _, _ => VBad "input unreadable"
      end
  | _ => VBad "input shape"
  end.
Definition run_codegen_rv : string -> string := run_cases codegen_rv_case.
