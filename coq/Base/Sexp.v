(* S-expressions: the exchange format between the Rust harness and the extracted models.
   Everything (reader, printer, number conversion) is Gallina, so the OCaml driver only moves
   bytes.  No proofs here. *)
From Coq Require Import List ZArith NArith String Ascii Bool DecimalString.
Import ListNotations.
Open Scope string_scope.

Inductive sexp := A (s : string) | Q (s : string) | L (l : list sexp).

(* ---------- reader ---------- *)
(* List.rev is quadratic; the reader uses the linear one *)
Definition frev {X} (l : list X) : list X := rev_append l [].

Inductive tok := TL | TR | TA (s : string) | TQ (s : string).

Definition is_ws (c : ascii) : bool :=
  match c with " "%char | "010"%char | "013"%char | "009"%char => true | _ => false end.

Fixpoint rev_str (s acc : string) : string :=
  match s with EmptyString => acc | String c r => rev_str r (String c acc) end.

(* mode 0: between tokens; 1: inside atom (cur reversed); 2: inside quoted; 3: after backslash *)
Fixpoint lex (s : string) (mode : nat) (cur : string) (acc : list tok) : option (list tok) :=
  match s with
  | EmptyString =>
      match mode with
      | 0 => Some (frev acc)
      | 1 => Some (frev (TA (rev_str cur "") :: acc))
      | _ => None
      end
  | String c r =>
      match mode with
      | 0 =>
          if is_ws c then lex r 0 "" acc
          else match c with
               | "("%char => lex r 0 "" (TL :: acc)
               | ")"%char => lex r 0 "" (TR :: acc)
               | """"%char => lex r 2 "" acc
               | _ => lex r 1 (String c "") acc
               end
      | 1 =>
          if is_ws c then lex r 0 "" (TA (rev_str cur "") :: acc)
          else match c with
               | "("%char => lex r 0 "" (TL :: TA (rev_str cur "") :: acc)
               | ")"%char => lex r 0 "" (TR :: TA (rev_str cur "") :: acc)
               | _ => lex r 1 (String c cur) acc
               end
      | 2 =>
          match c with
          | """"%char => lex r 0 "" (TQ (rev_str cur "") :: acc)
          | "\"%char => lex r 3 cur acc
          | _ => lex r 2 (String c cur) acc
          end
      | _ =>
          match c with
          | "n"%char => lex r 2 (String "010"%char cur) acc
          | _ => lex r 2 (String c cur) acc
          end
      end
  end.

Fixpoint parse_toks (ts : list tok) (stack : list (list sexp)) (cur : list sexp) : option (list sexp) :=
  match ts with
  | [] => match stack with [] => Some (frev cur) | _ => None end
  | TL :: r => parse_toks r (cur :: stack) []
  | TR :: r => match stack with [] => None | c :: st => parse_toks r st (L (frev cur) :: c) end
  | TA s :: r => parse_toks r stack (A s :: cur)
  | TQ s :: r => parse_toks r stack (Q s :: cur)
  end.

Definition read_all (s : string) : option (list sexp) :=
  match lex s 0 "" [] with Some ts => parse_toks ts [] [] | None => None end.

(* ---------- printer (accumulator style, linear) ---------- *)
Fixpoint esc (s acc : string) : string :=   (* acc holds what follows *)
  match s with
  | EmptyString => acc
  | String c r =>
      match c with
      | """"%char => String "\"%char (String """"%char (esc r acc))
      | "\"%char => String "\"%char (String "\"%char (esc r acc))
      | "010"%char => String "\"%char (String "n"%char (esc r acc))
      | _ => String c (esc r acc)
      end
  end.

Fixpoint pr (x : sexp) (acc : string) : string :=
  match x with
  | A s => s ++ acc
  | Q s => String """"%char (esc s (String """"%char acc))
  | L l =>
      String "("%char
        ((fix go (l : list sexp) (acc : string) : string :=
            match l with
            | [] => acc
            | [y] => pr y acc
            | y :: r => pr y (String " "%char (go r acc))
            end) l (String ")"%char acc))
  end.
Definition show (x : sexp) : string := pr x "".

(* ---------- numbers ---------- *)
Definition z_to_string (z : Z) : string := NilZero.string_of_int (Z.to_int z).
Definition n_to_string (n : N) : string := NilZero.string_of_uint (N.to_uint n).
Definition z_of_string (s : string) : option Z :=
  match NilZero.int_of_string s with Some i => Some (Z.of_int i) | None => None end.
Definition n_of_string (s : string) : option N :=
  match NilZero.uint_of_string s with Some i => Some (N.of_uint i) | None => None end.

Definition sZ (z : Z) : sexp := A (z_to_string z).
Definition sN (n : N) : sexp := A (n_to_string n).
Definition sB (b : bool) : sexp := A (if b then "true" else "false").
Definition sNat (n : nat) : sexp := sN (N.of_nat n).

Definition getZ (x : sexp) : option Z := match x with A s => z_of_string s | _ => None end.
Definition getN (x : sexp) : option N := match x with A s => n_of_string s | _ => None end.
Definition getB (x : sexp) : option bool :=
  match x with A "true" => Some true | A "false" => Some false | _ => None end.
Definition getQ (x : sexp) : option string := match x with Q s => Some s | _ => None end.

(* option monad helpers *)
Definition obind {X Y} (o : option X) (f : X -> option Y) : option Y :=
  match o with Some x => f x | None => None end.
Notation "'do' x <- e ; k" := (obind e (fun x => k)) (at level 200, x pattern, e at level 100, k at level 200).
Fixpoint omap {X Y} (f : X -> option Y) (l : list X) : option (list Y) :=
  match l with
  | [] => Some []
  | x :: r => do y <- f x; do ys <- omap f r; Some (y :: ys)
  end.
Definition getL {X} (f : sexp -> option X) (x : sexp) : option (list X) :=
  match x with L l => omap f l | _ => None end.
Definition sL {X} (f : X -> sexp) (l : list X) : sexp := L (map f l).
Definition sO {X} (f : X -> sexp) (o : option X) : sexp :=
  match o with Some x => L [A "some"; f x] | None => A "none" end.
Definition getO {X} (f : sexp -> option X) (x : sexp) : option (option X) :=
  match x with
  | A "none" => Some None
  | L [A "some"; y] => do v <- f y; Some (Some v)
  | _ => None
  end.

(* lines *)
Definition nl : string := String "010"%char "".
Fixpoint unlines (l : list string) : string :=
  match l with [] => "" | x :: r => x ++ nl ++ unlines r end.
