(* Executable form of the heap invariant of C09 (DESIGN.md section 5, C09/C10), evaluated on a
   concrete memory at a statement boundary.  It is independent of the back end: it needs a word
   reader for the heap, the two allocator registers, the roots (first temporaries of the live
   non-integer variables) and the highest heap address written so far.

   Layout (all back ends): a block is 64 bytes = 8 words; word 0 is the header (reference count
   minus one while in use, next pointer while on a free list); the pointer slots are the words at
   byte offsets 16, 32, 48; integers/tags/code addresses sit at 24, 40, 56; word 1 is unused.

     HL  reuse list: heap, hdr heap, … until header 0                 (non-empty, duplicate free)
     FL  deferred list: free, hdr free, … ; it ends at the frontier, the first never-used block
         (recognised by header 0); the frontier itself is not part of FL
     C   every other block below the frontier                          (the counted blocks)
     refs = non-null roots ++ non-null pointer slots of the blocks in C and FL
           (slots of HL blocks are stale and deliberately not counted)
     (RC) for b in C:  header b + 1 = number of occurrences of b in refs  (exact counts, no leak)
     (NR) every element of refs is in C                                   (no dangling reference)
     (FR) nothing at or above the frontier has ever been written
   "Reachable / reusable / deferred / waiting beneath a deferred block" is the derived
   classification: HL = reusable, FL = deferred, C = reachable or waiting. *)
From Coq Require Import List ZArith NArith String Bool FMapPositive.
Import ListNotations.
Open Scope string_scope.
Open Scope list_scope.
Open Scope Z_scope.

Module PMc := PositiveMap.
Definition BLK : Z := 64.
Definition kz (a : Z) : positive := Z.to_pos (a + 1).

Record heap_view := {
  rd : Z -> Z;          (* heap word at a byte address (0 if never written) *)
  base : Z;             (* first heap address *)
  limit : Z;            (* one past the last heap address *)
  hv_heap : Z;          (* value of the HEAP register *)
  hv_free : Z;          (* value of the FREE register *)
  hv_high : Z;          (* highest heap address ever written, base - 8 if none *)
}.

Definition is_block (v : heap_view) (a : Z) : bool :=
  (base v <=? a) && (a + BLK <=? limit v) && ((a - base v) mod BLK =? 0).

(* follow headers from a; stop (exclusive) at a block whose header is 0 when stop_at_zero_header,
   or at the null pointer otherwise *)
Fixpoint chain (fuel : nat) (v : heap_view) (frontier_mode : bool) (a : Z) (seen : PMc.t unit) (acc : list Z)
  : option (list Z * Z) + string :=
  match fuel with
  | O => inr "free list too long or cyclic"
  | S f =>
      if negb frontier_mode && (a =? 0) then inl (Some (rev_append acc [], 0))
      else if negb (is_block v a) then inr "free-list pointer is not a block"
      else if frontier_mode && (rd v a =? 0) then inl (Some (rev_append acc [], a))
      else match PMc.find (kz a) seen with
           | Some _ => inr "block twice on a free list"
           | None => chain f v frontier_mode (rd v a) (PMc.add (kz a) tt seen) (a :: acc)
           end
  end.

Definition slots (v : heap_view) (b : Z) : list Z :=
  filter (fun p => negb (p =? 0)) [rd v (b + 16); rd v (b + 32); rd v (b + 48)].

Fixpoint blocks_from (n : nat) (a : Z) : list Z :=
  match n with O => [] | S m => a :: blocks_from m (a + BLK) end.

Definition count_map (l : list Z) : PMc.t Z :=
  fold_left (fun m x => PMc.add (kz x) (match PMc.find (kz x) m with Some c => c + 1 | None => 1 end) m) l (PMc.empty Z).

Record heap_report := {
  hr_frontier : Z;
  hr_hl : list Z;
  hr_fl : list Z;
  hr_counted : list Z;
}.

Definition inv_check (v : heap_view) (roots : list Z) : heap_report + string :=
  let nblocks := Z.to_nat (Z.max 0 ((hv_high v - base v) / BLK) + 4) in
  match chain (S nblocks) v false (hv_heap v) (PMc.empty unit) [] with
  | inr e => inr ("reuse list: " ++ e)%string
  | inl None => inr "reuse list: impossible"
  | inl (Some (hl, _)) =>
      match hl with
      | [] => inr "reuse list is empty"
      | _ =>
          match chain (S nblocks) v true (hv_free v) (PMc.empty unit) [] with
          | inr e => inr ("deferred list: " ++ e)%string
          | inl None => inr "deferred list: impossible"
          | inl (Some (fl, frontier)) =>
              if negb (hv_high v <? frontier) then inr "memory at or above the frontier has been written"
              else
              let on_list := fold_left (fun m x => PMc.add (kz x) tt m) (hl ++ fl) (PMc.empty unit) in
              if negb (Nat.eqb (PMc.cardinal on_list) (List.length (hl ++ fl))) then inr "a block is on both free lists"
              else if existsb (fun x => negb (x <? frontier)) (hl ++ fl) then inr "free-list block above the frontier"
              else
              let below := blocks_from (Z.to_nat ((frontier - base v) / BLK)) (base v) in
              let counted := filter (fun b => match PMc.find (kz b) on_list with Some _ => false | None => true end) below in
              let cset := fold_left (fun m x => PMc.add (kz x) tt m) counted (PMc.empty unit) in
              let refs := filter (fun p => negb (p =? 0)) roots ++ flat_map (slots v) (counted ++ fl) in
              match find (fun r => match PMc.find (kz r) cset with Some _ => false | None => true end) refs with
              | Some _ => inr "dangling reference: a pointer to a block that is free, deferred, unallocated or not a block"
              | None =>
                  let cm := count_map refs in
                  match find (fun b => negb (rd v b + 1 =? match PMc.find (kz b) cm with Some c => c | None => 0 end)) counted with
                  | Some _ => inr "reference count differs from the number of references (leak or wrong count)"
                  | None => inl {| hr_frontier := frontier; hr_hl := hl; hr_fl := fl; hr_counted := counted |}
                  end
              end
          end
      end
  end.
