(* Identifier-like names in Fun programs, and well-formedness of the types written in declarations:
   the boolean guard(s) of the C15 theorems about programs with type parameters
   (Props/C15.v, Proof/CheckPoly*.v).  Executable, so that `modelrun check` can test on every
   compared input that the guard on names holds (it does for every parsed program: the lexer's name
   classes are [A-Z][a-zA-Z0-9_]* and [a-z][a-zA-Z0-9_]*, and i64 is a keyword).
   The checker keys monomorphic instances by PRINTED names (`List[i64]`, `Pair[i64, List[i64]]`);
   a name containing one of the four delimiter characters, or a type named `i64`, could be confused
   with a printed instance. *)
From Coq Require Import List String Ascii Bool.
From SCC Require Import Lang.FunSyn Sem.FunTyping.
Import ListNotations.
Local Open Scope string_scope.
Local Open Scope list_scope.

Definition delim (c : ascii) : bool :=
  Ascii.eqb c "["%char || Ascii.eqb c "]"%char || Ascii.eqb c ","%char || Ascii.eqb c " "%char.
Fixpoint no_delim (s : string) : bool :=
  match s with EmptyString => true | String c r => negb (delim c) && no_delim r end.
Definition name_ok (s : string) : bool := no_delim s && negb (String.eqb s "i64").
Fixpoint ty_names_ok (t : fty) : bool :=
  match t with
  | FI64 => true
  | FDecl n args => name_ok n && (fix go (l : list fty) : bool := match l with [] => true | a :: r => ty_names_ok a && go r end) args
  end.
Definition tys_names_ok (l : list fty) : bool := forallb ty_names_ok l.
Definition ctx_names_ok (c : fctx) : bool := forallb (fun b => ty_names_ok (fbty b)) c.
Definition oty_names_ok (o : option fty) : bool := match o with None => true | Some t => ty_names_ok t end.

Fixpoint term_names_ok (t : fterm) : bool :=
  let ml := fix go (l : list fterm) : bool := match l with [] => true | a :: r => term_names_ok a && go r end in
  let mc := fix go (l : list fclause) : bool :=
    match l with [] => true | FClause _ x _ _ b :: r => name_ok x && term_names_ok b && go r end in
  match t with
  | FVar _ a _ => oty_names_ok a
  | FLit _ => true
  | FOp a _ b => term_names_ok a && term_names_ok b
  | FIfC _ a b th el _ => term_names_ok a && match b with Some b' => term_names_ok b' | None => true end
                          && term_names_ok th && term_names_ok el
  | FPrint _ a n _ => term_names_ok a && term_names_ok n
  | FLet _ vty a b _ => ty_names_ok vty && term_names_ok a && term_names_ok b
  | FCall _ args _ => ml args
  | FCtor x args _ => name_ok x && ml args
  | FDtor s x targs args _ => name_ok x && tys_names_ok targs && term_names_ok s && ml args
  | FCase s targs cls _ => tys_names_ok targs && term_names_ok s && mc cls
  | FNew cls _ => mc cls
  | FLabel _ t _ | FGoto _ t _ | FExit t _ | FParen t => term_names_ok t
  end.
Definition terms_names_ok (l : list fterm) : bool := forallb term_names_ok l.
Definition clause_names_ok (c : fclause) : bool :=
  match c with FClause _ x _ _ b => name_ok x && term_names_ok b end.
Definition clauses_names_ok (l : list fclause) : bool := forallb clause_names_ok l.

Definition decl_names_ok (d : fdecl) : bool :=
  match d with
  | FDData d => name_ok (fdaname d) && forallb (fun c => name_ok (fctname c) && ctx_names_ok (fctargs c)) (fdactors d)
  | FDCodata d => name_ok (fcoaname d)
                  && forallb (fun c => name_ok (fdtname c) && ctx_names_ok (fdtargs c) && ty_names_ok (fdtcont c)) (fcodtors d)
  | FDDef d => ctx_names_ok (fdctx d) && ty_names_ok (fdret d) && term_names_ok (fdbody d)
  end.
(* every type name, constructor name and destructor name in the program is free of "[", "]", ",",
   " " and is not "i64" *)
Definition prog_names_ok (p : fprog) : bool := forallb decl_names_ok (fpdecls p).

(* the part of [decls_ok] the checker did not establish until fix eb42971 of /repo (now it does:
   Proof/CheckDecls.v check_gen_decl_types_wf): every type written in a data/codata
   declaration is i64, a parameter without arguments, or a declared type with the right number of
   well-formed arguments *)
Definition decl_types_wf (ts : list tdecl) : bool :=
  forallb (fun t => forallb (xsig_ok ts (td_params t)) (td_xtors t)) ts.
