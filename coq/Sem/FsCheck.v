(* Sem/FsCheck.v - boolean checkers for FOCUSED Core programs (the input of shrinking).

   [check_fs p] : None when the program is well-scoped and well-typed, Some message otherwise;
   [wt_fs p] the boolean.  [unique_binders p] : no binder (mu, mu~, clause parameter) re-binds an id
   that is in scope (definition parameters and binders on the path from the root) - the
   precondition "all variable bindings in each path through a program are unique" that
   core2axcut/src/lib.rs states.  [ids_bounded p] : every variable id and the id of every definition name is <= max_id.

   Typing (G = bindings in scope, innermost first; lookup by NUMERIC ID, first match; a variable
   occurrence must carry the chirality and type of its binding):
     <p | ty | k>    ty = i64 or a declared data/codata type; p a producer, k a consumer of ty
     producers of ty x (var :prd ty) | literal, op (ty = i64, operands :prd i64) | mu a.s (s under a :cns ty)
                     | K(args) (ty data, K a constructor, args = signature and bound)
                     | cocase {D(params) => s …} (ty codata, one clause per destructor in declaration order)
     consumers of ty a (var :cns ty) | mu~ x.s (s under x :prd ty) | D(args) (ty codata)
                     | case {K(params) => s …} (ty data)
     ifc/print/exit  operands :prd i64;    call f(args): args = f's parameters (chirality, type), bound
   Program level: type names pairwise distinct over data AND codata and different from `_Cont`,
   xtor names distinct within a type, polarity fields consistent ([chi_ok_fsprog]), definition names
   distinct, parameter ids of a definition distinct. *)
From Coq Require Import List ZArith NArith String Bool.
From SCC Require Import Base.Sexp Lang.SynUtil Lang.CoreSyn.
Import ListNotations.
Open Scope list_scope.
Open Scope string_scope.

Local Notation "a ?> b" := (match a with None => b | Some e => Some e end) (at level 61, right associativity).
Definition fensure (b : bool) (m : string) : option string := if b then None else Some m.

Fixpoint flookup (G : cctx) (x : N) : option cbinding :=
  match G with
  | [] => None
  | b :: r => if N.eqb (cid_id (cbvar b)) x then Some b else flookup r x
  end.
Definition show_cchi (c : cchi) : string := match c with CPrd => "prd" | CCns => "cns" end.
Definition show_cty (t : cty) : string := match t with CI64 => "i64" | CDecl n => show_cident n end.
Definition fbound (G : cctx) (x : cident) (c : cchi) (t : cty) : option string :=
  match flookup G (cid_id x) with
  | None => Some ("unbound variable " ++ show_cident x)
  | Some b =>
      fensure (cchi_eqb (cbchi b) c && cty_eqb (cbty b) t)
              ("variable " ++ show_cident x ++ " used as " ++ show_cchi c ++ " " ++ show_cty t
               ++ " but bound as " ++ show_cchi (cbchi b) ++ " " ++ show_cty (cbty b))
  end.
Definition csame_sig (a s : cbinding) : bool := cchi_eqb (cbchi a) (cbchi s) && cty_eqb (cbty a) (cbty s).
Fixpoint fargs_ok (what : string) (G : cctx) (args sig : cctx) : option string :=
  match args, sig with
  | [], [] => None
  | a :: ar, s :: sr =>
      fensure (csame_sig a s) (what ++ ": argument " ++ show_cident (cbvar a) ++ " does not match the signature")
      ?> fbound G (cbvar a) (cbchi a) (cbty a) ?> fargs_ok what G ar sr
  | _, _ => Some (what ++ ": wrong number of arguments")
  end.
Fixpoint fparams_ok (ps sig : cctx) : bool :=
  match ps, sig with
  | [], [] => true
  | a :: ar, s :: sr => csame_sig a s && fparams_ok ar sr
  | _, _ => false
  end.
Definition opp (c : cchi) : cchi := match c with CPrd => CCns | CCns => CPrd end.
Definition find_decl (ts : list ctydecl) (n : cident) : option ctydecl :=
  find (fun d => cident_eqb (ctname d) n) ts.
Definition find_cxtor (d : ctydecl) (x : cident) : option cxtorsig :=
  find (fun s => cident_eqb (cxname s) x) (ctxtors d).

(* the clauses of a (co)match against the xtors of its type, positionally: prdcns field, xtor name,
   parameter chiralities and types *)
Fixpoint clauses_match (side : cchi) (n : cident) (cls : list fsclause) (xs : list cxtorsig) : option string :=
  match cls, xs with
  | [], [] => None
  | FsClause c' x ctx _ :: cr, sg :: xr =>
      fensure (cchi_eqb c' side) "clause with the wrong prdcns field"
      ?> fensure (cident_eqb x (cxname sg))
                 ("clause " ++ show_cident x ++ " where " ++ show_cident (cxname sg) ++ " is expected")
      ?> fensure (fparams_ok ctx (cxargs sg)) ("clause " ++ show_cident x ++ ": parameters do not match the signature")
      ?> clauses_match side n cr xr
  | _, _ => Some ("xcase at " ++ show_cident n ++ ": number of clauses differs from the number of xtors")
  end.

Section Check.
Variable data codata : list ctydecl.
Variable defs : list fsdef.

Definition ty_ok (t : cty) : bool :=
  match t with
  | CI64 => true
  | CDecl n => match find_decl data n, find_decl codata n with None, None => false | _, _ => true end
  end.

(* [side] = CPrd for the producer position of a cut, CCns for the consumer position *)
Fixpoint check_term (G : cctx) (side : cchi) (ty : cty) (t : fsterm) {struct t} : option string :=
  match t with
  | FsXVar c v t' =>
      fensure (cchi_eqb c side) "variable with the wrong prdcns field"
      ?> fensure (cty_eqb t' ty) ("variable " ++ show_cident v ++ " annotated " ++ show_cty t' ++ " in a cut at " ++ show_cty ty)
      ?> fbound G v side ty
  | FsLit _ =>
      fensure (cchi_eqb side CPrd) "literal in consumer position" ?> fensure (cty_eqb ty CI64) "literal at a declared type"
  | FsOp a _ b =>
      fensure (cchi_eqb side CPrd) "operation in consumer position" ?> fensure (cty_eqb ty CI64) "operation at a declared type"
      ?> fbound G a CPrd CI64 ?> fbound G b CPrd CI64
  | FsMu c v s t' =>
      fensure (cchi_eqb c side) "mu with the wrong prdcns field"
      ?> fensure (cty_eqb t' ty) ("mu " ++ show_cident v ++ " annotated " ++ show_cty t' ++ " in a cut at " ++ show_cty ty)
      ?> check_stmt (mkcb v (opp side) ty :: G) s
  | FsXtor c x args t' =>
      fensure (cchi_eqb c side) "xtor with the wrong prdcns field"
      ?> fensure (cty_eqb t' ty) ("xtor " ++ show_cident x ++ " annotated " ++ show_cty t' ++ " in a cut at " ++ show_cty ty)
      ?> match ty with
         | CI64 => Some ("xtor " ++ show_cident x ++ " at type i64")
         | CDecl n =>
             match find_decl (match side with CPrd => data | CCns => codata end) n with
             | None => Some ("xtor " ++ show_cident x ++ ": " ++ show_cident n ++ " is no " ++
                             (match side with CPrd => "data" | CCns => "codata" end) ++ " type")
             | Some d =>
                 match find_cxtor d x with
                 | None => Some (show_cident x ++ " is no xtor of " ++ show_cident n)
                 | Some sg => fargs_ok ("xtor " ++ show_cident x) G args (cxargs sg)
                 end
             end
         end
  | FsXCase c cls t' =>
      fensure (cchi_eqb c side) "xcase with the wrong prdcns field"
      ?> fensure (cty_eqb t' ty) ("xcase annotated " ++ show_cty t' ++ " in a cut at " ++ show_cty ty)
      ?> match ty with
         | CI64 => Some "xcase at type i64"
         | CDecl n =>
             match find_decl (match side with CPrd => codata | CCns => data end) n with
             | None => Some ("xcase: " ++ show_cident n ++ " is no " ++
                             (match side with CPrd => "codata" | CCns => "data" end) ++ " type")
             | Some d =>
                 clauses_match side n cls (ctxtors d)
                 ?> (fix go (cls : list fsclause) {struct cls} : option string :=
                       match cls with
                       | [] => None
                       | FsClause _ _ ctx body :: cr => check_stmt (app ctx G) body ?> go cr
                       end) cls
             end
         end
  end
with check_stmt (G : cctx) (s : fsstmt) {struct s} : option string :=
  match s with
  | FsCut p ty k =>
      fensure (ty_ok ty) ("cut at undeclared type " ++ show_cty ty)
      ?> check_term G CPrd ty p ?> check_term G CCns ty k
  | FsIfC _ a b t e =>
      fbound G a CPrd CI64 ?> match b with Some b' => fbound G b' CPrd CI64 | None => None end
      ?> check_stmt G t ?> check_stmt G e
  | FsPrint _ a next => fbound G a CPrd CI64 ?> check_stmt G next
  | FsCall f args =>
      match find (fun d => cident_eqb (fsdname d) f) defs with
      | None => Some ("call of undefined label " ++ show_cident f)
      | Some d => fargs_ok ("call " ++ show_cident f) G args (fsdctx d)
      end
  | FsExit v => fbound G v CPrd CI64
  end.
End Check.

Fixpoint nodup_by {X} (eqb : X -> X -> bool) (l : list X) : bool :=
  match l with
  | [] => true
  | x :: r => negb (existsb (eqb x) r) && nodup_by eqb r
  end.
Definition cont_name_fs : cident := ("_Cont", 0%N).

Fixpoint check_defs (p : fsprog) (l : list fsdef) : option string :=
  match l with
  | [] => None
  | d :: r =>
      fensure (nodup_by N.eqb (cids (fsdctx d))) ("def " ++ show_cident (fsdname d) ++ ": duplicate parameter id")
      ?> match check_stmt (fspdata p) (fspcodata p) (fspdefs p) (fsdctx d) (fsdbody d) with
         | Some m => Some ("def " ++ show_cident (fsdname d) ++ ": " ++ m)
         | None => check_defs p r
         end
  end.
Definition check_fs (p : fsprog) : option string :=
  let ts := app (fspdata p) (fspcodata p) in
  fensure (chi_ok_fsprog p) "prdcns / polarity fields inconsistent"
  ?> fensure (nodup_by cident_eqb (map ctname ts)) "duplicate type name"
  ?> fensure (negb (existsb (fun t => cident_eqb (ctname t) cont_name_fs) ts)) "_Cont used as a type name"
  ?> fensure (forallb (fun t => nodup_by cident_eqb (map cxname (ctxtors t))) ts) "duplicate xtor name within a type"
  ?> fensure (nodup_by cident_eqb (map fsdname (fspdefs p))) "duplicate definition name"
  ?> check_defs p (fspdefs p).
Definition wt_fs (p : fsprog) : bool := match check_fs p with None => true | Some _ => false end.

(* ---------- unique binders along every path ---------- *)
Definition mem_id (x : N) (l : list N) : bool := existsb (N.eqb x) l.
Fixpoint fresh_ids (scope : list N) (xs : list N) : bool :=
  match xs with
  | [] => true
  | x :: r => negb (mem_id x scope) && fresh_ids (x :: scope) r
  end.
Fixpoint ub_term (scope : list N) (t : fsterm) {struct t} : bool :=
  match t with
  | FsMu _ v s _ => negb (mem_id (cid_id v) scope) && ub_stmt (cid_id v :: scope) s
  | FsXCase _ cls _ =>
      (fix go (cls : list fsclause) : bool :=
         match cls with
         | [] => true
         | FsClause _ _ ctx body :: r => fresh_ids scope (cids ctx) && ub_stmt (rev_append (cids ctx) scope) body && go r
         end) cls
  | _ => true
  end
with ub_stmt (scope : list N) (s : fsstmt) {struct s} : bool :=
  match s with
  | FsCut p _ k => ub_term scope p && ub_term scope k
  | FsIfC _ _ _ t e => ub_stmt scope t && ub_stmt scope e
  | FsPrint _ _ next => ub_stmt scope next
  | FsCall _ _ | FsExit _ => true
  end.
Definition unique_binders (p : fsprog) : bool :=
  forallb (fun d => fresh_ids [] (cids (fsdctx d)) && ub_stmt (cids (fsdctx d)) (fsdbody d)) (fspdefs p).

(* ---------- every variable id (binders, occurrences, parameters) is <= max_id ---------- *)
Section Bounded.
Variable m : N.
Definition id_le (x : cident) : bool := N.leb (cid_id x) m.
Definition ctx_le (c : cctx) : bool := forallb (fun b => id_le (cbvar b)) c.
Fixpoint ib_term (t : fsterm) : bool :=
  match t with
  | FsXVar _ v _ => id_le v
  | FsLit _ => true
  | FsOp a _ b => id_le a && id_le b
  | FsMu _ v s _ => id_le v && ib_stmt s
  | FsXtor _ _ args _ => ctx_le args
  | FsXCase _ cls _ =>
      (fix go (cls : list fsclause) : bool :=
         match cls with [] => true | FsClause _ _ ctx body :: r => ctx_le ctx && ib_stmt body && go r end) cls
  end
with ib_stmt (s : fsstmt) : bool :=
  match s with
  | FsCut p _ k => ib_term p && ib_term k
  | FsIfC _ a b t e => id_le a && match b with Some b' => id_le b' | None => true end && ib_stmt t && ib_stmt e
  | FsPrint _ a next => id_le a && ib_stmt next
  | FsCall _ args => ctx_le args
  | FsExit v => id_le v
  end.
End Bounded.
Definition ids_bounded (p : fsprog) : bool :=
  forallb (fun d => id_le (fspmax p) (fsdname d) && ctx_le (fspmax p) (fsdctx d) && ib_stmt (fspmax p) (fsdbody d)) (fspdefs p).
