(* C14: "labels are well-formed": a label text (defined or referenced) must be an identifier of the
   assemblers' common symbol syntax: letters, digits, `_`, `.`, `$`, not starting with a digit.
   Evaluated on the REAL output of the three back ends by the wf-<isa> commands. *)
From Coq Require Import List String Ascii Bool NArith.
Import ListNotations.

Definition ident_char (c : ascii) : bool :=
  let n := N_of_ascii c in
  ((65 <=? n) && (n <=? 90) || (97 <=? n) && (n <=? 122) || (48 <=? n) && (n <=? 57)
   || (n =? 95) || (n =? 46) || (n =? 36))%N.
Definition digit_char (c : ascii) : bool := let n := N_of_ascii c in ((48 <=? n) && (n <=? 57))%N.
Definition label_text_ok (l : string) : bool :=
  match l with
  | EmptyString => false
  | String c _ => negb (digit_char c) && forallb ident_char (list_ascii_of_string l)
  end.
Definition bad_label (ls : list string) : option string := find (fun l => negb (label_text_ok l)) ls.

Example label_text_examples :
  map label_text_ok ["lab12"; "List_i64_3_Cons"; "main_"; "Pair_List_i64]_i64_122"; "3x"; ""; "a b"]%string
  = [true; true; true; false; false; false; false].
Proof. reflexivity. Qed.
