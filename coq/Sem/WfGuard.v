(* C14: the boolean hypotheses of the theorem "the x86-64 code generator only emits well-formed assembly"
   (Proof/X86WfAll.v: x86_compile_asm_wf), executable so that the run-time check (Model/RunX86.v, step wf-x86)
   evaluates the SAME predicates on every program it sees and reports how many real programs the theorem covers.

   Besides the guards of the label theorems (Sem/LabelGuard.v: labels_guard, calls_guard), the ordered linear
   discipline (Model/LinCheck.v: lin_check_prog - the target of a binary operation is a fresh variable, so
   `imul [mem], reg` is never selected) and the plain names of the simulation theorems (no definition / type is
   named '#...': labels starting with '#' are statement-boundary marks, outside asm_wf's label check), three
   NUMERIC side conditions appear, each the range of an immediate operand:
     literals          every integer literal is a 64-bit value             (`mov r64, imm64`; i64 in the Rust AST)
     substitutions     a Substitute lists at most 2^31 pairs               (`add qword [r + 0], n` with n = number
                       of copies of one variable - 1: a sign-extended imm32)
     xtors             a declared type has at most 2^28 xtors              (`add tmp, 5 * k` of a table jump and
                       `mov [spill], 5 * k` of a tag: sign-extended imm32)
   and, for `code_small` only, a bound on the size of the program. *)
From Coq Require Import List ZArith NArith String Ascii Bool.
From SCC Require Import Base.Sexp Lang.AxSyn Lang.AxSize Model.Backend Model.Linearize Model.LinCheck Sem.X86Wf Sem.LabelGuard.
Import ListNotations.
Local Open Scope list_scope.

Definition lit64 (z : Z) : bool := (Z.leb (-9223372036854775808) z && Z.leb z 9223372036854775807)%Z.
Definition SUBST_MAX : N := 2147483648.     (* 2^31 *)
Definition XTORS_MAX : N := 268435456.      (* 2^28 *)
Definition SIZE_MAX : N := 1099511627776.   (* 2^40 *)

(* every literal is a 64-bit value; every explicit substitution lists at most SUBST_MAX pairs *)
Fixpoint stmt_imm (s : stmt) : bool :=
  let go := fix go (cls : list (ident * ctx * stmt)) : bool :=
    match cls with [] => true | (_, _, b) :: r => stmt_imm b && go r end in
  match s with
  | Substitute re next => N.leb (N.of_nat (List.length re)) SUBST_MAX && stmt_imm next
  | Literal n _ next => lit64 n && stmt_imm next
  | Op _ _ _ _ next | PrintI64 _ _ next | Let _ _ _ _ next => stmt_imm next
  | IfC _ _ _ t e => stmt_imm t && stmt_imm e
  | Call _ _ | Exit _ | Invoke _ _ _ _ => true
  | Switch _ _ cls => go cls
  | Create _ _ _ cls next => go cls && stmt_imm next
  end.
Definition clauses_imm (cls : list clause) : bool := forallb (fun c => stmt_imm (cl_body c)) cls.
Definition xtors_small (types : list tydecl) : bool :=
  forallb (fun d => N.leb (N.of_nat (List.length (txtors d))) XTORS_MAX) types.
Definition imm_guard (p : prog) : bool :=
  forallb (fun d => stmt_imm (dbody d)) (pdefs p) && xtors_small (ptypes p).

(* the same predicates as Proof/SimFrag.v plain_names / plain_types (Proof/X86WfAll.v: plain_names_same) *)
Definition plain_names_b (p : prog) : bool :=
  forallb (fun d => negb (is_hash_label (show_ident (dname d)))) (pdefs p).
Definition plain_types_b (p : prog) : bool :=
  forallb (fun d => negb (is_hash_label (label_of_type_name (show_ident (tname d))))) (ptypes p).

(* all hypotheses of x86_compile_asm_wf but "the code generator returned Ok" *)
Definition wf_guards_x86 (p : prog) : list (string * bool) :=
  [("labels-guard", labels_guard p); ("calls-guard", calls_guard p); ("lin-check", lin_check_prog p);
   ("plain-names", plain_names_b p); ("plain-types", plain_types_b p); ("imm-guard", imm_guard p)]%string.
Definition wf_guard_x86 (p : prog) : bool := forallb snd (wf_guards_x86 p).
(* the first hypothesis a program is outside of (diagnostics of the run-time check) *)
Definition wf_guard_failed (p : prog) : string :=
  match find (fun g => negb (snd g)) (wf_guards_x86 p) with Some g => fst g | None => EmptyString end.

(* the bound under which code_small is a theorem *)
Definition size_guard (p : prog) : bool := N.leb (cg_bound_defs (pdefs p)) SIZE_MAX.
