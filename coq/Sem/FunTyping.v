(* The typing rules of Fun as an executable, declarative specification: [has_type_b : fprog -> bool].

   Written from the typing rules of the language, NOT from check.rs - deliberately different in
   structure from Model/Check.v:
   - no symbol table and no state: the declarations of the program are consulted directly
     ([find_type], [find_xtor], [find_def]); a monomorphic instance T[targs] is never materialised,
     the signature of an xtor at T[targs] is the template signature with the parameters replaced
     positionally by the type arguments ([inst]);
   - types are compared structurally ([fty_eqb]); nothing is keyed by printed names;
   - the typing environment is a FUNCTION from names to (chirality, type): variables and
     covariables live in one namespace, an inner binding hides an outer one whatever its chirality;
   - well-formedness of the declarations is checked strictly and up front: every type written in a
     data/codata declaration must be i64, a parameter of that declaration (without arguments) or a
     declared type applied to the right number of well-formed arguments - whether or not the
     constructor is ever used;
   - the judgement is order-independent: nothing depends on the order of declarations or on which
     types have been mentioned before.

   Rules (checking mode  G |- t <= T; the language gives the type arguments of `case` and of
   destructor calls explicitly, so the only synthesised types are those of the scrutinees):
     x            G(x) = (prd, T)
     n            T = i64
     a op b       T = i64, a, b <= i64
     if a ~ b     a, b <= i64, both branches <= T              (b may be absent: comparison with 0)
     print a; t   a <= i64, t <= T
     let x:S = a; t    S well-formed, a <= S,  G, x:prd S |- t <= T
     f(args)      f : (D) -> T declared,  G |- args <= D
     K(args)      T = N[targs], N data with |params| = |targs|, K(D) in N,  args <= D[targs/params]
     s.d[targs](args)  d(D):R in codata N, targs well-formed, |params| = |targs|,
                  s <= N[targs], args <= D[targs/params], R[targs/params] = T
     s.case[targs]{cls}  cls non-empty, first clause's constructor in data N, targs well-formed,
                  s <= N[targs], the clause constructors are exactly the constructors of N, each once,
                  K(xs) => b : xs distinct, |xs| = |D|,  G, xs : D[targs/params] |- b <= T
     new {cls}    T = N[targs], N codata, clause destructors exactly those of N, each once,
                  d(xs) => b :  G, xs : D[..] |- b <= R[..]
     label a {t}  G, a:cns T |- t <= T
     goto a (t)   G(a) = (cns, S), t <= S                      (any T)
     exit a       a <= i64                                     (any T)
     (t)          t <= T
     def f(D): T { t }   D distinct and well-formed, T well-formed, D |- t <= T;  f = main: T = i64
   Arguments  args <= D: same length; at a producer binding the argument is checked against its
   type; at a consumer binding the argument must be a covariable a with G(a) = (cns, that type).
   Annotation fields (ty/chi) of the parsed program are None; if present they must agree. *)
From Coq Require Import List ZArith NArith String Bool.
From SCC Require Import Base.Sexp Lang.SynUtil Lang.FunSyn.
Import ListNotations.
Open Scope string_scope.
Open Scope list_scope.

(* ---------- the declarations as lookup functions ---------- *)
(* an xtor signature: name, argument bindings, result type (destructors only) *)
Record xsig := mkxsig { xs_name : fname; xs_args : fctx; xs_ret : option fty }.
Record tdecl := mktdecl { td_name : fname; td_pol : fpol; td_params : list fname; td_xtors : list xsig }.

Definition tdecl_of (d : fdecl) : option tdecl :=
  match d with
  | FDData d => Some (mktdecl (fdaname d) FData (fdaparams d)
                        (map (fun c => mkxsig (fctname c) (fctargs c) None) (fdactors d)))
  | FDCodata d => Some (mktdecl (fcoaname d) FCodata (fcoparams d)
                          (map (fun c => mkxsig (fdtname c) (fdtargs c) (Some (fdtcont c))) (fcodtors d)))
  | FDDef _ => None
  end.
Fixpoint tdecls (ds : list fdecl) : list tdecl :=
  match ds with
  | [] => []
  | d :: r => match tdecl_of d with Some t => t :: tdecls r | None => tdecls r end
  end.
Fixpoint fdefs (ds : list fdecl) : list fdef :=
  match ds with
  | [] => []
  | FDDef d :: r => d :: fdefs r
  | _ :: r => fdefs r
  end.

Definition find_type (ts : list tdecl) (n : fname) : option tdecl :=
  find (fun t => String.eqb (td_name t) n) ts.
Definition find_def (fs : list fdef) (f : fname) : option fdef :=
  find (fun d => String.eqb (fdname d) f) fs.
Definition find_xsig (t : tdecl) (x : fname) : option xsig :=
  find (fun s => String.eqb (xs_name s) x) (td_xtors t).
(* the declared type of polarity pol that has an xtor named x *)
Definition find_xtor (ts : list tdecl) (pol : fpol) (x : fname) : option (tdecl * xsig) :=
  match find (fun t => fpol_eqb (td_pol t) pol && is_some (find_xsig t x)) ts with
  | Some t => match find_xsig t x with Some s => Some (t, s) | None => None end
  | None => None
  end.

(* ---------- names ---------- *)
Definition mem (x : fname) (l : list fname) : bool := existsb (String.eqb x) l.
Fixpoint nodup (l : list fname) : bool :=
  match l with [] => true | x :: r => negb (mem x r) && nodup r end.
(* l and k have the same elements, each exactly once *)
Definition same_names (l k : list fname) : bool :=
  nodup l && Nat.eqb (List.length l) (List.length k) && forallb (fun x => mem x k) l.

(* ---------- types ---------- *)
(* monomorphic type: i64 or a declared type applied to as many well-formed types as it has parameters *)
Fixpoint wf_ty (ts : list tdecl) (t : fty) : bool :=
  match t with
  | FI64 => true
  | FDecl n args =>
      match find_type ts n with
      | Some td => Nat.eqb (List.length args) (List.length (td_params td)) && forallb (wf_ty ts) args
      | None => false
      end
  end.
(* type inside a declaration with parameters ps *)
Fixpoint wf_tty (ts : list tdecl) (ps : list fname) (t : fty) : bool :=
  match t with
  | FI64 => true
  | FDecl n args =>
      if mem n ps then match args with [] => true | _ => false end
      else match find_type ts n with
           | Some td => Nat.eqb (List.length args) (List.length (td_params td)) && forallb (wf_tty ts ps) args
           | None => false
           end
  end.
(* positional instantiation of the parameters *)
Fixpoint param_pos (ps : list fname) (n : fname) : option nat :=
  match ps with
  | [] => None
  | p :: r => if String.eqb p n then Some O else match param_pos r n with Some i => Some (S i) | None => None end
  end.
Fixpoint inst (ps : list fname) (targs : list fty) (t : fty) : fty :=
  match t with
  | FI64 => FI64
  | FDecl n args =>
      match param_pos ps n with
      | Some i => nth i targs FI64
      | None => FDecl n (map (inst ps targs) args)
      end
  end.

(* ---------- environments ---------- *)
Definition env := fname -> option (fchi * fty).
Definition env_empty : env := fun _ => None.
Definition extend (G : env) (x : fname) (c : fchi) (t : fty) : env :=
  fun y => if String.eqb y x then Some (c, t) else G y.
(* binders xs at the (instantiated) bindings of a signature; same length assumed *)
Fixpoint extend_sig (G : env) (ps : list fname) (targs : list fty) (xs : list fname) (sg : fctx) : env :=
  match xs, sg with
  | x :: xr, b :: br => extend_sig (extend G x (fbchi b) (inst ps targs (fbty b))) ps targs xr br
  | _, _ => G
  end.
Fixpoint env_of_ctx (G : env) (c : fctx) : env :=
  match c with
  | [] => G
  | b :: r => env_of_ctx (extend G (fbvar b) (fbchi b) (fbty b)) r
  end.

Definition is_prd (G : env) (x : fname) (T : fty) : bool :=
  match G x with Some (FPrd, T') => fty_eqb T' T | _ => false end.
Definition is_cns (G : env) (x : fname) (T : fty) : bool :=
  match G x with Some (FCns, T') => fty_eqb T' T | _ => false end.
Definition cns_ty (G : env) (x : fname) : option fty :=
  match G x with Some (FCns, T') => Some T' | _ => None end.
Definition ann_ok (a : option fty) (T : fty) : bool :=
  match a with None => true | Some t => fty_eqb t T end.

(* the entry point: a definition named `main` returns i64 (its value is the exit code of the program;
   rule added with fix 5b8c76f of /repo - before it the language left the type of main open and the
   translation to Core was ill-typed for any other type, finding main-non-integer-result of C12) *)
Definition main_ret_ok (d : fdef) : bool :=
  if String.eqb (fdname d) "main" then fty_eqb (fdret d) FI64 else true.

(* ---------- the judgement ---------- *)
Section Typing.
  Variable ts : list tdecl.
  Variable fs : list fdef.

  Definition clause_xtor (c : fclause) : fname := match c with FClause _ x _ _ _ => x end.

  (* arguments against a signature instantiated at (ps := targs) *)
  Definition chk_args_with (chk : env -> fterm -> fty -> bool) (G : env) (ps : list fname) (targs : list fty) :=
    fix go (args : list fterm) (sg : fctx) : bool :=
      match args, sg with
      | [], [] => true
      | a :: ar, b :: br =>
          (match fbchi b with
           | FPrd => chk G a (inst ps targs (fbty b))
           | FCns => match a with
                     | FVar x ann chi =>
                         is_cns G x (inst ps targs (fbty b))
                         && ann_ok ann (inst ps targs (fbty b))
                         && match chi with Some FPrd => false | _ => true end
                     | _ => false
                     end
           end) && go ar br
      | _, _ => false
      end.

  (* clauses of a case / new on the declared type td at targs; ret = expected type of the bodies of
     a case; for new the body type is the instantiated result type of the destructor *)
  Definition chk_clauses_with (chk : env -> fterm -> fty -> bool) (G : env) (td : tdecl) (targs : list fty)
             (T : option fty) :=
    fix go (cls : list fclause) : bool :=
      match cls with
      | [] => true
      | FClause _ x xs _ body :: r =>
          (match find_xsig td x with
           | None => false
           | Some s =>
               nodup xs && Nat.eqb (List.length xs) (List.length (xs_args s))
               && match T, xs_ret s with
                  | Some T, _ => chk (extend_sig G (td_params td) targs xs (xs_args s)) body T
                  | None, Some R => chk (extend_sig G (td_params td) targs xs (xs_args s)) body
                                        (inst (td_params td) targs R)
                  | None, None => false
                  end
           end) && go r
      end.

  Fixpoint chk (G : env) (t : fterm) (T : fty) {struct t} : bool :=
    match t with
    | FVar x ann chi =>
        is_prd G x T && ann_ok ann T && match chi with Some FCns => false | _ => true end
    | FLit _ => fty_eqb T FI64
    | FOp a _ b => fty_eqb T FI64 && chk G a FI64 && chk G b FI64
    | FIfC _ a b th el _ =>
        chk G a FI64 && match b with Some b' => chk G b' FI64 | None => true end
        && chk G th T && chk G el T
    | FPrint _ a next _ => chk G a FI64 && chk G next T
    | FLet x S0 a body _ => wf_ty ts S0 && chk G a S0 && chk (extend G x FPrd S0) body T
    | FCall f args _ =>
        match find_def fs f with
        | Some d => fty_eqb (fdret d) T && chk_args_with chk G [] [] args (fdctx d)
        | None => false
        end
    | FCtor k args _ =>
        match T with
        | FI64 => false
        | FDecl n targs =>
            match find_type ts n with
            | Some td =>
                fpol_eqb (td_pol td) FData && Nat.eqb (List.length targs) (List.length (td_params td))
                && match find_xsig td k with
                   | Some s => chk_args_with chk G (td_params td) targs args (xs_args s)
                   | None => false
                   end
            | None => false
            end
        end
    | FDtor s d targs args _ =>
        match find_xtor ts FCodata d with
        | Some (td, sg) =>
            Nat.eqb (List.length targs) (List.length (td_params td)) && forallb (wf_ty ts) targs
            && chk G s (FDecl (td_name td) targs)
            && chk_args_with chk G (td_params td) targs args (xs_args sg)
            && match xs_ret sg with Some R => fty_eqb (inst (td_params td) targs R) T | None => false end
        | None => false
        end
    | FCase s targs cls _ =>
        match cls with
        | [] => false
        | c0 :: _ =>
            match find_xtor ts FData (clause_xtor c0) with
            | Some (td, _) =>
                Nat.eqb (List.length targs) (List.length (td_params td)) && forallb (wf_ty ts) targs
                && chk G s (FDecl (td_name td) targs)
                && same_names (map clause_xtor cls) (map xs_name (td_xtors td))
                && chk_clauses_with chk G td targs (Some T) cls
            | None => false
            end
        end
    | FNew cls _ =>
        match T with
        | FI64 => false
        | FDecl n targs =>
            match find_type ts n with
            | Some td =>
                fpol_eqb (td_pol td) FCodata && Nat.eqb (List.length targs) (List.length (td_params td))
                && same_names (map clause_xtor cls) (map xs_name (td_xtors td))
                && chk_clauses_with chk G td targs None cls
            | None => false
            end
        end
    | FLabel a t _ => chk (extend G a FCns T) t T
    | FGoto a t _ => match cns_ty G a with Some S0 => chk G t S0 | None => false end
    | FExit a _ => chk G a FI64
    | FParen t => chk G t T
    end.

  Definition chk_args := chk_args_with chk.
  Definition chk_clauses := chk_clauses_with chk.

  (* a definition: distinct parameters of well-formed types, well-formed result type, body; the
     result of the entry point `main` is the exit code of the program, an integer *)
  Definition def_ok (d : fdef) : bool :=
    main_ret_ok d
    && nodup (map fbvar (fdctx d)) && forallb (fun b => wf_ty ts (fbty b)) (fdctx d)
    && wf_ty ts (fdret d) && chk (env_of_ctx env_empty (fdctx d)) (fdbody d) (fdret d).
End Typing.

(* ---------- declarations ---------- *)
Definition xsig_ok (ts : list tdecl) (ps : list fname) (s : xsig) : bool :=
  forallb (fun b => wf_tty ts ps (fbty b)) (xs_args s)
  && match xs_ret s with Some R => wf_tty ts ps R | None => true end.
Definition tdecl_ok (ts : list tdecl) (t : tdecl) : bool :=
  nodup (td_params t)
  && forallb (fun p => negb (is_some (find_type ts p))) (td_params t)
  && forallb (xsig_ok ts (td_params t)) (td_xtors t).
Definition xtor_names (pol : fpol) (ts : list tdecl) : list fname :=
  flat_map (fun t => if fpol_eqb (td_pol t) pol then map xs_name (td_xtors t) else []) ts.
(* type names, constructor names (over all data types), destructor names (over all codata types)
   and definition names are each declared once *)
Definition names_ok (ts : list tdecl) (fs : list fdef) : bool :=
  nodup (map td_name ts) && nodup (xtor_names FData ts) && nodup (xtor_names FCodata ts)
  && nodup (map fdname fs).
Definition decls_ok (ts : list tdecl) : bool := forallb (tdecl_ok ts) ts.

Definition has_type_b (p : fprog) : bool :=
  let ts := tdecls (fpdecls p) in
  let fs := fdefs (fpdecls p) in
  names_ok ts fs && decls_ok ts && forallb (def_ok ts fs) fs.
Definition has_type (p : fprog) : Prop := has_type_b p = true.

(* ---------- classification of ill-formed declaration types (diagnostic only) ----------
   Until fix eb42971 of /repo the real checker looked only at the HEAD name of a type inside a
   data/codata declaration (former finding C15-lazy-declaration-types).  [has_type_lax_b] is has_type_b with exactly that
   weakening; [tty_defect] names the shape of the first defect of a declaration type. *)
Definition head_ok (ts : list tdecl) (ps : list fname) (t : fty) : bool :=
  match t with
  | FI64 => true
  | FDecl n _ => mem n ps || is_some (find_type ts n)
  end.
Definition xsig_ok_lax (ts : list tdecl) (ps : list fname) (s : xsig) : bool :=
  forallb (fun b => head_ok ts ps (fbty b)) (xs_args s)
  && match xs_ret s with Some R => head_ok ts ps R | None => true end.
Definition tdecl_ok_lax (ts : list tdecl) (t : tdecl) : bool :=
  nodup (td_params t)
  && forallb (fun p => negb (is_some (find_type ts p))) (td_params t)
  && forallb (xsig_ok_lax ts (td_params t)) (td_xtors t).
Definition has_type_lax_b (p : fprog) : bool :=
  let ts := tdecls (fpdecls p) in
  let fs := fdefs (fpdecls p) in
  names_ok ts fs && forallb (tdecl_ok_lax ts) ts && forallb (def_ok ts fs) fs.

Fixpoint tty_defect (ts : list tdecl) (ps : list fname) (top : bool) (t : fty) : option string :=
  match t with
  | FI64 => None
  | FDecl n args =>
      if mem n ps then match args with [] => None | _ => Some "param-applied" end
      else match find_type ts n with
           | None => Some (if top then "unknown-type-head" else "unknown-type-argument")
           | Some td =>
               if negb (Nat.eqb (List.length args) (List.length (td_params td))) then Some "type-arg-count"
               else (fix go (l : list fty) : option string :=
                       match l with
                       | [] => None
                       | a :: r => match tty_defect ts ps false a with Some d => Some d | None => go r end
                       end) args
           end
  end.
Definition first_some {X} (f : X -> option string) (l : list X) : option string :=
  fold_right (fun x acc => match f x with Some d => Some d | None => acc end) None l.
Definition decl_defect (ts : list tdecl) : option string :=
  first_some (fun t =>
    first_some (fun s =>
      match first_some (fun b => tty_defect ts (td_params t) true (fbty b)) (xs_args s) with
      | Some d => Some d
      | None => match xs_ret s with Some R => tty_defect ts (td_params t) true R | None => None end
      end) (td_xtors t)) ts.

(* why a program is ill-typed: the first failing group of rules (diagnostic only) *)
Definition ill_reason (p : fprog) : string :=
  let ts := tdecls (fpdecls p) in
  let fs := fdefs (fpdecls p) in
  if negb (names_ok ts fs) then "duplicate-declaration"
  else if negb (forallb (fun t => nodup (td_params t) && forallb (fun p => negb (is_some (find_type ts p))) (td_params t)) ts)
  then "type-parameters"
  else if negb (decls_ok ts)
  then "template-type-ill-formed:" ++ match decl_defect ts with Some d => d | None => "other" end
       ++ (if has_type_lax_b p then " lax=accepts" else " lax=rejects")
  else match find (fun d => negb (def_ok ts fs d)) fs with
       | Some d =>
           if nodup (map fbvar (fdctx d)) && forallb (fun b => wf_ty ts (fbty b)) (fdctx d) && wf_ty ts (fdret d)
           then (if main_ret_ok d then "def-body" else "main-result-not-i64") else "def-signature"
       | None => "well-typed"
       end.
