(* ======================================================================================
   Sem/CoreSem  -  executable abstract machine for Core (the sequent-calculus IR), for the
   unfocused programs produced by fun2core ([cprog], before or after `uniquify`) and for the
   focused programs produced by `focus` ([fsprog], run through the embedding [fs2c_prog]).
   Observations, outcomes and arithmetic are those of Sem/AxSem ([obs], [outcome], [wrap],
   [eval_op], [eval_cmp]); binary operators and comparison sorts are converted.

   Every decision taken here, in one place (DESIGN section 3.3):

   SHAPE       A small-step machine [cstep] iterated by [crun] under fuel; ONE unit of fuel per
               machine transition (finer than AxSem's one unit per statement: evaluating an
               argument list takes one transition per argument).  [fuel = 0] -> OOutOfFuel with
               the prints made so far.  Environments and closures; no syntactic substitution.
   ENV         cenv = list (cident * bval), new bindings in FRONT; lookup by the WHOLE identifier
               (name and id, [cident_eqb]), first match.  Variables and covariables live in ONE
               namespace (Fun's TypingContext::lookup_* does the same and fun2core draws x<n> and
               a<n> from one set); the chirality of an occurrence is checked against the kind of
               the value found (OStuck "...-kind" on mismatch).  Before `uniquify` all ids are 0
               and the names decide - which is what makes a capture by fun2core observable.
   VALUES      producers  pval = PInt z | PCtor tag args | PCocase clauses env
                               | PThunk a s env     (mu a.s of a codata type, bound BY NAME,
                                                     re-run every time a destructor meets it)
                               | PDelay m           (a delayed machine continuation, see ARGUMENTS)
               consumers  kval = KMuT x s env | KCase clauses env | KDtor tag args
                               | KRet m             (machine continuation waiting for the value of
                                                     an argument)
               bval = BP pval | BK kval  (what an identifier is bound to / an evaluated argument)
   CODATA?     [is_codata p ty]: ty = Decl n and n names an entry of the program's codata_types
               (Ty::is_codata in core_lang; every other Decl counts as data, as in core2axcut).
   CUT         <p | c> at type ty, cases tried in the order of `Cut::focus` (core_lang):
                 1. p = C(args)        evaluate args (ARGUMENTS), build PCtor, then as 4 with c
                 2. c = D(args)        evaluate args, build KDtor, then as 4 with p
                 3. p = a op b         evaluate a, then b, compute (AxSem.eval_op), then as 4
                 4. both are heads:  p in {x, n, mu a.s, cocase}, c in {a, mu~ x.s, case}:
                      the consumer head is turned into a kval first (covariable: lookup;
                      mu~: closure; case: closure), then
                      - p = mu a.s:  CRITICAL PAIR when the consumer is a mu~-closure:
                          ty is codata -> consumer first: x := PThunk a s env, run the mu~ body
                          otherwise    -> producer first: a := consumer, run s  (call by value)
                        no critical pair -> a := consumer, run s
                      - p a value (literal, cocase closure, variable lookup):
                          consumer KMuT x s -> x := value, run s
                          value PThunk a s  -> a := consumer, run s          (forcing)
                          value PDelay m    -> resume m with the consumer
                          KRet m            -> resume m with the value
                          KCase / PCtor     -> FIRST clause whose xtor equals the tag; clause
                                               context bound positionally to the fields, in
                                               front of the closure environment
                          PCocase / KDtor   -> likewise (the destructor's arguments, its
                                               continuation last, are bound to the clause context)
                          anything else     -> OStuck
   ARGUMENTS   of constructors, destructors, calls, operators, ifc, print, exit: evaluated
               left to right, innermost first, exactly as `bind`/`bind_many` of focus.rs sequence
               them (so that focusing preserves this semantics by construction):
                 variable / covariable   looked up (no evaluation)
                 literal                 PInt
                 a op b                  a, then b, then the operation
                 C(args) / D(args)       args, then the PCtor / KDtor
                 cocase / case           closure
                 mu a.s   (producer)     ty codata -> PThunk a s env (by name, not run)
                                         otherwise -> run s with a := KRet m (m = rest of the
                                                      argument evaluation); the value cut against
                                                      a resumes m                 (by value)
                 mu~ x.s  (consumer)     ty codata -> run s with x := PDelay m: the REST of the
                                                      surrounding statement is delayed by name
                                                      and resumed when x meets a destructor
                                                      (focus gives < mu a.REST(a) | mu~ x.s >)
                                         otherwise -> KMuT closure
   STATEMENTS  ifc: fst, snd (None compares with 0), AxSem.eval_cmp, branch.
               print: argument (must be PInt), output, next.   exit: argument -> OExit.
               call f(args): args, then the FIRST definition named f ([cident_eqb]); parameters
               bound positionally; the callee starts in exactly that environment.
   INTEGERS    AxSem: 64-bit wrap after + - *, truncating / and %, OUndef "div0" / "overflow".
   ENTRY       the FIRST definition, `defs[0]` (fun2core::compile_prog moves `main` and the
               statements lifted out of it to the front; the driver reads number_of_arguments
               from the first definition of the AxCut program).  Its parameters must all be
               producers and are bound positionally to the integer arguments; otherwise
               OStuck "entry-args"; empty program OStuck "no-defs".  `main` compiled by
               fun2core ends in `exit x`, so a terminating run has outcome OExit (main's result).
   FOCUSED     [run_fs fuel p args] = [run_core fuel (fs2c_prog p) args]: FsOp/FsXtor/FsCall/
               FsIfC/FsPrint/FsExit become the unfocused forms with variable arguments (FsOp,
               FsIfC, FsPrint, FsExit operands get type I64; FsCall gets the dummy type I64).
   ====================================================================================== *)
From Coq Require Import List ZArith NArith String Bool.
From SCC Require Import Base.Sexp Lang.SynUtil Lang.CoreSyn.
From SCC Require Lang.AxSyn.
From SCC Require Import Sem.AxSem.
Import ListNotations.
Open Scope string_scope.
Open Scope list_scope.

(* ---------- conversion of operators to AxSem's ---------- *)
Definition ax_binop (o : cbinop) : AxSyn.binop :=
  match o with
  | CDiv => AxSyn.Div | CProd => AxSyn.Prod | CRem => AxSyn.Rem | CSum => AxSyn.Sum | CSub => AxSyn.Sub
  end.
Definition ax_ifsort (s : cifsort) : AxSyn.ifsort :=
  match s with
  | CEq => AxSyn.Eq | CNe => AxSyn.Ne | CLt => AxSyn.Lt | CLe => AxSyn.Le | CGt => AxSyn.Gt | CGe => AxSyn.Ge
  end.

(* ---------- machine values ---------- *)
Inductive pval :=
| PInt (z : Z)
| PCtor (tag : cident) (args : list bval)
| PCocase (cls : list cclause) (e : list (cident * bval))
| PThunk (a : cident) (s : cstmt) (e : list (cident * bval))
| PDelay (m : mk)
with kval :=
| KMuT (x : cident) (s : cstmt) (e : list (cident * bval))
| KCase (cls : list cclause) (e : list (cident * bval))
| KDtor (tag : cident) (args : list bval)
| KRet (m : mk)
with bval :=
| BP (p : pval)
| BK (k : kval)
(* machine continuation: what to do with the argument value just obtained *)
with mk :=
| MArgs (done : list bval) (rest : list carg) (e : list (cident * bval)) (f : fin)
| MOpL (o : cbinop) (b : cterm) (e : list (cident * bval)) (m : mk)
| MOpR (o : cbinop) (x : Z) (m : mk)
| MIf1 (s : cifsort) (b : option cterm) (t el : cstmt) (e : list (cident * bval))
| MIf2 (s : cifsort) (x : Z) (t el : cstmt) (e : list (cident * bval))
| MPrint (nl : bool) (next : cstmt) (e : list (cident * bval))
| MExit
| MCutK (k : cterm) (e : list (cident * bval))                  (* producer value known; consumer head k *)
| MCutP (codata : bool) (p : cterm) (e : list (cident * bval))  (* consumer value known; producer head p *)
with fin :=
| FCall (f : cident)
| FXtorP (tag : cident) (m : mk)
| FXtorK (tag : cident) (m : mk).

Definition cenv := list (cident * bval).

Inductive config :=
| Run (s : cstmt) (e : cenv)
| Arg (a : carg) (e : cenv) (m : mk)
| App (m : mk) (b : bval).

Inductive sres :=
| SNext (c : config)
| SPrint (nl : bool) (z : Z) (c : config)
| SHalt (o : outcome).

(* ---------- helpers ---------- *)
Fixpoint clookup (e : cenv) (x : cident) : option bval :=
  match e with
  | [] => None
  | (y, v) :: r => if cident_eqb y x then Some v else clookup r x
  end.
(* positional binding, in front of [e]; None when the lengths differ *)
Fixpoint cbind (xs : list cident) (vs : list bval) (e : cenv) : option cenv :=
  match xs, vs with
  | [], [] => Some e
  | x :: xr, v :: vr => match cbind xr vr e with Some e' => Some ((x, v) :: e') | None => None end
  | _, _ => None
  end.
Definition is_codata (p : cprog) (t : cty) : bool :=
  match t with
  | CI64 => false
  | CDecl n => existsb (fun d => cident_eqb (ctname d) n) (cpcodata p)
  end.
Definition cfind_def (p : cprog) (f : cident) : option cdef :=
  find (fun d => cident_eqb (cdname d) f) (cpdefs p).
Definition cl_xtor (c : cclause) : cident := match c with CClause _ x _ _ => x end.
Definition cl_ctx (c : cclause) : cctx := match c with CClause _ _ ctx _ => ctx end.
Definition cl_body (c : cclause) : cstmt := match c with CClause _ _ _ b => b end.
Definition cfind_clause (cls : list cclause) (tag : cident) : option cclause :=
  find (fun c => cident_eqb (cl_xtor c) tag) cls.

Definition stuck (why : string) : sres := SHalt (OStuck why).

Definition select (cls : list cclause) (ce : cenv) (tag : cident) (args : list bval) : sres :=
  match cfind_clause cls tag with
  | None => stuck "no-clause"
  | Some c =>
      match cbind (cvars (cl_ctx c)) args ce with
      | Some e' => SNext (Run (cl_body c) e')
      | None => stuck "clause-arity"
      end
  end.

(* a producer VALUE meets a consumer value *)
Definition interact_val (pv : pval) (kv : kval) : sres :=
  match kv with
  | KMuT x s e => SNext (Run s ((x, BP pv) :: e))
  | _ =>
      match pv with
      | PThunk a s e => SNext (Run s ((a, BK kv) :: e))
      | PDelay m => SNext (App m (BK kv))
      | _ =>
          match kv with
          | KRet m => SNext (App m (BP pv))
          | KCase cls ce =>
              match pv with
              | PCtor tag args => select cls ce tag args
              | _ => stuck "case-kind"
              end
          | KDtor tag args =>
              match pv with
              | PCocase cls ce => select cls ce tag args
              | _ => stuck "dtor-kind"
              end
          | KMuT x s e => SNext (Run s ((x, BP pv) :: e))
          end
      end
  end.

(* the syntactic producer mu a.s (in environment e) meets a consumer value *)
Definition interact_mu (codata : bool) (a : cident) (s : cstmt) (e : cenv) (kv : kval) : sres :=
  match codata, kv with
  | true, KMuT x s' e' => SNext (Run s' ((x, BP (PThunk a s e)) :: e'))
  | _, _ => SNext (Run s ((a, BK kv) :: e))
  end.

Definition khead (k : cterm) (e : cenv) : sum kval string :=
  match k with
  | CXVar _ v _ =>
      match clookup e v with
      | Some (BK kv) => inl kv
      | Some (BP _) => inr "covar-kind"
      | None => inr "covar-unbound"
      end
  | CMu _ x s _ => inl (KMuT x s e)
  | CXCase _ cls _ => inl (KCase cls e)
  | _ => inr "consumer-form"
  end.

(* producer head p (in e) against consumer value kv *)
Definition cut_with_k (codata : bool) (p : cterm) (e : cenv) (kv : kval) : sres :=
  match p with
  | CMu _ a s _ => interact_mu codata a s e kv
  | CXVar _ v _ =>
      match clookup e v with
      | Some (BP pv) => interact_val pv kv
      | Some (BK _) => stuck "var-kind"
      | None => stuck "var-unbound"
      end
  | CLit n => interact_val (PInt n) kv
  | CXCase _ cls _ => interact_val (PCocase cls e) kv
  | _ => stuck "producer-form"
  end.

Definition finish_args (p : cprog) (f : fin) (vals : list bval) : sres :=
  match f with
  | FCall fn =>
      match cfind_def p fn with
      | None => stuck "call-label"
      | Some d =>
          match cbind (cvars (cdctx d)) vals [] with
          | Some e' => SNext (Run (cdbody d) e')
          | None => stuck "call-arity"
          end
      end
  | FXtorP tag m => SNext (App m (BP (PCtor tag vals)))
  | FXtorK tag m => SNext (App m (BK (KDtor tag vals)))
  end.
Definition start_args (p : cprog) (args : list carg) (e : cenv) (f : fin) : sres :=
  match args with
  | [] => finish_args p f []
  | a :: r => SNext (Arg a e (MArgs [] r e f))
  end.

Definition as_int (b : bval) : option Z := match b with BP (PInt z) => Some z | _ => None end.

(* ---------- one machine transition ---------- *)
Definition cstep (p : cprog) (c : config) : sres :=
  match c with
  | Run s e =>
      match s with
      | CCut pr ty k =>
          match pr, k with
          | CXtor _ tag args _, _ => start_args p args e (FXtorP tag (MCutK k e))
          | _, CXtor _ tag args _ => start_args p args e (FXtorK tag (MCutP (is_codata p ty) pr e))
          | COp a o b, _ => SNext (Arg (CProducer a) e (MOpL o b e (MCutK k e)))
          | _, _ =>
              match khead k e with
              | inl kv => cut_with_k (is_codata p ty) pr e kv
              | inr why => stuck why
              end
          end
      | CIfC so a b t el => SNext (Arg (CProducer a) e (MIf1 so b t el e))
      | CPrint nl a next => SNext (Arg (CProducer a) e (MPrint nl next e))
      | CCall f args _ => start_args p args e (FCall f)
      | CExit a _ => SNext (Arg (CProducer a) e MExit)
      end
  | Arg (CProducer t) e m =>
      match t with
      | CXVar _ v _ =>
          match clookup e v with
          | Some (BP pv) => SNext (App m (BP pv))
          | Some (BK _) => stuck "var-kind"
          | None => stuck "var-unbound"
          end
      | CLit n => SNext (App m (BP (PInt n)))
      | COp a o b => SNext (Arg (CProducer a) e (MOpL o b e m))
      | CMu _ a s ty =>
          if is_codata p ty then SNext (App m (BP (PThunk a s e)))
          else SNext (Run s ((a, BK (KRet m)) :: e))
      | CXtor _ tag args _ => start_args p args e (FXtorP tag m)
      | CXCase _ cls _ => SNext (App m (BP (PCocase cls e)))
      end
  | Arg (CConsumer t) e m =>
      match t with
      | CXVar _ v _ =>
          match clookup e v with
          | Some (BK kv) => SNext (App m (BK kv))
          | Some (BP _) => stuck "covar-kind"
          | None => stuck "covar-unbound"
          end
      | CMu _ x s ty =>
          if is_codata p ty then SNext (Run s ((x, BP (PDelay m)) :: e))
          else SNext (App m (BK (KMuT x s e)))
      | CXtor _ tag args _ => start_args p args e (FXtorK tag m)
      | CXCase _ cls _ => SNext (App m (BK (KCase cls e)))
      | _ => stuck "consumer-form"
      end
  | App m b =>
      match m with
      | MArgs done rest e f =>
          match rest with
          | [] => finish_args p f (rev_append (b :: done) [])
          | a :: r => SNext (Arg a e (MArgs (b :: done) r e f))
          end
      | MOpL o t e m' =>
          match as_int b with
          | Some x => SNext (Arg (CProducer t) e (MOpR o x m'))
          | None => stuck "op-operand"
          end
      | MOpR o x m' =>
          match as_int b with
          | Some y =>
              match eval_op (ax_binop o) x y with
              | OpVal z => SNext (App m' (BP (PInt z)))
              | OpUndef why => SHalt (OUndef why)
              end
          | None => stuck "op-operand"
          end
      | MIf1 so t2 t el e =>
          match as_int b with
          | Some x =>
              match t2 with
              | None => SNext (Run (if eval_cmp (ax_ifsort so) x 0 then t else el) e)
              | Some t2 => SNext (Arg (CProducer t2) e (MIf2 so x t el e))
              end
          | None => stuck "ifc-operand"
          end
      | MIf2 so x t el e =>
          match as_int b with
          | Some y => SNext (Run (if eval_cmp (ax_ifsort so) x y then t else el) e)
          | None => stuck "ifc-operand"
          end
      | MPrint nl next e =>
          match as_int b with
          | Some z => SPrint nl z (Run next e)
          | None => stuck "print-operand"
          end
      | MExit =>
          match as_int b with
          | Some z => SHalt (OExit z)
          | None => stuck "exit-operand"
          end
      | MCutK k e =>
          match b with
          | BP pv =>
              match khead k e with
              | inl kv => interact_val pv kv
              | inr why => stuck why
              end
          | BK _ => stuck "cut-kind"
          end
      | MCutP codata pr e =>
          match b with
          | BK kv => cut_with_k codata pr e kv
          | BP _ => stuck "cut-kind"
          end
      end
  end.

Fixpoint crun (fuel : nat) (p : cprog) (c : config) (out : prints) {struct fuel} : obs :=
  match fuel with
  | O => finish out OOutOfFuel
  | S fuel =>
      match cstep p c with
      | SNext c' => crun fuel p c' out
      | SPrint nl z c' => crun fuel p c' ((nl, z) :: out)
      | SHalt o => finish out o
      end
  end.

(* ---------- whole programs ---------- *)
Definition centry_env (d : cdef) (args : list Z) : option cenv :=
  if forallb (fun b => match cbchi b with CPrd => true | CCns => false end) (cdctx d)
  then cbind (cvars (cdctx d)) (map (fun z => BP (PInt z)) args) []
  else None.

Definition run_core (fuel : nat) (p : cprog) (args : list Z) : obs :=
  match cpdefs p with
  | [] => ([], OStuck "no-defs")
  | d :: _ =>
      match centry_env d args with
      | Some e => crun fuel p (Run (cdbody d) e) []
      | None => ([], OStuck "entry-args")
      end
  end.

(* ---------- focused programs: embedding into the unfocused syntax ---------- *)
Definition fs_var (v : cident) : cterm := CXVar CPrd v CI64.
Definition fs_arg (b : cbinding) : carg :=
  match cbchi b with
  | CPrd => CProducer (CXVar CPrd (cbvar b) (cbty b))
  | CCns => CConsumer (CXVar CCns (cbvar b) (cbty b))
  end.
Fixpoint fs2c_term (t : fsterm) : cterm :=
  match t with
  | FsXVar c v ty => CXVar c v ty
  | FsLit n => CLit n
  | FsOp a o b => COp (fs_var a) o (fs_var b)
  | FsMu c v s ty => CMu c v (fs2c_stmt s) ty
  | FsXtor c x args ty => CXtor c x (map fs_arg args) ty
  | FsXCase c cls ty =>
      CXCase c ((fix go (l : list fsclause) : list cclause :=
                   match l with [] => [] | y :: r => fs2c_clause y :: go r end) cls) ty
  end
with fs2c_clause (c : fsclause) : cclause :=
  match c with FsClause ch x ctx body => CClause ch x ctx (fs2c_stmt body) end
with fs2c_stmt (s : fsstmt) : cstmt :=
  match s with
  | FsCut p ty k => CCut (fs2c_term p) ty (fs2c_term k)
  | FsIfC so a b t el => CIfC so (fs_var a) (option_map fs_var b) (fs2c_stmt t) (fs2c_stmt el)
  | FsPrint nl a next => CPrint nl (fs_var a) (fs2c_stmt next)
  | FsCall f args => CCall f (map fs_arg args) CI64
  | FsExit v => CExit (fs_var v) CI64
  end.
Definition fs2c_def (d : fsdef) : cdef := mkcd (fsdname d) (fsdctx d) (fs2c_stmt (fsdbody d)).
Definition fs2c_prog (p : fsprog) : cprog :=
  mkcp (map fs2c_def (fspdefs p)) (fspdata p) (fspcodata p) (fspmax p).

Definition run_fs (fuel : nat) (p : fsprog) (args : list Z) : obs :=
  run_core fuel (fs2c_prog p) args.

(* ---------- rendering the output as the runtime prints it (print_i64 / println_i64 of
   /repo/infrastructure: decimal digits, `-` for negatives, "\n" after println) ---------- *)
Definition render_prints (ps : prints) : string :=
  fold_right (fun (pz : bool * Z) acc => (z_to_string (snd pz) ++ (if fst pz then nl else "") ++ acc)%string) "" ps.
