(* The sequence of environments (as kind strings: e = integer, p = object or closure) at the
   statements the AxCut linear machine executes; small-step rendering of Sem/AxSem.exec_linear.
   Used to give the heap-invariant runner its roots when it follows the implementation's own
   statement markers. *)
From Coq Require Import List ZArith NArith String Ascii Bool.
From SCC Require Import Base.Sexp Lang.AxSyn Sem.AxSem.
Import ListNotations.
Open Scope string_scope.
Open Scope list_scope.

Definition kinds_of_env (e : env) : string :=
  fold_right (fun (p : ident * value) acc => String (match snd p with VInt _ => "e"%char | _ => "p"%char end) acc) "" e.

Definition lstep (p : prog) (e : env) (s : stmt) : option (env * stmt) :=
  match s with
  | Substitute re next =>
      match lookups e (map snd re) with
      | Some vs => match bind (map (fun r => bvar (fst r)) re) vs with Some e' => Some (e', next) | None => None end
      | None => None
      end
  | Call l _ =>
      match find_def p l with
      | None => None
      | Some d => match bind (vars (dctx d)) (map snd e) with Some e' => Some (e', dbody d) | None => None end
      end
  | Let v t tag args next =>
      match ty_name t, split_last (List.length args) e with
      | Some tn, Some (e0, fs) =>
          if ids_eqb (env_ids fs) (ids args) then Some (e0 ++ [(v, VObj tn tag (map snd fs))], next) else None
      | _, _ => None
      end
  | Switch v t cls =>
      match split_last 1 e with
      | Some (e0, [(x, VObj _ tag fs)]) =>
          if N.eqb (idn x) (idn v) then
            match find_clause cls tag with
            | None => None
            | Some c => match bind (vars (cl_ctx c)) fs with Some e1 => Some (e0 ++ e1, cl_body c) | None => None end
            end
          else None
      | _ => None
      end
  | Create v t (Some cenv) cls next =>
      match ty_name t, split_last (List.length cenv) e with
      | Some tn, Some (e0, cap) =>
          if ids_eqb (env_ids cap) (ids cenv)
          then match bind (vars cenv) (map snd cap) with
               | Some ce => Some (e0 ++ [(v, VClo tn cls ce)], next)
               | None => None
               end
          else None
      | _, _ => None
      end
  | Create _ _ None _ _ => None
  | Invoke v tag t _ =>
      match split_last 1 e with
      | Some (e0, [(x, VClo _ cls ce)]) =>
          if N.eqb (idn x) (idn v) then
            match find_clause cls tag with
            | None => None
            | Some c => match bind (vars (cl_ctx c)) (map snd e0) with Some e1 => Some (e1 ++ ce, cl_body c) | None => None end
            end
          else None
      | _ => None
      end
  | Literal n v next => Some (e ++ [(v, VInt n)], next)
  | Op a o b v next =>
      match lookup_int e a, lookup_int e b with
      | Some x, Some y => match eval_op o x y with OpVal z => Some (e ++ [(v, VInt z)], next) | OpUndef _ => None end
      | _, _ => None
      end
  | PrintI64 nl v next => match lookup_int e v with Some _ => Some (e, next) | None => None end
  | IfC so a b t el =>
      match lookup_int e a, match b with Some b => lookup_int e b | None => Some 0%Z end with
      | Some x, Some y => Some (e, if eval_cmp so x y then t else el)
      | _, _ => None
      end
  | Exit _ => None
  end.

Fixpoint trace_from (fuel : nat) (p : prog) (e : env) (s : stmt) (acc : list string) : list string :=
  match fuel with
  | O => rev_append acc []
  | S f =>
      let acc' := kinds_of_env e :: acc in
      match lstep p e s with
      | Some (e', s') => trace_from f p e' s' acc'
      | None => rev_append acc' []
      end
  end.

Definition trace_linear (fuel : nat) (p : prog) (args : list Z) : list string :=
  match pdefs p with
  | [] => []
  | d :: _ => match entry_env d args with Some e => trace_from fuel p e (dbody d) [] | None => [] end
  end.
