(* ======================================================================================
   Sem/FunSem  -  executable reference semantics of CHECKED Fun programs (CheckedProgram: every
   annotation present, clause contexts filled, type declarations monomorphic).  A CEK-style
   machine: control = term, environment, continuation; small steps [fstep] iterated by [frun]
   under fuel (one unit per transition).  Observations are AxSem's.

   This is the source semantics of properties C01/C02: 64-bit wrapping arithmetic, truncating
   division, eager evaluation of integers and data, by-name evaluation of codata, first-class
   labels, immediate termination on exit.  Every decision, in one place (DESIGN section 3.3):

   ENV         list (name * binding), new bindings in front, first match.  Variables and
               covariables share ONE namespace (TypingContext::lookup_var / lookup_covar search
               the same list of bindings from the back); an occurrence whose kind does not fit
               the binding found is OStuck.  A callee starts with exactly its parameters.
   VALUES      FvInt z | FvCtor tag fields | FvNew clauses env (a `new {..}` is a value: closure)
               | FvThunk term env  (a codata-typed let-binding, argument or field: BY NAME; the
               term is re-run at every destructor call that reaches it - no memoisation)
               fields/arguments may also be continuations (FbK k): consumer parameters
               `a :cns T` take first-class labels.
   CODATA?     [f_is_codata]: the printed instance name of the type (`Stream[i64]`) is the name
               of an entry of CheckedProgram.codata_types (this is what fun2core's
               `compile_ty(..).is_codata(codata_types)` decides on).
   ORDER       integers and data are evaluated eagerly, left to right:
               op: fst, snd.  ifc: fst, snd (absent = compare with 0), then ONE branch.
               call f(args) / K(args): args left to right, then the call / the constructor value.
               t.d(args): args left to right FIRST, then the scrutinee t, then the clause of the
               codata value (a thunk met by a destructor is forced: its term is evaluated with
               the destructor as continuation).  (The order args-before-scrutinee only matters
               if both have effects, which C02's precondition excludes; it is the order the
               translation + focusing give.)
               t.case{..}: scrutinee, then the FIRST clause with the constructor's name; the
               clause CONTEXT (Clause.context, the typed one) is bound positionally.
               An argument that is a covariable occurrence (XVar with chi = Cns) is looked up
               and passed as a continuation; an argument of codata type is NOT evaluated:
               a variable is looked up, anything else becomes FvThunk.
   LET         let x : T = t; u   T codata -> x := FvThunk t env (by name);  otherwise t is
               evaluated and x bound to its value.
   LABELS      label a { t }: a := the current continuation, t evaluated with that same
               continuation.  goto a (t): t evaluated with the continuation bound to a (the
               current continuation is dropped).  Continuations are first class (can be passed
               to consumer parameters and stored in constructor fields).
   EXIT/PRINT  exit t: t evaluated, the program stops with OExit.  print_i64/println_i64(t); u:
               t evaluated, (newline?, value) appended to the output, then u with the current
               continuation.
   INTEGERS    AxSem.eval_op / eval_cmp: wrap after + - *, Z.quot / Z.rem, OUndef "div0" for a
               zero divisor and OUndef "overflow" for min_int / -1 and min_int % -1.
   ENTRY       the definition NAMED `main` (OStuck "no-main" otherwise; fun2core moves it to the
               front, the Core/AxCut machines start at defs[0]); its parameters are bound
               positionally to the integer arguments (count mismatch or a consumer parameter:
               OStuck "entry-args"); when its body returns an integer z the outcome is OExit z
               (the translation's `mu~x. exit x`), any other result is OStuck "main-result".
   ====================================================================================== *)
From Coq Require Import List ZArith NArith String Bool.
From SCC Require Import Base.Sexp Lang.SynUtil Lang.FunSyn Lang.FunTy.
From SCC Require Lang.AxSyn.
From SCC Require Import Sem.AxSem.
Import ListNotations.
Open Scope string_scope.
Open Scope list_scope.

Definition ax_fbinop (o : fbinop) : AxSyn.binop :=
  match o with
  | FDiv => AxSyn.Div | FProd => AxSyn.Prod | FRem => AxSyn.Rem | FSum => AxSyn.Sum | FSub => AxSyn.Sub
  end.
Definition ax_fifsort (s : fifsort) : AxSyn.ifsort :=
  match s with
  | FEq => AxSyn.Eq | FNe => AxSyn.Ne | FLt => AxSyn.Lt | FLe => AxSyn.Le | FGt => AxSyn.Gt | FGe => AxSyn.Ge
  end.

(* what to do with a complete argument list *)
Inductive ffin :=
| AfCall (f : fname)
| AfCtor (x : fname)
| AfDtor (scrut : fterm) (x : fname).

Inductive fval :=
| FvInt (z : Z)
| FvCtor (tag : fname) (args : list fbv)
| FvNew (cls : list fclause) (e : list (fname * fbv))
| FvThunk (t : fterm) (e : list (fname * fbv))
with fkont :=
| FkHalt
| FkLet (x : fname) (body : fterm) (e : list (fname * fbv)) (k : fkont)
| FkOpL (o : fbinop) (b : fterm) (e : list (fname * fbv)) (k : fkont)
| FkOpR (o : fbinop) (x : Z) (k : fkont)
| FkIf1 (s : fifsort) (b : option fterm) (t el : fterm) (e : list (fname * fbv)) (k : fkont)
| FkIf2 (s : fifsort) (x : Z) (t el : fterm) (e : list (fname * fbv)) (k : fkont)
| FkPrint (nl : bool) (next : fterm) (e : list (fname * fbv)) (k : fkont)
| FkExit
| FkArgs (done : list fbv) (rest : list fterm) (e : list (fname * fbv)) (f : ffin) (k : fkont)
| FkCase (cls : list fclause) (e : list (fname * fbv)) (k : fkont)
| FkDtor (x : fname) (args : list fbv) (k : fkont)
with fbv :=
| FbP (v : fval)
| FbK (k : fkont).

Definition fenv := list (fname * fbv).

Inductive fconfig :=
| FEval (t : fterm) (e : fenv) (k : fkont)
| FArgs (done : list fbv) (rest : list fterm) (e : fenv) (f : ffin) (k : fkont)
| FRet (k : fkont) (v : fval).

Inductive fsres :=
| FNext (c : fconfig)
| FOut (nl : bool) (z : Z) (c : fconfig)
| FHalt (o : outcome).

Fixpoint flookup (e : fenv) (x : fname) : option fbv :=
  match e with
  | [] => None
  | (y, v) :: r => if String.eqb y x then Some v else flookup r x
  end.
Fixpoint fbind (xs : list fname) (vs : list fbv) (e : fenv) : option fenv :=
  match xs, vs with
  | [], [] => Some e
  | x :: xr, v :: vr => match fbind xr vr e with Some e' => Some ((x, v) :: e') | None => None end
  | _, _ => None
  end.
Definition ffind_def (p : fcprog) (f : fname) : option fdef :=
  find (fun d => String.eqb (fdname d) f) (fcpdefs p).
Definition fcl_xtor (c : fclause) : fname := match c with FClause _ x _ _ _ => x end.
Definition fcl_ctx (c : fclause) : fctx := match c with FClause _ _ _ ctx _ => ctx end.
Definition fcl_body (c : fclause) : fterm := match c with FClause _ _ _ _ b => b end.
Definition ffind_clause (cls : list fclause) (tag : fname) : option fclause :=
  find (fun c => String.eqb (fcl_xtor c) tag) cls.

Definition fstuck (why : string) : fsres := FHalt (OStuck why).

Definition fselect (cls : list fclause) (ce : fenv) (tag : fname) (args : list fbv) (k : fkont) : fsres :=
  match ffind_clause cls tag with
  | None => fstuck "no-clause"
  | Some c =>
      match fbind (fvars (fcl_ctx c)) args ce with
      | Some e' => FNext (FEval (fcl_body c) e' k)
      | None => fstuck "clause-arity"
      end
  end.

Definition ffinish (p : fcprog) (f : ffin) (vals : list fbv) (e : fenv) (k : fkont) : fsres :=
  match f with
  | AfCall fn =>
      match ffind_def p fn with
      | None => fstuck "call-name"
      | Some d =>
          match fbind (fvars (fdctx d)) vals [] with
          | Some e' => FNext (FEval (fdbody d) e' k)
          | None => fstuck "call-arity"
          end
      end
  | AfCtor x => FNext (FRet k (FvCtor x vals))
  | AfDtor scrut x => FNext (FEval scrut e (FkDtor x vals k))
  end.

Definition fint (v : fval) : option Z := match v with FvInt z => Some z | _ => None end.

Definition fstep (p : fcprog) (c : fconfig) : fsres :=
  match c with
  | FEval t e k =>
      match t with
      | FVar v _ _ =>
          match flookup e v with
          | Some (FbP val) => FNext (FRet k val)
          | Some (FbK _) => fstuck "var-kind"
          | None => fstuck "var-unbound"
          end
      | FLit n => FNext (FRet k (FvInt n))
      | FOp a o b => FNext (FEval a e (FkOpL o b e k))
      | FIfC s a b t1 t2 _ => FNext (FEval a e (FkIf1 s b t1 t2 e k))
      | FPrint nl a next _ => FNext (FEval a e (FkPrint nl next e k))
      | FLet v vty bound body _ =>
          if f_is_codata p vty then FNext (FEval body ((v, FbP (FvThunk bound e)) :: e) k)
          else FNext (FEval bound e (FkLet v body e k))
      | FCall f args _ => FNext (FArgs [] args e (AfCall f) k)
      | FCtor x args _ => FNext (FArgs [] args e (AfCtor x) k)
      | FDtor scrut x _ args _ => FNext (FArgs [] args e (AfDtor scrut x) k)
      | FCase scrut _ cls _ => FNext (FEval scrut e (FkCase cls e k))
      | FNew cls _ => FNext (FRet k (FvNew cls e))
      | FLabel l t' _ => FNext (FEval t' ((l, FbK k) :: e) k)
      | FGoto l t' _ =>
          match flookup e l with
          | Some (FbK k') => FNext (FEval t' e k')
          | Some (FbP _) => fstuck "goto-kind"
          | None => fstuck "goto-unbound"
          end
      | FExit a _ => FNext (FEval a e FkExit)
      | FParen t' => FNext (FEval t' e k)
      end
  | FArgs done rest e f k =>
      match rest with
      | [] => ffinish p f (rev_append done []) e k
      | t :: r =>
          match t with
          | FVar v _ (Some FCns) =>
              match flookup e v with
              | Some (FbK kv) => FNext (FArgs (FbK kv :: done) r e f k)
              | Some (FbP _) => fstuck "covar-kind"
              | None => fstuck "covar-unbound"
              end
          | FVar v ty _ =>
              if f_is_codata_o p ty then
                match flookup e v with
                | Some (FbP val) => FNext (FArgs (FbP val :: done) r e f k)
                | Some (FbK _) => fstuck "var-kind"
                | None => fstuck "var-unbound"
                end
              else FNext (FEval t e (FkArgs done r e f k))
          | _ =>
              if f_is_codata_o p (fterm_type t) then FNext (FArgs (FbP (FvThunk t e) :: done) r e f k)
              else FNext (FEval t e (FkArgs done r e f k))
          end
      end
  | FRet k v =>
      match k with
      | FkHalt =>
          match fint v with
          | Some z => FHalt (OExit z)
          | None => fstuck "main-result"
          end
      | FkLet x body e k' => FNext (FEval body ((x, FbP v) :: e) k')
      | FkOpL o b e k' =>
          match fint v with
          | Some x => FNext (FEval b e (FkOpR o x k'))
          | None => fstuck "op-operand"
          end
      | FkOpR o x k' =>
          match fint v with
          | Some y =>
              match eval_op (ax_fbinop o) x y with
              | OpVal z => FNext (FRet k' (FvInt z))
              | OpUndef why => FHalt (OUndef why)
              end
          | None => fstuck "op-operand"
          end
      | FkIf1 s b t1 t2 e k' =>
          match fint v with
          | Some x =>
              match b with
              | None => FNext (FEval (if eval_cmp (ax_fifsort s) x 0 then t1 else t2) e k')
              | Some b' => FNext (FEval b' e (FkIf2 s x t1 t2 e k'))
              end
          | None => fstuck "ifc-operand"
          end
      | FkIf2 s x t1 t2 e k' =>
          match fint v with
          | Some y => FNext (FEval (if eval_cmp (ax_fifsort s) x y then t1 else t2) e k')
          | None => fstuck "ifc-operand"
          end
      | FkPrint nl next e k' =>
          match fint v with
          | Some z => FOut nl z (FEval next e k')
          | None => fstuck "print-operand"
          end
      | FkExit =>
          match fint v with
          | Some z => FHalt (OExit z)
          | None => fstuck "exit-operand"
          end
      | FkArgs done rest e f k' => FNext (FArgs (FbP v :: done) rest e f k')
      | FkCase cls e k' =>
          match v with
          | FvCtor tag args => fselect cls e tag args k'
          | _ => fstuck "case-kind"
          end
      | FkDtor x args k' =>
          match v with
          | FvNew cls ce => fselect cls ce x args k'
          | FvThunk t ce => FNext (FEval t ce (FkDtor x args k'))
          | _ => fstuck "dtor-kind"
          end
      end
  end.

Fixpoint frun (fuel : nat) (p : fcprog) (c : fconfig) (out : prints) {struct fuel} : obs :=
  match fuel with
  | O => finish out OOutOfFuel
  | S fuel =>
      match fstep p c with
      | FNext c' => frun fuel p c' out
      | FOut nl z c' => frun fuel p c' ((nl, z) :: out)
      | FHalt o => finish out o
      end
  end.

Definition fentry_env (d : fdef) (args : list Z) : option fenv :=
  if forallb (fun b => match fbchi b with FPrd => true | FCns => false end) (fdctx d)
  then fbind (fvars (fdctx d)) (map (fun z => FbP (FvInt z)) args) []
  else None.

Definition run_fun (fuel : nat) (p : fcprog) (args : list Z) : obs :=
  match ffind_def p "main" with
  | None => ([], OStuck "no-main")
  | Some d =>
      match fentry_env d args with
      | Some e => frun fuel p (FEval (fdbody d) e FkHalt) []
      | None => ([], OStuck "entry-args")
      end
  end.
