(* Running AArch64 code with the heap invariant of Sem/HeapCheck.v evaluated at every
   statement-boundary marker (labels "#m<kinds>" inserted by the marked model of the code
   generator, Model/A64.a64_compile_marked; the unmarked model output is compared with the Rust
   output by `codegen-a64`).  Also measures what C10 needs: the peak number of blocks in use and
   the final frontier.  Port of Sem/X86Heap.v. *)
From Coq Require Import List ZArith NArith String Ascii Bool FMapPositive.
From SCC Require Import Base.Sexp Lang.AxSyn Sem.AxSem Model.Backend Model.A64 Sem.A64Sem Sem.HeapCheck.
Import ListNotations.
Open Scope string_scope.
Open Scope Z_scope.

Definition view_of (s : astate) : option heap_view :=
  match rget s HEAP, rget s FREE with
  | Some h, Some f =>
      Some {| rd := fun a => match PM.find (key a) (A64Sem.heap s) with Some z => z | None => 0 end;
              base := HEAP_BASE; limit := HEAP_BASE + HEAP_SIZE; hv_heap := h; hv_free := f; hv_high := hw s |}
  | _, _ => None
  end.

(* roots: the first temporary of every position whose kind character is 'p' *)
Fixpoint roots_of (s : astate) (sp : Z) (kinds : string) (pos : N) : option (list Z) :=
  match kinds with
  | EmptyString => Some []
  | String c r =>
      match roots_of s sp r (pos + 1)%N with
      | None => None
      | Some rest =>
          if Ascii.eqb c "p"%char then
            match temporary_from_position (2 * pos)%N with
            | Ok (AR reg) => match rget s reg with Some v => Some (v :: rest) | None => None end
            | Ok (AS p) => match PM.find (key (sp + stack_offset p)) (stack s) with Some v => Some (v :: rest) | None => None end
            | Err _ => None
            end
          else Some rest
      end
  end.

Record hstats := { boundaries : N; peak_in_use : Z; last_frontier : Z; first_violation : option string }.
Definition hstats0 : hstats := {| boundaries := 0; peak_in_use := 0; last_frontier := HEAP_BASE; first_violation := None |}.

Definition at_mark (s : astate) (kinds : string) (st : hstats) : hstats :=
  match first_violation st with
  | Some _ => st
  | None =>
      let fail why := {| boundaries := boundaries st + 1; peak_in_use := peak_in_use st; last_frontier := last_frontier st;
                         first_violation := Some why |} in
      match spv s, view_of s with
      | Some sp, Some v =>
          match roots_of s sp kinds 0 with
          | None => fail "a live object variable holds an undefined pointer"
          | Some roots =>
              match inv_check v roots with
              | inr why => fail why
              | inl rep =>
                  {| boundaries := boundaries st + 1;
                     peak_in_use := Z.max (peak_in_use st) (Z.of_nat (List.length (hr_counted rep) + List.length (hr_fl rep)));
                     last_frontier := hr_frontier rep; first_violation := None |}
              end
          end
      | _, _ => fail "heap or free register undefined at a statement boundary"
      end
  end.

Inductive hchunk := HFinished (o : obs) (s : astate) (st : hstats) | HMore (pc : positive) (s : astate) (st : hstats).
Fixpoint hrun_chunk (fuel : nat) (im : image) (pc : positive) (s : astate) (st : hstats) : hchunk :=
  match fuel with
  | O => HMore pc s st
  | S f =>
      match PM.find pc (code im) with
      | None => HFinished (finish (out s) (OStuck "fell-off-the-end")) s st
      | Some c =>
          let st' := match c with
                     | LAB (String "#"%char (String "m"%char kinds)) => at_mark s kinds st
                     | _ => st
                     end in
          match step im c s with
          | Next s' => hrun_chunk f im (Pos.succ pc) s' st'
          | Jump s' i => hrun_chunk f im i s' st'
          | Done s' => HFinished (finish (out s') (final_check s')) s' st'
          | Fault w s' => HFinished (finish (out s') (OStuck w)) s' st'
          | Undefd w s' => HFinished (finish (out s') (OUndef w)) s' st'
          end
      end
  end.
Fixpoint hrun (outer inner : nat) (im : image) (pc : positive) (s : astate) (st : hstats) : obs * astate * hstats :=
  match outer with
  | O => (finish (out s) OOutOfFuel, s, st)
  | S o =>
      match hrun_chunk inner im pc s st with
      | HFinished ob s' st' => (ob, s', st')
      | HMore pc' s' st' => hrun o inner im pc' s' st'
      end
  end.
Definition run_a64_heap (outer inner : nat) (cs : list acode) (args : list Z) : obs * astate * hstats :=
  let im := mk_image cs in
  match find_label (labels im) "asm_main" with
  | None => ((([] : prints), OStuck "no-asm_main"), init_state args, hstats0)
  | Some i => hrun outer inner im i (init_state args) hstats0
  end.
