(* Running AArch64 code on Sem/A64Sem.v with the heap invariant of Sem/HeapCheck.v evaluated at every
   statement boundary.  Port of Sem/X86Heap.v (ISA-independent part: Sem/HeapLock.v).  Boundaries:
     "#s…"       the implementation's own statement comments kept as pseudo-labels by
                 Model/A64Io.g_acodes_s: the REAL instruction list runs in lockstep with the AxCut
                 linear machine, whose trace (Sem/AxTrace.trace_linear) supplies the kinds of the
                 environment and thereby the roots;
     "#m<kinds>" marks of the marked model of the code generator (Model/A64.a64_compile_marked).
   Allocator state of this back end (config.rs): HEAP = X0 heads the reuse list, FREE = X1 the
   deferred list; blocks of 64 bytes, header at offset 0, pointer slots at 16/32/48; a variable at
   environment position i owns temporaries 2i, 2i+1 = registers X(RESERVED + 2i ..) while they last
   (13 variables), spill slots [SP + stack_offset p] beyond.  A root is the FIRST temporary of a
   position of kind p.
   Also measured: peak number of blocks in use, final frontier (C10), and `events` = number of
   executions of `acquire_block` INTO A SPILL SLOT (the instruction STR HEAP, [SP, _], emitted only
   there) while the reuse list has a second element (header of the block at HEAP non-zero): the
   path on which the refcount of the acquired block is initialised through TEMP. *)
From Coq Require Import List ZArith NArith String Ascii Bool FMapPositive.
From SCC Require Import Base.Sexp Lang.AxSyn Sem.AxSem Model.Backend Model.A64 Sem.A64Sem Sem.HeapCheck Sem.HeapLock.
Import ListNotations.
Open Scope string_scope.
Open Scope Z_scope.

Definition hword (s : astate) (a : Z) : Z := match PM.find (key a) (A64Sem.heap s) with Some z => z | None => 0 end.

Definition view_of (s : astate) : option heap_view :=
  match rget s HEAP, rget s FREE with
  | Some h, Some f =>
      Some {| rd := hword s; base := HEAP_BASE; limit := HEAP_BASE + HEAP_SIZE; hv_heap := h; hv_free := f; hv_high := hw s |}
  | _, _ => None
  end.

(* roots: the first temporary of every position whose kind character is 'p' *)
Fixpoint roots_of (s : astate) (sp : Z) (kinds : string) (pos : N) : option (list Z) :=
  match kinds with
  | EmptyString => Some []
  | String c r =>
      match roots_of s sp r (pos + 1)%N with
      | None => None
      | Some rest =>
          if Ascii.eqb c "p"%char then
            match temporary_from_position (2 * pos)%N with
            | Ok (AR reg) => match rget s reg with Some v => Some (v :: rest) | None => None end
            | Ok (AS p) => match PM.find (key (sp + stack_offset p)) (stack s) with Some v => Some (v :: rest) | None => None end
            | Err _ => None
            end
          else Some rest
      end
  end.

Definition look (s : astate) (kinds : string) : option (heap_view * option (list Z)) :=
  match spv s, view_of s with
  | Some sp, Some v => Some (v, roots_of s sp kinds 0)
  | _, _ => None
  end.

Definition hard_path (c : acode) (s : astate) : bool :=
  match c with
  | STR r SP _ => areg_eqb r HEAP && match rget s HEAP with Some h => negb (hword s h =? 0) | None => false end
  | _ => false
  end.

Definition hstats0 : hstats := hstats_with HEAP_BASE [].

(* An indirect branch goes to a byte address, which Sem/A64Sem resolves to the instruction there; marks
   (size 0) placed between the label whose address was taken and that instruction would be skipped
   (single-clause closure with an empty environment: LAB method; "#s…"; first instruction).  A mark is
   always the first item of a statement's code and is preceded either by the instructions of the
   previous statement or by a label, so the marks directly in front of the target belong to the path
   through that label: an indirect branch lands on the first of them. *)
Fixpoint back_over_marks (fuel : nat) (im : image) (i : positive) : positive :=
  match fuel with
  | O => i
  | S f =>
      match i with
      | xH => i
      | _ => match PM.find (Pos.pred i) (code im) with
             | Some (LAB l) => if is_mark_label l then back_over_marks f im (Pos.pred i) else i
             | _ => i
             end
      end
  end.

Inductive hchunk := HFinished (o : obs) (s : astate) (st : hstats) | HMore (pc : positive) (s : astate) (st : hstats).
Fixpoint hrun_chunk (fuel : nat) (im : image) (pc : positive) (s : astate) (st : hstats) : hchunk :=
  match fuel with
  | O => HMore pc s st
  | S f =>
      match PM.find pc (code im) with
      | None => HFinished (finish (out s) (OStuck "fell-off-the-end")) s st
      | Some c =>
          let st' := match c with
                     | LAB l => at_label (look s) l st
                     | _ => if hard_path c s then add_event st else st
                     end in
          match step im c s with
          | Next s' => hrun_chunk f im (Pos.succ pc) s' st'
          | Jump s' i => hrun_chunk f im (match c with BR _ => back_over_marks 4 im i | _ => i end) s' st'
          | Done s' => HFinished (finish (out s') (final_check s')) s' st'
          | Fault w s' => HFinished (finish (out s') (OStuck w)) s' st'
          | Undefd w s' => HFinished (finish (out s') (OUndef w)) s' st'
          end
      end
  end.
Fixpoint hrun (outer inner : nat) (im : image) (pc : positive) (s : astate) (st : hstats) : obs * astate * hstats :=
  match outer with
  | O => (finish (out s) OOutOfFuel, s, st)
  | S o =>
      match hrun_chunk inner im pc s st with
      | HFinished ob s' st' => (ob, s', st')
      | HMore pc' s' st' => hrun o inner im pc' s' st'
      end
  end.
(* tr = the kind strings the "#s" marks consume ([] when the code carries "#m" marks only) *)
Definition run_a64_heap_tr (outer inner : nat) (cs : list acode) (args : list Z) (tr : list string) : obs * astate * hstats :=
  let im := mk_image cs in
  match find_label (labels im) "asm_main" with
  | None => ((([] : prints), OStuck "no-asm_main"), init_state args, hstats0)
  | Some i =>
      if Nat.ltb 7 (List.length args) then ((([] : prints), OStuck "too-many-arguments"), init_state args, hstats0)
      else hrun outer inner im i (init_state args) (hstats_with HEAP_BASE tr)
  end.
Definition run_a64_heap (outer inner : nat) (cs : list acode) (args : list Z) : obs * astate * hstats :=
  run_a64_heap_tr outer inner cs args [].
