(* Sem/FsFrag2.v - the boolean fragment predicates of the round-2 theorems about shrinking
   (C04_shrink_correct_fragment2, C12_shrink_preserves_typing_fragment2).  Definitions only: they are
   used by the theorems (Proof/Shrink*.v) and by the run command of C04 (Model/RunShrink.v), which tags
   every input with the fragments it lies in. *)
From Coq Require Import List ZArith NArith String Bool.
From SCC Require Import Base.Sexp Lang.SynUtil Lang.CoreSyn Sem.FsCheck Model.LinCheck.
Import ListNotations.
Open Scope list_scope.

(* ---------- identifiers with the same id have the same name (what `uniquify` guarantees) ----------
   [nc_stmt L s]: every variable occurrence of s is, by id, the first entry of L (the names in scope,
   innermost first) with that id - and spelled the same. *)
Definition nc_var (L : list cident) (x : cident) : bool :=
  match find (fun y => N.eqb (cid_id y) (cid_id x)) L with
  | Some y => cident_eqb y x
  | None => false
  end.
Fixpoint nc_term (L : list cident) (t : fsterm) {struct t} : bool :=
  match t with
  | FsXVar _ v _ => nc_var L v
  | FsLit _ => true
  | FsOp a _ b => nc_var L a && nc_var L b
  | FsMu _ v s _ => nc_stmt (v :: L) s
  | FsXtor _ _ args _ => forallb (nc_var L) (cvars args)
  | FsXCase _ cls _ =>
      (fix go (cls : list fsclause) : bool :=
         match cls with
         | [] => true
         | FsClause _ _ ctx body :: r => nc_stmt (cvars ctx ++ L) body && go r
         end) cls
  end
with nc_stmt (L : list cident) (s : fsstmt) {struct s} : bool :=
  match s with
  | FsCut p _ k => nc_term L p && nc_term L k
  | FsIfC _ a b t e => nc_var L a && match b with Some b' => nc_var L b' | None => true end && nc_stmt L t && nc_stmt L e
  | FsPrint _ a next => nc_var L a && nc_stmt L next
  | FsCall _ args => forallb (nc_var L) (cvars args)
  | FsExit v => nc_var L v
  end.

(* every definition spells its identifiers consistently *)
Definition names_ok (p : fsprog) : bool := forallb (fun d => nc_stmt (cvars (fsdctx d)) (fsdbody d)) (fspdefs p).
(* the entry point takes integer producers *)
Definition main_int (p : fsprog) : bool :=
  match fspdefs p with
  | d :: _ => forallb (fun b => cchi_eqb (cbchi b) CPrd && cty_eqb (cbty b) CI64) (fsdctx d)
  | [] => true
  end.
(* the fragment of the semantic theorem *)
Definition frag2_prog (p : fsprog) : bool := names_ok p && main_int p.

(* parameter types of definitions and field types of xtors are declared (wt_fs does not look at them; the
   AxCut checker demands declared parameter types, and a lifted statement can turn a clause parameter into
   a parameter of a definition) *)
Definition decls_ok (p : fsprog) : bool :=
  forallb (fun d => forallb (fun b => ty_ok (fspdata p) (fspcodata p) (cbty b)) (fsdctx d)) (fspdefs p)
  && forallb (fun t => forallb (fun x => forallb (fun b => ty_ok (fspdata p) (fspcodata p) (cbty b)) (cxargs x)) (ctxtors t))
             (fspdata p ++ fspcodata p).

(* binder ids of a focused statement (mu/mu~ variables and clause parameters), in traversal order *)
Fixpoint fs_binders_term (t : fsterm) : list N :=
  match t with
  | FsMu _ v s _ => cid_id v :: fs_binders s
  | FsXCase _ cls _ =>
      (fix go (l : list fsclause) : list N :=
         match l with [] => [] | FsClause _ _ ctx b :: r => cids ctx ++ fs_binders b ++ go r end) cls
  | _ => []
  end
with fs_binders (s : fsstmt) : list N :=
  match s with
  | FsCut p _ k => fs_binders_term p ++ fs_binders_term k
  | FsIfC _ _ _ t e => fs_binders t ++ fs_binders e
  | FsPrint _ _ n => fs_binders n
  | FsCall _ _ | FsExit _ => []
  end.
(* the binders of every definition are pairwise distinct and distinct from the parameters *)
Definition gub (p : fsprog) : bool :=
  forallb (fun d => nodupb (cids (fsdctx d) ++ fs_binders (fsdbody d))) (fspdefs p).
(* the fragment of the typing theorem *)
Definition frag2t_prog (p : fsprog) : bool := names_ok p && decls_ok p && gub p.
