(* C14: the boolean guard of the label-uniqueness theorems (Proof/LabelThms.v), executable so that
   the run-time check evaluates the SAME predicate on every program it sees.
   Generated label texts: <def>_ | lab<k> | <Type>_<k> | <Type>_<k>_<Xtor>, <Type> = sanitised type name.
   The texts <Type>_<k>[_<Xtor>] are ambiguous when a type name contains `_<digit>` AND an xtor name
   contains `_<digit>` or starts with a digit ([name_digits]): known finding label-collision-name-digits. *)
From Coq Require Import List NArith String Ascii Bool.
From SCC Require Import Base.Sexp Lang.AxSyn Model.Backend.
Import ListNotations.
Local Open Scope string_scope.
Local Open Scope list_scope.

(* ---------- character classes ---------- *)
Definition is_dig (c : ascii) : bool := Nat.leb 48 (nat_of_ascii c) && Nat.leb (nat_of_ascii c) 57.
Definition is_us (c : ascii) : bool := Ascii.eqb c "_".
Definition is_low (c : ascii) : bool := Nat.leb 97 (nat_of_ascii c) && Nat.leb (nat_of_ascii c) 122.
Definition hd_dig (s : string) : bool := match s with String c _ => is_dig c | "" => false end.
Definition lower_first (s : string) : bool := match s with String c _ => is_low c | "" => false end.
(* an underscore immediately followed by a digit *)
Fixpoint has_usd (s : string) : bool :=
  match s with "" => false | String c r => (is_us c && hd_dig r) || has_usd r end.
Definition ty_ok (T : string) : bool := negb (has_usd T).
Definition xtor_ok (X : string) : bool := negb (has_usd X) && negb (hd_dig X).
Definition all_true (_ : string) : bool := true.

Fixpoint nodup_strb (l : list string) : bool :=
  match l with [] => true | x :: r => negb (existsb (String.eqb x) r) && nodup_strb r end.
Definition mem_strb (x : string) (l : list string) : bool := existsb (String.eqb x) l.

(* a generic recursive check over statements: every Call label passes fcall, every Switch / Create
   passes fsw (type, xtors of its clauses) *)
Fixpoint stmt_check (fcall : ident -> bool) (fsw : ty -> list ident -> bool) (s : stmt) : bool :=
  let go := fix go (l : list clause) : bool :=
    match l with [] => true | (_, _, b) :: r => stmt_check fcall fsw b && go r end in
  match s with
  | Substitute _ n => stmt_check fcall fsw n
  | Call l _ => fcall l
  | Let _ _ _ _ n => stmt_check fcall fsw n
  | Switch _ t cls => fsw t (map cl_xtor cls) && go cls
  | Create _ t _ cls n => fsw t (map cl_xtor cls) && go cls && stmt_check fcall fsw n
  | Invoke _ _ _ _ => true
  | Literal _ _ n => stmt_check fcall fsw n
  | Op _ _ _ _ n => stmt_check fcall fsw n
  | PrintI64 _ _ n => stmt_check fcall fsw n
  | IfC _ _ _ t e => stmt_check fcall fsw t && stmt_check fcall fsw e
  | Exit _ => true
  end.

(* the sanitised type name used in table and clause labels *)
Definition tyS (t : ty) : string := label_of_type_name (show_ty t).

Section Names.
Variables okS okX : string -> bool.
Definition sw_ok (t : ty) (xs : list ident) : bool :=
  okS (tyS t) && negb (lower_first (tyS t)) && forallb (fun x => okX (show_ident x)) xs
  && nodup_strb (map show_ident xs).
Definition names_ok (s : stmt) : bool := stmt_check (fun _ => true) sw_ok s.
Definition dnames (ds : list def) : list string := map (fun d => show_ident (dname d)) ds.
Definition prog_names_ok (ds : list def) : bool :=
  forallb (fun d => lower_first (show_ident (dname d)) && names_ok (dbody d)) ds && nodup_strb (dnames ds).
End Names.

Definition guard_types (ds : list def) : bool := prog_names_ok ty_ok all_true ds.
Definition guard_xtors (ds : list def) : bool := prog_names_ok all_true xtor_ok ds.
(* the guard of label uniqueness *)
Definition labels_guard (p : prog) : bool := guard_types (pdefs p) || guard_xtors (pdefs p).
(* the guard without its name-digits clause *)
Definition unguarded_labels_guard (p : prog) : bool := prog_names_ok all_true all_true (pdefs p).

(* every call goes to a definition of the program *)
Definition calls_ok (fcall : ident -> bool) (s : stmt) : bool := stmt_check fcall (fun _ _ => true) s.
Definition prog_calls_ok (ds : list def) : bool :=
  forallb (fun d => calls_ok (fun l => mem_strb (show_ident l) (dnames ds)) (dbody d)) ds.
Definition calls_guard (p : prog) : bool := prog_calls_ok (pdefs p).

(* the defect class: some dispatched-on type name AND some clause xtor name carry digits after an
   underscore (resp. at the front); exactly when the structural part of the guard holds but the guard fails *)
Definition name_digits (p : prog) : bool := unguarded_labels_guard p && negb (labels_guard p).
