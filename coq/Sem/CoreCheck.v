(* Sem/CoreCheck.v - boolean scope / type checker for UNFOCUSED Core programs (the output of
   fun2core, the output of uniquify, the input of focusing).  /repo has no type checker for Core;
   this is the discipline property C12 states for the intermediate programs "with the annotations
   they carry".

   [check_core p] : None when the program is well-scoped and well-typed, Some message for the FIRST
   failing site (definitions in order, statements/terms left to right, depth first) - the `_why`
   variant;  [wt_core p] the boolean.

   Typing (G = bindings in scope, innermost first; lookup by the WHOLE identifier (name and id),
   first match - in the output of fun2core every id is 0 and binders shadow by name; after uniquify
   ids are unique; a variable occurrence must carry the chirality and the type of its binding):
     <p | ty | k>    ty = i64 or a declared data/codata type; p a producer of ty, k a consumer of ty
     producers of ty x (x :prd ty in G, annotated ty) | literal | op (ty = i64, operands producers of i64)
                     | mu a.s (annotated ty; s under a :cns ty)
                     | K(args) (annotated ty, ty a DATA type, K one of its constructors, as many arguments
                       as the signature has parameters; parameter :prd T takes `Producer p` with p a
                       producer of T, parameter :cns T takes `Consumer k` with k a consumer of T)
                     | cocase {D(params) => s ...} (annotated ty, ty a CODATA type, exactly one clause
                       per destructor, in declaration order; parameters agree with the signature in
                       number, chirality and type, pairwise distinct; s under params ++ G)
     consumers of ty a (a :cns ty in G) | mu~ x.s (s under x :prd ty) | D(args) (ty codata)
                     | case {K(params) => s ...} (ty data)
     ifc / print / exit  operands producers of i64 (the type annotation of exit must be declared)
     call f(args)    f defined; args against f's parameters as for xtors; annotated type declared
   Program level: polarity / prdcns fields consistent ([chi_ok_cprog]), type names pairwise distinct
   over data AND codata and different from the reserved `_Cont`, xtor names distinct within a type,
   definition names distinct, parameters of a definition pairwise distinct and of declared types.

   The checker for focused Core is Sem/FsCheck.v ([wt_fs], lookup by numeric id).  [embed_prog]
   (Model/FocusCheck.v) maps a focused program to full Core; `modelrun wt-stages` compares
   [wt_fs f] with [wt_core (embed_prog f)] on every real focused program. *)
From Coq Require Import List ZArith NArith String Bool.
From SCC Require Import Base.Sexp Lang.SynUtil Lang.CoreSyn Sem.FsCheck.
Import ListNotations.
Open Scope list_scope.
Open Scope string_scope.

Local Notation "a ?> b" := (match a with None => b | Some e => Some e end) (at level 61, right associativity).

Fixpoint clookup (G : cctx) (x : cident) : option cbinding :=
  match G with
  | [] => None
  | b :: r => if cident_eqb (cbvar b) x then Some b else clookup r x
  end.
Definition cbound (G : cctx) (x : cident) (c : cchi) (t : cty) : option string :=
  match clookup G x with
  | None => Some ("unbound variable " ++ show_cident x)
  | Some b =>
      fensure (cchi_eqb (cbchi b) c && cty_eqb (cbty b) t)
              ("variable " ++ show_cident x ++ " used as " ++ show_cchi c ++ " " ++ show_cty t
               ++ " but bound as " ++ show_cchi (cbchi b) ++ " " ++ show_cty (cbty b))
  end.

(* the clauses of a (co)match against the xtors of its type, positionally *)
Fixpoint cclauses_match (side : cchi) (n : cident) (cls : list cclause) (xs : list cxtorsig) : option string :=
  match cls, xs with
  | [], [] => None
  | CClause c' x ctx _ :: cr, sg :: xr =>
      fensure (cchi_eqb c' side) "clause with the wrong prdcns field"
      ?> fensure (cident_eqb x (cxname sg))
                 ("clause " ++ show_cident x ++ " where " ++ show_cident (cxname sg) ++ " is expected")
      ?> fensure (fparams_ok ctx (cxargs sg)) ("clause " ++ show_cident x ++ ": parameters do not match the signature")
      ?> fensure (nodup_by cident_eqb (cvars ctx)) ("clause " ++ show_cident x ++ ": duplicate parameter")
      ?> cclauses_match side n cr xr
  | _, _ => Some ("xcase at " ++ show_cident n ++ ": number of clauses differs from the number of xtors")
  end.

Section Check.
Variable data codata : list ctydecl.
Variable defs : list cdef.

Definition cty_ok (t : cty) : bool := ty_ok data codata t.

Fixpoint ccheck_term (G : cctx) (side : cchi) (ty : cty) (t : cterm) {struct t} : option string :=
  match t with
  | CXVar c v t' =>
      fensure (cchi_eqb c side) ("variable " ++ show_cident v ++ " with the wrong prdcns field")
      ?> fensure (cty_eqb t' ty) ("variable " ++ show_cident v ++ " annotated " ++ show_cty t' ++ " where " ++ show_cty ty ++ " is expected")
      ?> cbound G v side ty
  | CLit _ =>
      fensure (cchi_eqb side CPrd) "literal in consumer position" ?> fensure (cty_eqb ty CI64) ("literal at type " ++ show_cty ty)
  | COp a _ b =>
      fensure (cchi_eqb side CPrd) "operation in consumer position" ?> fensure (cty_eqb ty CI64) ("operation at type " ++ show_cty ty)
      ?> ccheck_term G CPrd CI64 a ?> ccheck_term G CPrd CI64 b
  | CMu c v s t' =>
      fensure (cchi_eqb c side) ("mu " ++ show_cident v ++ " with the wrong prdcns field")
      ?> fensure (cty_eqb t' ty) ("mu " ++ show_cident v ++ " annotated " ++ show_cty t' ++ " where " ++ show_cty ty ++ " is expected")
      ?> ccheck_stmt (mkcb v (opp side) ty :: G) s
  | CXtor c x args t' =>
      fensure (cchi_eqb c side) ("xtor " ++ show_cident x ++ " with the wrong prdcns field")
      ?> fensure (cty_eqb t' ty) ("xtor " ++ show_cident x ++ " annotated " ++ show_cty t' ++ " where " ++ show_cty ty ++ " is expected")
      ?> match ty with
         | CI64 => Some ("xtor " ++ show_cident x ++ " at type i64")
         | CDecl n =>
             match find_decl (match side with CPrd => data | CCns => codata end) n with
             | None => Some ("xtor " ++ show_cident x ++ ": " ++ show_cident n ++ " is no " ++
                             (match side with CPrd => "data" | CCns => "codata" end) ++ " type")
             | Some d =>
                 match find_cxtor d x with
                 | None => Some (show_cident x ++ " is no xtor of " ++ show_cident n)
                 | Some sg =>
                     (fix go (args : list carg) (sig : cctx) {struct args} : option string :=
                        match args, sig with
                        | [], [] => None
                        | a :: ar, s :: sr =>
                            match a, cbchi s with
                            | CProducer p, CPrd => ccheck_term G CPrd (cbty s) p
                            | CConsumer k, CCns => ccheck_term G CCns (cbty s) k
                            | _, _ => Some ("xtor " ++ show_cident x ++ ": argument of the wrong kind for parameter " ++ show_cident (cbvar s))
                            end ?> go ar sr
                        | _, _ => Some ("xtor " ++ show_cident x ++ ": wrong number of arguments")
                        end) args (cxargs sg)
                 end
             end
         end
  | CXCase c cls t' =>
      fensure (cchi_eqb c side) "xcase with the wrong prdcns field"
      ?> fensure (cty_eqb t' ty) ("xcase annotated " ++ show_cty t' ++ " where " ++ show_cty ty ++ " is expected")
      ?> match ty with
         | CI64 => Some "xcase at type i64"
         | CDecl n =>
             match find_decl (match side with CPrd => codata | CCns => data end) n with
             | None => Some ("xcase: " ++ show_cident n ++ " is no " ++
                             (match side with CPrd => "codata" | CCns => "data" end) ++ " type")
             | Some d =>
                 cclauses_match side n cls (ctxtors d)
                 ?> (fix go (cls : list cclause) {struct cls} : option string :=
                       match cls with
                       | [] => None
                       | CClause _ _ ctx body :: cr => ccheck_stmt (app ctx G) body ?> go cr
                       end) cls
             end
         end
  end
with ccheck_stmt (G : cctx) (s : cstmt) {struct s} : option string :=
  match s with
  | CCut p ty k =>
      fensure (cty_ok ty) ("cut at undeclared type " ++ show_cty ty)
      ?> ccheck_term G CPrd ty p ?> ccheck_term G CCns ty k
  | CIfC _ a b t e =>
      ccheck_term G CPrd CI64 a ?> match b with Some b' => ccheck_term G CPrd CI64 b' | None => None end
      ?> ccheck_stmt G t ?> ccheck_stmt G e
  | CPrint _ a next => ccheck_term G CPrd CI64 a ?> ccheck_stmt G next
  | CCall f args ty =>
      fensure (cty_ok ty) ("call " ++ show_cident f ++ " annotated with the undeclared type " ++ show_cty ty)
      ?> match find (fun d => cident_eqb (cdname d) f) defs with
         | None => Some ("call of undefined label " ++ show_cident f)
         | Some d =>
             (fix go (args : list carg) (sig : cctx) {struct args} : option string :=
                match args, sig with
                | [], [] => None
                | a :: ar, s :: sr =>
                    match a, cbchi s with
                    | CProducer p, CPrd => ccheck_term G CPrd (cbty s) p
                    | CConsumer k, CCns => ccheck_term G CCns (cbty s) k
                    | _, _ => Some ("call " ++ show_cident f ++ ": argument of the wrong kind for parameter " ++ show_cident (cbvar s))
                    end ?> go ar sr
                | _, _ => Some ("call " ++ show_cident f ++ ": wrong number of arguments")
                end) args (cdctx d)
         end
  | CExit a ty =>
      fensure (cty_ok ty) ("exit annotated with the undeclared type " ++ show_cty ty)
      ?> ccheck_term G CPrd CI64 a
  end.
End Check.

Fixpoint ccheck_defs (p : cprog) (l : list cdef) : option string :=
  match l with
  | [] => None
  | d :: r =>
      fensure (nodup_by cident_eqb (cvars (cdctx d))) ("def " ++ show_cident (cdname d) ++ ": duplicate parameter")
      ?> fensure (forallb (fun b => ty_ok (cpdata p) (cpcodata p) (cbty b)) (cdctx d))
                 ("def " ++ show_cident (cdname d) ++ ": parameter of undeclared type")
      ?> match ccheck_stmt (cpdata p) (cpcodata p) (cpdefs p) (cdctx d) (cdbody d) with
         | Some m => Some ("def " ++ show_cident (cdname d) ++ ": " ++ m)
         | None => ccheck_defs p r
         end
  end.
Definition check_core (p : cprog) : option string :=
  let ts := app (cpdata p) (cpcodata p) in
  fensure (chi_ok_cprog p) "prdcns / polarity fields inconsistent"
  ?> fensure (nodup_by cident_eqb (map ctname ts)) "duplicate type name"
  ?> fensure (negb (existsb (fun t => cident_eqb (ctname t) cont_name_fs) ts)) "_Cont used as a type name"
  ?> fensure (forallb (fun t => nodup_by cident_eqb (map cxname (ctxtors t))) ts) "duplicate xtor name within a type"
  ?> fensure (nodup_by cident_eqb (map cdname (cpdefs p))) "duplicate definition name"
  ?> ccheck_defs p (cpdefs p).
Definition wt_core_why : cprog -> option string := check_core.
Definition wt_core (p : cprog) : bool := match check_core p with None => true | Some _ => false end.
