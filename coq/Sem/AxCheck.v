(* Sem/AxCheck.v - boolean well-scopedness / typing checker for NON-LINEARIZED AxCut programs
   (the output of shrinking, the input of linearization).  /repo has no type checker for AxCut;
   this is the discipline the later passes and both reference machines of Sem/AxSem.v rely on.

   [check_prog p] returns [None] when the program is fine and [Some (class, message)] for the first
   problem found; [wt_ax p] is the boolean.  Classes (used as `VIOL class=` tags):
     ill-typed-output       an unbound variable, a wrong chirality/type, an unknown label/type/xtor,
                            an arity mismatch, a binder that re-binds an id already in scope
     clause-order           the clauses of a switch/create are a permutation of the xtors of the
                            type but not in DECLARATION order (tags are declaration positions, jump
                            tables follow clause order)
     lift-wrong-free-vars   a definition named `lift_…` whose body uses a variable that is not a
                            parameter, or whose parameters repeat an id

   Rules (G = the variables in scope, innermost first; lookup is by NUMERIC ID, first match, as in
   every Rust pass; a binding found must have the stated chirality and type):
     let v : T = K(args); s      T = Decl n declared, K an xtor of n, args = K's signature
                                 (chirality, type) positionally and each bound in G;  s under v :prd T
     switch v : T {cls}          v :prd T in G; one clause per xtor of n in declaration order, clause
                                 parameters = signature (chirality, type); bodies under params ++ G
     create v : T = {cls}; s     clauses as for switch (closure environment = all of G; the
                                 annotation must still be None or well-scoped); s under v :cns T
     invoke v K : T (args)       v :cns T in G; K an xtor of n; args as for let
     literal n v; s              s under v :ext i64        op a o b v; s   a, b :ext i64; likewise
     print v; s / ifc a b / exit v        operands :ext i64
     call l(args)                l defined; args = l's parameters (chirality, type) positionally,
                                 each bound in G
     substitute [(new <- old)…]; s        each old bound in G with new's chirality/type; s under
                                 exactly the new bindings (in order)
   Binders must be fresh for G (the passes assume "all bindings in each path are unique").
   Program level: definition names pairwise distinct; type names pairwise distinct, xtor names
   distinct within a type; parameter ids of a definition distinct; every parameter type declared
   (types of xtor FIELDS need not be: see undeclared_field_types). *)
From Coq Require Import List ZArith NArith String Bool.
From SCC Require Import Base.Sexp Lang.AxSyn.
Import ListNotations.
Open Scope list_scope.
Open Scope string_scope.

Definition cerr := option (string * string).     (* (class, message) *)
Local Notation "a ?> b" := (match a with None => b | Some e => Some e end) (at level 61, right associativity).
Definition ill (m : string) : cerr := Some ("ill-typed-output", m).
Definition ensure (b : bool) (m : string) : cerr := if b then None else ill m.

Fixpoint lookup_b (G : ctx) (x : N) : option binding :=
  match G with
  | [] => None
  | b :: r => if N.eqb (idn (bvar b)) x then Some b else lookup_b r x
  end.
Definition bound (G : ctx) (x : ident) (c : chi) (t : ty) : cerr :=
  match lookup_b G (idn x) with
  | None => ill ("unbound variable " ++ show_ident x)
  | Some b =>
      ensure (chi_eqb (bchi b) c && ty_eqb (bty b) t)
             ("variable " ++ show_ident x ++ " used as " ++ show (s_chi c) ++ " " ++ show_ty t
              ++ " but bound as " ++ show (s_chi (bchi b)) ++ " " ++ show_ty (bty b))
  end.
Definition fresh_for (G : ctx) (x : ident) : cerr :=
  match lookup_b G (idn x) with
  | None => None
  | Some _ => ill ("binder " ++ show_ident x ++ " re-binds an id in scope")
  end.
Fixpoint fresh_all (G : ctx) (bs : ctx) : cerr :=
  match bs with
  | [] => None
  | b :: r => fresh_for G (bvar b) ?> fresh_all (b :: G) r
  end.

Definition same_sig (a s : binding) : bool := chi_eqb (bchi a) (bchi s) && ty_eqb (bty a) (bty s).
(* arguments against a signature, each argument bound in G *)
Fixpoint args_ok (what : string) (G : ctx) (args sig : ctx) : cerr :=
  match args, sig with
  | [], [] => None
  | a :: ar, s :: sr =>
      ensure (same_sig a s) (what ++ ": argument " ++ show_ident (bvar a) ++ " does not match the signature")
      ?> bound G (bvar a) (bchi a) (bty a) ?> args_ok what G ar sr
  | _, _ => ill (what ++ ": wrong number of arguments")
  end.
Fixpoint params_ok (what : string) (ps sig : ctx) : cerr :=
  match ps, sig with
  | [], [] => None
  | a :: ar, s :: sr =>
      ensure (same_sig a s) (what ++ ": parameter " ++ show_ident (bvar a) ++ " does not match the signature")
      ?> params_ok what ar sr
  | _, _ => ill (what ++ ": wrong number of parameters")
  end.

Definition find_type (ts : list tydecl) (n : ident) : option tydecl :=
  find (fun t => ident_eqb (tname t) n) ts.
Definition find_xtor (t : tydecl) (x : ident) : option xtorsig :=
  find (fun s => ident_eqb (xname s) x) (txtors t).
Definition type_of (ts : list tydecl) (what : string) (t : ty) : cerr * option tydecl :=
  match t with
  | I64 => (ill (what ++ " at type i64"), None)
  | Decl n =>
      match find_type ts n with
      | Some d => (None, Some d)
      | None => (ill (what ++ ": undeclared type " ++ show_ident n), None)
      end
  end.

Definition is_perm_names (a b : list ident) : bool :=
  Nat.eqb (List.length a) (List.length b)
  && forallb (fun x => existsb (ident_eqb x) b) a && forallb (fun x => existsb (ident_eqb x) a) b.

Fixpoint list_eq_names (a b : list ident) {struct a} : bool :=
  match a, b with
  | [], [] => true
  | x :: a', y :: b' => ident_eqb x y && list_eq_names a' b'
  | _, _ => false
  end.

Section Check.
Variable ts : list tydecl.
Variable ds : list def.

Fixpoint check_stmt (G : ctx) (s : stmt) {struct s} : cerr :=
  (* clauses against the xtors of the type, positionally *)
  let check_clauses := fix go (what : string) (G : ctx) (cls : list (ident * ctx * stmt)) (xs : list xtorsig) {struct cls} : cerr :=
    match cls, xs with
    | [], [] => None
    | (x, c, b) :: cr, sg :: xr =>
        ensure (ident_eqb x (xname sg)) (what ++ ": clause " ++ show_ident x ++ " where " ++ show_ident (xname sg) ++ " is expected")
        ?> params_ok (what ++ " clause " ++ show_ident x) c (xargs sg)
        ?> fresh_all G c
        ?> check_stmt (app c G) b
        ?> go what G cr xr
    | _, _ => ill (what ++ ": number of clauses differs from the number of xtors")
    end in
  let clauses_of := fun (what : string) (G : ctx) (cls : list (ident * ctx * stmt)) (d : tydecl) =>
    if negb (list_eq_names (map (fun c => fst (fst c)) cls) (map xname (txtors d)))
       && is_perm_names (map (fun c => fst (fst c)) cls) (map xname (txtors d))
    then Some ("clause-order", what ++ ": clauses not in declaration order of " ++ show_ident (tname d))
    else check_clauses what G cls (txtors d) in
  match s with
  | Substitute re next =>
      (fix go (l : list (binding * ident)) : cerr :=
         match l with
         | [] => None
         | (nb, old) :: r => bound G old (bchi nb) (bty nb) ?> go r
         end) re
      ?> fresh_all [] (map fst re)
      ?> check_stmt (map fst re) next
  | Call l args =>
      match find (fun d => ident_eqb (dname d) l) ds with
      | None => ill ("call of undefined label " ++ show_ident l)
      | Some d => args_ok ("call " ++ show_ident l) G args (dctx d)
      end
  | Let v t tag args next =>
      match type_of ts ("let " ++ show_ident v) t with
      | (Some e, _) => Some e
      | (None, None) => ill "let"
      | (None, Some d) =>
          match find_xtor d tag with
          | None => ill ("let " ++ show_ident v ++ ": " ++ show_ident tag ++ " is no xtor of " ++ show_ident (tname d))
          | Some sg =>
              args_ok ("let " ++ show_ident v) G args (xargs sg)
              ?> fresh_for G v ?> check_stmt (mkb v Prd t :: G) next
          end
      end
  | Switch v t cls =>
      match type_of ts ("switch " ++ show_ident v) t with
      | (Some e, _) => Some e
      | (None, None) => ill "switch"
      | (None, Some d) => bound G v Prd t ?> clauses_of ("switch " ++ show_ident v) G cls d
      end
  | Create v t env cls next =>
      match type_of ts ("create " ++ show_ident v) t with
      | (Some e, _) => Some e
      | (None, None) => ill "create"
      | (None, Some d) =>
          match env with
          | None => clauses_of ("create " ++ show_ident v) G cls d
          | Some ce =>
              (fix go (l : ctx) : cerr :=
                 match l with [] => None | b :: r => bound G (bvar b) (bchi b) (bty b) ?> go r end) ce
              ?> clauses_of ("create " ++ show_ident v) ce cls d
          end
          ?> fresh_for G v ?> check_stmt (mkb v Cns t :: G) next
      end
  | Invoke v tag t args =>
      match type_of ts ("invoke " ++ show_ident v) t with
      | (Some e, _) => Some e
      | (None, None) => ill "invoke"
      | (None, Some d) =>
          match find_xtor d tag with
          | None => ill ("invoke " ++ show_ident v ++ ": " ++ show_ident tag ++ " is no xtor of " ++ show_ident (tname d))
          | Some sg => bound G v Cns t ?> args_ok ("invoke " ++ show_ident v) G args (xargs sg)
          end
      end
  | Literal _ v next => fresh_for G v ?> check_stmt (mkb v Ext I64 :: G) next
  | Op a _ b v next =>
      bound G a Ext I64 ?> bound G b Ext I64 ?> fresh_for G v ?> check_stmt (mkb v Ext I64 :: G) next
  | PrintI64 _ v next => bound G v Ext I64 ?> check_stmt G next
  | IfC _ a b t e =>
      bound G a Ext I64 ?> match b with Some b' => bound G b' Ext I64 | None => None end
      ?> check_stmt G t ?> check_stmt G e
  | Exit v => bound G v Ext I64
  end.
End Check.

(* ---------- free variables of a statement, by numeric id (as axcut FreeVars does), in order of
   first occurrence, without the variables bound inside ---------- *)
Definition mem_n (x : N) (l : list N) : bool := existsb (N.eqb x) l.
Definition add_n (x : N) (l : list N) : list N := if mem_n x l then l else app l [x].
Definition union_n (a b : list N) : list N := fold_left (fun acc x => add_n x acc) b a.
Definition minus_n (a b : list N) : list N := filter (fun x => negb (mem_n x b)) a.
Fixpoint fv_stmt (s : stmt) : list N :=
  let fv_cls := fix go (cls : list (ident * ctx * stmt)) : list N :=
    match cls with
    | [] => []
    | (_, c, b) :: r => union_n (minus_n (fv_stmt b) (ids c)) (go r)
    end in
  match s with
  | Substitute re next => map (fun p => idn (snd p)) re
  | Call _ args => fold_left (fun acc x => add_n x acc) (ids args) []
  | Let v _ _ args next => union_n (fold_left (fun acc x => add_n x acc) (ids args) []) (minus_n (fv_stmt next) [idn v])
  | Switch v _ cls => union_n [idn v] (fv_cls cls)
  | Create v _ _ cls next => union_n (fv_cls cls) (minus_n (fv_stmt next) [idn v])
  | Invoke v _ _ args => fold_left (fun acc x => add_n x acc) (ids args) [idn v]
  | Literal _ v next => minus_n (fv_stmt next) [idn v]
  | Op a _ b v next => union_n (add_n (idn b) [idn a]) (minus_n (fv_stmt next) [idn v])
  | PrintI64 _ v next => union_n [idn v] (fv_stmt next)
  | IfC _ a b t e =>
      union_n (match b with Some b' => add_n (idn b') [idn a] | None => [idn a] end) (union_n (fv_stmt t) (fv_stmt e))
  | Exit v => [idn v]
  end.

(* ---------- program level ---------- *)
Fixpoint nodup_by {X} (eqb : X -> X -> bool) (l : list X) : bool :=
  match l with
  | [] => true
  | x :: r => negb (existsb (eqb x) r) && nodup_by eqb r
  end.
Definition ty_declared (ts : list tydecl) (t : ty) : bool :=
  match t with I64 => true | Decl n => match find_type ts n with Some _ => true | None => false end end.

(* a definition produced by `lift`: its name is lift_<def>_ with a non-zero id *)
Definition is_lifted_name (x : ident) : bool := prefix "lift_" (fst x) && negb (N.eqb (snd x) 0).

Definition check_def (ts : list tydecl) (ds : list def) (d : def) : cerr :=
  let what := "def " ++ show_ident (dname d) in
  let scoped :=
    ensure (nodup_by N.eqb (ids (dctx d))) (what ++ ": duplicate parameter id")
    ?> ensure (forallb (fun b => ty_declared ts (bty b)) (dctx d)) (what ++ ": parameter of undeclared type")
    ?> check_stmt ts ds (dctx d) (dbody d) in
  if is_lifted_name (dname d) then
    if negb (nodup_by N.eqb (ids (dctx d))) then Some ("lift-wrong-free-vars", what ++ ": duplicate parameter")
    else match minus_n (fv_stmt (dbody d)) (ids (dctx d)) with
         | x :: _ => Some ("lift-wrong-free-vars", what ++ ": free variable with id " ++ n_to_string x ++ " is not a parameter")
         | [] => scoped
         end
  else scoped.

Definition check_types (ts : list tydecl) : cerr :=
  ensure (nodup_by ident_eqb (map tname ts)) "duplicate type name"
  ?> ensure (forallb (fun t => nodup_by ident_eqb (map xname (txtors t))) ts) "duplicate xtor name within a type".
(* information only: the front end creates the instances of polymorphic types lazily, so the
   signature of an xtor that is never used can mention an instance that was never declared *)
Definition undeclared_field_types (ts : list tydecl) : bool :=
  negb (forallb (fun t => forallb (fun x => forallb (fun b => ty_declared ts (bty b)) (xargs x)) (txtors t)) ts).

Definition check_prog (p : prog) : cerr :=
  check_types (ptypes p)
  ?> ensure (nodup_by ident_eqb (map dname (pdefs p))) "duplicate definition name"
  ?> (fix go (l : list def) : cerr :=
         match l with [] => None | d :: r => check_def (ptypes p) (pdefs p) d ?> go r end) (pdefs p).

Definition wt_ax (p : prog) : bool := match check_prog p with None => true | Some _ => false end.

(* parameters of lifted definitions that the body does not use (information only: `lift` takes the
   free variables of the CORE statement; reducing a known cut inside it can drop some) *)
Definition lifted_unused_params (p : prog) : nat :=
  fold_left (fun acc d =>
    if is_lifted_name (dname d)
    then acc + List.length (minus_n (ids (dctx d)) (fv_stmt (dbody d)))
    else acc) (pdefs p) 0.
