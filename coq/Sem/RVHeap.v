(* Running RISC-V code on Sem/RVSem.v with the heap invariant of Sem/HeapCheck.v evaluated at every
   statement boundary.  Port of Sem/X86Heap.v (ISA-independent part: Sem/HeapLock.v).  Boundaries are
   the implementation's own statement comments, kept as pseudo-labels "#s…" by
   Model/RVIo.codes_of_s: the REAL instruction list runs in lockstep with the AxCut linear machine,
   whose trace (Sem/AxTrace.trace_linear) supplies the kinds of the environment and thereby the roots.
   Allocator state of this back end (config.rs): HEAP = X2 heads the reuse list, FREE = X3 the
   deferred list; blocks of 64 bytes, header at offset 0, pointer slots at 16/32/48; a variable at
   environment position i owns registers X(RESERVED + 2i), X(RESERVED + 2i + 1); there are no spill
   slots (14 variables at most, the code generator panics beyond).  A root is the FIRST register of a
   position of kind p.  Entry and exit conventions: as Sem/RVSem.run_rv.
   `events` = number of executions of `acquire_block` (its first instruction MV r, HEAP is emitted
   only there) while the reuse list has a second element (header of the block at HEAP non-zero). *)
From Coq Require Import List ZArith NArith String Ascii Bool FMapPositive.
From SCC Require Import Base.Sexp Lang.AxSyn Sem.AxSem Model.Backend Model.RV Sem.RVSem Sem.HeapCheck Sem.HeapLock.
Import ListNotations.
Open Scope string_scope.
Open Scope Z_scope.

Definition hword (s : rstate) (a : Z) : Z := match PM.find (key a) (RVSem.heap s) with Some z => z | None => 0 end.

Definition view_of (s : rstate) : option heap_view :=
  match rget s HEAP, rget s FREE with
  | Some h, Some f =>
      Some {| rd := hword s; base := HEAP_BASE; limit := HEAP_BASE + HEAP_SIZE; hv_heap := h; hv_free := f; hv_high := hw s |}
  | _, _ => None
  end.

Fixpoint roots_of (s : rstate) (kinds : string) (pos : N) : option (list Z) :=
  match kinds with
  | EmptyString => Some []
  | String c r =>
      match roots_of s r (pos + 1)%N with
      | None => None
      | Some rest =>
          if Ascii.eqb c "p"%char then
            match temporary_from_position (2 * pos)%N with
            | Ok reg => match rget s reg with Some v => Some (v :: rest) | None => None end
            | Err _ => None
            end
          else Some rest
      end
  end.

Definition look (s : rstate) (kinds : string) : option (heap_view * option (list Z)) :=
  match view_of s with
  | Some v => Some (v, roots_of s kinds 0)
  | None => None
  end.

Definition hard_path (c : rcode) (s : rstate) : bool :=
  match c with
  | MV _ r => N.eqb r HEAP && match rget s HEAP with Some h => negb (hword s h =? 0) | None => false end
  | _ => false
  end.

Definition hstats0 : hstats := hstats_with HEAP_BASE [].

(* an indirect jump lands on the marks directly in front of its target instruction: see Sem/A64Heap.v *)
Fixpoint back_over_marks (fuel : nat) (im : image) (i : positive) : positive :=
  match fuel with
  | O => i
  | S f =>
      match i with
      | xH => i
      | _ => match PM.find (Pos.pred i) (code im) with
             | Some (LAB l) => if is_mark_label l then back_over_marks f im (Pos.pred i) else i
             | _ => i
             end
      end
  end.

Inductive hchunk := HFinished (o : obs) (s : rstate) (st : hstats) | HMore (pc : positive) (s : rstate) (st : hstats).
Fixpoint hrun_chunk (fuel : nat) (im : image) (stop : positive) (pc : positive) (s : rstate) (st : hstats) : hchunk :=
  match fuel with
  | O => HMore pc s st
  | S f =>
      if Pos.eqb pc stop then HFinished ([], final_check s) s st else
      match PM.find pc (code im), PM.find pc (addr_of im) with
      | Some c, Some a =>
          let st' := match c with
                     | LAB l => at_label (look s) l st
                     | _ => if hard_path c s then add_event st else st
                     end in
          match step im a c s with
          | Next s' => hrun_chunk f im stop (Pos.succ pc) s' st'
          | Jump s' i => hrun_chunk f im stop (match c with JALR _ _ _ => back_over_marks 4 im i | _ => i end) s' st'
          | Fault w s' => HFinished ([], OStuck w) s' st'
          | Undefd w s' => HFinished ([], OUndef w) s' st'
          end
      | _, _ => HFinished ([], OStuck "fell-off-the-end") s st
      end
  end.
Fixpoint hrun (outer inner : nat) (im : image) (stop : positive) (pc : positive) (s : rstate) (st : hstats) : obs * rstate * hstats :=
  match outer with
  | O => (([], OOutOfFuel), s, st)
  | S o =>
      match hrun_chunk inner im stop pc s st with
      | HFinished ob s' st' => (ob, s', st')
      | HMore pc' s' st' => hrun o inner im stop pc' s' st'
      end
  end.

Definition real_duplicates (im : image) : list string :=
  filter (fun l => negb (is_mark_label l)) (duplicate_labels im).

(* `cs` = the instruction list with statement marks (the first element is still the label of the
   first definition: a mark, if any, comes after it ... or before; both are accepted) *)
Fixpoint first_real (cs : list rcode) : option rcode :=
  match cs with
  | [] => None
  | LAB l :: r => if is_mark_label l then first_real r else Some (LAB l)
  | c :: _ => Some c
  end.
Definition run_rv_heap_tr (outer inner : nat) (cs : list rcode) (args : list Z) (tr : list string) : obs * rstate * hstats :=
  let im := mk_image (cs ++ [LAB "cleanup"]) in
  let stuck (w : string) : obs * rstate * hstats := ((([] : prints), OStuck w), init_state args, hstats0) in
  match first_real cs with
  | Some (LAB _) =>
      match real_duplicates im with
      | l :: _ => stuck ("duplicate-label " ++ l)
      | [] =>
          match find_label (labels im) "cleanup" with
          | None => stuck "no-cleanup"
          | Some stop =>
              if Nat.ltb 14 (List.length args) then stuck "too-many-arguments"
              else hrun outer inner im stop 1%positive (init_state args) (hstats_with HEAP_BASE tr)
          end
      end
  | _ => stuck "no-entry-label"
  end.
