(* ======================================================================================
   Sem/README  -  executable reference semantics of AxCut (both the non-linear "named"
   reading and the ordered, linear "positional" reading the back ends assume).

   Every decision taken here, in one place:

   VALUES      value = VInt z | VObj ty tag fields | VClo ty clauses env.
               `ty` is the *name* of the declared type (the ident under `Decl`); a `let`/`create`
               at type `i64` is Stuck.  A closure environment is an `env` (see below) in both
               machines, so one value type serves both.  Types are carried, never checked at run
               time (typing is the job of the static checkers); tags are compared.
   ENV         env = list (ident * value) in BOTH machines.  Lookup is by the *numeric id only*
               (`idn`), first match, because every Rust pass (free_vars, filter_by_set, freshen,
               subst_sim, the back end's `variable_temporary` / `transpose`) keys on `var.id`.
               Named machine: an association list; new bindings are put in FRONT (so they shadow).
               Linear machine: an ordered list parallel to the typing context that
               `code_statement` threads; new bindings are appended at the END; every statement
               consumes/expects a fixed shape (below).
   INTEGERS    Z with 64-bit two's complement wrap after + - *:
               wrap z = ((z + 2^63) mod 2^64) - 2^63.   Literals are taken as they are (i64 in Rust).
               Div/Rem truncate (Z.quot / Z.rem).  Divisor 0 -> outcome OUndef "div0";
               min_int / -1 and min_int % -1 -> OUndef "overflow" (both trap on x86 idiv, both are
               `None` for Rust's checked_div / checked_rem).  Comparisons are signed; an `ifc`
               whose second operand is None compares with 0.
   OBSERVATION obs = (prints, outcome); prints = list (newline?, value) in program order;
               outcome = OExit z | OUndef why | OStuck why | OOutOfFuel.
               (Constructors carry the prefix O because `Exit` is a statement constructor.)
   FUEL        one unit per executed statement (a `substitute` counts as a statement).
               `fuel = 0` -> OOutOfFuel with the prints made so far.
   ENTRY       the FIRST definition of the program (`defs[0]`); its parameters are bound
               positionally to the integer arguments; a different number of arguments is
               OStuck "entry-args"; an empty program is OStuck "no-defs".
   LABELS      `call l` finds the first definition whose name equals `l` (name and id,
               `ident_eqb`); xtor tags are compared with `ident_eqb` too (the Rust
               `xtor_position` compares whole `Identifier`s).
   CLAUSES     `switch`/`invoke` select the FIRST clause whose xtor equals the tag; no such
               clause is OStuck "no-clause".  (The back ends index a jump table by declaration
               position; "clauses in declaration order" is part of the typing discipline.)

   NAMED MACHINE (`run_named`), for programs before linearization
     substitute re; s   env' = [ (new_i, env(old_i)) ]_i  -- simultaneous, and env' is EXACTLY
                        the rearranged list (nothing else survives), as in the typing rule
     call l(args)       values of `args` looked up by id, bound positionally to l's parameters;
                        the callee starts in exactly that environment
     let v = tag(args)  VObj built from the values of `args`; (v, obj) put in front
     switch v {..}      env(v) must be VObj; clause context bound positionally to the fields,
                        put in front of env; a field/parameter count mismatch is Stuck
     create v = {..}    VClo capturing the WHOLE current env; (v, clo) in front
     invoke v tag(args) env(v) must be VClo; the clause for `tag`; its context bound to the
                        values of `args`, put in front of the captured env
     literal/op         result put in front
     print, ifc         env unchanged;   exit v: env(v) must be VInt

   LINEAR MACHINE (`run_linear`), for linearized programs.  It is the list discipline of
   lang/axcut2backend/src/statements/*.rs (`code_statement` threading `context`):
     substitute re; s   env' = [ (new_i, env(old_i)) ]_i, old_i found by id in the current list
                        (like `transpose`); env' is exactly that list, in that order
     call l             (args are empty after linearization and ignored) the environment must be
                        EXACTLY the callee's parameters: same length; the values are re-labelled
                        with the callee's parameter names
     let v = tag(args)  the LAST |args| entries are the fields (`split_off(len - |args|)`), they
                        are removed and (v, obj) is appended.  Strictness: the ids of those
                        entries must be the ids of `args`, else OStuck "let-shape"
     switch v {..}      the LAST entry is the scrutinee (`context.bindings.pop()`): its id must be
                        v's id and its value a VObj; it is removed and the clause context, bound
                        to the fields, is appended
     create v = (env){} the LAST |env| entries are captured (ids must agree with the annotation
                        `env`, which must be present), removed, and (v, clo) is appended; the
                        closure stores them under the annotation's names (as `code_methods` does)
     invoke v tag       the LAST entry is the closure (id = v's id, a VClo); ALL entries before it
                        are the arguments: their number must equal the length of the clause's
                        context; the body runs in  clause.context ++ closure_environment
     literal/op         operands looked up by id; result appended as new last entry
     print, ifc         env unchanged;   exit v: env(v) must be VInt
   A wrong shape / length / kind anywhere is OStuck with a reason.

   Both machines are deterministic total functions; `obs_eqb` compares observations, `s_obs`
   prints them as S-expressions.
   ====================================================================================== *)
From Coq Require Import List ZArith NArith String Bool.
From SCC Require Import Base.Sexp Lang.AxSyn.
Import ListNotations.
Open Scope string_scope.
Open Scope list_scope.

(* ---------- values, environments, observations ---------- *)
Inductive value :=
| VInt (z : Z)
| VObj (ty : ident) (tag : ident) (fields : list value)
| VClo (ty : ident) (cls : list clause) (cenv : list (ident * value)).

Definition env := list (ident * value).

Inductive outcome :=
| OExit (z : Z)
| OUndef (why : string)
| OStuck (why : string)
| OOutOfFuel.

Definition prints := list (bool * Z).
Definition obs := (prints * outcome)%type.

(* ---------- 64-bit arithmetic ---------- *)
Definition two63 : Z := 9223372036854775808.
Definition two64 : Z := 18446744073709551616.
Definition min_int : Z := - two63.
Definition max_int : Z := two63 - 1.
Definition wrap (z : Z) : Z := ((z + two63) mod two64) - two63.

Inductive opres := OpVal (z : Z) | OpUndef (why : string).
Definition eval_op (o : binop) (a b : Z) : opres :=
  match o with
  | Sum => OpVal (wrap (a + b))
  | Sub => OpVal (wrap (a - b))
  | Prod => OpVal (wrap (a * b))
  | Div => if Z.eqb b 0 then OpUndef "div0"
           else if Z.eqb a min_int && Z.eqb b (-1) then OpUndef "overflow"
           else OpVal (Z.quot a b)
  | Rem => if Z.eqb b 0 then OpUndef "div0"
           else if Z.eqb a min_int && Z.eqb b (-1) then OpUndef "overflow"
           else OpVal (Z.rem a b)
  end.
Definition eval_cmp (s : ifsort) (a b : Z) : bool :=
  match s with
  | Eq => Z.eqb a b | Ne => negb (Z.eqb a b)
  | Lt => Z.ltb a b | Le => Z.leb a b
  | Gt => Z.ltb b a | Ge => Z.leb b a
  end.

(* ---------- environment helpers (lookup by numeric id) ---------- *)
Fixpoint lookup (e : env) (x : N) : option value :=
  match e with
  | [] => None
  | (y, v) :: r => if N.eqb (idn y) x then Some v else lookup r x
  end.
Definition lookup_id (e : env) (x : ident) : option value := lookup e (idn x).
Definition lookup_int (e : env) (x : ident) : option Z :=
  match lookup_id e x with Some (VInt z) => Some z | _ => None end.
Fixpoint lookups (e : env) (xs : list ident) : option (list value) :=
  match xs with
  | [] => Some []
  | x :: r => match lookup_id e x, lookups e r with
              | Some v, Some vs => Some (v :: vs)
              | _, _ => None end
  end.
(* positional binding; None when the lengths differ *)
Fixpoint bind (xs : list ident) (vs : list value) : option env :=
  match xs, vs with
  | [], [] => Some []
  | x :: xr, v :: vr => match bind xr vr with Some e => Some ((x, v) :: e) | None => None end
  | _, _ => None
  end.
(* split off the last n entries; None when the list is shorter *)
Definition split_last {X} (n : nat) (l : list X) : option (list X * list X) :=
  if Nat.leb n (List.length l)
  then Some (firstn (List.length l - n) l, skipn (List.length l - n) l)
  else None.
Fixpoint ids_eqb (a b : list N) : bool :=
  match a, b with
  | [], [] => true
  | x :: a', y :: b' => N.eqb x y && ids_eqb a' b'
  | _, _ => false
  end.
Definition env_ids (e : env) : list N := map (fun p => idn (fst p)) e.

Definition find_def (p : prog) (l : ident) : option def :=
  find (fun d => ident_eqb (dname d) l) (pdefs p).
Definition find_clause (cls : list clause) (tag : ident) : option clause :=
  find (fun c => ident_eqb (cl_xtor c) tag) cls.
Definition ty_name (t : ty) : option ident := match t with Decl n => Some n | I64 => None end.

Definition finish (out : prints) (o : outcome) : obs := (rev_append out [], o).

(* ---------- the named machine ---------- *)
Fixpoint exec_named (fuel : nat) (p : prog) (e : env) (s : stmt) (out : prints) {struct fuel} : obs :=
  match fuel with
  | O => finish out OOutOfFuel
  | S fuel =>
    match s with
    | Substitute re next =>
        match lookups e (map snd re) with
        | Some vs =>
            match bind (map (fun r => bvar (fst r)) re) vs with
            | Some e' => exec_named fuel p e' next out
            | None => finish out (OStuck "substitute")
            end
        | None => finish out (OStuck "substitute-unbound")
        end
    | Call l args =>
        match find_def p l with
        | None => finish out (OStuck "call-label")
        | Some d =>
            match lookups e (vars args) with
            | None => finish out (OStuck "call-unbound")
            | Some vs =>
                match bind (vars (dctx d)) vs with
                | Some e' => exec_named fuel p e' (dbody d) out
                | None => finish out (OStuck "call-arity")
                end
            end
        end
    | Let v t tag args next =>
        match ty_name t, lookups e (vars args) with
        | Some tn, Some vs => exec_named fuel p ((v, VObj tn tag vs) :: e) next out
        | None, _ => finish out (OStuck "let-type")
        | _, None => finish out (OStuck "let-unbound")
        end
    | Switch v t cls =>
        match lookup_id e v with
        | Some (VObj _ tag fs) =>
            match find_clause cls tag with
            | None => finish out (OStuck "no-clause")
            | Some c =>
                match bind (vars (cl_ctx c)) fs with
                | Some e1 => exec_named fuel p (e1 ++ e) (cl_body c) out
                | None => finish out (OStuck "switch-arity")
                end
            end
        | Some _ => finish out (OStuck "switch-kind")
        | None => finish out (OStuck "switch-unbound")
        end
    | Create v t _ cls next =>
        match ty_name t with
        | Some tn => exec_named fuel p ((v, VClo tn cls e) :: e) next out
        | None => finish out (OStuck "create-type")
        end
    | Invoke v tag t args =>
        match lookup_id e v with
        | Some (VClo _ cls ce) =>
            match find_clause cls tag with
            | None => finish out (OStuck "no-clause")
            | Some c =>
                match lookups e (vars args) with
                | None => finish out (OStuck "invoke-unbound")
                | Some vs =>
                    match bind (vars (cl_ctx c)) vs with
                    | Some e1 => exec_named fuel p (e1 ++ ce) (cl_body c) out
                    | None => finish out (OStuck "invoke-arity")
                    end
                end
            end
        | Some _ => finish out (OStuck "invoke-kind")
        | None => finish out (OStuck "invoke-unbound")
        end
    | Literal n v next => exec_named fuel p ((v, VInt n) :: e) next out
    | Op a o b v next =>
        match lookup_int e a, lookup_int e b with
        | Some x, Some y =>
            match eval_op o x y with
            | OpVal z => exec_named fuel p ((v, VInt z) :: e) next out
            | OpUndef why => finish out (OUndef why)
            end
        | _, _ => finish out (OStuck "op-operand")
        end
    | PrintI64 nl v next =>
        match lookup_int e v with
        | Some z => exec_named fuel p e next ((nl, z) :: out)
        | None => finish out (OStuck "print-operand")
        end
    | IfC so a b t el =>
        match lookup_int e a, match b with Some b => lookup_int e b | None => Some 0%Z end with
        | Some x, Some y => exec_named fuel p e (if eval_cmp so x y then t else el) out
        | _, _ => finish out (OStuck "ifc-operand")
        end
    | Exit v =>
        match lookup_int e v with
        | Some z => finish out (OExit z)
        | None => finish out (OStuck "exit-operand")
        end
    end
  end.

(* ---------- the linear (positional) machine ---------- *)
Fixpoint exec_linear (fuel : nat) (p : prog) (e : env) (s : stmt) (out : prints) {struct fuel} : obs :=
  match fuel with
  | O => finish out OOutOfFuel
  | S fuel =>
    match s with
    | Substitute re next =>
        match lookups e (map snd re) with
        | Some vs =>
            match bind (map (fun r => bvar (fst r)) re) vs with
            | Some e' => exec_linear fuel p e' next out
            | None => finish out (OStuck "substitute")
            end
        | None => finish out (OStuck "substitute-unbound")
        end
    | Call l _ =>
        match find_def p l with
        | None => finish out (OStuck "call-label")
        | Some d =>
            match bind (vars (dctx d)) (map snd e) with
            | Some e' => exec_linear fuel p e' (dbody d) out
            | None => finish out (OStuck "call-shape")
            end
        end
    | Let v t tag args next =>
        match ty_name t, split_last (List.length args) e with
        | Some tn, Some (e0, fs) =>
            if ids_eqb (env_ids fs) (ids args)
            then exec_linear fuel p (e0 ++ [(v, VObj tn tag (map snd fs))]) next out
            else finish out (OStuck "let-shape")
        | None, _ => finish out (OStuck "let-type")
        | _, None => finish out (OStuck "let-shape")
        end
    | Switch v t cls =>
        match split_last 1 e with
        | Some (e0, [(x, VObj _ tag fs)]) =>
            if N.eqb (idn x) (idn v) then
              match find_clause cls tag with
              | None => finish out (OStuck "no-clause")
              | Some c =>
                  match bind (vars (cl_ctx c)) fs with
                  | Some e1 => exec_linear fuel p (e0 ++ e1) (cl_body c) out
                  | None => finish out (OStuck "switch-arity")
                  end
              end
            else finish out (OStuck "switch-shape")
        | Some (_, [(_, _)]) => finish out (OStuck "switch-kind")
        | _ => finish out (OStuck "switch-shape")
        end
    | Create v t (Some cenv) cls next =>
        match ty_name t, split_last (List.length cenv) e with
        | Some tn, Some (e0, cap) =>
            if ids_eqb (env_ids cap) (ids cenv)
            then match bind (vars cenv) (map snd cap) with
                 | Some ce => exec_linear fuel p (e0 ++ [(v, VClo tn cls ce)]) next out
                 | None => finish out (OStuck "create-shape")
                 end
            else finish out (OStuck "create-shape")
        | None, _ => finish out (OStuck "create-type")
        | _, None => finish out (OStuck "create-shape")
        end
    | Create _ _ None _ _ => finish out (OStuck "create-no-env")
    | Invoke v tag t _ =>
        match split_last 1 e with
        | Some (e0, [(x, VClo _ cls ce)]) =>
            if N.eqb (idn x) (idn v) then
              match find_clause cls tag with
              | None => finish out (OStuck "no-clause")
              | Some c =>
                  match bind (vars (cl_ctx c)) (map snd e0) with
                  | Some e1 => exec_linear fuel p (e1 ++ ce) (cl_body c) out
                  | None => finish out (OStuck "invoke-shape")
                  end
              end
            else finish out (OStuck "invoke-shape")
        | Some (_, [(_, _)]) => finish out (OStuck "invoke-kind")
        | _ => finish out (OStuck "invoke-shape")
        end
    | Literal n v next => exec_linear fuel p (e ++ [(v, VInt n)]) next out
    | Op a o b v next =>
        match lookup_int e a, lookup_int e b with
        | Some x, Some y =>
            match eval_op o x y with
            | OpVal z => exec_linear fuel p (e ++ [(v, VInt z)]) next out
            | OpUndef why => finish out (OUndef why)
            end
        | _, _ => finish out (OStuck "op-operand")
        end
    | PrintI64 nl v next =>
        match lookup_int e v with
        | Some z => exec_linear fuel p e next ((nl, z) :: out)
        | None => finish out (OStuck "print-operand")
        end
    | IfC so a b t el =>
        match lookup_int e a, match b with Some b => lookup_int e b | None => Some 0%Z end with
        | Some x, Some y => exec_linear fuel p e (if eval_cmp so x y then t else el) out
        | _, _ => finish out (OStuck "ifc-operand")
        end
    | Exit v =>
        match lookup_int e v with
        | Some z => finish out (OExit z)
        | None => finish out (OStuck "exit-operand")
        end
    end
  end.

(* ---------- whole programs ---------- *)
Definition entry_env (d : def) (args : list Z) : option env :=
  bind (vars (dctx d)) (map VInt args).

Definition run_named (fuel : nat) (p : prog) (args : list Z) : obs :=
  match pdefs p with
  | [] => ([], OStuck "no-defs")
  | d :: _ =>
      match entry_env d args with
      | Some e => exec_named fuel p e (dbody d) []
      | None => ([], OStuck "entry-args")
      end
  end.

Definition run_linear (fuel : nat) (p : prog) (args : list Z) : obs :=
  match pdefs p with
  | [] => ([], OStuck "no-defs")
  | d :: _ =>
      match entry_env d args with
      | Some e => exec_linear fuel p e (dbody d) []
      | None => ([], OStuck "entry-args")
      end
  end.

(* ---------- comparing and printing observations ---------- *)
Definition outcome_eqb (a b : outcome) : bool :=
  match a, b with
  | OExit x, OExit y => Z.eqb x y
  | OUndef x, OUndef y => String.eqb x y
  | OStuck x, OStuck y => String.eqb x y
  | OOutOfFuel, OOutOfFuel => true
  | _, _ => false
  end.
Fixpoint prints_eqb (a b : prints) : bool :=
  match a, b with
  | [], [] => true
  | (n1, z1) :: a', (n2, z2) :: b' => Bool.eqb n1 n2 && Z.eqb z1 z2 && prints_eqb a' b'
  | _, _ => false
  end.
Definition obs_eqb (a b : obs) : bool := prints_eqb (fst a) (fst b) && outcome_eqb (snd a) (snd b).

Definition s_outcome (o : outcome) : sexp :=
  match o with
  | OExit z => L [A "exit"; sZ z]
  | OUndef w => L [A "undef"; Q w]
  | OStuck w => L [A "stuck"; Q w]
  | OOutOfFuel => A "out-of-fuel"
  end.
Definition s_obs (o : obs) : sexp :=
  L [A "obs"; sL (fun p : bool * Z => L [A (if fst p then "println" else "print"); sZ (snd p)]) (fst o);
     s_outcome (snd o)].

(* an observation is "defined" when the run ended normally *)
Definition defined (o : obs) : bool := match snd o with OExit _ => true | _ => false end.
