(* ISA-independent part of the heap-invariant runners (Sem/A64Heap.v, Sem/RVHeap.v; Sem/X86Heap.v is
   the original, kept as it is): the statistics threaded through a run of emitted code, the
   evaluation of Sem/HeapCheck.inv_check at one statement boundary, the consumption of the AxCut
   machine's trace (Sem/AxTrace.trace_linear) by the implementation's own statement marks, and the
   judgement of a finished run (C09: no violation at any boundary; C10: footprint bound).

   Marks are pseudo-labels (size 0, no effect) in the instruction list:
     "#s<comment>"  a statement comment of the implementation (kept by the readers g_*codes_s): the
                    roots are those of the NEXT pending kind string of the machine trace;
     "#m<kinds>"    a mark of the marked model of the code generator: the kind string is in the label.
   A kind string has one character per environment position: e = integer, p = object or closure;
   the roots are the first temporaries of the positions marked p. *)
From Coq Require Import List ZArith NArith String Ascii Bool.
From SCC Require Import Base.Sexp Sem.HeapCheck.
Import ListNotations.
Open Scope string_scope.
Open Scope Z_scope.

Inductive mark := MKinds (kinds : string) | MStmt | MNone.
Definition mark_of (l : string) : mark :=
  match l with
  | String "#"%char (String "m"%char kinds) => MKinds kinds
  | String "#"%char (String "s"%char _) => MStmt
  | _ => MNone
  end.
Definition is_mark_label (l : string) : bool := match mark_of l with MNone => false | _ => true end.

(* pending: kind strings still to be consumed by "#s" marks; underrun: a "#s" mark was reached with
   nothing pending (the two runs are not in lockstep);
   events: ISA-specific count of executions of the allocator's hard path (see the ISA runner);
   deferred: the deferred list was non-empty at some boundary *)
Record hstats := { boundaries : N; peak_in_use : Z; last_frontier : Z; first_violation : option string;
                   pending : list string; underrun : bool; events : N; deferred : bool }.
Definition hstats_with (base : Z) (tr : list string) : hstats :=
  {| boundaries := 0; peak_in_use := 0; last_frontier := base; first_violation := None; pending := tr; underrun := false;
     events := 0; deferred := false |}.

Definition upd_stats (st : hstats) (peak fr : Z) (viol : option string) (def : bool) : hstats :=
  {| boundaries := boundaries st + 1; peak_in_use := peak; last_frontier := fr; first_violation := viol;
     pending := pending st; underrun := underrun st; events := events st; deferred := deferred st || def |}.
Definition add_event (st : hstats) : hstats :=
  {| boundaries := boundaries st; peak_in_use := peak_in_use st; last_frontier := last_frontier st;
     first_violation := first_violation st; pending := pending st; underrun := underrun st;
     events := events st + 1; deferred := deferred st |}.

(* `seen`: what the ISA runner read from the machine state: None = stack pointer / allocator
   registers undefined; Some (v, None) = a live object variable holds an undefined value *)
Definition check_boundary (seen : option (heap_view * option (list Z))) (st : hstats) : hstats :=
  match first_violation st with
  | Some _ => st
  | None =>
      let fail why := upd_stats st (peak_in_use st) (last_frontier st) (Some why) false in
      match seen with
      | None => fail "heap or free register undefined at a statement boundary"
      | Some (_, None) => fail "a live object variable holds an undefined pointer"
      | Some (v, Some roots) =>
          match inv_check v roots with
          | inr why => fail why
          | inl rep =>
              upd_stats st (Z.max (peak_in_use st) (Z.of_nat (List.length (hr_counted rep) + List.length (hr_fl rep))))
                        (hr_frontier rep) None (match hr_fl rep with [] => false | _ => true end)
          end
      end
  end.

Definition at_smark (look : string -> option (heap_view * option (list Z))) (st : hstats) : hstats :=
  match pending st with
  | [] => {| boundaries := boundaries st; peak_in_use := peak_in_use st; last_frontier := last_frontier st;
             first_violation := first_violation st; pending := []; underrun := true;
             events := events st; deferred := deferred st |}
  | k :: rest =>
      let st1 := check_boundary (look k) st in
      {| boundaries := boundaries st1; peak_in_use := peak_in_use st1; last_frontier := last_frontier st1;
         first_violation := first_violation st1; pending := rest; underrun := underrun st1;
         events := events st1; deferred := deferred st1 |}
  end.

Definition at_label (look : string -> option (heap_view * option (list Z))) (l : string) (st : hstats) : hstats :=
  match mark_of l with
  | MKinds kinds => check_boundary (look kinds) st
  | MStmt => at_smark look st
  | MNone => st
  end.

(* every "#s" mark found its kind string and none is left *)
Definition in_lockstep (st : hstats) : bool :=
  negb (underrun st) && match pending st with [] => true | _ => false end.

(* the implementation's own statement markers: every statement's code starts with a COMMENT that is
   neither a '#'-sub-comment nor one of the fixed routine/branch comments (the generic code
   generator axcut2backend emits them, so the rule is the same for every back end; the fixed ones
   are those of the three into_routine.rs and of ifc.rs) *)
Definition fixed_comments : list string :=
  ["else branch"; "then branch"; "asmsyntax=nasm"; "setup"; "save registers"; "reserve space for register spills";
   "initialize heap pointer"; "initialize free pointer"; "move parameters into place"; "actual code";
   "free space for register spills"; "restore registers"].
Definition is_statement_comment (c : string) : bool :=
  match c with
  | String "#"%char _ => false
  | _ => negb (existsb (String.eqb c) fixed_comments)
  end.

(* judgement of one finished run (as Model/RunX86.heap_one): a violation text, or
   (boundaries, peak blocks in use, blocks below the final frontier) *)
Definition judge (base : Z) (args : list Z) (st : hstats) : option string * N * Z * Z :=
  let blocks := (last_frontier st - base) / 64 in
  match first_violation st with
  | Some why => (Some ("class=heap-invariant args=" ++ show (sL sZ args) ++ " at boundary " ++ n_to_string (boundaries st) ++ ": " ++ why), 0%N, 0, 0)
  | None =>
      if blocks >? peak_in_use st + 1
      then (Some ("class=heap-footprint args=" ++ show (sL sZ args) ++ " frontier " ++ z_to_string blocks ++ " blocks, peak in use " ++ z_to_string (peak_in_use st)), 0%N, 0, 0)
      else (None, boundaries st, peak_in_use st, blocks)
  end.
