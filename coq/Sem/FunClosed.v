(* Closure of a checked Fun program under the types it mentions (C15, instance table).
   Later stages find the declaration of a type by its PRINTED name (fun2core::compile_ty,
   core_lang / axcut lookup_type_declaration: "Type .. not found" panics otherwise).  Executable
   predicates, used by the theorems of Props/C15.v and evaluated by `modelrun check` on the REAL
   checker's output:
     [defs_closed q]   every type of a definition signature, every let-annotation, every type
                       annotation of a variable / call / constructor / destructor / `new` term and
                       every type argument of a destructor call or case is i64 or has a declaration in q;
     [fcprog_closed q] the same for ALL types occurring in q (also the fields of the instance
                       declarations, the binder contexts of clauses and the annotations that are merely
                       passed down) - this stronger closure is FALSE of the real checker. *)
From Coq Require Import List String Bool.
From SCC Require Import Lang.FunSyn Model.Check.
Import ListNotations.
Local Open Scope list_scope.

Definition decl_names (q : fcprog) : list string := map fdaname (fcpdata q) ++ map fcoaname (fcpcodata q).
Definition smem (x : string) (l : list string) : bool := existsb (String.eqb x) l.
(* i64, or a type whose printed name is the name of a declaration *)
Definition ty_declared (names : list string) (t : fty) : bool :=
  match t with FI64 => true | FDecl _ _ => smem (print_ty t) names end.
Definition oty_declared (names : list string) (o : option fty) : bool :=
  match o with None => true | Some t => ty_declared names t end.
Definition ctx_declared (names : list string) (c : fctx) : bool := forallb (fun b => ty_declared names (fbty b)) c.

Fixpoint term_closed (names : list string) (t : fterm) : bool :=
  let ml := fix go (l : list fterm) : bool := match l with [] => true | a :: r => term_closed names a && go r end in
  let mc := fix go (l : list fclause) : bool :=
    match l with [] => true | FClause _ _ _ _ b :: r => term_closed names b && go r end in
  match t with
  | FVar _ a _ => oty_declared names a
  | FLit _ => true
  | FOp a _ b => term_closed names a && term_closed names b
  | FIfC _ a b th el _ => term_closed names a && match b with Some b' => term_closed names b' | None => true end
                          && term_closed names th && term_closed names el
  | FPrint _ a n _ => term_closed names a && term_closed names n
  | FLet _ vty a b _ => ty_declared names vty && term_closed names a && term_closed names b
  | FCall _ args r => oty_declared names r && ml args
  | FCtor _ args r => oty_declared names r && ml args
  | FDtor s _ targs args r => oty_declared names r && forallb (ty_declared names) targs && term_closed names s && ml args
  | FCase s targs cls _ => forallb (ty_declared names) targs && term_closed names s && mc cls
  | FNew cls r => oty_declared names r && mc cls
  | FLabel _ t _ | FGoto _ t _ | FExit t _ | FParen t => term_closed names t
  end.
Definition def_closed (names : list string) (d : fdef) : bool :=
  ctx_declared names (fdctx d) && ty_declared names (fdret d) && term_closed names (fdbody d).
Definition defs_closed (q : fcprog) : bool := forallb (def_closed (decl_names q)) (fcpdefs q).

(* ---------- the full closure ---------- *)
Fixpoint term_closed_full (names : list string) (t : fterm) : bool :=
  let ml := fix go (l : list fterm) : bool := match l with [] => true | a :: r => term_closed_full names a && go r end in
  let mc := fix go (l : list fclause) : bool :=
    match l with [] => true | FClause _ _ _ cx b :: r => ctx_declared names cx && term_closed_full names b && go r end in
  match t with
  | FVar _ a _ => oty_declared names a
  | FLit _ => true
  | FOp a _ b => term_closed_full names a && term_closed_full names b
  | FIfC _ a b th el r => oty_declared names r && term_closed_full names a
                          && match b with Some b' => term_closed_full names b' | None => true end
                          && term_closed_full names th && term_closed_full names el
  | FPrint _ a n r => oty_declared names r && term_closed_full names a && term_closed_full names n
  | FLet _ vty a b r => oty_declared names r && ty_declared names vty && term_closed_full names a && term_closed_full names b
  | FCall _ args r => oty_declared names r && ml args
  | FCtor _ args r => oty_declared names r && ml args
  | FDtor s _ targs args r => oty_declared names r && forallb (ty_declared names) targs && term_closed_full names s && ml args
  | FCase s targs cls r => oty_declared names r && forallb (ty_declared names) targs && term_closed_full names s && mc cls
  | FNew cls r => oty_declared names r && mc cls
  | FLabel _ t r | FGoto _ t r | FExit t r => oty_declared names r && term_closed_full names t
  | FParen t => term_closed_full names t
  end.
Definition fcprog_closed (q : fcprog) : bool :=
  let names := decl_names q in
  forallb (fun d => forallb (fun c => ctx_declared names (fctargs c)) (fdactors d)) (fcpdata q)
  && forallb (fun d => forallb (fun c => ctx_declared names (fdtargs c) && ty_declared names (fdtcont c)) (fcodtors d)) (fcpcodata q)
  && forallb (fun d => ctx_declared names (fdctx d) && ty_declared names (fdret d) && term_closed_full names (fdbody d)) (fcpdefs q).
