(* Assembler-level well-formedness of an x86-64 instruction list (C14): every label defined exactly
   once, every referenced label defined, every immediate / displacement encodable in the form it is
   printed in, only existing instruction forms, external symbols declared.  Executable. *)
From Coq Require Import List ZArith NArith String Ascii Bool.
From SCC Require Import Base.Sexp Model.X86 Sem.X86Sem.
Import ListNotations.
Open Scope string_scope.
Open Scope list_scope.

Definition reg_ok (r : N) : bool := N.ltb r 16.
(* encodability of one instruction (Intel SDM forms): imm32 sign-extended everywhere except
   `mov r64, imm64`; disp32; `imul` has no memory destination *)
Definition instr_wf (c : xcode) : bool :=
  match c with
  | ADD a b | SUB a b | IMUL a b | MOV a b | CMP a b => reg_ok a && reg_ok b
  | ADDRM a b i | SUBRM a b i | IMULRM a b i | MOVS a b i | MOVL a b i | CMPRM a b i => reg_ok a && reg_ok b && fits32 i
  | ADDMR a i b | SUBMR a i b | CMPMR a i b => reg_ok a && reg_ok b && fits32 i
  | IMULMR _ _ _ => false
  | ADDI a i | SUBI a i | CMPI a i => reg_ok a && fits32 i
  | ADDIM a i j | MOVIM a i j | CMPIM a i j => reg_ok a && fits32 i && fits32 j
  | MOVI a i => reg_ok a && (Z.leb (-9223372036854775808) i && Z.leb i 9223372036854775807)%Z
  | IDIV a | JMP a | PUSH a | POP a => reg_ok a
  | IDIVM a i => reg_ok a && fits32 i
  | LEAL a _ => reg_ok a
  | _ => true
  end.

Definition referenced (c : xcode) : list string :=
  match c with
  | JMPL l | JMPLN l | LEAL _ l | JEL l | JNEL l | JLL l | JLEL l | JGL l | JGEL l => [l]
  | _ => []
  end.
Definition is_hash_label (l : string) : bool := match l with String "#"%char _ => true | _ => false end.
Definition defined_labels (cs : list xcode) : list string :=
  flat_map (fun c => match c with LAB l => if is_hash_label l then [] else [l] | _ => [] end) cs.
Definition externs (cs : list xcode) : list string :=
  flat_map (fun c => match c with EXTERN l => [l] | _ => [] end) cs.
Definition calls (cs : list xcode) : list string :=
  flat_map (fun c => match c with CALL l => [l] | _ => [] end) cs.
Definition mem_str (x : string) (l : list string) : bool := existsb (String.eqb x) l.
Fixpoint first_dup (l : list string) : option string :=
  match l with [] => None | x :: r => if mem_str x r then Some x else first_dup r end.

Definition asm_wf (cs : list xcode) : option string :=   (* None = well-formed; Some why otherwise *)
  let labs := defined_labels cs in
  match first_dup labs with
  | Some l => Some ("label defined twice: " ++ l)%string
  | None =>
      match find (fun l => negb (mem_str l labs)) (flat_map referenced cs) with
      | Some l => Some ("undefined label: " ++ l)%string
      | None =>
          match find (fun l => negb (mem_str l (externs cs)) && negb (mem_str l labs)) (calls cs) with
          | Some l => Some ("call to undeclared symbol: " ++ l)%string
          | None =>
              match find (fun l => mem_str l labs) (externs cs) with
              | Some l => Some ("label collides with an external symbol: " ++ l)%string
              | None =>
                  match find (fun c => negb (instr_wf c)) cs with
                  | Some c => Some "operand not encodable or no such instruction form"
                  | None => None
                  end
              end
          end
      end
  end.
